"""Lean side of a check: regenerate (Tie A) -> lake build the property's obligations -> audit axioms."""
from __future__ import annotations

import fcntl
import json
import os
import re
import subprocess
import time

VERIF = os.path.dirname(os.path.dirname(os.path.abspath(__file__)))
LEAN = os.path.join(VERIF, "lean")
WORK = os.path.join(VERIF, ".work")
ALLOWED_AXIOMS = {"propext", "Classical.choice", "Quot.sound"}
FORBIDDEN = re.compile(r"\b(sorry|admit|native_decide|bv_decide|implemented_by|unsafe)\b|^\s*axiom\s|maxHeartbeats\s+0\b")


def _strip_comments(text: str) -> str:
    # remove /- ... -/ (nested not handled beyond one level; fine for our sources) and -- comments and string literals
    out = []
    i = 0
    depth = 0
    n = len(text)
    while i < n:
        if text.startswith("/-", i):
            depth += 1
            i += 2
            continue
        if depth > 0 and text.startswith("-/", i):
            depth -= 1
            i += 2
            continue
        if depth > 0:
            if text[i] == "\n":
                out.append("\n")
            i += 1
            continue
        if text.startswith("--", i):
            while i < n and text[i] != "\n":
                i += 1
            continue
        if text[i] == '"':
            j = i + 1
            while j < n and text[j] != '"':
                j += 2 if text[j] == "\\" else 1
            out.append('""')
            i = j + 1
            continue
        out.append(text[i])
        i += 1
    return "".join(out)


def forbidden_tokens():
    hits = []
    for root, _dirs, files in os.walk(LEAN):
        if ".lake" in root:
            continue
        for f in files:
            if not f.endswith(".lean"):
                continue
            p = os.path.join(root, f)
            txt = _strip_comments(open(p, encoding="utf-8").read())
            for ln, line in enumerate(txt.split("\n"), 1):
                if FORBIDDEN.search(line):
                    hits.append(f"{os.path.relpath(p, LEAN)}:{ln}: {line.strip()[:120]}")
    return hits


def theorems_of(prop_id: str):
    p = os.path.join(LEAN, "XeofsProofs", "Props", f"{prop_id}.lean")
    if not os.path.exists(p):
        return []
    txt = _strip_comments(open(p, encoding="utf-8").read())
    ns = []
    names = []
    for line in txt.split("\n"):
        m = re.match(r"\s*namespace\s+(\S+)", line)
        if m:
            ns.append(m.group(1))
            continue
        m = re.match(r"\s*end\s+(\S+)", line)
        if m and ns and ns[-1] == m.group(1):
            ns.pop()
            continue
        m = re.match(r"\s*(?:protected\s+|private\s+)?theorem\s+(\S+)", line)
        if m:
            names.append(".".join(ns + [m.group(1)]))
    return names


class LeanResult:
    def __init__(self):
        self.obligations = []  # [{"name","kind","status","axioms"?}]
        self.broken = []  # [{"kind","name","output"}]
        self.translator = {}
        self.wall = 0.0
        self.checker_cmd = ""

    @property
    def ok(self):
        return not self.broken

    def n_obl(self):
        return len(self.obligations)

    def n_ok(self):
        return sum(1 for o in self.obligations if o["status"] == "ok")


def run_lean(prop_id: str, thorough: bool = False, log=print) -> LeanResult:
    from translator import translate  # /verif on sys.path

    t0 = time.time()
    res = LeanResult()
    os.makedirs(WORK, exist_ok=True)
    lock = open(os.path.join(WORK, "lake.lock"), "w")
    fcntl.flock(lock, fcntl.LOCK_EX)
    try:
        # ---- Tie A: regenerate from /repo's current working tree
        tr = translate.generate_all(log=log)
        res.translator = tr
        for tgt in tr["targets"]:
            if prop_id in tgt["props"]:
                st = "ok" if tgt["status"] == "ok" else "broken"
                res.obligations.append({"name": "translate:" + tgt["name"], "kind": "translator", "status": st})
                if st != "ok":
                    res.broken.append({"kind": "translator", "name": tgt["name"], "output": tgt.get("error", "")})
        # ---- build the property's obligations
        mod = f"XeofsProofs.Props.{prop_id}"
        cmd = ["lake", "build", mod]
        res.checker_cmd = "cd lean && lake build " + mod + " && lake env lean <audit file with #print axioms>"
        pr = subprocess.run(cmd, cwd=LEAN, capture_output=True, text=True)
        build_out = (pr.stdout + pr.stderr)[-20000:]
        names = theorems_of(prop_id)
        if pr.returncode != 0:
            bad_files = sorted(set(re.findall(r"error: (\S+?\.lean):\d+", build_out)))
            for nme in names:
                res.obligations.append({"name": nme, "kind": "theorem", "status": "unchecked"})
            res.broken.append({"kind": "build", "name": ", ".join(bad_files) or mod, "output": build_out[-6000:]})
        else:
            # ---- audit axioms of every property theorem
            adir = os.path.join(WORK, "audit")
            os.makedirs(adir, exist_ok=True)
            af = os.path.join(adir, f"{prop_id}.lean")
            with open(af, "w") as f:
                f.write(f"import {mod}\n")
                for nme in names:
                    f.write(f"#print axioms {nme}\n")
            pa = subprocess.run(["lake", "env", "lean", af], cwd=LEAN, capture_output=True, text=True)
            out = pa.stdout + pa.stderr
            ax = parse_axioms(out)
            for nme in names:
                a = ax.get(nme)
                if a is None:
                    res.obligations.append({"name": nme, "kind": "theorem", "status": "missing"})
                    res.broken.append({"kind": "theorem", "name": nme, "output": out[-3000:]})
                elif set(a) - ALLOWED_AXIOMS:
                    res.obligations.append({"name": nme, "kind": "theorem", "status": "bad-axioms", "axioms": a})
                    res.broken.append({"kind": "axioms", "name": nme, "output": "depends on " + ", ".join(a)})
                else:
                    res.obligations.append({"name": nme, "kind": "theorem", "status": "ok", "axioms": a})
        hits = forbidden_tokens()
        if hits:
            res.broken.append({"kind": "forbidden-token", "name": "lean sources", "output": "\n".join(hits[:20])})
        if thorough and pr.returncode == 0:
            pc = subprocess.run(["lake", "env", "leanchecker", mod], cwd=LEAN, capture_output=True, text=True)
            ok = pc.returncode == 0
            res.obligations.append({"name": "leanchecker:" + mod, "kind": "recheck", "status": "ok" if ok else "broken"})
            if not ok:
                res.broken.append({"kind": "leanchecker", "name": mod, "output": (pc.stdout + pc.stderr)[-3000:]})
    finally:
        fcntl.flock(lock, fcntl.LOCK_UN)
        lock.close()
    res.wall = time.time() - t0
    return res


def parse_axioms(out: str):
    """parse `#print axioms` output: "'name' depends on axioms: [a, b]" / "'name' does not depend on any axioms" """
    res = {}
    for m in re.finditer(r"'([^']+)' depends on axioms: \[([^\]]*)\]", out, re.S):
        res[m.group(1)] = [x.strip() for x in m.group(2).replace("\n", " ").split(",") if x.strip()]
    for m in re.finditer(r"'([^']+)' does not depend on any axioms", out):
        res[m.group(1)] = []
    return res


def ensure_driver(log=print):
    """build the Mathlib-free executable driver; returns its path or None (fallback: lean --run)"""
    os.makedirs(WORK, exist_ok=True)
    lock = open(os.path.join(WORK, "lake.lock"), "w")
    fcntl.flock(lock, fcntl.LOCK_EX)
    try:
        pr = subprocess.run(["lake", "build", "xeofs_driver"], cwd=LEAN, capture_output=True, text=True)
        exe = os.path.join(LEAN, ".lake", "build", "bin", "xeofs_driver")
        if pr.returncode == 0 and os.path.exists(exe):
            return exe, ""
        return None, (pr.stdout + pr.stderr)[-4000:]
    finally:
        fcntl.flock(lock, fcntl.LOCK_UN)
        lock.close()
