"""Builder shared by the EOF-family properties: an input (time, lat, lon) DataArray with a prescribed singular spectrum,
preprocessing flags, weights, and an INDEPENDENT numpy reference of the preprocessed 2-D matrix."""
from __future__ import annotations

from harness.common import np, xr, xe, matrix_with_spectrum, SPECTRA

FLOAT32_EPS = float(np.finfo(np.float32).eps)


def gen_eof_case(rng, classes=("EOF", "ComplexEOF", "HilbertEOF", "ExtendedEOF"), solvers=("full",), small=False):
    cls = str(rng.choice(list(classes)))
    shape_kind = str(rng.choice(["tall", "tall", "wide", "single", "square", "verytall"]))
    if shape_kind == "verytall":
        ny, nx = int(rng.integers(1, 3)), int(rng.integers(2, 5))
        n = ny * nx * int(rng.integers(10, 15))
    elif shape_kind == "tall":
        ny, nx = int(rng.integers(1, 4)), int(rng.integers(1, 5))
        n = ny * nx + int(rng.integers(2, 25))
    elif shape_kind == "wide":
        ny, nx = int(rng.integers(2, 5)), int(rng.integers(2, 6))
        n = int(rng.integers(3, max(4, ny * nx)))
    elif shape_kind == "single":
        ny, nx, n = 1, 1, int(rng.integers(3, 30))
    else:
        ny, nx = int(rng.integers(1, 4)), int(rng.integers(1, 4))
        n = ny * nx
        if n < 3:
            n = 3
    if cls in ("HilbertEOF", "ExtendedEOF"):
        n = max(n, 12)
    if small and shape_kind != "verytall":
        n = min(n, 12)
    case = {
        "cls": cls,
        "n": n, "ny": ny, "nx": nx,
        "spec": str(rng.choice(SPECTRA)),
        "scale": float(10.0 ** int(rng.integers(-8, 9))),
        "cplx": bool(cls == "ComplexEOF" and rng.random() < 0.8),
        "mseed": int(rng.integers(0, 2**31)),
        "center": bool(rng.random() < 0.75),
        "standardize": bool(rng.random() < 0.35),
        "use_coslat": bool(rng.random() < 0.4),
        "weights": bool(rng.random() < 0.4),
        "solver": str(rng.choice(list(solvers))),
        "offset": bool(rng.random() < 0.5),
    }
    if case["solver"] != "full" and cls in ("ComplexEOF", "HilbertEOF"):
        # complex input with a non-exact setting goes to scipy's iterative svds(lobpcg), whose convergence test is absolute: far from
        # unit scale it stops early. That is the accuracy of the selected method (C01 claims no more), not a property of xeofs.
        case["scale"] = 1.0
    if cls == "HilbertEOF":
        case["padding"] = str(rng.choice(["exp", "none"]))
    if cls == "ExtendedEOF":
        case["tau"] = int(rng.integers(1, 3))
        case["embedding"] = int(rng.integers(2, 4))
        case["n"] = max(case["n"], case["tau"] * case["embedding"] + 6)
        case["n_pca_modes"] = None
    p = ny * nx
    # the matrix that is decomposed has n (or fewer, ExtendedEOF) rows; with centring its rank drops by one
    n_eff = case["n"] - ((case["embedding"] - 1) * case["tau"] if cls == "ExtendedEOF" else 0)
    p_eff = p * (case.get("embedding", 1))
    rmax = min(n_eff, p_eff)
    case["k"] = int(rng.integers(1, rmax + 1))
    return case


def build_input(case, sname="time"):
    rng = np.random.default_rng(case["mseed"])
    n, ny, nx = case["n"], case["ny"], case["nx"]
    D, s = matrix_with_spectrum(rng, n, ny * nx, case["spec"], case["scale"], cplx=case.get("cplx", False))
    if case.get("offset"):
        D = D + rng.normal(size=(1, ny * nx)) * case["scale"] * 3.0
    lat = np.linspace(-75.0, 80.0, ny) if ny > 1 else np.array([35.0])
    X = xr.DataArray(D.reshape(n, ny, nx), dims=(sname, "lat", "lon"),
                     coords={sname: np.arange(n), "lat": lat, "lon": np.arange(nx) * 10.0}, name="t2m")
    W = None
    if case.get("weights"):
        W = xr.DataArray(rng.uniform(0.2, 3.0, size=(ny, nx)), dims=("lat", "lon"), coords={"lat": lat, "lon": X.lon.values})
    return X, W


def ref_preprocess(X, W, case):
    """independent numpy version of Scaler: ((x - mean) / clip(std_ddof0)) * sqrt(clip(cos(lat),0,1)) * w, column order (lat, lon)"""
    V = np.asarray(X.values)
    n = V.shape[0]
    M = V.reshape(n, -1).astype(complex if np.iscomplexobj(V) else float)
    if case["center"]:
        M = M - M.mean(axis=0)
    if case["standardize"]:
        Vc = V.reshape(n, -1)
        sd = np.sqrt(np.mean(np.abs(Vc - Vc.mean(axis=0)) ** 2, axis=0))
        M = M / np.clip(sd, FLOAT32_EPS, None)
    if case["use_coslat"]:
        w = np.sqrt(np.clip(np.cos(np.deg2rad(X.lat.values)), 0, 1))
        M = M * np.repeat(w, X.sizes["lon"])
    if W is not None:
        M = M * np.asarray(W.values).reshape(-1)
    return M


def make_model(case, n_modes=None, **extra):
    cls = case["cls"]
    kw = dict(n_modes=case["k"] if n_modes is None else n_modes, center=case["center"], standardize=case["standardize"],
              use_coslat=case["use_coslat"], solver=case.get("solver", "full"), random_state=7)
    kw.update(extra)
    if cls == "HilbertEOF":
        kw["padding"] = case.get("padding", "exp")
    if cls == "ExtendedEOF":
        kw.update(tau=case["tau"], embedding=case["embedding"], n_pca_modes=case.get("n_pca_modes"))
    return getattr(xe.single, cls)(**kw)


def min_std_ok(X, case):
    """the standardisation floor (1.2e-7) must not be active (C08 quantifier)"""
    if not case["standardize"]:
        return True
    V = np.asarray(X.values).reshape(X.shape[0], -1)
    sd = np.sqrt(np.mean(np.abs(V - V.mean(axis=0)) ** 2, axis=0))
    return bool((sd > 1e-5).all())
