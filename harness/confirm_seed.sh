#!/bin/bash
# usage: confirm_seed.sh <id> <diff> <demo.py> <meta.json>  -> copies into /verif/seeded/<id>/ when confirmed
# confirms in a scratch worktree of /repo's HEAD: demo exits 1 with the change, 0 without; full test-suite passes with the change
id=$1; diff=$2; demo=$3; meta=$4
wt=/tmp/confirm_$id
git -C /repo worktree add --detach $wt HEAD -q || exit 3
res=fail
( cd $wt && git apply "$diff" ) || { echo "$id APPLY-FAILED"; git -C /repo worktree remove --force $wt; exit 1; }
/venv/bin/python "$demo" $wt > /tmp/confirm_$id.with.log 2>&1; with=$?
( cd $wt && PYTHONPATH=$wt /venv/bin/python -m pytest -q -p no:cacheprovider -n 6 -x > /tmp/confirm_$id.tests.log 2>&1 ); tests=$?
( cd $wt && git checkout -- . )
/venv/bin/python "$demo" $wt > /tmp/confirm_$id.without.log 2>&1; without=$?
summary=$(tail -1 /tmp/confirm_$id.tests.log)
echo "$id demo_with=$with demo_without=$without tests_exit=$tests [$summary]"
if [ $with -eq 1 ] && [ $without -eq 0 ] && [ $tests -eq 0 ]; then
  mkdir -p /verif/seeded/$id
  cp "$diff" /verif/seeded/$id/patch.diff; cp "$demo" /verif/seeded/$id/demo.py
  python3 - "$id" "$meta" "$summary" <<'PY'
import json,sys
id,meta,summary=sys.argv[1:4]
m=json.load(open(meta))
m.update({"id":id,"confirmed":{"demo_exit_with_change":1,"demo_exit_without_change":0,"test_suite_with_change":summary,
  "commands":["git apply patch.diff (scratch worktree of /repo HEAD)","/venv/bin/python demo.py <worktree>","PYTHONPATH=<worktree> /venv/bin/python -m pytest -q -p no:cacheprovider -n 6 -x"]}})
json.dump(m,open(f"/verif/seeded/{id}/meta.json","w"),indent=1)
PY
fi
git -C /repo worktree remove --force $wt
rm -f /tmp/confirm_$id.*.log
