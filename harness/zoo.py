"""Uniform access to every xeofs model class (public API only)."""
from __future__ import annotations

from harness.common import np, xr, xe

SINGLE = ["EOF", "ComplexEOF", "HilbertEOF", "ExtendedEOF", "SparsePCA", "POP", "OPA"]
SINGLE_ROT = {"EOFRotator": "EOF", "ComplexEOFRotator": "ComplexEOF", "HilbertEOFRotator": "HilbertEOF"}
CROSS = ["CPCCA", "MCA", "CCA", "RDA", "ComplexCPCCA", "ComplexMCA", "ComplexCCA", "ComplexRDA",
         "HilbertCPCCA", "HilbertMCA", "HilbertCCA", "HilbertRDA"]
CROSS_ROT = {"CPCCARotator": "CPCCA", "MCARotator": "MCA", "ComplexCPCCARotator": "ComplexCPCCA", "ComplexMCARotator": "ComplexMCA",
             "HilbertCPCCARotator": "HilbertCPCCA", "HilbertMCARotator": "HilbertMCA"}
MULTI = ["multi.CCA"]
ALL = SINGLE + list(SINGLE_ROT) + CROSS + list(CROSS_ROT) + MULTI

NO_TRANSFORM = {"HilbertEOF", "ExtendedEOF", "OPA", "HilbertEOFRotator", "HilbertCPCCA", "HilbertMCA", "HilbertCCA", "HilbertRDA",
                "HilbertCPCCARotator", "HilbertMCARotator"}
NO_INVERSE = {"OPA", "multi.CCA"}
TRANSFORM_CAPABLE = [c for c in ALL if c not in NO_TRANSFORM]


def kind(name):
    if name in SINGLE:
        return "single"
    if name in SINGLE_ROT:
        return "rot_single"
    if name in CROSS:
        return "cross"
    if name in CROSS_ROT:
        return "rot_cross"
    if name in MULTI:
        return "multi"
    raise KeyError(name)


def is_cross(name):
    return kind(name) in ("cross", "rot_cross")


def takes_two(name):
    return kind(name) in ("cross", "rot_cross", "multi")


def base_of(name):
    return SINGLE_ROT.get(name) or CROSS_ROT.get(name) or name


def needs_complex_input(name):
    return base_of(name).startswith("Complex")


def default_cfg(name, n_modes=3, **over):
    b = base_of(name)
    cfg = {"n_modes": n_modes}
    if b == "ExtendedEOF":
        cfg.update(tau=1, embedding=2)
    if b == "POP":
        cfg.update(n_pca_modes=4)
    if b == "OPA":
        cfg.update(tau_max=3, n_pca_modes=4)
    if b in CROSS:
        cfg.update(use_pca=False)
        if b.endswith("CPCCA"):
            cfg.update(alpha=0.5)
    if b == "multi.CCA":
        cfg.update(pca=False)
    cfg.update(over)
    return cfg


def construct(name, cfg):
    b = base_of(name)
    if b == "multi.CCA":
        return xe.multi.CCA(**cfg)
    mod = xe.single if b in SINGLE else xe.cross
    return getattr(mod, b)(**cfg)


def fit(name, data, dim, cfg=None, rot_cfg=None, weights=None, model=None):
    """returns (model_to_query, base_model)"""
    cfg = default_cfg(name) if cfg is None else cfg
    k = kind(name)
    base = construct(name, cfg) if model is None else model
    if k in ("single", "rot_single"):
        if weights is not None:
            base.fit(data, dim, weights=weights)
        else:
            base.fit(data, dim)
    elif k in ("cross", "rot_cross"):
        X, Y = data
        if weights is not None:
            base.fit(X, Y, dim, weights_X=weights[0], weights_Y=weights[1])
        else:
            base.fit(X, Y, dim)
    else:
        base.fit(list(data), dim)
    if k == "rot_single":
        rc = {"n_modes": cfg["n_modes"], "power": 1}
        rc.update(rot_cfg or {})
        rot = getattr(xe.single, name)(**rc)
        rot.fit(base)
        return rot, base
    if k == "rot_cross":
        rc = {"n_modes": cfg["n_modes"], "power": 1}
        rc.update(rot_cfg or {})
        rot = getattr(xe.cross, name)(**rc)
        rot.fit(base)
        return rot, base
    return base, base


def transform(name, model, data, **kw):
    k = kind(name)
    if k in ("single", "rot_single"):
        return [model.transform(data, **kw)]
    if k in ("cross", "rot_cross"):
        X, Y = data
        r = model.transform(X, Y, **kw)
        return list(r)
    return list(model.transform(list(data)))


def scores(name, model, **kw):
    r = model.scores(**kw)
    return list(r) if isinstance(r, (list, tuple)) else [r]


def components(name, model, **kw):
    r = model.components(**kw)
    if isinstance(r, tuple):
        return list(r)
    if isinstance(r, list) and kind(name) == "multi":
        return r
    return [r]


def inverse_transform(name, model, sc, **kw):
    k = kind(name)
    if k in ("single", "rot_single"):
        return [model.inverse_transform(sc[0], **kw)]
    r = model.inverse_transform(*sc, **kw)
    return list(r) if isinstance(r, (list, tuple)) else [r]


def answers(name, model, data=None, with_transform=True):
    """all cheap public answers as {label: DataArray | Dataset | list}"""
    out = {}
    for i, s in enumerate(scores(name, model)):
        out[f"scores{i}"] = s
    for i, c in enumerate(components(name, model)):
        out[f"components{i}"] = c
    b = base_of(name)
    if hasattr(model, "explained_variance") and kind(name) in ("single", "rot_single") and b not in ("POP", "OPA"):
        out["explained_variance"] = model.explained_variance()
    if b == "POP":
        out["eigenvalues"] = model.eigenvalues()
    if b == "OPA":
        out["decorrelation_time"] = model.decorrelation_time()
    if is_cross(name):
        if "singular_values" in model.data:
            out["singular_values"] = model.data["singular_values"]
        out["squared_covariance"] = model.data["squared_covariance"]
        out["scf"] = model.squared_covariance_fraction()
    if data is not None and with_transform and name not in NO_TRANSFORM:
        for i, t in enumerate(transform(name, model, data)):
            out[f"transform{i}"] = t
    return out


def make_data(name, seed=0, n=30, ny=3, nx=4, sname="time", s0=0, cplx=None):
    from harness.common import mk

    cplx = needs_complex_input(name) if cplx is None else cplx
    X = mk(n=n, ny=ny, nx=nx, seed=seed, tname=sname, t0=s0, cplx=cplx)
    if takes_two(name):
        Y = mk(n=n, ny=ny, nx=max(2, nx - 1), seed=seed + 1000, tname=sname, t0=s0, cplx=cplx)
        Y = Y + 0.5 * X.isel(lon=slice(0, max(2, nx - 1))).values
        Y.name = "slp"
        return (X, Y)
    return X
