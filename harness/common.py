"""Shared harness utilities: environment hygiene, data factories, comparators, finding records.

Everything random derives from numpy Generators seeded from the case dict, so a case replays exactly.
"""
from __future__ import annotations

import os
import sys
import types
import warnings
import itertools
import hashlib
import json

os.environ.setdefault("OMP_NUM_THREADS", "1")
os.environ.setdefault("OPENBLAS_NUM_THREADS", "1")
os.environ.setdefault("MKL_NUM_THREADS", "1")
warnings.filterwarnings("ignore")

# --- statsmodels stub (optional dependency absent from the sandbox; no function of it is on any exercised path)
if "statsmodels" not in sys.modules:
    try:
        import statsmodels  # noqa: F401
    except Exception:
        _sm = types.ModuleType("statsmodels")
        _st = types.ModuleType("statsmodels.stats")
        _mt = types.ModuleType("statsmodels.stats.multitest")

        def _stub(*a, **k):
            raise RuntimeError("statsmodels stub")

        _mt.multipletests = _stub
        _sm.stats = _st
        _st.multitest = _mt
        sys.modules.update({"statsmodels": _sm, "statsmodels.stats": _st, "statsmodels.stats.multitest": _mt})

REPO = os.environ.get("XEOFS_REPO", "/repo")
if REPO not in sys.path:
    sys.path.insert(0, REPO)

import numpy as np  # noqa: E402
import pandas as pd  # noqa: E402
import xarray as xr  # noqa: E402

import xeofs as xe  # noqa: E402

assert os.path.realpath(os.path.dirname(os.path.dirname(xe.__file__))) == os.path.realpath(REPO), (
    "xeofs imported from %s, expected %s" % (xe.__file__, REPO)
)

VERIF = os.path.dirname(os.path.dirname(os.path.abspath(__file__)))
WORK = os.path.join(VERIF, ".work")


class Finding:
    """One observed failure. (site, case_class) is what known_findings.json matches on."""

    def __init__(self, kind, site, case_class, detail, observed=None, expected=None):
        self.kind = kind  # "oracle" (property fails on the implementation) | "corr" (model vs implementation differ)
        self.site = site
        self.case_class = case_class
        self.detail = detail
        self.observed = observed
        self.expected = expected

    def to_json(self):
        return {
            "kind": self.kind,
            "site": self.site,
            "case_class": self.case_class,
            "detail": self.detail,
            "observed": _js(self.observed),
            "expected": _js(self.expected),
        }

    def __repr__(self):
        return f"Finding({self.kind}, {self.site}, {self.case_class}, {self.detail})"


def _js(o):
    if o is None or isinstance(o, (str, int, float, bool)):
        return o
    if isinstance(o, (np.floating, np.integer)):
        return o.item()
    if isinstance(o, np.ndarray):
        return np.asarray(o).tolist() if o.size <= 64 else {"shape": list(o.shape), "head": np.asarray(o).ravel()[:16].tolist()}
    if isinstance(o, (list, tuple)):
        return [_js(x) for x in o]
    if isinstance(o, dict):
        return {str(k): _js(v) for k, v in o.items()}
    return repr(o)[:300]


def case_hash(case) -> str:
    return hashlib.sha256(json.dumps(case, sort_keys=True, default=str).encode()).hexdigest()[:12]


# ----------------------------------------------------------------------------- matrices with prescribed spectra
SPECTRA = ["geom", "lin", "flat", "cluster", "rankdef", "zero_block", "random", "logwide"]


def spectrum(kind, r, rng):
    if kind == "geom":
        return 2.0 ** -np.arange(r)
    if kind == "lin":
        return np.linspace(1.0, 0.1, r)
    if kind == "flat":
        return np.ones(r)
    if kind == "cluster":
        return np.repeat(np.linspace(1, 0.2, (r + 1) // 2), 2)[:r]
    if kind == "rankdef":
        return np.where(np.arange(r) < max(1, r // 2), np.linspace(1, 0.5, r), 0.0)
    if kind == "zero_block":
        s = np.linspace(1.0, 0.3, r)
        s[max(1, (2 * r) // 3):] = 0.0
        return s
    if kind == "random":
        return np.sort(rng.uniform(0.05, 1.0, r))[::-1]
    if kind == "logwide":
        return np.logspace(0, -7, r) if r > 1 else np.ones(1)  # seven decades: resolves a solver that squares the matrix
    raise ValueError(kind)


def orth(rng, m, k, cplx=False):
    A = rng.normal(size=(m, k)) + (1j * rng.normal(size=(m, k)) if cplx else 0)
    Q, _ = np.linalg.qr(A)
    return Q


def matrix_with_spectrum(rng, n, p, kind="geom", scale=1.0, cplx=False):
    """n x p matrix  U diag(s) V^H  with a prescribed singular spectrum (before any centring)."""
    r = min(n, p)
    U = orth(rng, n, r, cplx)
    V = orth(rng, p, r, cplx)
    s = spectrum(kind, r, rng)
    return (U * s) @ V.conj().T * scale, s * scale


def da2d(D, sname="time", fname="x", s0=0, fcoord=None):
    n, p = D.shape
    return xr.DataArray(
        D,
        dims=(sname, fname),
        coords={sname: np.arange(s0, s0 + n), fname: (np.arange(p) if fcoord is None else fcoord)},
        name="v",
    )


def da3d(D, ny, nx, sname="time", lat=None, s0=0):
    """reshape an n x (ny*nx) matrix to (time, lat, lon) with real-looking latitudes"""
    n, p = D.shape
    assert p == ny * nx
    lat = np.linspace(-60, 60, ny) if lat is None else lat
    return xr.DataArray(
        D.reshape(n, ny, nx),
        dims=(sname, "lat", "lon"),
        coords={sname: np.arange(s0, s0 + n), "lat": lat, "lon": np.arange(nx) * 10.0},
        name="t2m",
    )


def mk(n=30, ny=3, nx=4, seed=0, tname="time", t0=0, cplx=False):
    r = np.random.default_rng(seed)
    v = r.normal(size=(n, ny, nx))
    if cplx:
        v = v + 1j * r.normal(size=(n, ny, nx))
    return xr.DataArray(
        v,
        dims=(tname, "lat", "lon"),
        coords={tname: np.arange(t0, t0 + n), "lat": np.linspace(-40, 40, ny), "lon": np.arange(nx) * 10.0},
        name="t2m",
    )


# ----------------------------------------------------------------------------- label-wise comparison
def _index_labels(da, d):
    if d in da.indexes:
        idx = da.indexes[d]
    else:
        idx = pd.RangeIndex(da.sizes[d])
    return [canon_label(v) for v in idx]


def canon_label(v):
    if isinstance(v, tuple):
        return "(" + ",".join(canon_label(x) for x in v) + ")"
    if isinstance(v, (np.datetime64, pd.Timestamp)):
        return str(pd.Timestamp(v))
    if isinstance(v, (float, np.floating)):
        return repr(float(v))
    if isinstance(v, (int, np.integer)):
        return repr(float(int(v)))  # 1 and 1.0 label the same coordinate value
    return str(v)


def labelmap(da):
    """{frozenset((dim, label) ...) -> value} for a DataArray"""
    dims = list(da.dims)
    labs = [_index_labels(da, d) for d in dims]
    vals = np.asarray(da.values)
    out = {}
    for pos in itertools.product(*[range(len(l)) for l in labs]):
        key = frozenset((d, labs[k][pos[k]]) for k, d in enumerate(dims))
        out[key] = vals[pos]
    return out


def values_equal(a, b, rtol=0.0, atol=0.0):
    if isinstance(a, (complex, np.complexfloating)) or isinstance(b, (complex, np.complexfloating)):
        if np.isnan(a) and np.isnan(b):
            return True
        return abs(a - b) <= atol + rtol * max(abs(a), abs(b))
    try:
        if np.isnan(a) and np.isnan(b):
            return True
    except TypeError:
        return a == b
    return abs(a - b) <= atol + rtol * max(abs(a), abs(b))


def compare_labelled(orig, back, rtol=0.0, atol=0.0, check_name=False, check_dim_order=False):
    """None if `back` carries the same structure and the same value at every label as `orig`, else a short reason."""
    if isinstance(orig, (list, tuple)):
        if not isinstance(back, (list, tuple)):
            return f"type list->{type(back).__name__}"
        if len(orig) != len(back):
            return f"list length {len(orig)}->{len(back)}"
        for i, (o, b) in enumerate(zip(orig, back)):
            r = compare_labelled(o, b, rtol, atol, check_name, check_dim_order)
            if r:
                return f"item {i}: {r}"
        return None
    if isinstance(orig, xr.Dataset):
        if not isinstance(back, xr.Dataset):
            return f"type Dataset->{type(back).__name__}"
        if sorted(map(str, orig.data_vars)) != sorted(map(str, back.data_vars)):
            return f"vars {list(orig.data_vars)}->{list(back.data_vars)}"
        for v in orig.data_vars:
            r = compare_labelled(orig[v], back[v], rtol, atol, check_name, check_dim_order)
            if r:
                return f"var {v}: {r}"
        return None
    if not isinstance(back, xr.DataArray):
        return f"type DataArray->{type(back).__name__}"
    if set(orig.dims) != set(back.dims):
        return f"dimset {orig.dims}->{back.dims}"
    if check_dim_order and tuple(orig.dims) != tuple(back.dims):
        return f"dimorder {orig.dims}->{back.dims}"
    if check_name and orig.name != back.name:
        return f"name {orig.name}->{back.name}"
    a, b = labelmap(orig), labelmap(back)
    if set(a) != set(b):
        return f"labels differ ({len(set(a) ^ set(b))} of {len(a)})"
    bad = [k for k in a if not values_equal(a[k], b[k], rtol, atol)]
    if bad:
        k0 = bad[0]
        return f"values differ at {len(bad)}/{len(a)} labels, e.g. {sorted(k0)}: {a[k0]!r} vs {b[k0]!r}"
    return None


def maxabs(a):
    a = np.asarray(a)
    return float(np.nanmax(np.abs(a))) if a.size else 0.0


def relerr(a, b):
    a = np.asarray(a)
    b = np.asarray(b)
    if a.shape != b.shape:
        return float("inf")
    if np.isnan(a).any() != np.isnan(b).any() or (np.isnan(a) != np.isnan(b)).any():
        return float("inf")
    den = max(maxabs(a), maxabs(b), 1e-300)
    d = np.abs(a - b)
    d = d[~np.isnan(d)]
    return float(d.max() / den) if d.size else 0.0


def mode_matrix(da, mode_dim="mode"):
    """2-D (everything-but-mode flattened, mode) numpy view of a DataArray with a mode dim"""
    other = [d for d in da.dims if d != mode_dim]
    a = da.transpose(*other, mode_dim).values
    return a.reshape(-1, a.shape[-1])


def exc_class(e):
    for c in (TypeError, ValueError, KeyError, NotImplementedError, IndexError, AttributeError):
        if isinstance(e, c):
            return c.__name__
    return "other:" + type(e).__name__


def count_scheduler_calls():
    """context manager counting dask scheduler invocations"""
    import contextlib
    import dask

    @contextlib.contextmanager
    def cm():
        calls = []

        def sched(dsk, keys, **kwargs):
            calls.append(1)
            return dask.get(dsk, keys, **kwargs)

        with dask.config.set(scheduler=sched):
            yield calls

    return cm()
