"""Layout generator for the structural properties: container kind x sample/feature dims x dim order x index kind."""
from __future__ import annotations

import itertools

from harness.common import np, pd, xr

KINDS = ["asc", "unsorted", "str", "dt", "float", "multi"]
SDIMS = ["t", "m", "e"]
FDIMS = ["y", "x", "z"]


def coord(kind, n, rng):
    if kind == "asc":
        return np.arange(n) * 2 + 1
    if kind == "unsorted":
        v = np.arange(n) * 3 + 5
        while n > 1 and (np.diff(v) > 0).all():
            rng.shuffle(v)
        return v
    if kind == "str":
        return np.array(list("qzbxmnac")[:n])
    if kind == "dt":
        return pd.date_range("2001-01-01", periods=n, freq="D")[::-1] if n > 1 else pd.date_range("2001-01-01", periods=1)
    if kind == "float":
        return np.linspace(-40, 40, n)[::-1].copy() if n > 1 else np.array([12.5])
    raise ValueError(kind)


def build_da(dims, kinds, sizes, rng, base=0, name="v", extra_coord=False):
    """unique integer-coded values so every cell is identifiable; `multi` dims are built by stacking two helper dims"""
    real_dims = []
    stack = {}
    for d in dims:
        if kinds[d] == "multi":
            a, b = d + "_a", d + "_b"
            real_dims += [a, b]
            stack[d] = (a, b)
        else:
            real_dims.append(d)
    shape = []
    coords = {}
    for d in real_dims:
        if d.endswith("_a"):
            n = 2
            coords[d] = np.array([10, 20])[:n]
        elif d.endswith("_b"):
            n = max(1, sizes[d[:-2]] // 2)
            coords[d] = np.array(list("uvw"))[:n]
        else:
            n = sizes[d]
            coords[d] = coord(kinds[d], n, np.random.default_rng([int(rng.bit_generator.seed_seq.entropy if hasattr(rng.bit_generator, "seed_seq") else 0) % (2**31), sum(map(ord, d))]))
        shape.append(len(coords[d]))
    n = int(np.prod(shape))
    vals = (np.arange(n) + base).astype(float).reshape(shape)
    da = xr.DataArray(vals, dims=real_dims, coords=coords, name=name)
    for d, (a, b) in stack.items():
        da = da.stack({d: (a, b)})
    da = da.transpose(*dims)
    if extra_coord:
        d0 = dims[0]
        da = da.assign_coords({"aux_" + d0: (d0, np.arange(da.sizes[d0]) * 7.0)})
    return da


def gen_layout(rng, tier="quick"):
    ns = int(rng.choice([1, 1, 2, 3]))
    nf = int(rng.choice([1, 2, 2, 3]))
    sd = SDIMS[:ns]
    fd = FDIMS[:nf]
    dims = sd + fd
    perm = list(rng.permutation(dims))
    kinds = {}
    for d in dims:
        kinds[d] = str(rng.choice(KINDS, p=[0.3, 0.2, 0.15, 0.1, 0.1, 0.15]))
    # at most one multi among sample dims and one among feature dims keeps sizes small
    sizes = {d: int(rng.integers(2, 4)) for d in dims}
    for d in dims:
        if kinds[d] == "multi":
            sizes[d] = 4
    container = str(rng.choice(["DA", "DA", "DS-same", "DS-diff", "LIST", "LIST-ds", "LIST-revorder", "LIST-sperm"]))
    if container == "DS-diff" and nf < 2:
        container = "DS-same"
    return {
        "sd": sd, "fd": fd, "perm": [str(x) for x in perm], "kinds": kinds, "sizes": sizes, "container": container,
        "names": bool(rng.random() < 0.25), "extra_coord": bool(rng.random() < 0.3), "lseed": int(rng.integers(0, 2**31)),
    }


def build(layout):
    rng = np.random.default_rng(layout["lseed"])
    perm, kinds, sizes = layout["perm"], layout["kinds"], layout["sizes"]
    c = layout["container"]
    ec = layout.get("extra_coord", False)
    da = build_da(perm, kinds, sizes, rng, extra_coord=ec)
    if c == "DA":
        return da
    if c == "DS-same":
        return xr.Dataset({"a": da, "b": build_da(perm, kinds, sizes, np.random.default_rng(layout["lseed"]), base=1000, name="b", extra_coord=ec)})
    if c == "DS-diff":
        drop = layout["fd"][-1]
        da2 = build_da([d for d in perm if d != drop], kinds, sizes, np.random.default_rng(layout["lseed"]), base=2000, name="b", extra_coord=ec)
        return xr.Dataset({"a": da, "b": da2})
    if c == "LIST":
        f0 = layout["fd"][0]
        k2 = dict(kinds)
        s2 = dict(sizes)
        if kinds[f0] != "multi":
            s2[f0] = sizes[f0] + 1
        return [da, build_da(perm, k2, s2, np.random.default_rng(layout["lseed"]), base=3000, name="w", extra_coord=ec)]
    if c == "LIST-ds":
        ds = xr.Dataset({"a": da, "b": build_da(perm, kinds, sizes, np.random.default_rng(layout["lseed"]), base=1000, name="b", extra_coord=ec)})
        return [ds, build_da(perm, kinds, sizes, np.random.default_rng(layout["lseed"]), base=3000, name="w", extra_coord=ec)]
    if c == "LIST-sperm":
        # same sample labels, stored in another order in the second item
        b = build_da(perm, kinds, sizes, np.random.default_rng(layout["lseed"]), base=3000, name="w", extra_coord=ec)
        s0 = layout["sd"][0]
        if kinds[s0] != "multi":
            b = b.isel({s0: np.random.default_rng(layout["lseed"]).permutation(b.sizes[s0])})
        return [da, b]
    if c == "LIST-revorder":
        return [da, build_da(perm[::-1], kinds, sizes, np.random.default_rng(layout["lseed"]), base=3000, name="w", extra_coord=ec)]
    raise ValueError(c)


def enumerate_layouts(max_s=2, max_f=2, kinds=("asc", "unsorted", "str", "multi"), containers=("DA", "DS-same", "LIST")):
    """exhaustive product used by the thorough tier"""
    out = []
    for ns in range(1, max_s + 1):
        for nf in range(1, max_f + 1):
            sd, fd = SDIMS[:ns], FDIMS[:nf]
            dims = sd + fd
            for perm in itertools.permutations(dims):
                for kc in itertools.product(kinds, repeat=len(dims)):
                    if sum(k == "multi" for k in kc) > 1:
                        continue
                    for c in containers:
                        kd = dict(zip(dims, kc))
                        out.append({"sd": sd, "fd": fd, "perm": list(perm), "kinds": kd,
                                    "sizes": {d: (4 if kd[d] == "multi" else 2 + (d in sd)) for d in dims},
                                    "container": c, "names": False, "extra_coord": False, "lseed": 1})
    return out
