#!/bin/bash
export VERIF_NO_EVIDENCE=1   # runs on a mutated tree never write /verif/evidence
# usage: mutcheck.sh <diff> <PROP...>   : apply a seeded change to /repo, run the checks (no lean unless LEAN=1), undo
d=$1; shift
git -C /repo apply "$d" || { echo "APPLY FAILED $d"; exit 3; }
for p in "$@"; do
  if [ -n "$LEAN" ]; then out=$(/verif/check $p 2>&1); else out=$(/verif/check $p --no-lean 2>&1); fi
  n=$(echo "$out" | grep -c '^VIOLATION')
  echo "== $d $p violations=$n"; echo "$out" | grep '^\[fail\]' | cut -c1-220 | head -4
done
git -C /repo checkout -- .
