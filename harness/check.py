"""Entry point:  ./check <ID> [--tier quick|thorough] [--replay FILE]

regenerate (Tie A) -> lake build the property's theorems + audit axioms -> correspondence cases (Tie B)
-> property oracles on the implementation for every case -> evidence, known findings, exit code.
"""
from __future__ import annotations

import argparse
import importlib
import json
import multiprocessing as mp
import os
import signal
import sys
import time
import traceback

VERIF = os.path.dirname(os.path.dirname(os.path.abspath(__file__)))
sys.path.insert(0, VERIF)
WORK = os.path.join(VERIF, ".work")

from harness import leanstep  # noqa: E402

TRUSTED_BASE = [
    "Lean 4.33 kernel (thorough tier: also leanchecker on the compiled Props module)",
    "Mathlib as compiled in the sandbox; axioms propext, Classical.choice, Quot.sound only (audited by #print axioms each run)",
    "translator /verif/translator (Python-subset semantics) for Generated/*.lean",
    "correspondence harness: comparators/tolerances; executable model runs IEEE doubles, theorems are over exact R/C",
    "oracle specifications for numpy/scipy/LAPACK/xarray routines (re-checked numerically on every answer)",
    "statsmodels stub (optional dependency absent; no function of it on any exercised path)",
]


def load_known():
    p = os.path.join(VERIF, "known_findings.json")
    if not os.path.exists(p):
        return []
    return json.load(open(p))["findings"]


def match_known(prop, finding, known):
    for k in known:
        if k.get("status") != "known" or k.get("property") != prop:
            continue
        if k.get("site") == finding["site"] and k.get("case_class") == finding["case_class"]:
            return k
    return None


# ----------------------------------------------------------------------------------------------- worker side
_mod = None


def _init_worker(prop):
    global _mod
    signal.signal(signal.SIGINT, signal.SIG_IGN)
    _mod = importlib.import_module(f"harness.props.{prop.lower()}")


def _run_case(case):
    t0 = time.time()
    try:
        out = _mod.run(case)
        findings = [f.to_json() for f in out.get("findings", [])]
        info = out.get("info", {})
        err = None
    except Exception as e:  # noqa: BLE001  harness error: never a violation by itself
        findings, info = [], {}
        err = f"{type(e).__name__}: {e}\n" + traceback.format_exc()[-1500:]
    return {"case": case, "findings": findings, "info": info, "harness_error": err, "wall": time.time() - t0}


def _run_corr(prop, seed, tier):
    from harness import corr

    return corr.run_for(prop, seed, tier)


def write_replay(prop, payload):
    from harness.common import case_hash

    d = os.path.join(WORK, "replays")
    os.makedirs(d, exist_ok=True)
    h = case_hash(payload)
    p = os.path.join(d, f"{prop}-{h}.json")
    with open(p, "w") as f:
        json.dump(payload, f, indent=1, default=str)
    return os.path.relpath(p, VERIF)


def main():
    ap = argparse.ArgumentParser()
    ap.add_argument("prop")
    ap.add_argument("--tier", default=os.environ.get("VERIF_TIER", "quick"), choices=["quick", "thorough"])
    ap.add_argument("--replay")
    ap.add_argument("--jobs", type=int, default=int(os.environ.get("VERIF_JOBS", "0")))
    ap.add_argument("--no-lean", action="store_true", help="debugging only: skip the Lean step (evidence is not written)")
    ap.add_argument("--max-cases", type=int, default=0)
    args = ap.parse_args()
    prop = args.prop.upper()
    seed = int(os.environ.get("VERIF_SEED", "0") or 0)
    t0 = time.time()
    os.makedirs(WORK, exist_ok=True)
    try:
        mod = importlib.import_module(f"harness.props.{prop.lower()}")
    except ModuleNotFoundError:
        print(f"no check for {prop}", file=sys.stderr)
        return 2
    known = load_known()

    # ------------------------------------------------------------------ replay mode
    if args.replay:
        payload = json.load(open(args.replay if os.path.isabs(args.replay) else os.path.join(VERIF, args.replay)))
        case = payload.get("case")
        if case is None:
            print(f"replay names a broken obligation, no input: {json.dumps(payload.get('broken'))[:400]}")
            lr = leanstep.run_lean(prop)
            with mp.get_context("fork").Pool(1) as cpool:
                _, mism, _ = cpool.apply(_run_corr, (prop, seed, "quick"))
            if lr.ok and not mism:
                print("obligations and correspondences check again on the current tree")
                return 0
            print(f"VIOLATION property={prop} replay={args.replay} no-failing-input-found")
            return 1
        _init_worker(prop)
        r = _run_case(case)
        if r["harness_error"]:
            print("harness error:", r["harness_error"])
            return 2
        bad = [f for f in r["findings"] if not match_known(prop, f, known)]
        for f in r["findings"]:
            print(("KNOWN " if match_known(prop, f, known) else "FAIL  ") + json.dumps(f)[:600])
        if bad:
            print(f"VIOLATION property={prop} replay={args.replay}")
            return 1
        print("replayed: property holds on this input")
        return 0

    # ------------------------------------------------------------------ Lean: Tie A + proofs
    if args.no_lean:
        lr = leanstep.LeanResult()
    else:
        lr = leanstep.run_lean(prop, thorough=(args.tier == "thorough"), log=lambda *a: None)
    # ------------------------------------------------------------------ Tie B: executable model vs implementation
    corr_summary, corr_errors = {}, []
    if not args.no_lean or os.environ.get("VERIF_CORR") == "1":
        # in a forked child: the parent must not touch numpy/dask threads before it forks the case workers
        with mp.get_context("fork").Pool(1) as cpool:
            corr_summary, mism, corr_errors = cpool.apply(_run_corr, (prop, seed, args.tier))
        for name, sm in corr_summary.items():
            st = "ok" if not sm.get("mismatches") and not sm.get("error") else ("error" if sm.get("error") else "broken")
            lr.obligations.append({"name": "correspondence:" + name, "kind": "correspondence", "status": st, "compared": sm.get("compared", 0)})
        by = {}
        for mm in mism:
            by.setdefault(mm["correspondence"], []).append(mm)
        for name, lst in by.items():
            lr.broken.append({"kind": "correspondence", "name": name, "output": json.dumps(lst[:5], indent=1, default=str)[-6000:]})
        for e in corr_errors:
            print("[harness-error] correspondence " + e[-1200:], file=sys.stderr)
    for b in lr.broken:
        print(f"[lean] BROKEN {b['kind']}: {b['name']}\n{b['output'][-1500:]}")

    # ------------------------------------------------------------------ cases
    tier = args.tier
    search_tier = tier
    if not lr.ok and tier == "quick":
        search_tier = "search"  # enlarged failing-input search focused on the broken obligation
    broken_names = [b["name"] for b in lr.broken]
    cases = []
    corpus_dir = os.path.join(VERIF, "corpus", prop)
    if os.path.isdir(corpus_dir):
        for fn in sorted(os.listdir(corpus_dir)):
            if fn.endswith(".json"):
                c = json.load(open(os.path.join(corpus_dir, fn)))
                c = c.get("case", c)
                c["_corpus"] = fn
                cases.append(c)
    gen = list(mod.cases(seed, search_tier, broken=broken_names) if _accepts_broken(mod.cases) else mod.cases(seed, search_tier))
    cases += gen
    if args.max_cases:
        cases = cases[: args.max_cases]
    jobs = args.jobs or min(16, os.cpu_count() or 4, max(1, len(cases)))
    deadline = float(os.environ.get("VERIF_DEADLINE_S", "0") or 0)

    results = []
    if hasattr(mod, "prepare"):
        mod.prepare(tier)  # e.g. build the driver once, before forking
    if jobs <= 1 or len(cases) <= 2:
        _init_worker(prop)
        for c in cases:
            results.append(_run_case(c))
    else:
        ctx = mp.get_context("fork")
        with ctx.Pool(jobs, initializer=_init_worker, initargs=(prop,)) as pool:
            for r in pool.imap_unordered(_run_case, cases, chunksize=1):
                results.append(r)
                if deadline and time.time() - t0 > deadline:
                    pool.terminate()
                    break

    # ------------------------------------------------------------------ classify
    harness_errors = [r for r in results if r["harness_error"]]
    viol = []
    known_hits = {}
    for r in results:
        for f in r["findings"]:
            k = match_known(prop, f, known)
            if k:
                known_hits.setdefault(k["id"], (k, 0))
                known_hits[k["id"]] = (k, known_hits[k["id"]][1] + 1)
            else:
                viol.append((r["case"], f))
    # distinct / non-trivial accounting
    keys = set()
    dist = {}
    for r in results:
        k = mod.nontrivial_key(r["case"], r["info"]) if hasattr(mod, "nontrivial_key") else json.dumps(r["case"], sort_keys=True, default=str)
        if k is not None:
            keys.add(k if isinstance(k, str) else json.dumps(k, default=str))
        for kk, vv in (r["info"].get("dist") or {}).items():
            dist.setdefault(kk, {})
            dist[kk][str(vv)] = dist[kk].get(str(vv), 0) + 1

    lines = []
    exit_code = 0
    replay_files = []
    if viol:
        # one replay per distinct (site, case_class); smallest case first
        seen = set()
        viol.sort(key=lambda cf: len(json.dumps(cf[0], default=str)))
        for case, f in viol:
            key = (f["site"], f["case_class"])
            if key in seen:
                continue
            seen.add(key)
            payload = {"property": prop, "seed": seed, "case": case, "finding": f,
                       "broken": lr.broken[:3] if lr.broken else None}
            rp = write_replay(prop, payload)
            replay_files.append(rp)
            lines.append(f"VIOLATION property={prop} replay={rp}")
            print(f"[fail] {f['kind']} {f['site']} [{f['case_class']}]: {f['detail'][:300]}")
        exit_code = 1
    elif not lr.ok:
        payload = {"property": prop, "seed": seed, "case": None,
                   "broken": [{"kind": b["kind"], "name": b["name"], "output": b["output"][-4000:]} for b in lr.broken],
                   "searched_cases": len(results)}
        rp = write_replay(prop, payload)
        replay_files.append(rp)
        lines.append(f"VIOLATION property={prop} replay={rp} no-failing-input-found")
        exit_code = 1
    for kid, (k, n) in sorted(known_hits.items()):
        print(f"KNOWN-FINDING: property={prop} {k['id']} {k['what']} [{n} case(s)]")
    for r in harness_errors[:3]:
        print("[harness-error]", json.dumps(r["case"], default=str)[:300], r["harness_error"][-800:], file=sys.stderr)
    if corr_errors and exit_code == 0:
        exit_code = 2
    if harness_errors and exit_code == 0:
        # infrastructure problem: not a violation
        if len(harness_errors) > max(2, len(results) // 10):
            exit_code = 2

    # ------------------------------------------------------------------ evidence
    wall = time.time() - t0
    n_obl, n_ok = lr.n_obl(), lr.n_ok()
    samples = [{"case": r["case"], "info": {k: v for k, v in r["info"].items() if k != "dist"}} for r in results[:3]]
    samples += [{"obligation": o} for o in lr.obligations[:4]]
    ev = {
        "property_id": prop,
        "tier": tier,
        "seed": seed,
        "level": "proof",
        "coverage": {
            "obligations": n_obl,
            "discharged": n_ok,
            "checker_cmd": lr.checker_cmd or "lake build",
            "trusted_base": TRUSTED_BASE + list(getattr(mod, "TRUSTED_EXTRA", [])),
            "obligation_list": lr.obligations,
            "translator": {"targets": [t for t in lr.translator.get("targets", []) if prop in t["props"]],
                           "drift_vs_reference": lr.translator.get("drift_vs_reference", [])},
            "evaluations": len(results),
            "distinct_nontrivial": len(keys),
            "rule": getattr(mod, "RULE", "cases from the property's structured generator; distinct by generator key"),
            "samples": samples,
            "input_distribution": dist,
            "correspondence": corr_summary,
            "traces_validated_against_impl": sum(int(v.get("compared", 0)) for v in corr_summary.values()),
            "oracle_checks": _sum_info(results, "oracle_checks"),
            "known_findings_hit": {kid: n for kid, (k, n) in known_hits.items()},
            "harness_errors": len(harness_errors),
            "exhaustive": bool(getattr(mod, "EXHAUSTIVE", {}).get(tier, False)),
            "replays": replay_files,
            "lean_wall_s": round(lr.wall, 1),
        },
        "assumptions": list(getattr(mod, "ASSUMPTIONS", [])),
        "wall_s": round(wall, 2),
        "violations": len(lines),
    }
    if not args.no_lean and os.environ.get("VERIF_NO_EVIDENCE") != "1":
        os.makedirs(os.path.join(VERIF, "evidence"), exist_ok=True)
        with open(os.path.join(VERIF, "evidence", f"{prop}.json"), "w") as f:
            json.dump(ev, f, indent=1, default=str)
    for ln in lines:
        print(ln)
    print(f"[{prop}] tier={tier} seed={seed} obligations={n_ok}/{n_obl} cases={len(results)} distinct={len(keys)} "
          f"violations={len(lines)} known={sum(n for _, n in known_hits.values())} harness_errors={len(harness_errors)} wall={wall:.1f}s")
    return exit_code


def _accepts_broken(f):
    import inspect

    return "broken" in inspect.signature(f).parameters


def _sum_info(results, key):
    tot = {}
    for r in results:
        v = r["info"].get(key)
        if isinstance(v, dict):
            for k, x in v.items():
                if isinstance(x, (int, float)) and not isinstance(x, bool):
                    if k.startswith("max_"):
                        tot[k] = max(tot.get(k, 0.0), x)
                    else:
                        tot[k] = tot.get(k, 0) + x
        elif isinstance(v, (int, float)):
            tot["n"] = tot.get("n", 0) + v
    return tot


if __name__ == "__main__":
    sys.exit(main())
