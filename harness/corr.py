"""Tie B: correspondence between the executable Lean model (lean/Driver.lean -> xeofs_driver) and the implementation.

Every correspondence builds requests from structured, seeded inputs, lets the REAL code answer in-process, lets the model answer
through the line protocol, and canonicalises both sides before comparing (labels sorted, errors mapped to class names, numbers
compared with a relative tolerance that only absorbs summation order: both sides start from the same IEEE doubles because the
oracle outputs -- SVD factors, fitted scaler parameters -- travel as bit patterns).

A disagreement is NOT a violation: check.py turns it into a broken correspondence and searches for a failing input.
"""
from __future__ import annotations

import json
import os
import struct
import subprocess
import warnings

import numpy as np

from harness.common import xe, xr, da2d, matrix_with_spectrum, exc_class, WORK  # noqa: F401
from harness import leanstep

TOL = 1e-9


def f2b(x) -> str:
    return str(struct.unpack("<Q", struct.pack("<d", float(x)))[0])


def b2f(s) -> float:
    return struct.unpack("<d", struct.pack("<Q", int(s)))[0]


def bits(a):
    return [f2b(v) for v in np.asarray(a, dtype=float).ravel()]


def unbits(l, shape=None):
    a = np.array([b2f(s) for s in l], dtype=float)
    return a.reshape(shape) if shape is not None else a


class DriverBuildError(RuntimeError):
    pass


_EXE = None


def driver_path():
    global _EXE
    if _EXE is None:
        exe, err = leanstep.ensure_driver()
        if exe is None:
            raise DriverBuildError("driver build failed: " + err[-1500:])
        _EXE = exe
    return _EXE


def ask(reqs):
    """send all requests, return all answers (one batch = one driver process)"""
    if not reqs:
        return []
    inp = "\n".join(json.dumps(r) for r in reqs) + "\n"
    pr = subprocess.run([driver_path()], input=inp, capture_output=True, text=True, timeout=600)
    lines = [ln for ln in pr.stdout.splitlines() if ln.strip()]
    if pr.returncode != 0 or len(lines) != len(reqs):
        raise RuntimeError(f"driver: rc={pr.returncode} answers={len(lines)}/{len(reqs)} stderr={pr.stderr[-800:]}")
    return [json.loads(ln) for ln in lines]


def close(a, b, tol=TOL):
    a, b = np.asarray(a, dtype=float), np.asarray(b, dtype=float)
    if a.shape != b.shape:
        return False
    if a.size == 0:
        return True
    if not np.array_equal(np.isnan(a), np.isnan(b)):
        return False
    a, b = np.nan_to_num(a), np.nan_to_num(b)
    return bool(np.max(np.abs(a - b)) <= tol * max(1.0, np.max(np.abs(a)), np.max(np.abs(b))))


class Result:
    def __init__(self, name):
        self.name = name
        self.compared = 0
        self.mismatches = []
        self.dist = {}

    def tally(self, key, val):
        d = self.dist.setdefault(key, {})
        d[str(val)] = d.get(str(val), 0) + 1

    def cmp(self, what, ok, req, got, exp):
        self.compared += 1
        if not ok:
            self.mismatches.append({"correspondence": self.name, "what": what, "request": _short(req), "model": _short(got), "implementation": _short(exp)})

    def to_json(self):
        return {"compared": self.compared, "mismatches": len(self.mismatches), "input_distribution": self.dist}


def _short(o, n=1200):
    s = json.dumps(o, default=str)
    return s if len(s) <= n else s[:n] + "…"


# ----------------------------------------------------------------------------------------------------- EOF pipeline
class _SvdSpy:
    """records the raw factors the solver handed to Decomposer.fit (before truncation and sign flipping)"""

    def __enter__(self):
        from xeofs.linalg.decomposer import Decomposer

        self.cls = Decomposer
        self.orig = Decomposer._svd
        self.calls = []
        self.inputs = []
        spy = self

        def _svd(this, X, dims, func, kwargs):
            out = spy.orig(this, X, dims, func, kwargs)
            spy.calls.append(tuple(np.array(o.values) for o in out))
            spy.inputs.append(np.array(X.transpose(*dims).values))
            return out

        Decomposer._svd = _svd
        return self

    def __exit__(self, *a):
        self.cls._svd = self.orig


def corr_eof_pipeline(seed, tier):
    """EOF.fit / scores / components / explained_variance(_ratio) / transform / inverse_transform on (time, x) arrays
    against XM.eofFit + Gen.signRuleXarrayF + Gen.eofExpVar(+Ratio) + XM.eofTransform/eofInverse composed with the
    generated Scaler chains (Gen.scalerForward / Gen.scalerInverse), all fed with the SVD factors the solver returned."""
    R = Result("eof_pipeline")
    rng = np.random.default_rng(1000 + seed)
    n_cases = {"quick": 10, "thorough": 80, "search": 40}[tier]
    reqs, exps = [], []
    for i in range(n_cases):
        n, p = int(rng.integers(4, 14)), int(rng.integers(2, 8))
        kind = ["geom", "lin", "flat", "cluster", "rankdef", "random"][i % 6]
        X, _sp = matrix_with_spectrum(rng, n, p, kind, scale=float(10.0 ** rng.integers(-3, 4)))
        X = X + rng.normal(size=(1, p)) * float(rng.choice([0.0, 1.0, 50.0]))
        center, std = bool(rng.integers(0, 2)), bool(rng.integers(0, 2))
        use_w = bool(rng.integers(0, 2))
        k = int(rng.integers(1, min(n, p) + 1))
        if not center and not std and False:
            pass
        R.tally("spectrum", kind)
        R.tally("flags", f"center={center},std={std},weights={use_w}")
        R.tally("k_over_rank", "full" if k == min(n, p) else "truncated")
        Xd = da2d(X, "time", "x")
        w = xr.DataArray(rng.uniform(0.5, 2.0, size=p), dims=["x"], coords={"x": Xd.x}) if use_w else None
        m = rng.integers(1, 6)
        Xn = da2d(rng.normal(size=(int(m), p)) * np.abs(X).max(), "time", "x", s0=100)
        try:
            with _SvdSpy() as spy, warnings.catch_warnings():
                warnings.simplefilter("ignore")
                model = xe.single.EOF(n_modes=k, center=center, standardize=std, solver="full")
                model.fit(Xd, "time", weights=w)
            U, s, VT = spy.calls[-1]
            sc = model.preprocessor.scaler
            sc = sc.transformers[0] if hasattr(sc, "transformers") else sc
            mean = np.asarray(sc.mean_.values, dtype=float) if center else np.zeros(p)
            sd = np.asarray(sc.std_.values, dtype=float) if std else np.ones(p)
            wt = np.broadcast_to(np.asarray(sc.weights_.values, dtype=float), (p,)) if use_w else np.ones(p)
            r = s.size
            req = {"fn": "eof", "n": n, "p": p, "r": int(r), "k": k, "rule": "xarray", "U": bits(U[:, :r]), "s": bits(s),
                   "V": bits(VT[:r, :].T), "total": f2b(float(model.data["total_variance"].values)), "m": int(m), "X": bits(Xn.values),
                   "scaler": {"with_center": center, "with_std": std, "with_coslat": False, "mean": bits(mean), "std": bits(sd),
                              "coslat": bits(np.ones(p)), "weights": bits(wt)}}
            tf = model.transform(Xn, normalized=False)
            exp = {"comps": model.components(normalized=True).transpose("x", "mode").values,
                   "scores": model.scores(normalized=False).transpose("time", "mode").values,
                   "expvar": model.explained_variance().values, "ratio": model.explained_variance_ratio().values,
                   "transform": tf.transpose("time", "mode").values,
                   "inverse": model.inverse_transform(tf, normalized=False).transpose("time", "x").values}
            reqs.append(req)
            exps.append((req, exp, (n, p, k, int(m))))
        except Exception as e:  # noqa: BLE001
            R.cmp("implementation-raises", False, {"n": n, "p": p, "k": k}, None, exc_class(e) + ": " + str(e)[:300])
    for (req, exp, (n, p, k, m)), ans in zip(exps, ask(reqs)):
        small = {kk: req[kk] for kk in ("n", "p", "r", "k", "m", "scaler")}
        small["seed"] = seed
        if ans.get("status") != "ok":
            R.cmp("status", False, small, ans, "ok")
            continue
        R.cmp("components", close(unbits(ans["comps"], (p, k)), exp["comps"]), small, ans["comps"][:6], exp["comps"].ravel()[:6].tolist())
        R.cmp("scores", close(unbits(ans["scores"], (n, k)), exp["scores"]), small, None, None)
        R.cmp("explained_variance", close(unbits(ans["expvar"]), exp["expvar"]), small, unbits(ans["expvar"]).tolist(), exp["expvar"].tolist())
        R.cmp("explained_variance_ratio", close(unbits(ans["ratio"]), exp["ratio"]), small, unbits(ans["ratio"]).tolist(), exp["ratio"].tolist())
        R.cmp("transform", close(unbits(ans["transform"], (m, k)), exp["transform"], 1e-8), small, unbits(ans["transform"]).tolist()[:6], exp["transform"].ravel()[:6].tolist())
        R.cmp("inverse_transform", close(unbits(ans["inverse"], (m, p)), exp["inverse"], 1e-8), small, unbits(ans["inverse"]).tolist()[:6], exp["inverse"].ravel()[:6].tolist())
    return R


# ----------------------------------------------------------------------------------------------------- CPCCA core
def corr_cpcca_core(seed, tier):
    """CPCCA / MCA / CCA / RDA `_fit_algorithm`, `_transform_algorithm`, `_inverse_transform_algorithm` in the (PCA-reduced,
    whitened) space against XM.crossCov + XM.cpccaFit + cpccaTransform1/cpccaInverse1: the model gets the stored 2-D inputs
    (`data['input_data1/2']`) and the SVD factors the solver returned for the cross-covariance, and must reproduce the cross-
    covariance handed to the solver, components, scores, singular values, squared covariance, norms, transform (plain and
    normalised) and the inverse."""
    R = Result("cpcca_core")
    rng = np.random.default_rng(11000 + seed)
    n_cases = {"quick": 10, "thorough": 80, "search": 40}[tier]
    reqs, exps = [], []
    for i in range(n_cases):
        n, p, q = int(rng.integers(12, 30)), int(rng.integers(2, 6)), int(rng.integers(2, 6))
        cls = ["CPCCA", "MCA", "CCA", "RDA"][i % 4]
        use_pca = bool(i % 3 == 0)
        A = rng.normal(size=(n, p)) * 10.0 ** rng.integers(-2, 3)
        B = rng.normal(size=(n, q)) + A[:, :1] * rng.normal(size=(1, q))
        X, Y = da2d(A, "time", "x"), da2d(B, "time", "y")
        k = int(rng.integers(1, min(p, q) + 1))
        cfg = dict(n_modes=k, use_pca=use_pca, n_pca_modes="all", solver="full", standardize=bool(i % 2))
        if cls == "CPCCA":
            cfg["alpha"] = [float(rng.choice([0.0, 0.5, 1.0])), float(rng.choice([0.0, 0.3, 1.0]))]
        R.tally("class", cls)
        R.tally("use_pca", use_pca)
        R.tally("k_over_rank", "full" if k == min(p, q) else "truncated")
        try:
            with _SvdSpy() as spy, warnings.catch_warnings():
                warnings.simplefilter("ignore")
                model = getattr(xe.cross, cls)(**cfg)
                model.fit(X, Y, "time")
            U, s_, VT = spy.calls[-1]
            Cin = spy.inputs[-1]
            sn = model.sample_name
            Xw = np.asarray(model.data["input_data1"].transpose(sn, model.feature_name[0]).values, dtype=float)
            Yw = np.asarray(model.data["input_data2"].transpose(sn, model.feature_name[1]).values, dtype=float)
            pw, qw = Xw.shape[1], Yw.shape[1]
            r = s_.size
            m = int(rng.integers(1, 5))
            Xn = rng.normal(size=(m, pw)) * np.abs(Xw).max()
            f1 = model.feature_name[0]
            Xn_da = xr.DataArray(Xn, dims=[sn, f1], coords={sn: np.arange(100, 100 + m), f1: model.data["input_data1"].coords[f1]})
            t0 = model._transform_algorithm(X=Xn_da, normalized=False)["X"].transpose(sn, "mode").values
            t1 = model._transform_algorithm(X=Xn_da, normalized=True)["X"].transpose(sn, "mode").values
            sc_da = model._transform_algorithm(X=Xn_da, normalized=False)["X"]
            inv = model._inverse_transform_algorithm(X=sc_da)["X"].transpose(sn, f1).values
            d = model.data
            exp = {"crosscov": Cin, "comps1": d["components1"].transpose(f1, "mode").values,
                   "comps2": d["components2"].transpose(model.feature_name[1], "mode").values,
                   "scores1": d["scores1"].transpose(sn, "mode").values, "scores2": d["scores2"].transpose(sn, "mode").values,
                   "svals": d["singular_values"].values, "sqcov": d["squared_covariance"].values,
                   "norm1": d["norm1"].values, "norm2": d["norm2"].values, "transform1": t0, "transform1n": t1, "inverse1": inv}
            req = {"fn": "cpcca", "n": n, "p": pw, "q": qw, "r": int(r), "k": k, "X": bits(Xw), "Y": bits(Yw), "Q1": bits(U[:, :r]),
                   "s": bits(s_), "Q2": bits(VT[:r, :].T), "m": m, "Xn": bits(Xn)}
            reqs.append(req)
            exps.append((req, exp, (n, pw, qw, k, m)))
        except Exception as e:  # noqa: BLE001
            R.cmp("implementation-raises", False, {"cls": cls, "cfg": cfg}, None, exc_class(e) + ": " + str(e)[:300])
    for (req, exp, (n, p, q, k, m)), ans in zip(exps, ask(reqs)):
        small = {kk: req[kk] for kk in ("n", "p", "q", "r", "k", "m")}
        small["seed"] = seed
        if ans.get("status") != "ok":
            R.cmp("status", False, small, ans, "ok")
            continue
        shapes = {"crosscov": (p, q), "comps1": (p, k), "comps2": (q, k), "scores1": (n, k), "scores2": (n, k), "svals": (k,), "sqcov": (k,),
                  "norm1": (k,), "norm2": (k,), "transform1": (m, k), "transform1n": (m, k), "inverse1": (m, p)}
        for key, shp in shapes.items():
            got = unbits(ans[key], shp)
            R.cmp(key, close(got, np.asarray(exp[key], dtype=float), 1e-8), small, got.ravel()[:6].tolist(), np.asarray(exp[key]).ravel()[:6].tolist())
    return R


# ----------------------------------------------------------------------------------------------------- EOF rotator
def corr_rotator(seed, tier):
    """EOFRotator.fit / transform / inverse_transform (Varimax power=1 and Promax power>1) against XM.rotFit / rotTransform /
    rotInverse: the model gets the unrotated model's stored components, explained variances, scores, norms and the rotation
    matrix the iteration converged to (for power>1 also numpy's inverse of it), and must reproduce rotated loadings order,
    components, scores, explained variances, pseudo-norms, signs, the sorting permutation, transform of new data and the
    reconstruction."""
    R = Result("rotator")
    rng = np.random.default_rng(12000 + seed)
    reqs, exps = [], []
    want = {"quick": 8, "thorough": 60, "search": 30}[tier]
    cands = []
    for i in range(5 * want):
        n, p = int(rng.integers(12, 30)), int(rng.integers(3, 7))
        k = int(rng.integers(2, p + 1))
        power = [1, 2, 1, 3][i % 4]
        if i % 2:
            # nearly flat spectrum: the rotation redistributes the variance, so the descending order is not the identity
            A, _sp = matrix_with_spectrum(rng, n, p, "lin")
            A = A * 10.0 + rng.normal(size=(n, p)) * 0.05
        else:
            A = rng.normal(size=(n, p)) @ rng.normal(size=(p, p))
        X = da2d(A, "time", "x")
        try:
            with warnings.catch_warnings():
                warnings.simplefilter("ignore")
                eof = xe.single.EOF(n_modes=p, solver="full").fit(X, "time")
                rot = xe.single.EOFRotator(n_modes=k, power=power, max_iter=5000, rtol=1e-10).fit(eof)
        except RuntimeError:
            R.tally("skipped", "rotation did not converge")
            continue
        perm_id = list(rot.data["idx_modes_sorted"].values) == list(range(k))
        mixed = len(set(np.sign(rot.data["modes_sign"].values))) > 1
        cands.append((int(perm_id) + int(not mixed), i, n, p, k, power, A, X, eof, rot, perm_id, mixed))
    # structured selection: cases where the order is permuted and the signs are mixed first (that is where the steps of
    # `transform` do not commute); every choice still derives from the one seeded generator
    cands.sort(key=lambda c: (c[0], c[1]))
    for (_, i, n, p, k, power, A, X, eof, rot, perm_id, mixed) in cands[:want]:
        R.tally("power", power)
        R.tally("k_over_p", "full" if k == p else "truncated")
        R.tally("order", "identity" if perm_id else "permuted")
        R.tally("signs", "mixed" if mixed else "uniform")
        sn, fn = eof.sample_name, eof.feature_name
        comps0 = eof.data["components"].sel(mode=slice(1, k)).transpose(fn, "mode").values
        scores0 = eof.data["scores"].sel(mode=slice(1, k)).transpose(sn, "mode").values
        expvar0 = eof.explained_variance().sel(mode=slice(1, k)).values
        svals0 = eof.data["norms"].sel(mode=slice(1, k)).values
        Rm = np.asarray(rot.data["rotation_matrix"].transpose("mode_m", "mode_n").values, dtype=float)
        RinvT = Rm if power == 1 else np.linalg.inv(Rm).conj().T
        m = int(rng.integers(1, 5))
        Xn = da2d(rng.normal(size=(m, p)) * np.abs(A).max(), "time", "x", s0=200)
        X2 = rot.preprocessor.transform(Xn)
        tf = rot._transform_algorithm(X2)
        exp = {"comps": rot.data["components"].transpose(fn, "mode").values, "scores": rot.data["scores"].transpose(sn, "mode").values,
               "expvar": rot.data["explained_variance"].values, "norms": rot.data["norms"].values, "sgn": rot.data["modes_sign"].values,
               "perm": [int(v) for v in rot.data["idx_modes_sorted"].values], "transform": tf.transpose(sn, "mode").values,
               "inverse": rot._inverse_transform_algorithm(tf).transpose(sn, fn).values, "uses_inverse": power > 1}
        req = {"fn": "rotator", "n": n, "p": p, "k": k, "m": m, "power": power, "comps0": bits(comps0), "scores0": bits(scores0),
               "expvar0": bits(expvar0), "svals0": bits(svals0), "R": bits(Rm), "RinvT": bits(RinvT), "X": bits(X2.transpose(sn, fn).values)}
        reqs.append(req)
        exps.append((req, exp, (n, p, k, m)))
    for (req, exp, (n, p, k, m)), ans in zip(exps, ask(reqs)):
        small = {kk: req[kk] for kk in ("n", "p", "k", "m", "power")}
        small["seed"] = seed
        R.cmp("perm", ans["perm"] == exp["perm"], small, ans["perm"], exp["perm"])
        R.cmp("uses_inverse", ans["uses_inverse"] == exp["uses_inverse"], small, ans["uses_inverse"], exp["uses_inverse"])
        for key, shp in {"comps": (p, k), "scores": (n, k), "expvar": (k,), "norms": (k,), "sgn": (k,), "transform": (m, k), "inverse": (m, p)}.items():
            got = unbits(ans[key], shp)
            R.cmp(key, close(got, np.asarray(exp[key], dtype=float), 1e-7), small, got.ravel()[:6].tolist(), np.asarray(exp[key]).ravel()[:6].tolist())
    return R


# ----------------------------------------------------------------------------------------------------- CPCCARotator
def corr_crot(seed, tier):
    """CPCCARotator / MCARotator / ComplexCPCCARotator .fit and .transform (Varimax power=1 and Promax power>1; alpha in [0,1]^2;
    PCA pre-reduction off or keeping all modes; real and complex fields) against XM.crotFit / crotTransform. The model gets the
    unrotated model's stored vectors, singular values and scores, the rotation matrix the iteration converged to (for power>1 also
    numpy's inverse of it) and, as matrices, the linear maps between whitened PC space and physical space (obtained by sending the
    identity through the implementation's Whitener/PCA component maps, which the `whitener` correspondence ties on their own); it must
    reproduce rotated vectors, scores, norms, squared covariance, signs, the sorting permutation, and the transform of new data of
    both fields with and without normalisation."""
    R = Result("crot")
    rng = np.random.default_rng(21000 + seed)
    want = {"quick": 8, "thorough": 48, "search": 24}[tier]
    cands = []
    for i in range(4 * want):
        n, p, q = int(rng.integers(14, 30)), int(rng.integers(3, 6)), int(rng.integers(2, 5))
        k = int(rng.integers(2, min(p, q) + 1))
        power = [1, 2, 1, 3][i % 4]
        cplx = bool(i % 5 == 4)
        use_pca = bool(i % 3 == 1)
        alpha = [float(rng.choice([1.0, 0.5, 0.0, float(rng.uniform(0, 1))])) for _ in range(2)]
        if cplx:
            A, B = _cfield(rng, n, p), _cfield(rng, n, q)
            B[:, :min(p, q)] += 0.7 * A[:, :min(p, q)]
        else:
            A = rng.normal(size=(n, p)) @ rng.normal(size=(p, p))
            B = rng.normal(size=(n, q)) @ rng.normal(size=(q, q))
            B[:, :min(p, q)] += 0.7 * A[:, :min(p, q)]
        X, Y = da2d(A, "time", "x"), da2d(B, "time", "y")
        cls, rcls = ("ComplexCPCCA", "ComplexCPCCARotator") if cplx else (("CPCCA", "CPCCARotator") if i % 2 else ("MCA", "MCARotator"))
        cfg = {"n_modes": min(p, q), "solver": "full", "use_pca": use_pca}
        if use_pca:
            cfg["n_pca_modes"] = "all"
        if "CPCCA" in cls:
            cfg["alpha"] = alpha
        try:
            with warnings.catch_warnings():
                warnings.simplefilter("ignore")
                model = getattr(xe.cross, cls)(**cfg).fit(X, Y, "time")
                rot = getattr(xe.cross, rcls)(n_modes=k, power=power, max_iter=5000, rtol=1e-10).fit(model)
        except RuntimeError:
            R.tally("skipped", "rotation did not converge")
            continue
        perm_id = list(rot.data["idx_modes_sorted"].values) == list(range(k))
        mixed = len(set(np.sign(rot.data["modes_sign"].values))) > 1
        cands.append((int(perm_id) + int(not mixed), i, n, p, q, k, power, cplx, use_pca, A, B, model, rot, cls, perm_id, mixed))
    cands.sort(key=lambda c: (c[0], c[1]))
    reqs, exps = [], []
    for (_, i, n, p, q, k, power, cplx, use_pca, A, B, model, rot, cls, perm_id, mixed) in cands[:want]:
        R.tally("class", cls)
        R.tally("power", power)
        R.tally("pca", use_pca)
        R.tally("order", "identity" if perm_id else "permuted")
        R.tally("signs", "mixed" if mixed else "uniform")
        sn = model.sample_name
        f1, f2 = model.feature_name
        Q1 = model.data["components1"].sel(mode=slice(1, k))
        Q2 = model.data["components2"].sel(mode=slice(1, k))
        pw, qw = Q1.sizes[f1], Q2.sizes[f2]

        def lin_map(fn_chain, feat, coords, size):
            """matrix of a linear map on (feature x mode) arrays: send the identity through it"""
            E = xr.DataArray(np.eye(size, dtype=complex if cplx else float), dims=(feat, "mode"), coords={feat: coords, "mode": np.arange(1, size + 1)})
            for f in fn_chain:
                E = f(E)
            return np.asarray(E.transpose(feat, "mode").values)

        A1 = lin_map([rot.whitener1.inverse_transform_components, rot.pca1.inverse_transform_components], f1, Q1[f1].values, pw)
        A2 = lin_map([rot.whitener2.inverse_transform_components, rot.pca2.inverse_transform_components], f2, Q2[f2].values, qw)
        P1 = rot.pca1.inverse_transform_components(rot.whitener1.inverse_transform_components(Q1))
        P2 = rot.pca2.inverse_transform_components(rot.whitener2.inverse_transform_components(Q2))
        pp_, qp_ = P1.sizes[f1], P2.sizes[f2]
        B1 = lin_map([rot.pca1.transform_components, rot.whitener1.transform_components], f1, P1[f1].values, pp_)
        B2 = lin_map([rot.pca2.transform_components, rot.whitener2.transform_components], f2, P2[f2].values, qp_)
        Rm = np.asarray(rot.data["rotation_matrix"].transpose("mode_m", "mode_n").values)
        RinvT = Rm if power == 1 else np.linalg.inv(Rm).conj().T
        m = int(rng.integers(1, 5))
        newA = (rng.normal(size=(m, p)) + (1j * rng.normal(size=(m, p)) if cplx else 0)) * np.abs(A).max()
        newB = (rng.normal(size=(m, q)) + (1j * rng.normal(size=(m, q)) if cplx else 0)) * np.abs(B).max()
        Xn, Yn = da2d(newA, "time", "x", s0=300), da2d(newB, "time", "y", s0=300)
        Xw = rot.whitener1.transform(rot.pca1.transform(rot.preprocessor1.transform(Xn)))
        Yw = rot.whitener2.transform(rot.pca2.transform(rot.preprocessor2.transform(Yn)))
        t1, t2 = rot.transform(X=Xn, Y=Yn)
        t1n = rot.transform(X=Xn, normalized=True)
        exp = {"comps1": rot.data["components1"].transpose(f1, "mode").values, "comps2": rot.data["components2"].transpose(f2, "mode").values,
               "scores1": rot.data["scores1"].transpose(sn, "mode").values, "scores2": rot.data["scores2"].transpose(sn, "mode").values,
               "norm1": rot.data["norm1"].values, "norm2": rot.data["norm2"].values, "sqcov": rot.data["squared_covariance"].values,
               "sgn": rot.data["modes_sign"].values, "tf1": t1.transpose("time", "mode").values, "tf2": t2.transpose("time", "mode").values,
               "tf1n": t1n.transpose("time", "mode").values}
        perm_exp = [int(v) for v in rot.data["idx_modes_sorted"].values]
        req = {"fn": "crot", "cplx": True, "realdata": not cplx, "n": n, "p": int(pp_), "q": int(qp_), "pw": int(pw), "qw": int(qw), "k": k, "m": m,
               "A1": cbits(A1), "A2": cbits(A2), "B1": cbits(B1), "B2": cbits(B2), "Q1": cbits(Q1.transpose(f1, "mode").values),
               "Q2": cbits(Q2.transpose(f2, "mode").values), "s": bits(model.data["singular_values"].sel(mode=slice(1, k)).values),
               "S1": cbits(model.data["scores1"].sel(mode=slice(1, k)).transpose(sn, "mode").values),
               "S2": cbits(model.data["scores2"].sel(mode=slice(1, k)).transpose(sn, "mode").values), "R": cbits(Rm), "RinvT": cbits(RinvT),
               "X": cbits(Xw.transpose(sn, f1).values), "Y": cbits(Yw.transpose(sn, f2).values)}
        shapes = {"comps1": (pw, k), "comps2": (qw, k), "scores1": (n, k), "scores2": (n, k), "norm1": (k,), "norm2": (k,), "sqcov": (k,), "sgn": (k,),
                  "tf1": (m, k), "tf2": (m, k), "tf1n": (m, k)}
        reqs.append(req)
        exps.append((exp, shapes, {"what": cls, "n": n, "p": p, "q": q, "k": k, "power": power, "pca": use_pca, "seed": seed, "case": i}, perm_exp))
    for (exp, shapes, small, perm_exp), ans in zip(exps, ask(reqs)):
        if ans.get("status") != "ok":
            R.cmp("status", False, small, ans, "ok")
            continue
        R.cmp("perm", ans["perm"] == perm_exp, small, ans["perm"], perm_exp)
        for key, shp in shapes.items():
            if key in ("norm1", "norm2", "sqcov", "sgn"):
                got = unbits(ans[key], shp)
                R.cmp(key, close(got, np.asarray(exp[key], dtype=float), 1e-7), small, got.ravel()[:4].tolist(), np.asarray(exp[key]).ravel()[:4].tolist())
            else:
                got = uncbits(ans[key], shp)
                R.cmp(key, cclose(got, exp[key], 1e-7), small, [str(z) for z in got.ravel()[:3]], [str(z) for z in np.asarray(exp[key]).ravel()[:3]])
    return R


# ----------------------------------------------------------------------------------------------------- Whitener / PCA
def corr_whitener(seed, tier):
    """preprocessing.Whitener (fit, transform, inverse_transform_data, transform_components, inverse_transform_components) and
    preprocessing.PCA (the four maps) against XM.whitenFit / whitenTransform / … and XM.pcaTransform / …: the model receives the
    decomposition of the covariance that `_fractional_matrix_power` obtained (spy on its `_SVD`), decides the retained directions
    with the generated cut-off rule and must reproduce the covariance handed to the solver, T, Tinv and all four maps; cases
    include collinear features (rank-deficient covariance) and alpha in {0, .25, .5, .75, random}."""
    import xeofs.linalg._numpy._utils as U_
    from xeofs.preprocessing.whitener import Whitener
    from xeofs.preprocessing.pca import PCA

    R = Result("whitener")
    rng = np.random.default_rng(13000 + seed)
    reqs, exps = [], []
    for i in range({"quick": 12, "thorough": 100, "search": 40}[tier]):
        n, p = int(rng.integers(10, 40)), int(rng.integers(2, 7))
        alpha = float(rng.choice([0.0, 0.25, 0.5, 0.75, float(rng.uniform(0, 0.99))]))
        D = rng.normal(size=(n, p)) @ np.diag(10.0 ** rng.uniform(-2, 2, size=p)) @ rng.normal(size=(p, p))
        kind = "full-rank"
        if i % 4 == 3 and p >= 3:
            D[:, -1] = D[:, 0] - 0.5 * D[:, 1]
            kind = "collinear"
        D = D - D.mean(axis=0)
        X = xr.DataArray(D, dims=("sample", "feature"), coords={"sample": np.arange(n), "feature": np.arange(p)})
        R.tally("covariance", kind)
        R.tally("alpha", round(alpha, 2))
        rec = {}
        orig = U_._SVD.fit_transform

        def spy(this, C):
            out = orig(this, C)
            rec["C"], rec["s"], rec["V"] = np.array(C), np.array(out[1]), np.array(out[2])
            return out

        U_._SVD.fit_transform = spy
        try:
            w = Whitener(alpha=alpha).fit(X)
        finally:
            U_._SVD.fit_transform = orig
        k, m = int(rng.integers(1, 4)), int(rng.integers(1, 5))
        Pm = rng.normal(size=(p, k))
        P = xr.DataArray(Pm, dims=("feature", "mode"), coords={"feature": np.arange(p), "mode": np.arange(1, k + 1)})
        Xn = xr.DataArray(rng.normal(size=(m, p)) * np.abs(D).max(), dims=("sample", "feature"), coords={"sample": np.arange(m), "feature": np.arange(p)})
        Z = w.transform(Xn)
        exp = {"cov": rec["C"], "T": w.T.transpose("feature", "mode").values, "Tinv": w.Tinv.transpose("mode", "feature").values,
               "transform": Z.transpose("sample", "feature").values, "inverse": w.inverse_transform_data(Z).transpose("sample", "feature").values,
               "tcomps": w.transform_components(P).transpose("feature", "mode").values,
               "icomps": w.inverse_transform_components(P).transpose("feature", "mode").values}
        req = {"fn": "whitener", "n": n, "p": p, "k": k, "m": m, "X": bits(D), "V": bits(rec["V"]), "s": bits(rec["s"]), "alpha": f2b(alpha),
               "P": bits(Pm), "Xn": bits(Xn.values)}
        reqs.append(req)
        exps.append((req, exp, (p, k, m), kind))
    for (req, exp, (p, k, m), kind), ans in zip(exps, ask(reqs)):
        small = {kk: req[kk] for kk in ("n", "p", "k", "m")}
        small.update(alpha=b2f(req["alpha"]), seed=seed, covariance=kind)
        scale = {"T": 1e-7, "Tinv": 1e-7}
        for key, shp in {"cov": (p, p), "T": (p, p), "Tinv": (p, p), "transform": (m, p), "inverse": (m, p), "tcomps": (p, k), "icomps": (p, k)}.items():
            got = unbits(ans[key], shp)
            R.cmp(key, close(got, np.asarray(exp[key], dtype=float), 1e-7), small, got.ravel()[:6].tolist(), np.asarray(exp[key]).ravel()[:6].tolist())
    # PCA maps
    reqs, exps = [], []
    for i in range({"quick": 8, "thorough": 60, "search": 30}[tier]):
        n, p = int(rng.integers(12, 40)), int(rng.integers(3, 8))
        D = rng.normal(size=(n, p)) @ rng.normal(size=(p, p))
        D = D - D.mean(axis=0)
        X = xr.DataArray(D, dims=("sample", "feature"), coords={"sample": np.arange(n), "feature": np.arange(p)})
        k = int(rng.integers(1, p + 1))
        pca = PCA(n_modes=k, init_rank_reduction=1.0, random_state=1, compute_eagerly=True)
        pca.solver = "full" if hasattr(pca, "solver") else None
        pca.fit(X)
        V = pca.V.transpose("feature", "mode").values
        m, r = int(rng.integers(1, 5)), int(rng.integers(1, 4))
        Xn = xr.DataArray(rng.normal(size=(m, p)), dims=("sample", "feature"), coords={"sample": np.arange(m), "feature": np.arange(p)})
        Pm = rng.normal(size=(p, r))
        P = xr.DataArray(Pm, dims=("feature", "mode"), coords={"feature": np.arange(p), "mode": np.arange(1, r + 1)})
        Z = pca.transform(Xn)
        Q = pca.transform_components(P)
        exp = {"transform": Z.transpose("sample", "feature").values, "inverse": pca.inverse_transform_data(Z).transpose("sample", "feature").values,
               "tcomps": Q.transpose("feature", "mode").values, "icomps": pca.inverse_transform_components(Q).transpose("feature", "mode").values}
        req = {"fn": "pca", "p": p, "k": int(V.shape[1]), "m": m, "r": r, "V": bits(V), "Xn": bits(Xn.values), "P": bits(Pm)}
        reqs.append(req)
        exps.append((req, exp, (p, int(V.shape[1]), m, r)))
        R.tally("pca_k_over_p", "full" if V.shape[1] == p else "truncated")
    for (req, exp, (p, k, m, r)), ans in zip(exps, ask(reqs)):
        small = {kk: req[kk] for kk in ("p", "k", "m", "r")}
        for key, shp in {"transform": (m, k), "inverse": (m, p), "tcomps": (k, r), "icomps": (p, r)}.items():
            got = unbits(ans[key], shp)
            R.cmp("pca_" + key, close(got, np.asarray(exp[key], dtype=float), 1e-9), small, got.ravel()[:6].tolist(), np.asarray(exp[key]).ravel()[:6].tolist())
    return R


# ----------------------------------------------------------------------------------------------------- complex-valued twins
def cbits(a):
    a = np.asarray(a, dtype=complex).ravel()
    out = []
    for z in a:
        out.append(f2b(z.real))
        out.append(f2b(z.imag))
    return out


def uncbits(l, shape=None):
    v = np.array([b2f(x) for x in l], dtype=float)
    a = v[0::2] + 1j * v[1::2]
    return a.reshape(shape) if shape is not None else a


def cclose(a, b, tol=TOL):
    a, b = np.asarray(a, dtype=complex), np.asarray(b, dtype=complex)
    if a.shape != b.shape:
        return False
    if a.size == 0:
        return True
    return bool(np.max(np.abs(a - b)) <= tol * max(1.0, np.max(np.abs(a)), np.max(np.abs(b))))


def _cfield(rng, n, p):
    return (rng.normal(size=(n, p)) + 1j * rng.normal(size=(n, p))) @ (rng.normal(size=(p, p)) + 1j * rng.normal(size=(p, p)))


def corr_complex(seed, tier):
    """the SAME polymorphic model definitions instantiated at complex doubles (`XM.CF`) against the complex code paths:
    ComplexEOF (fit / transform / inverse in preprocessed space, incl. the sign rule for complex data), the CPCCA core of
    ComplexMCA/CCA/RDA/CPCCA, the Whitener and the PCA maps on complex data, ComplexEOFRotator (Varimax and Promax).
    This is where a dropped or misplaced conjugation shows up in Tie B."""
    import xeofs.linalg._numpy._utils as U_
    from xeofs.preprocessing.whitener import Whitener
    from xeofs.preprocessing.pca import PCA

    R = Result("complex")
    rng = np.random.default_rng(14000 + seed)
    N = {"quick": 6, "thorough": 40, "search": 20}[tier]

    def cmp_all(ans, exp, shapes, small, real_keys=(), tol=1e-7):
        if ans.get("status") != "ok":
            R.cmp("status", False, small, ans, "ok")
            return
        for key, shp in shapes.items():
            if key in real_keys:
                got = unbits(ans[key], shp)
                R.cmp(small["what"] + ":" + key, close(got, np.asarray(exp[key], dtype=float), tol), small, got.ravel()[:4].tolist(), np.asarray(exp[key]).ravel()[:4].tolist())
            else:
                got = uncbits(ans[key], shp)
                R.cmp(small["what"] + ":" + key, cclose(got, exp[key], tol), small, [str(z) for z in got.ravel()[:3]], [str(z) for z in np.asarray(exp[key]).ravel()[:3]])

    # ---- ComplexEOF
    reqs, exps = [], []
    for i in range(N):
        n, p = int(rng.integers(6, 14)), int(rng.integers(2, 6))
        k = int(rng.integers(1, min(n - 1, p) + 1))
        X = da2d(_cfield(rng, n, p), "time", "x")
        with _SvdSpy() as spy, warnings.catch_warnings():
            warnings.simplefilter("ignore")
            model = xe.single.ComplexEOF(n_modes=k, solver="full", center=bool(i % 2)).fit(X, "time")
        U, s_, VT = spy.calls[-1]
        r = s_.size
        sn, fn = model.sample_name, model.feature_name
        m = int(rng.integers(1, 4))
        Xn = rng.normal(size=(m, p)) + 1j * rng.normal(size=(m, p))
        Xn_da = xr.DataArray(Xn, dims=[sn, fn], coords={sn: np.arange(m), fn: model.data["components"].coords[fn]})
        tf = model._transform_algorithm(Xn_da)
        exp = {"comps": model.data["components"].transpose(fn, "mode").values, "scores": model.data["scores"].transpose(sn, "mode").values,
               "expvar": model.data["explained_variance"].values, "ratio": model.explained_variance_ratio().values,
               "transform": tf.transpose(sn, "mode").values, "inverse": model._inverse_transform_algorithm(tf).transpose(sn, fn).values}
        req = {"fn": "eof", "cplx": True, "n": n, "p": p, "r": int(r), "k": k, "U": cbits(U[:, :r]), "s": bits(s_), "V": cbits(VT[:r, :].conj().T),
               "VTt": cbits(VT[:r, :].T), "total": f2b(float(np.real(model.data["total_variance"].values))), "m": m, "X": cbits(Xn)}
        reqs.append(req)
        exps.append((exp, {"comps": (p, k), "scores": (n, k), "expvar": (k,), "ratio": (k,), "transform": (m, k), "inverse": (m, p)},
                     {"what": "ComplexEOF", "n": n, "p": p, "k": k, "seed": seed}))
        R.tally("twin", "ComplexEOF")
    for (exp, shapes, small), ans in zip(exps, ask(reqs)):
        cmp_all(ans, exp, shapes, small, real_keys=("expvar", "ratio"))

    # ---- complex CPCCA core
    reqs, exps = [], []
    for i in range(N):
        n, p, q = int(rng.integers(12, 24)), int(rng.integers(2, 5)), int(rng.integers(2, 5))
        cls = ["ComplexCPCCA", "ComplexMCA", "ComplexCCA", "ComplexRDA"][i % 4]
        A = _cfield(rng, n, p)
        B = _cfield(rng, n, q) + A[:, :1] * (rng.normal(size=(1, q)) + 1j * rng.normal(size=(1, q)))
        k = int(rng.integers(1, min(p, q) + 1))
        cfg = dict(n_modes=k, use_pca=bool(i % 3 == 0), n_pca_modes="all", solver="full")
        if cls == "ComplexCPCCA":
            cfg["alpha"] = [0.5, 0.0]
        with _SvdSpy() as spy, warnings.catch_warnings():
            warnings.simplefilter("ignore")
            model = getattr(xe.cross, cls)(**cfg).fit(da2d(A, "time", "x"), da2d(B, "time", "y"), "time")
        U, s_, VT = spy.calls[-1]
        Cin = spy.inputs[-1]
        sn, f1, f2 = model.sample_name, model.feature_name[0], model.feature_name[1]
        Xw = model.data["input_data1"].transpose(sn, f1).values
        Yw = model.data["input_data2"].transpose(sn, f2).values
        pw, qw, r = Xw.shape[1], Yw.shape[1], s_.size
        m = int(rng.integers(1, 4))
        Xn = (rng.normal(size=(m, pw)) + 1j * rng.normal(size=(m, pw))) * np.abs(Xw).max()
        Xn_da = xr.DataArray(Xn, dims=[sn, f1], coords={sn: np.arange(100, 100 + m), f1: model.data["input_data1"].coords[f1]})
        t0 = model._transform_algorithm(X=Xn_da, normalized=False)["X"]
        t1 = model._transform_algorithm(X=Xn_da, normalized=True)["X"]
        d = model.data
        exp = {"crosscov": Cin, "comps1": d["components1"].transpose(f1, "mode").values, "comps2": d["components2"].transpose(f2, "mode").values,
               "scores1": d["scores1"].transpose(sn, "mode").values, "scores2": d["scores2"].transpose(sn, "mode").values,
               "svals": d["singular_values"].values, "sqcov": d["squared_covariance"].values, "norm1": d["norm1"].values, "norm2": d["norm2"].values,
               "transform1": t0.transpose(sn, "mode").values, "transform1n": t1.transpose(sn, "mode").values,
               "inverse1": model._inverse_transform_algorithm(X=t0)["X"].transpose(sn, f1).values}
        req = {"fn": "cpcca", "cplx": True, "n": n, "p": pw, "q": qw, "r": int(r), "k": k, "X": cbits(Xw), "Y": cbits(Yw), "Q1": cbits(U[:, :r]), "s": bits(s_),
               "Q2": cbits(VT[:r, :].conj().T), "VTt": cbits(VT[:r, :].T), "m": m, "Xn": cbits(Xn)}
        reqs.append(req)
        exps.append((exp, {"crosscov": (pw, qw), "comps1": (pw, k), "comps2": (qw, k), "scores1": (n, k), "scores2": (n, k), "svals": (k,), "sqcov": (k,),
                           "norm1": (k,), "norm2": (k,), "transform1": (m, k), "transform1n": (m, k), "inverse1": (m, pw)},
                     {"what": cls, "n": n, "p": pw, "q": qw, "k": k, "seed": seed}))
        R.tally("twin", cls)
    for (exp, shapes, small), ans in zip(exps, ask(reqs)):
        cmp_all(ans, exp, shapes, small, real_keys=("svals", "sqcov", "norm1", "norm2"), tol=1e-7)

    # ---- Whitener and PCA on complex data
    reqs, exps = [], []
    for i in range(N):
        n, p = int(rng.integers(10, 30)), int(rng.integers(2, 6))
        alpha = float(rng.choice([0.0, 0.25, 0.5, 0.75]))
        D = _cfield(rng, n, p)
        D = D - D.mean(axis=0)
        X = xr.DataArray(D, dims=("sample", "feature"), coords={"sample": np.arange(n), "feature": np.arange(p)})
        rec = {}
        orig = U_._SVD.fit_transform

        def spy2(this, C):
            out = orig(this, C)
            rec["C"], rec["s"], rec["V"] = np.array(C), np.array(out[1]), np.array(out[2])
            return out

        U_._SVD.fit_transform = spy2
        try:
            w = Whitener(alpha=alpha).fit(X)
        finally:
            U_._SVD.fit_transform = orig
        k, m = int(rng.integers(1, 4)), int(rng.integers(1, 4))
        Pm = rng.normal(size=(p, k)) + 1j * rng.normal(size=(p, k))
        P = xr.DataArray(Pm, dims=("feature", "mode"), coords={"feature": np.arange(p), "mode": np.arange(1, k + 1)})
        Xn = xr.DataArray(rng.normal(size=(m, p)) + 1j * rng.normal(size=(m, p)), dims=("sample", "feature"), coords={"sample": np.arange(m), "feature": np.arange(p)})
        Z = w.transform(Xn)
        exp = {"cov": rec["C"], "T": w.T.transpose("feature", "mode").values, "Tinv": w.Tinv.transpose("mode", "feature").values,
               "transform": Z.transpose("sample", "feature").values, "inverse": w.inverse_transform_data(Z).transpose("sample", "feature").values,
               "tcomps": w.transform_components(P).transpose("feature", "mode").values, "icomps": w.inverse_transform_components(P).transpose("feature", "mode").values}
        reqs.append({"fn": "whitener", "cplx": True, "n": n, "p": p, "k": k, "m": m, "X": cbits(D), "V": cbits(rec["V"]), "s": bits(rec["s"]), "alpha": f2b(alpha),
                     "P": cbits(Pm), "Xn": cbits(Xn.values)})
        exps.append((exp, {"cov": (p, p), "T": (p, p), "Tinv": (p, p), "transform": (m, p), "inverse": (m, p), "tcomps": (p, k), "icomps": (p, k)},
                     {"what": "Whitener", "n": n, "p": p, "alpha": alpha, "seed": seed}))
        R.tally("twin", "Whitener(complex)")
        # PCA
        kk = int(rng.integers(1, p + 1))
        pca = PCA(n_modes=kk, init_rank_reduction=1.0, random_state=1, compute_eagerly=True)
        pca.fit(X)
        V = pca.V.transpose("feature", "mode").values
        r_ = int(rng.integers(1, 4))
        Pm2 = rng.normal(size=(p, r_)) + 1j * rng.normal(size=(p, r_))
        P2 = xr.DataArray(Pm2, dims=("feature", "mode"), coords={"feature": np.arange(p), "mode": np.arange(1, r_ + 1)})
        Z2 = pca.transform(Xn)
        Q2 = pca.transform_components(P2)
        exp2 = {"transform": Z2.transpose("sample", "feature").values, "inverse": pca.inverse_transform_data(Z2).transpose("sample", "feature").values,
                "tcomps": Q2.transpose("feature", "mode").values, "icomps": pca.inverse_transform_components(Q2).transpose("feature", "mode").values}
        reqs.append({"fn": "pca", "cplx": True, "p": p, "k": int(V.shape[1]), "m": m, "r": r_, "V": cbits(V), "Xn": cbits(Xn.values), "P": cbits(Pm2)})
        exps.append((exp2, {"transform": (m, V.shape[1]), "inverse": (m, p), "tcomps": (V.shape[1], r_), "icomps": (p, r_)},
                     {"what": "PCA", "p": p, "k": int(V.shape[1]), "seed": seed}))
        R.tally("twin", "PCA(complex)")
    for (exp, shapes, small), ans in zip(exps, ask(reqs)):
        cmp_all(ans, exp, shapes, small, tol=1e-7)

    # ---- ComplexEOFRotator
    reqs, exps = [], []
    for i in range(N):
        n, p = int(rng.integers(12, 24)), int(rng.integers(3, 6))
        k = int(rng.integers(2, p + 1))
        power = [1, 2][i % 2]
        X = da2d(_cfield(rng, n, p), "time", "x")
        try:
            with warnings.catch_warnings():
                warnings.simplefilter("ignore")
                eof = xe.single.ComplexEOF(n_modes=p, solver="full").fit(X, "time")
                rot = xe.single.ComplexEOFRotator(n_modes=k, power=power, max_iter=5000, rtol=1e-10).fit(eof)
        except RuntimeError:
            R.tally("skipped", "rotation did not converge")
            continue
        sn, fn = eof.sample_name, eof.feature_name
        comps0 = eof.data["components"].sel(mode=slice(1, k)).transpose(fn, "mode").values
        scores0 = eof.data["scores"].sel(mode=slice(1, k)).transpose(sn, "mode").values
        expvar0 = eof.explained_variance().sel(mode=slice(1, k)).values
        svals0 = eof.data["norms"].sel(mode=slice(1, k)).values
        Rm = np.asarray(rot.data["rotation_matrix"].transpose("mode_m", "mode_n").values)
        RinvT = Rm if power == 1 else np.linalg.inv(Rm).conj().T
        m = int(rng.integers(1, 4))
        X2 = rot.preprocessor.transform(da2d(_cfield(rng, m, p), "time", "x", s0=200))
        tf = rot._transform_algorithm(X2)
        exp = {"comps": rot.data["components"].transpose(fn, "mode").values, "scores": rot.data["scores"].transpose(sn, "mode").values,
               "expvar": rot.data["explained_variance"].values, "norms": rot.data["norms"].values, "sgn": rot.data["modes_sign"].values,
               "transform": tf.transpose(sn, "mode").values, "inverse": rot._inverse_transform_algorithm(tf).transpose(sn, fn).values}
        perm_exp = [int(v) for v in rot.data["idx_modes_sorted"].values]
        reqs.append({"fn": "rotator", "cplx": True, "n": n, "p": p, "k": k, "m": m, "power": power, "comps0": cbits(comps0), "scores0": cbits(scores0),
                     "expvar0": bits(expvar0), "svals0": bits(svals0), "R": cbits(Rm), "RinvT": cbits(RinvT), "X": cbits(X2.transpose(sn, fn).values)})
        exps.append((exp, {"comps": (p, k), "scores": (n, k), "expvar": (k,), "norms": (k,), "sgn": (k,), "transform": (m, k), "inverse": (m, p)},
                     {"what": "ComplexEOFRotator", "n": n, "p": p, "k": k, "power": power, "seed": seed}, perm_exp))
        R.tally("twin", f"ComplexEOFRotator(power={power})")
    for (exp, shapes, small, perm_exp), ans in zip(exps, ask(reqs)):
        if ans.get("status") == "ok":
            R.cmp(small["what"] + ":perm", ans["perm"] == perm_exp, small, ans["perm"], perm_exp)
        cmp_all(ans, exp, shapes, small, real_keys=("expvar", "norms", "sgn"), tol=1e-6)
    return R


# ----------------------------------------------------------------------------------------------------- bootstrap members
def corr_bootstrap(seed, tier):
    """EOFBootstrapper.fit against XM.bootMember: the indices are re-drawn with numpy's Generator from the bootstrapper's seed
    (oracle), the SVD factors of every member are recorded from the solver, and the model must reproduce the matrix handed to
    the solver (the centred resample), member components, scores (projection of the ORIGINAL samples, sign-aligned with the
    model's scores), explained variances and total variance."""
    R = Result("bootstrap")
    rng = np.random.default_rng(15000 + seed)
    reqs, exps = [], []
    for i in range({"quick": 4, "thorough": 24, "search": 10}[tier]):
        n, p = int(rng.integers(8, 20)), int(rng.integers(2, 6))
        k = int(rng.integers(1, min(n - 1, p) + 1))
        nb = int(rng.integers(1, 4))
        bseed = int(rng.choice([0, 1, int(rng.integers(2, 10**6))]))
        A = rng.normal(size=(n, p)) @ rng.normal(size=(p, p)) + rng.normal(size=(1, p)) * 3
        std = bool(i % 2)
        model = xe.single.EOF(n_modes=k, solver="full", standardize=std).fit(da2d(A, "time", "x"), "time")
        sn, fn = model.sample_name, model.feature_name
        D = np.asarray(model.data["input_data"].transpose(sn, fn).values, dtype=float)
        Ms = np.asarray(model.data["scores"].transpose(sn, "mode").values, dtype=float)
        with _SvdSpy() as spy, warnings.catch_warnings():
            warnings.simplefilter("ignore")
            b = xe.validation.EOFBootstrapper(n_bootstraps=nb, seed=bseed)
            b.fit(model)
        g = np.random.default_rng(bseed)
        R.tally("seed", "0" if bseed == 0 else ("1" if bseed == 1 else "other"))
        R.tally("standardize", std)
        if len(spy.calls) != nb:
            R.cmp("one-decomposition-per-member", False, {"nb": nb}, len(spy.calls), nb)
            continue
        for mi in range(nb):
            idx = g.choice(n, n, replace=True)
            U, s_, VT = spy.calls[mi]
            r = s_.size
            exp = {"decomposed": spy.inputs[mi], "comps": b.data["components"].isel(n=mi).transpose(fn, "mode").values,
                   "scores": b.data["scores"].isel(n=mi).transpose(sn, "mode").values,
                   "expvar": b.data["explained_variance"].isel(n=mi).values, "total": float(b.data["total_variance"].isel(n=mi).values)}
            req = {"fn": "boot", "n": n, "p": p, "r": int(r), "k": k, "D": bits(D), "idx": [int(v) for v in idx], "U": bits(U[:, :r]), "s": bits(s_),
                   "V": bits(VT[:r, :].T), "model_scores": bits(Ms)}
            reqs.append(req)
            exps.append((exp, (n, p, k), {"n": n, "p": p, "k": k, "member": mi, "bootstrap_seed": bseed, "seed": seed}))
    for (exp, (n, p, k), small), ans in zip(exps, ask(reqs)):
        if ans.get("status") != "ok":
            R.cmp("status", False, small, ans, "ok")
            continue
        for key, shp in {"decomposed": (n, p), "comps": (p, k), "scores": (n, k), "expvar": (k,)}.items():
            got = unbits(ans[key], shp)
            R.cmp(key, close(got, np.asarray(exp[key], dtype=float), 1e-8), small, got.ravel()[:5].tolist(), np.asarray(exp[key]).ravel()[:5].tolist())
        R.cmp("total_variance", close(np.array([b2f(ans["total"])]), np.array([exp["total"]]), 1e-9), small, b2f(ans["total"]), exp["total"])
    return R


# ----------------------------------------------------------------------------------------------------- OPA
def corr_opa(seed, tier):
    """OPA.fit against XM.opaFit: the model receives the scaled PCs / EOFs of OPA's inner PCA, numpy's inverse of `C0_sqrt` and the
    eigen-pairs `eigh` returned (spies), and must reproduce the zero-lag covariance, THE MATRIX HANDED TO `eigh` (lag sum with the
    generated weights and denominators), filter patterns, optimally persistent patterns, their time series, norms and the
    reported decorrelation times, for tau_max from 0 upwards."""
    R = Result("opa")
    rng = np.random.default_rng(16000 + seed)
    reqs, exps = [], []
    for i in range({"quick": 6, "thorough": 40, "search": 20}[tier]):
        n, p = int(rng.integers(20, 50)), int(rng.integers(3, 7))
        q = int(rng.integers(2, min(p, 5) + 1))
        k = int(rng.integers(1, q + 1))
        tau_max = int([0, 1, 2, 3, 5, 8][i % 6])
        A = np.zeros((n, p))
        phi = np.linspace(0.9, -0.5, p)
        e = rng.normal(size=(n, p))
        for t in range(1, n):
            A[t] = phi * A[t - 1] + e[t]
        A = A @ rng.normal(size=(p, p))
        wave = i % 3 == 2
        if wave:
            # two propagating waves sampled over whole periods: pairs of PCs with EQUAL variance, so the decomposition of the zero-lag
            # covariance is an arbitrary rotation inside each pair and its inverse square root is NOT symmetric
            n, p, q = int([240, 120][i % 2]), int([16, 12][i % 2]), 4
            k = int(rng.integers(1, q + 1))
            tt, xx = np.arange(n)[:, None], np.arange(p)[None, :]
            ph = rng.uniform(0, 2 * np.pi, size=2)
            A = np.cos(2 * np.pi * (xx / p - tt / 24) + ph[0]) + 0.5 * np.cos(2 * np.pi * (2 * xx / p - tt / 60) + ph[1])
        rec = {"inv": [], "eigh": []}
        o_inv, o_eigh = np.linalg.inv, np.linalg.eigh

        def inv_spy(M, *a, **kw):
            out = o_inv(M, *a, **kw)
            rec["inv"].append((np.array(M), np.array(out)))
            return out

        def eigh_spy(M, *a, **kw):
            out = o_eigh(M, *a, **kw)
            rec["eigh"].append((np.array(M), np.array(out[0]), np.array(out[1])))
            return out

        np.linalg.inv, np.linalg.eigh = inv_spy, eigh_spy
        try:
            with warnings.catch_warnings():
                warnings.simplefilter("ignore")
                m = xe.single.OPA(n_modes=k, tau_max=tau_max, n_pca_modes=q, solver="full").fit(da2d(A, "time", "x"), "time")
        finally:
            np.linalg.inv, np.linalg.eigh = o_inv, o_eigh
        sn, fn = m.sample_name, m.feature_name
        S = np.asarray(m.data["input_data"].transpose(sn, fn).values, dtype=float)  # the scaled PCs (stored as input data)
        target_in, evals, evecs = rec["eigh"][-1]
        order = np.argsort(evals)[::-1][:k]
        Ue, lam = evecs[:, order], evals[order]
        Cinv = rec["inv"][-1][1]
        # scaled EOFs: filter patterns = comps @ V with V = Cinv @ Ue  ->  recover comps from the inner PCA through its definition
        Xc = A - A.mean(axis=0)
        Us, ss, Vt = np.linalg.svd(Xc, full_matrices=False)
        # orientation of the inner PCA follows its own sign rule; read it off the stored PCs instead of re-deriving it
        Cmat = (np.linalg.pinv(S) @ Xc).T  # p x q :  Xc ~ S @ Cmat.T  (exact when all retained PCs are used)
        R.tally("tau_max", tau_max)
        R.tally("k_over_q", "full" if k == q else "truncated")
        R.tally("inverse_factor", "symmetric" if np.abs(Cinv - Cinv.T).max() <= 1e-9 * np.abs(Cinv).max() else "NOT symmetric (degenerate PCs)")
        exp = {"C0": rec["inv"][-1][0] @ rec["inv"][-1][0].T if False else None, "target": target_in,
               "filter": m.data["filter_patterns"].transpose(fn, "mode").values, "comps": m.data["components"].transpose(fn, "mode").values,
               "scores": m.data["scores"].transpose(sn, "mode").values, "norms": m.data["norms"].values, "decorr": m.data["decorrelation_time"].values}
        req = {"fn": "opa", "n": n, "p": p, "q": q, "k": k, "tau_max": tau_max, "S": bits(S), "C": bits(Cmat), "Cinv": bits(Cinv), "Ue": bits(Ue), "lam": bits(lam)}
        reqs.append(req)
        exps.append((exp, (n, p, q, k), {"n": n, "p": p, "q": q, "k": k, "tau_max": tau_max, "seed": seed}, S))
    for (exp, (n, p, q, k), small, S), ans in zip(exps, ask(reqs)):
        if ans.get("status") != "ok":
            R.cmp("status", False, small, ans, "ok")
            continue
        C0 = unbits(ans["C0"], (q, q))
        R.cmp("C0", close(C0, S.T @ S / (n - 1), 1e-9), small, C0.ravel()[:4].tolist(), (S.T @ S / (n - 1)).ravel()[:4].tolist())
        for key, shp in {"target": (q, q), "filter": (p, k), "comps": (p, k), "scores": (n, k), "norms": (k,), "decorr": (k,)}.items():
            got = unbits(ans[key], shp)
            R.cmp(key, close(got, np.asarray(exp[key], dtype=float), 1e-7), small, got.ravel()[:5].tolist(), np.asarray(exp[key]).ravel()[:5].tolist())
    return R


# ----------------------------------------------------------------------------------------------------- multi.CCA
def corr_mcca(seed, tier):
    """xeofs.multi.CCA.fit / transform (2–4 views, with and without the PCA option, ridge parameters c) against XM.mccaC / mccaD /
    mccaDpca / mccaFit / mccaTransform: the model receives what enters `_fit_algorithm` (the preprocessed views or their PC scores),
    the stored input data, the PCA patterns (way back from PC space), scipy's eigen-pairs `eigh(C, D)` and the smallest block
    eigenvalue (spies) and must reproduce THE TWO MATRICES HANDED TO `eigh`, the descending eigenvalues, weights per view in feature
    space, loadings, variates, canonical loadings, explained variances and `transform` of new data for every view."""
    import xeofs.multi.cca as mc

    R = Result("mcca")
    rng = np.random.default_rng(23000 + seed)
    reqs, exps = [], []
    for i in range({"quick": 8, "thorough": 40, "search": 24}[tier]):
        nv = int([2, 3, 2, 4][i % 4])
        pca = bool(i % 2)
        n = int(rng.integers(25, 45))
        ps = [int(rng.integers(3, 7)) for _ in range(nv)]
        k = int(rng.integers(1, 3)) if not pca else int(rng.integers(1, 3))
        cs = [0.0] * nv if i % 3 == 0 else [float(rng.choice([0.0, 0.1, 0.5])) for _ in range(nv)]
        if i % 5 == 4:
            cs = [1.0] * nv
        common = rng.normal(size=(n, 2))
        views = []
        for v, p in enumerate(ps):
            A = common @ rng.normal(size=(2, p)) + 0.7 * rng.normal(size=(n, p)) + rng.normal(size=p) * 3
            A = A * (10.0 ** rng.integers(-1, 2))
            views.append(xr.DataArray(A, dims=("time", f"x{v}"), coords={"time": np.arange(n), f"x{v}": np.arange(p) * 1.5}))
        rec = {"eigh": [], "vals": []}
        o_eigh, o_vals = mc.eigh, np.linalg.eigvalsh

        def eigh_spy(a, b, **kw):
            out = o_eigh(a, b, **kw)
            rec["eigh"].append((np.array(a), np.array(b), np.array(out[0]), np.array(out[1]), dict(kw)))
            return out

        def vals_spy(M, *a, **kw):
            out = o_vals(M, *a, **kw)
            rec["vals"].append(np.array(out))
            return out

        mc.eigh, np.linalg.eigvalsh = eigh_spy, vals_spy
        try:
            model = xe.multi.CCA(n_modes=k, c=cs, pca=pca, variance_fraction=0.9, init_pca_modes=1.0, eps=1e-6)
            model.fit(views, "time")
        finally:
            mc.eigh, np.linalg.eigvalsh = o_eigh, o_vals
        sn, fn = model.sample_name, model.feature_name
        phys = [np.asarray(d.transpose(sn, fn).values, dtype=float) for d in model.data["input_data"]]
        pcs = [np.asarray(d.transpose(sn, fn).values, dtype=float) for d in model.data["pca_data"]]
        Xphys, Xpc = np.hstack(phys), np.hstack(pcs)
        blkQ = sum([[v] * a.shape[1] for v, a in enumerate(phys)], [])
        blkP = sum([[v] * a.shape[1] for v, a in enumerate(pcs)], [])
        Q, P = len(blkQ), len(blkP)
        B = np.zeros((Q, P))
        expvar = np.zeros(P)
        if pca:
            oq = op = 0
            for v, pm in enumerate(model.pca_models):
                nk = pcs[v].shape[1]
                comp = np.asarray(pm.data["components"].transpose(fn, "mode").values, dtype=float)[:, :nk]
                B[oq:oq + comp.shape[0], op:op + nk] = comp
                expvar[op:op + nk] = np.asarray(pm.explained_variance().values, dtype=float)[:nk]
                oq += comp.shape[0]
                op += nk
        else:
            B = np.eye(Q)
        a_in, b_in, evals, evecs, kw = rec["eigh"][-1]
        lmin = min(0.0, float(rec["vals"][-1].min()))
        shift = lmin - 1e-6
        new = [rng.normal(size=(5, p)) for p in ps]
        newv = [xr.DataArray(a, dims=("time", f"x{v}"), coords={"time": np.arange(5) + 100, f"x{v}": np.arange(a.shape[1]) * 1.5}) for v, a in enumerate(new)]
        tf = model.transform(newv)
        # what `transform` sees after preprocessing: the same centring as at fit
        newpre = [np.asarray(model.preprocessors[v].transform(newv[v]).transpose(sn, fn).values, dtype=float) for v in range(nv)]
        R.tally("views", nv)
        R.tally("pca", pca)
        R.tally("c", "ridge" if any(cs) else "zero")
        R.tally("pc_features", P)
        small = {"nv": nv, "n": n, "ps": ps, "k": k, "c": cs, "pca": pca, "seed": seed, "i": i}
        exp = {"C": a_in, "D": b_in, "lam": np.asarray(model.eigvals.values, dtype=float),
               "weights": [np.asarray(w.transpose(fn, "mode").values, dtype=float) for w in model.data["weights"]],
               "loadings": [np.asarray(w.transpose(fn, "mode").values, dtype=float) for w in model.data["loadings"]],
               "variates": [np.asarray(w.transpose(sn, "mode").values, dtype=float) for w in model.data["variates"]],
               "canload": [np.asarray(w.transpose(fn, "mode").values, dtype=float) for w in model.data["canonical_loadings"]],
               "expvar": [np.asarray(w.values, dtype=float) for w in model.data["explained_variance"]],
               "transform": [np.asarray(t.transpose("time", "mode").values, dtype=float) for t in tf],
               "subset": kw.get("subset_by_index")}
        reqs.append({"fn": "mcca", "n": n, "P": P, "Q": Q, "k": k, "nv": nv, "m": 5, "blkP": blkP, "blkQ": blkQ, "Xpc": bits(Xpc), "Xphys": bits(Xphys),
                     "B": bits(B), "c": bits(cs), "lmin": f2b(lmin), "eps": f2b(1e-6), "pca": pca, "expvar": bits(expvar), "E": bits(evecs), "lam0": bits(evals),
                     "Xnew": bits(np.hstack(newpre))})
        exps.append((exp, small, (n, P, Q, k, nv), blkQ))
    for (exp, small, (n, P, Q, k, nv), blkQ), ans in zip(exps, ask(reqs)):
        if ans.get("status") != "ok":
            R.cmp("status", False, small, ans, "ok")
            continue
        R.cmp("subset_by_index", list(exp["subset"]) == list(ans["subset"]), small, ans["subset"], exp["subset"])
        scaleC = max(1.0, float(np.abs(exp["D"]).max()))
        for key in ("C", "D"):
            got = unbits(ans[key], (P, P))
            R.cmp(key, bool(np.max(np.abs(got - exp[key])) <= 1e-9 * scaleC), small, got.ravel()[:5].tolist(), exp[key].ravel()[:5].tolist())
        got = unbits(ans["lam"], (k,))
        R.cmp("lam", close(got, exp["lam"], 1e-12), small, got.tolist(), exp["lam"].tolist())
        if nv == 2 and not small["pca"] and not any(small["c"]):
            # what the theorem `mcca_two_view_eigenvalue_is_canonical_correlation` concludes, on the model's own variates: equal variances and
            # correlation = eigenvalue (up to the `eps` shift of D, relative to the smallest variance of the data)
            v0, v1 = unbits(ans["variates"][0], (n, k)), unbits(ans["variates"][1], (n, k))
            cor = np.array([np.corrcoef(v0[:, j], v1[:, j])[0, 1] for j in range(k)])
            var_ratio = v0.var(axis=0) / v1.var(axis=0)
            tol_eps = 1e-6 / max(min(float(np.var(exp["transform"][0])), 1.0), 1e-12) * 10 + 1e-6
            R.cmp("two_view_eigenvalue_is_correlation", bool(np.abs(cor - got).max() <= max(1e-4, tol_eps) and np.abs(var_ratio - 1).max() <= max(1e-3, 10 * tol_eps)),
                  small, {"corr": cor.tolist(), "var_ratio": var_ratio.tolist()}, got.tolist())
        W = unbits(ans["weights"], (Q, k))
        blk = np.array(blkQ)
        for v in range(nv):
            sel = blk == v
            R.cmp("weights", close(W[sel], exp["weights"][v], 1e-8), small, W[sel].ravel()[:5].tolist(), exp["weights"][v].ravel()[:5].tolist())
            for key, shp, rows in (("loadings", (Q, k), True), ("canload", (Q, k), True), ("variates", (n, k), False), ("transform", (5, k), False)):
                got = unbits(ans[key][v], shp)
                if rows:
                    R.cmp(key + "_outside_view_zero", bool(np.all(got[~sel] == 0)), small, None, None)
                    got = got[sel]
                R.cmp(key, close(got, exp[key][v], 1e-7), small, got.ravel()[:5].tolist(), exp[key][v].ravel()[:5].tolist())
            got = unbits(ans["expvar"][v], (k,))
            R.cmp("expvar", close(got, exp["expvar"][v], 1e-8), small, got.tolist(), exp["expvar"][v].tolist())
    return R


# ----------------------------------------------------------------------------------------------------- POP
def corr_pop(seed, tier):
    """POP.fit (no PCA pre-reduction) against XM.popFeedback / popCoeff / popFit at complex doubles: numpy's inverse of X0ᴴX0, the
    eigen-pairs of the feedback matrix, the 2×2 pseudo-inverses and `angle` are recorded from inside xeofs (oracles); the model must
    reproduce THE MATRIX HANDED TO `eig` (feedback matrix), the 2×2 systems handed to `pinv`, POP coefficients, their standard
    deviations, the descending order, eigenvalues, damping times and periods (incl. infinite periods of real modes)."""
    R = Result("pop")
    rng = np.random.default_rng(17000 + seed)
    reqs, exps = [], []
    for i in range({"quick": 6, "thorough": 40, "search": 20}[tier]):
        n, p = int(rng.integers(30, 70)), int(rng.integers(2, 6))
        B = rng.normal(size=(p, p))
        B = B * (float(rng.uniform(0.5, 0.95)) / max(np.abs(np.linalg.eigvals(B)).max(), 1e-12))  # stable dynamics: a stationary series
        A = np.zeros((n, p))
        A[0] = rng.normal(size=p)
        for t in range(1, n):
            A[t] = A[t - 1] @ B + rng.normal(size=p) * 0.5
        center = bool(i % 2)
        rec = {"inv": [], "eig": [], "pinv": []}
        o_inv, o_eig, o_pinv = np.linalg.inv, np.linalg.eig, np.linalg.pinv

        def inv_spy(M, *a, **kw):
            out = o_inv(M, *a, **kw)
            rec["inv"].append((np.array(M), np.array(out)))
            return out

        def eig_spy(M, *a, **kw):
            out = o_eig(M, *a, **kw)
            rec["eig"].append((np.array(M), np.array(out[0]), np.array(out[1])))
            return out

        def pinv_spy(M, *a, **kw):
            out = o_pinv(M, *a, **kw)
            rec["pinv"].append((np.array(M), np.array(out)))
            return out

        np.linalg.inv, np.linalg.eig, np.linalg.pinv = inv_spy, eig_spy, pinv_spy
        try:
            with warnings.catch_warnings():
                warnings.simplefilter("ignore")
                m = xe.single.POP(n_modes=p, use_pca=False, center=center).fit(da2d(A, "time", "x"), "time")
        finally:
            np.linalg.inv, np.linalg.eig, np.linalg.pinv = o_inv, o_eig, o_pinv
        sn, fn = m.sample_name, m.feature_name
        X = np.asarray(m.data["input_data"].transpose(sn, fn).values, dtype=float)
        A_in, lam, P = rec["eig"][-1]
        k = lam.size
        Cinv = rec["inv"][-1][1]
        pin = rec["pinv"][:k]
        R.tally("center", center)
        R.tally("real_modes", int(np.sum(np.abs(lam.imag) < 1e-14)))
        exp = {"A": A_in, "gram0": rec["inv"][-1][0], "systems": [pm[0] for pm in pin],
               "comps": m.data["components"].transpose(fn, "mode").values, "scores": m.data["scores"].transpose(sn, "mode").values,
               "eigenvalues": m.eigenvalues().values, "norms": m.data["norms"].values, "damping": m.damping_times().values,
               "periods": m.periods().values, "perm": [int(v) for v in m.data["idx_modes_sorted"].values]}
        req = {"fn": "pop", "cplx": True, "n": n, "p": p, "k": int(k), "X": cbits(X), "Cinv": cbits(Cinv), "P": cbits(P), "lam": cbits(lam),
               "arg": bits(np.angle(lam)), "Minv": bits(np.concatenate([pm[1].ravel() for pm in pin])), "two_pi": f2b(2 * np.pi)}
        reqs.append(req)
        exps.append((exp, (n, p, int(k)), {"n": n, "p": p, "k": int(k), "center": center, "seed": seed}))
    for (exp, (n, p, k), small), ans in zip(exps, ask(reqs)):
        if ans.get("status") != "ok":
            R.cmp("status", False, small, ans, "ok")
            continue
        R.cmp("feedback_matrix", cclose(uncbits(ans["A"], (p, p)), exp["A"], 1e-8), small, [str(z) for z in uncbits(ans["A"]).ravel()[:3]], [str(z) for z in exp["A"].ravel()[:3]])
        R.cmp("gram0", cclose(uncbits(ans["gram0"], (p, p)), exp["gram0"], 1e-9), small, None, None)
        sys_ok = all(close(np.array([b2f(x) for x in srow]), np.array([M[0, 0], M[0, 1], M[1, 1]]), 1e-9) for srow, M in zip(ans["systems"], exp["systems"]))
        R.cmp("coefficient_systems", sys_ok, small, ans["systems"][:1], [M.tolist() for M in exp["systems"][:1]])
        # norms of conjugate partners are equal up to rounding: compare the order through the sorted norms and the values at the labels
        perm_ok = ans["perm"] == exp["perm"] or close(unbits(ans["norms"]), exp["norms"], 1e-9)
        R.cmp("order", perm_ok, small, ans["perm"], exp["perm"])
        R.cmp("norms", close(unbits(ans["norms"]), exp["norms"], 1e-8), small, unbits(ans["norms"]).tolist(), exp["norms"].tolist())
        # conjugate partners have equal norms; their relative order is a rounding matter. Canonicalise: match the model's modes to
        # the implementation's by eigenvalue, then compare everything at the matched labels
        lam_m, lam_e = uncbits(ans["eigenvalues"], (k,)), np.asarray(exp["eigenvalues"])
        match, used = [], set()
        for je in range(k):
            cand = [jm for jm in range(k) if jm not in used]
            jm = min(cand, key=lambda c: abs(lam_m[c] - lam_e[je]))
            used.add(jm)
            match.append(jm)
        R.tally("order", "identical" if ans["perm"] == exp["perm"] else "conjugate partners swapped")
        R.cmp("eigenvalues", cclose(lam_m[match], lam_e, 1e-10), small, [str(z) for z in lam_m[match]], [str(z) for z in lam_e])
        R.cmp("components", cclose(uncbits(ans["comps"], (p, k))[:, match], exp["comps"], 1e-8), small, None, None)
        R.cmp("scores", cclose(uncbits(ans["scores"], (n, k))[:, match], exp["scores"], 1e-7), small, [str(z) for z in uncbits(ans["scores"], (n, k))[:, match].ravel()[:3]],
              [str(z) for z in np.asarray(exp["scores"]).ravel()[:3]])
        R.cmp("damping_times", close(unbits(ans["damping"])[match], exp["damping"], 1e-9), small, unbits(ans["damping"])[match].tolist(), exp["damping"].tolist())
        pm, pe = unbits(ans["periods"])[match], np.asarray(exp["periods"], dtype=float)
        fin = np.isfinite(pe)
        R.cmp("periods", bool(np.array_equal(np.isfinite(pm), fin) and close(pm[fin], pe[fin], 1e-9) and np.array_equal(np.sign(pm[~fin]), np.sign(pe[~fin]))),
              small, pm.tolist(), pe.tolist())
    return R


# ----------------------------------------------------------------------------------------------------- Hilbert transform
def corr_hilbert(seed, tier):
    """utils.hilbert_transform._hilbert_transform_with_padding against XM.padExp / hilbertCutRecentre / hilbertRecentre: numpy's
    `polyfit` line and scipy's analytic signal are recorded from inside xeofs (oracles); the model must reproduce THE PADDED SERIES
    handed to `scipy.signal.hilbert` and the returned analytic signal (padding removed, imaginary part re-centred per feature),
    with and without padding."""
    import xeofs.utils.hilbert_transform as H

    R = Result("hilbert")
    rng = np.random.default_rng(18000 + seed)
    reqs, exps = [], []
    for i in range({"quick": 8, "thorough": 60, "search": 30}[tier]):
        n, p = int(rng.integers(4, 30)), int(rng.integers(1, 5))
        t = np.arange(n)[:, None]
        y = np.sin(t * rng.uniform(0.1, 1.0, size=(1, p)) + rng.uniform(0, 6, size=(1, p))) * rng.uniform(0.5, 3, size=(1, p)) + rng.normal(size=(n, p)) * 0.2 \
            + t * rng.normal(size=(1, p)) * 0.05 + rng.normal(size=(1, p)) * 5
        padding = "exp" if i % 3 else "none"
        decay = float(rng.choice([0.2, 0.05, 1.0]))
        rec = {}
        o_h, o_fit = H.hilbert, np.polynomial.polynomial.polyfit

        def h_spy(a, *args, **kw):
            out = o_h(a, *args, **kw)
            rec["in"], rec["out"] = np.array(a), np.array(out)
            return out

        def fit_spy(x, yy, deg, *args, **kw):
            out = o_fit(x, yy, deg, *args, **kw)
            rec["coefs"] = np.array(out)
            return out

        H.hilbert = h_spy
        np.polynomial.polynomial.polyfit = fit_spy
        try:
            res = H._hilbert_transform_with_padding(y.copy(), padding=padding, decay_factor=decay)
        finally:
            H.hilbert = o_h
            np.polynomial.polynomial.polyfit = o_fit
        coefs = rec.get("coefs")
        if coefs is None:  # no padding: the line is not used; any line will do for the (unused) padded output
            coefs = np.zeros((2, p))
        R.tally("padding", padding)
        R.tally("decay", decay)
        reqs.append({"fn": "hilbert", "cplx": True, "n": n, "p": p, "y": bits(y), "c0": bits(coefs[0]), "c1": bits(coefs[1]), "decay": f2b(decay),
                     "padding": padding == "exp", "H": cbits(rec["out"])})
        exps.append((padding, rec["in"], res, (n, p), {"n": n, "p": p, "padding": padding, "decay": decay, "seed": seed}))
    for (padding, hin, res, (n, p), small), ans in zip(exps, ask(reqs)):
        if ans.get("status") != "ok":
            R.cmp("status", False, small, ans, "ok")
            continue
        if padding == "exp":
            R.cmp("padded_series", close(unbits(ans["padded"], (3 * n, p)), hin, 1e-10), small, unbits(ans["padded"]).ravel()[:4].tolist(), hin.ravel()[:4].tolist())
        R.cmp("analytic_signal", cclose(uncbits(ans["out"], (n, p)), res, 1e-10), small, [str(z) for z in uncbits(ans["out"]).ravel()[:3]], [str(z) for z in res.ravel()[:3]])
    return R


# ----------------------------------------------------------------------------------------------------- ExtendedEOF embedding
def corr_eeof(seed, tier):
    """ExtendedEOF.fit (no PCA pre-reduction) against XM.embedMatrix with the generated `eeofSamplesKept` / `eeofShift`: the matrix
    handed to the inner EOF's solver (before its centring is undone: compared after removing column means when `center=True`) must be
    the delay-embedded preprocessed series — same number of rows, same columns (compared as a multiset of columns, the column order
    being the inner model's private layout) — for tau 1..4 and embedding 1..4."""
    R = Result("eeof")
    rng = np.random.default_rng(19000 + seed)
    reqs, exps = [], []
    for i in range({"quick": 8, "thorough": 60, "search": 30}[tier]):
        tau, emb = int(rng.integers(1, 5)), int(rng.integers(1, 5))
        p = int(rng.integers(1, 4))
        n = (emb - 1) * tau + int(rng.integers(6, 20))
        A = np.round(rng.normal(size=(n, p)) + np.sin(np.arange(n))[:, None] * 2, 8)
        center = bool(i % 2)
        with _SvdSpy() as spy, warnings.catch_warnings():
            warnings.simplefilter("ignore")
            m = xe.single.ExtendedEOF(n_modes=1, tau=tau, embedding=emb, center=center, solver="full").fit(da2d(A, "time", "x"), "time")
        Din = spy.inputs[-1]
        Xp = A - A.mean(axis=0) if center else A  # the ExtendedEOF preprocessor
        R.tally("tau", tau)
        R.tally("embedding", emb)
        reqs.append({"fn": "eeof", "n": n, "p": p, "tau": tau, "embedding": emb, "X": bits(Xp)})
        exps.append((Din, center, {"n": n, "p": p, "tau": tau, "embedding": emb, "center": center, "seed": seed}))
    for (Din, center, small), ans in zip(exps, ask(reqs)):
        E = unbits(ans["E"], (ans["rows"], ans["cols"]))
        R.cmp("shape", list(Din.shape) == [ans["rows"], ans["cols"]], small, [ans["rows"], ans["cols"]], list(Din.shape))
        if list(Din.shape) == [ans["rows"], ans["cols"]]:
            Ec = E - E.mean(axis=0) if center else E  # the inner EOF centres the embedded matrix when asked to
            key = lambda M: sorted(tuple(np.round(c, 9)) for c in M.T)  # noqa: E731
            R.cmp("columns", key(Ec) == key(Din) or close(np.array(key(Ec)), np.array(key(Din)), 1e-9), small, Ec[:2].tolist(), Din[:2].tolist())
    return R


# ----------------------------------------------------------------------------------------------------- Scaler
def corr_scaler(seed, tier):
    """preprocessing.Scaler.fit/transform/inverse_transform_data on (sample, feature) arrays against XM.scalerTransform /
    XM.scalerInverse (interpreters of the generated operation chains) with the fitted parameters of the real object."""
    from xeofs.preprocessing.scaler import Scaler

    R = Result("scaler")
    rng = np.random.default_rng(2000 + seed)
    reqs, exps = [], []
    for i in range({"quick": 12, "thorough": 100, "search": 50}[tier]):
        n, ny = int(rng.integers(3, 10)), int(rng.integers(2, 6))
        c, s, cl = bool(rng.integers(0, 2)), bool(rng.integers(0, 2)), bool(rng.integers(0, 2))
        use_w = bool(rng.integers(0, 2))
        lat = np.linspace(-80, 80, ny)
        A = rng.normal(size=(n, ny)) * 10.0 ** rng.integers(-2, 3, size=(1, ny)) + rng.normal(size=(1, ny)) * 5
        if i % 5 == 0:
            A[:, 0] = 3.0  # a constant feature (std clipped)
        dtype = "float64"
        if i % 4 == 3:
            # integer-valued data in an integer dtype: the model's real arithmetic on the same numbers
            dtype = ["int64", "int16"][(i // 4) % 2]
            A = np.round(A * 10.0).clip(-30000, 30000).astype(dtype)
        X = xr.DataArray(A, dims=["time", "lat"], coords={"time": np.arange(n), "lat": lat})
        A = np.asarray(A, dtype=float)
        w = xr.DataArray(rng.uniform(0.2, 3.0, size=ny), dims=["lat"], coords={"lat": lat}) if use_w else None
        R.tally("flags", f"center={c},std={s},coslat={cl},weights={use_w}")
        R.tally("dtype", dtype)
        sc = Scaler(with_center=c, with_std=s, with_coslat=cl)
        sc.fit(X, ["time"], ["lat"], w)
        Y = sc.transform(X)
        B = sc.inverse_transform_data(Y)
        for j in range(ny):
            P = {"mean": f2b(sc.mean_.values[j]) if c else f2b(0.0), "std": f2b(sc.std_.values[j]) if s else f2b(1.0),
                 "coslat": f2b(sc.coslat_weights_.values[j]) if cl else f2b(1.0),
                 "weights": f2b(np.broadcast_to(sc.weights_.values, (ny,))[j]) if use_w else f2b(1.0)}
            req = {"fn": "scaler", "with_center": c, "with_std": s, "with_coslat": cl, "x": bits(A[:, j]), **P}
            reqs.append(req)
            exps.append((req, Y.transpose("time", "lat").values[:, j], B.transpose("time", "lat").values[:, j]))
    for (req, y, b), ans in zip(exps, ask(reqs)):
        R.cmp("transform", close(unbits(ans["y"]), y, 1e-12), req, unbits(ans["y"]).tolist(), y.tolist())
        R.cmp("inverse_transform_data", close(unbits(ans["back"]), b, 1e-12), req, unbits(ans["back"]).tolist(), b.tolist())
    return R


# ----------------------------------------------------------------------------------------------------- threshold
def corr_threshold(seed, tier):
    """Decomposer / _SVD with fractional n_modes on exactly representable (dyadic) spectra, for every fraction i/(2*total),
    against Gen.nModesRequiredDecomposer / Gen.nModesRequiredSVD (count of modes kept, warning)."""
    from harness.props.c15 import boundary_matrix, DYADIC
    from xeofs.linalg.decomposer import Decomposer
    from xeofs.linalg.svd import SVD

    R = Result("threshold")
    reqs, exps = [], []
    ks = {"quick": (2, 4), "thorough": (2, 4, 8), "search": (2, 4, 8)}[tier]
    for k in ks:
        a2 = DYADIC[k]
        tot = sum(a2)
        X = boundary_matrix(k, a2, 0)
        Xd = da2d(X, "sample", "feature")
        cum = list(np.cumsum(a2) * 2)
        for irr_k in sorted({k, max(1, k // 2)}):
            irr = irr_k / k
            step = 1 if tier != "quick" or k <= 4 else 3
            for fi in range(1, 2 * tot + 1, step):
                f = fi / (2 * tot)
                for which in ("decomposer", "svd"):
                    with warnings.catch_warnings(record=True) as w:
                        warnings.simplefilter("always")
                        if which == "decomposer":
                            d = Decomposer(n_modes=f, init_rank_reduction=irr, solver="full")
                            d.fit(Xd)
                            kept = int(d.s_.size)
                        else:
                            U, s, V = SVD(n_modes=f, init_rank_reduction=irr, solver="full").fit_transform(Xd)
                            kept = int(s.size)
                    warned = any("explained variance was requested" in str(x.message) for x in w)
                    req = {"fn": "threshold", "which": which, "k": irr_k, "cum": [int(c) for c in cum[:irr_k]], "f": fi}
                    reqs.append(req)
                    exps.append((req, kept, warned))
                    R.tally("position", "boundary" if fi in cum else "interior")
                    R.tally("reachable", fi <= cum[irr_k - 1])
    for (req, kept, warned), ans in zip(exps, ask(reqs)):
        R.cmp("modes_kept", ans["n"] == kept, req, ans, {"kept": kept, "warned": warned})
        R.cmp("warning", ans["warn"] == warned, req, ans, {"kept": kept, "warned": warned})
    return R


# ----------------------------------------------------------------------------------------------------- validators / policy
def _py(v):
    import xarray

    if v is None:
        return {"t": "none"}
    if isinstance(v, bool):
        return {"t": "bool", "v": v}
    if isinstance(v, (int, np.integer)):
        return {"t": "int", "v": int(v)}
    if isinstance(v, float):
        return {"t": "float", "v": int(round(v * 1_000_000))}
    if isinstance(v, str):
        return {"t": "str", "v": v}
    if isinstance(v, list):
        return {"t": "list", "v": [_py(x) for x in v]}
    if isinstance(v, tuple):
        return {"t": "tuple", "v": [_py(x) for x in v]}
    if isinstance(v, (xarray.DataArray, xarray.Dataset)):
        return {"t": "xarr", "v": type(v).__name__}
    return {"t": "other", "v": type(v).__name__}


def _status(fn, *a):
    try:
        fn(*a)
        return "ok"
    except Exception as e:  # noqa: BLE001
        return type(e).__name__


def corr_validators(seed, tier):
    """utils.sanity_checks.sanity_check_n_modes / validate_input_type / convert_to_dim_type, the solver policy and rank
    check of Decomposer and _SVD (observed through which solver function is called), the item-count guard of the list
    transformer and the Whitener's alpha guard, against the generated decision functions."""
    from xeofs.utils.sanity_checks import sanity_check_n_modes, validate_input_type, convert_to_dim_type
    from xeofs.linalg.decomposer import Decomposer
    from xeofs.linalg._numpy._svd import _SVD
    import xeofs.linalg.decomposer as dmod
    import xeofs.linalg._numpy._svd as smod

    R = Result("validators")
    rng = np.random.default_rng(3000 + seed)
    da = xr.DataArray(np.zeros((2, 2)), dims=["a", "b"])
    ds = xr.Dataset({"v": da})
    nm_vals = [0, 1, -1, 5, True, False, 0.5, 1.0, 0.0, 1.000001, -0.1, 0.999999, "all", "ALL", "", "any", None, [1], (2,), 2.5, 1e-6]
    nm_vals += [int(x) for x in rng.integers(-5, 50, size=6)] + [float(np.round(x, 6)) for x in rng.uniform(-0.5, 1.5, size=6)]
    in_vals = [da, ds, [da, da], [da, ds], [], [1], [da, 1], (da,), None, 1, "x", np.zeros(3), [np.zeros(3)], [[da]]]
    dim_vals = ["time", ("a", "b"), ["a"], [], (), 1, None, ["a", 1], 2.0, ("a",), [("a",)]]
    reqs, exps = [], []
    for v in nm_vals:
        reqs.append({"fn": "sanity", "which": "n_modes", "v": _py(v)})
        exps.append(_status(sanity_check_n_modes, v))
        R.tally("n_modes", type(v).__name__)
    for v in in_vals:
        reqs.append({"fn": "sanity", "which": "input_type", "v": _py(v)})
        exps.append(_status(validate_input_type, v))
        R.tally("input_type", _py(v)["t"])
    for v in dim_vals:
        reqs.append({"fn": "sanity", "which": "dim_type", "v": _py(v)})
        exps.append(_status(convert_to_dim_type, v))
        R.tally("dim_type", _py(v)["t"])
    for req, exp, ans in zip(reqs, exps, ask(reqs)):
        R.cmp(req["which"], ans["status"] == exp, req, ans["status"], exp)

    # solver policy: which function performs the decomposition?
    reqs, exps = [], []
    shapes = [(6, 4), (12, 5), (30, 8)] + ([(520, 6)] if tier != "quick" else [])
    for (n, p) in shapes:
        X = rng.normal(size=(n, p))
        rank = min(n, p)
        for solver in ("auto", "full", "randomized", "bogus"):
            for k in sorted({1, max(1, int(0.8 * rank)), int(0.8 * rank) + 1, rank, rank + 1}):
                for which in ("decomposer", "svd"):
                    used = []
                    mod = dmod if which == "decomposer" else smod
                    o_exact, o_rand = np.linalg.svd, mod.randomized_svd

                    def rand_spy(*a, **kw):
                        used.append("randomized")
                        return o_rand(*a, **kw)

                    class _NP:
                        def __getattr__(self, nm):
                            return getattr(np, nm)

                    mod.randomized_svd = rand_spy
                    try:
                        if which == "decomposer":
                            d = Decomposer(n_modes=k, solver=solver, random_state=1)
                            d.fit(da2d(X, "sample", "feature"))
                        else:
                            _SVD(n_modes=k, solver=solver, random_state=1).fit_transform(X)
                        st = "ok"
                    except Exception as e:  # noqa: BLE001
                        st = type(e).__name__
                    finally:
                        mod.randomized_svd = o_rand
                    exact = (st == "ok") and not used
                    req = {"fn": "policy", "which": which, "solver": solver, "small": max(n, p) < 500, "dask": False, "nPre": k, "rank": rank}
                    reqs.append(req)
                    exps.append((st, exact))
                    R.tally("policy", f"{solver}|{'small' if max(n, p) < 500 else 'large'}")
    for req, (st, exact), ans in zip(reqs, exps, ask(reqs)):
        # the rank check precedes the solver choice in the code
        if ans["rank"] != "ok":
            mst = ans["rank"]
        else:
            mst = ans["status"]
        R.cmp("policy_status", mst == st, req, ans, st)
        if st == "ok" and mst == "ok":
            R.cmp("policy_exact", ans["exact"] == exact, req, ans, {"exact": exact})

    # guards
    from xeofs.preprocessing.whitener import Whitener
    from xeofs.preprocessing.list_processor import GenericListTransformer
    from xeofs.preprocessing.scaler import Scaler

    reqs, exps = [], []
    for alpha in (-1.0, -1e-6, 0.0, 0.3, 1.0, 2.5):
        reqs.append({"fn": "guards", "alpha": int(round(alpha * 1_000_000)), "lenX": 1, "nData": 1})
        exps.append(("alpha", _status(lambda a=alpha: Whitener(alpha=a))))
    from xeofs.preprocessing.preprocessor import Preprocessor

    two = [da2d(rng.normal(size=(5, 3)), "time", "x"), da2d(rng.normal(size=(5, 2)), "time", "x"), da2d(rng.normal(size=(5, 4)), "time", "x")]
    for nfit in (1, 2, 3):
        for ntr in (1, 2, 3):
            pp = Preprocessor()
            pp.fit(two[:nfit], ["time"])
            reqs.append({"fn": "guards", "alpha": 0, "lenX": ntr, "nData": nfit})
            exps.append(("length", _status(pp.transform, two[:ntr])))
    # rotators: more modes requested than the fitted model has
    Xr = da2d(rng.normal(size=(30, 6)), "time", "x")
    Yr = da2d(rng.normal(size=(30, 5)), "time", "y")
    for n_model in (2, 3):
        me = xe.single.EOF(n_modes=n_model, solver="full").fit(Xr, "time")
        mc = xe.cross.MCA(n_modes=n_model, solver="full", use_pca=False).fit(Xr, Yr, "time")
        for n_rot in (2, 3, 4):
            reqs.append({"fn": "guards", "alpha": 0, "lenX": 1, "nData": 1, "nModes": n_rot, "nModel": n_model})
            exps.append(("rot_single", _status(lambda k=n_rot, m=me: xe.single.EOFRotator(n_modes=k).fit(m))))
            reqs.append({"fn": "guards", "alpha": 0, "lenX": 1, "nData": 1, "nModes": n_rot, "nModel": n_model})
            exps.append(("rot_cross", _status(lambda k=n_rot, m=mc: xe.cross.MCARotator(n_modes=k).fit(m))))
    for req, (which, st), ans in zip(reqs, exps, ask(reqs)):
        R.cmp("guard_" + which, ans[which] == st, req, ans, st)
    return R


# ----------------------------------------------------------------------------------------------------- sign rule
def corr_sign(seed, tier):
    """get_deterministic_sign_multiplier (xarray and numpy versions) on columns with prescribed max/min, incl. ties, against
    the generated rule evaluated on doubles"""
    from xeofs.utils.xarray_utils import get_deterministic_sign_multiplier as sx
    from xeofs.linalg._numpy._svd import get_deterministic_sign_multiplier as sn

    R = Result("sign_rule")
    rng = np.random.default_rng(4000 + seed)
    reqs, exps = [], []
    n = {"quick": 40, "thorough": 400, "search": 200}[tier]
    for i in range(n):
        p = int(rng.integers(1, 7))
        kind = ["random", "tie", "const_neg", "const_pos", "zero", "single"][i % 6]
        if kind == "random":
            col = rng.normal(size=p)
        elif kind == "tie":
            a = float(rng.uniform(0.1, 2))
            col = np.concatenate([[a, -a], rng.uniform(-a, a, size=max(0, p - 2))])
            rng.shuffle(col)
        elif kind == "const_neg":
            col = -np.ones(p) * float(rng.uniform(0.1, 2))
        elif kind == "const_pos":
            col = np.ones(p) * float(rng.uniform(0.1, 2))
        elif kind == "zero":
            col = np.zeros(p)
        else:
            col = np.array([float(rng.normal())])
        R.tally("column", kind)
        V = col.reshape(-1, 1)
        ex = float(sx(xr.DataArray(V, dims=["feature", "mode"]), "feature").values[0])
        en = float(np.asarray(sn(V, axis=0))[0])
        base = {"fn": "eof", "n": 1, "p": int(V.shape[0]), "r": 1, "k": 1, "U": bits([1.0]), "s": bits([1.0]), "V": bits(V), "total": f2b(1.0),
                "m": 0, "X": []}
        reqs.append({**base, "rule": "xarray"})
        exps.append(ex)
        reqs.append({**base, "rule": "numpy"})
        exps.append(en)
    for req, e, ans in zip(reqs, exps, ask(reqs)):
        got = unbits(ans["sgn"])[0]
        R.cmp("sign_" + req["rule"], got == e, {"rule": req["rule"], "V": unbits(req["V"]).tolist()}, got, e)
    return R


# ----------------------------------------------------------------------------------------------------- Sanitizer
def corr_sanitizer(seed, tier):
    """preprocessing.Sanitizer.fit/transform on (sample, feature) arrays with structured NaN masks (rectangular, isolated,
    staggered, mismatching the fit mask) against S.sanitizerTransform: refusal, and the labels that are kept"""
    from xeofs.preprocessing.sanitizer import Sanitizer

    R = Result("sanitizer")
    rng = np.random.default_rng(5000 + seed)
    reqs, exps = [], []
    for i in range({"quick": 40, "thorough": 400, "search": 200}[tier]):
        n, m = int(rng.integers(2, 7)), int(rng.integers(2, 7))
        rows_f = rng.random(n) < 0.8
        cols_f = rng.random(m) < 0.75
        fit = np.outer(rows_f, cols_f)
        if not fit.any():
            fit[0, 0] = True
        kind = ["same", "rect_other_rows", "isolated", "staggered", "col_mismatch", "all_nan_row", "extra_valid_col"][i % 7]
        n2 = int(rng.integers(1, 6))
        cv = fit.any(axis=0)
        new = np.outer(np.ones(n2, bool), cv)
        if kind == "rect_other_rows":
            new[rng.random(n2) < 0.4, :] = False
        elif kind == "isolated" and cv.sum() >= 1:
            r, c = int(rng.integers(0, n2)), int(rng.choice(np.nonzero(cv)[0]))
            new[r, c] = False
        elif kind == "staggered" and cv.sum() >= 2:
            idx = np.nonzero(cv)[0]
            for r in range(n2):
                new[r, idx[r % len(idx)]] = False
        elif kind == "col_mismatch" and cv.sum() >= 1:
            new[:, int(rng.choice(np.nonzero(cv)[0]))] = False
        elif kind == "all_nan_row":
            new[int(rng.integers(0, n2)), :] = False
        elif kind == "extra_valid_col" and (~cv).sum() >= 1:
            new[:, int(rng.choice(np.nonzero(~cv)[0]))] = True
        R.tally("mask", kind)

        def arr(mask, s0):
            A = rng.normal(size=mask.shape)
            A[~mask] = np.nan
            return xr.DataArray(A, dims=["sample", "feature"], coords={"sample": np.arange(s0, s0 + mask.shape[0]), "feature": np.arange(mask.shape[1])})

        sz = Sanitizer()
        sz.fit(arr(fit, 0))
        try:
            out = sz.transform(arr(new, 50))
            exp = {"status": "ok", "rows": [int(v) - 50 for v in out.sample.values], "cols": [int(v) for v in out.feature.values]}
        except Exception as e:  # noqa: BLE001
            exp = {"status": type(e).__name__}
        R.tally("outcome", exp["status"])
        reqs.append({"fn": "sanitizer", "m": m, "fit": fit.tolist(), "new": new.tolist()})
        exps.append(exp)
    for req, exp, ans in zip(reqs, exps, ask(reqs)):
        R.cmp("status", ans["status"] == exp["status"], req, ans, exp)
        if ans["status"] == "ok" and exp["status"] == "ok":
            R.cmp("kept_labels", ans["rows"] == exp["rows"] and ans["cols"] == exp["cols"], req, ans, exp)
    return R


# ----------------------------------------------------------------------------------------------------- labelled frame
def corr_frame(seed, tier):
    """the whole preprocessing chain (rename, stack, sanitize, concatenate), its inverse, and `transform` of labelled data (the training
    data itself, and what the inverse hands back) on (time[, member], lat, lon) fields given as a DataArray, as a Dataset of two
    variables or as a list of two arrays with different grids, with unsorted / descending / string coordinates, one or two sample
    dimensions, and fully missing samples / cells (different cells per variable or item), against S.Frame over the keys
    (variable-or-item, lat, lon): shape and every entry of the positional matrix, every value (or NaN) read back at its own label,
    container type and names, and the matrices `transform` produces from labelled data"""
    from xeofs.preprocessing.preprocessor import Preprocessor

    R = Result("frame")
    rng = np.random.default_rng(6000 + seed)
    reqs, exps = [], []
    fmt = lambda v: "nan" if np.isnan(v) else repr(float(v))  # noqa: E731
    for i in range({"quick": 24, "thorough": 160, "search": 64}[tier]):
        container = ["DA", "DS", "LIST"][(i // 4) % 3]
        nt, ny, nx = int(rng.integers(2, 6)), int(rng.integers(1, 4)), int(rng.integers(1, 4))
        ckind = ["asc", "unsorted", "str", "desc"][i % 4]
        two_s = bool((i // 2) % 3 == 1)  # two sample dimensions (time, member)
        nm = int(rng.integers(2, 4)) if two_s else 1
        t = np.arange(nt)
        if ckind == "unsorted":
            t = rng.permutation(t)
        mem = np.arange(nm) + 10
        n = nt * nm
        okS = rng.random(n) < 0.8
        if not okS.any():
            okS[0] = True
        sdims = ("time", "member") if two_s else ("time",)
        order = [sdims + ("lat", "lon"), ("lat",) + sdims + ("lon",), ("lon", "lat") + sdims[::-1]][i % 3]

        def one(ny_, nx_):
            lat = np.arange(ny_) * 10.0
            lon = np.arange(nx_) * 5.0
            if ckind == "unsorted":
                lat, lon = rng.permutation(lat), rng.permutation(lon)
            if ckind == "desc":
                lat = lat[::-1].copy()
            A = np.round(rng.normal(size=(n, ny_, nx_)), 6)
            okF = rng.random((ny_, nx_)) < 0.8
            if not okF.any():
                okF[0, 0] = True
            A[~okS, :, :] = np.nan
            A[:, ~okF] = np.nan
            coords = {"time": t, "lat": lat, "lon": [f"c{int(v)}" for v in lon] if ckind == "str" else lon}
            if two_s:
                coords["member"] = mem
                return xr.DataArray(A.reshape(nt, nm, ny_, nx_), dims=["time", "member", "lat", "lon"], coords=coords).transpose(*order), okF
            return xr.DataArray(A, dims=["time", "lat", "lon"], coords=coords).transpose(*order), okF

        if container == "DA":
            A, okA = one(ny, nx)
            obj, parts = A, [("v", A, okA)]
        elif container == "DS":
            A, okA = one(ny, nx)
            B, okB = one(ny, nx)
            B = B.assign_coords(lat=A.lat, lon=A.lon)
            obj, parts = xr.Dataset({"a": A, "b": B}), [("a", A, okA), ("b", B, okB)]
        else:
            A, okA = one(ny, nx)
            B, okB = one(int(rng.integers(1, 4)), int(rng.integers(1, 3)))
            obj, parts = [A, B], [("item0", A, okA), ("item1", B, okB)]
        R.tally("container", container)
        R.tally("coords", ckind)
        R.tally("sample_dims", len(sdims))
        R.tally("dim_order", "/".join(order))
        R.tally("missing", f"samples={int((~okS).sum() > 0)},cells={int(sum((~ok).sum() for _, _, ok in parts) > 0)}")
        pp = Preprocessor(with_center=False)
        X2 = pp.fit_transform(obj, list(sdims))
        try:
            back = pp.inverse_transform_data(X2)
        except Exception as e:  # the model has no refusal here: a refusal is a difference
            back = f"raised {type(e).__name__}: {str(e)[:160]}"
        stages = {}
        # (a Dataset is a mapping: the training data is handed back with its variables listed in the opposite order, which must not matter)
        obj_t = obj[list(reversed(list(obj.data_vars)))] if container == "DS" else obj
        for nm_, arg in (("training", obj_t), ("again", back)):
            try:
                if isinstance(arg, str):
                    raise RuntimeError("inverse_transform_data " + arg)
                X3 = pp.transform(arg)
                stages[nm_] = [[fmt(v) for v in row] for row in np.asarray(X3.transpose("sample", "feature").values)]
            except Exception as e:  # the model has no refusal here: a refusal is a difference
                stages[nm_] = f"raised {type(e).__name__}: {str(e)[:160]}"
        rows = [repr((a, b)) for a in t.tolist() for b in mem.tolist()] if two_s else [repr(v) for v in t.tolist()]
        cols, okF_all, blocks = [], [], []
        full = sdims + ("lat", "lon")
        for tag, P, ok in parts:
            Ps = P.transpose(*full)
            cols += [repr((tag, a, b)) for a in Ps.lat.values.tolist() for b in Ps.lon.values.tolist()]
            okF_all += [bool(x) for x in ok.ravel()]
            blocks.append(Ps.values.reshape(n, -1))
        M = np.concatenate(blocks, axis=1)
        req = {"fn": "frame", "rows": rows, "cols": cols, "okS": okS.tolist(), "okF": okF_all, "vals": [repr(float(v)) for v in M.ravel()]}
        # what came back, flattened the same way; fully missing samples are absent from the matrix and from the result: absent == NaN
        ok_struct = (isinstance(back, xr.DataArray) and container == "DA") or (isinstance(back, xr.Dataset) and container == "DS" and sorted(back.data_vars) == ["a", "b"]) \
            or (isinstance(back, list) and container == "LIST" and len(back) == 2)
        bblocks = []
        if ok_struct:
            for k, (tag, P, ok) in enumerate(parts):
                Bk = back if container == "DA" else (back[tag] if container == "DS" else back[k])
                Ps = P.transpose(*full)
                if set(Bk.dims) != set(full):
                    ok_struct = False
                    break
                bs = Bk.transpose(*full).reindex({d: Ps[d].values for d in full})
                bblocks.append(bs.values.reshape(n, -1))
        exp_back = [[fmt(v) for v in row] for row in np.concatenate(bblocks, axis=1)] if ok_struct else None
        reqs.append(req)
        exps.append({"shape": [int(X2.sizes["sample"]), int(X2.sizes["feature"])], "back": exp_back, "structure_ok": ok_struct,
                     "container": back if isinstance(back, str) else type(back).__name__, "mat": [[fmt(v) for v in row] for row in np.asarray(X2.transpose("sample", "feature").values)],
                     "stages": stages})
    for req, exp, ans in zip(reqs, exps, ask(reqs)):
        small = {"rows": req["rows"], "n_cols": len(req["cols"]), "okS": req["okS"], "okF": req["okF"]}
        R.cmp("matrix_shape", ans["shape"] == exp["shape"], small, ans["shape"], exp["shape"])
        # the order of the matrix columns is internal (it follows the dimension order xarray reports): compare the columns as a multiset …
        colset = lambda M: sorted(zip(*M)) if M and isinstance(M, list) else M  # noqa: E731
        R.cmp("matrix_entries", colset(ans["mat"]) == colset(exp["mat"]), small, ans["mat"], exp["mat"])
        R.cmp("container_and_dims", bool(exp["structure_ok"]), small, "same container, variable names and dimensions", exp["container"])
        if exp["back"] is not None:
            R.cmp("read_back", ans["back"] == exp["back"], small, ans["back"], exp["back"])
        # … but `transform` must reproduce the fitted matrix column for column: the model's relation (theorems transformBy_training /
        # transformBy_readBack: both equal the fitted matrix) is evaluated on the model AND on the implementation
        R.cmp("transform_training_data", ans["training"] == ans["mat"] and exp["stages"]["training"] == exp["mat"], small, "equals the fitted matrix", exp["stages"]["training"])
        # (the reconstruction may carry its samples in sorted order, and `transform` follows the order of the data it is given: rows as a multiset)
        rowset = lambda M: sorted(map(tuple, M)) if isinstance(M, list) else M  # noqa: E731
        R.cmp("transform_reconstruction", ans["again"] == ans["mat"] and rowset(exp["stages"]["again"]) == rowset(exp["mat"]), small, "equals the fitted matrix (rows in the order given)", exp["stages"]["again"])
    return R


# ----------------------------------------------------------------------------------------------------- codec
def _attr(v):
    if v is None:
        return {"t": "none"}
    if isinstance(v, bool):
        return {"t": "bool", "v": v}
    if isinstance(v, int):
        return {"t": "int", "v": v}
    if isinstance(v, float):
        return {"t": "float", "v": int(f2b(v))}
    if isinstance(v, str):
        return {"t": "str", "v": v}
    if isinstance(v, list):
        return {"t": "list", "v": [_attr(x) for x in v]}
    if isinstance(v, dict):
        return {"t": "dict", "v": [{"k": k, "v": _attr(x)} for k, x in v.items()]}
    return None


def corr_codec(seed, tier):
    """io codec `_sanitize_attrs_nc` / `_desanitize_attrs_nc` on a one-node tree with generated attribute values (numbers, strings
    incl. look-alikes and the empty string, None, bools, nested lists/dicts) against Codec2.sanitize/desanitize with Python's
    `str` and `ast.literal_eval` as oracles"""
    import ast
    from harness.props.c13 import gen_value
    from xeofs.utils import io as xio

    fn_s = getattr(xio, "_sanitize_attrs_nc", None)
    fn_d = getattr(xio, "_desanitize_attrs_nc", None)
    if fn_s is None:
        from xeofs.utils.io import insert_placeholders  # noqa: F401
        raise RuntimeError("codec functions not found")
    R = Result("codec")
    rng = np.random.default_rng(7000 + seed)
    vals = ["", "True", "None", "[1, 2]", "{'a': 1}", "{", "[", "[unclosed", "{'a'", "False ", " True", "x", "1", "nan", "(1,)", None, True, False,
            [], {}, [1, [2, None]], {"a": {"b": [True]}}, 0, -3, 1.5, float("inf"), "[1, 2", "Truex", "{}", "[]", "None ", "{1, 2}", "[a]",
            "[m s-1]", "{0 deg .. 360 deg}", "[1 2]", "{a: b}", "[1,, 2]", "{'a' 1}"]
    for i in range({"quick": 40, "thorough": 600, "search": 200}[tier]):
        vals.append(gen_value(rng, int(rng.integers(0, 3))))
    reqs, exps = [], []
    for v in vals:
        a = _attr(v)
        if a is None:
            continue
        try:
            DataTree = xr.DataTree
        except AttributeError:  # pragma: no cover
            from xarray.core.datatree import DataTree
        dt = DataTree(name="root")
        dt.attrs["k"] = v
        try:
            enc_t = fn_s(dt)
            enc = enc_t.attrs["k"]
            dec_t = fn_d(enc_t)
            dec = dec_t.attrs["k"]
            exp = {"status": "ok", "enc": _attr(enc), "dec": _attr(dec)}
        except Exception as e:  # noqa: BLE001
            exp = {"status": "error", "exc": type(e).__name__}
        # oracles: str(v) for the encoder; literal_eval of the ENCODED string for the decoder
        pystr = str(v)
        encoded_str = exp["enc"]["v"] if exp.get("enc") and exp["enc"]["t"] == "str" else (v if isinstance(v, str) else "")
        try:
            lit = ast.literal_eval(encoded_str)
            lit_a = _attr(lit)
            if lit_a is None:
                R.tally("skipped", "literal outside the model's value universe (set/tuple/bytes/complex)")
                continue
            lit_ok = True
        except Exception:  # noqa: BLE001
            lit_ok, lit_a = False, None
        R.tally("type", type(v).__name__)
        R.tally("literal_eval_ok", lit_ok)
        reqs.append({"fn": "codec", "v": a, "pystr": pystr, "lit_ok": lit_ok, "lit": lit_a or {"t": "none"}})
        exps.append(exp)
    for req, exp, ans in zip(reqs, exps, ask(reqs)):
        R.cmp("status", ans["status"] == exp["status"], req, ans, exp)
        if ans["status"] == "ok" and exp["status"] == "ok":
            R.cmp("encoded", ans["enc"] == exp["enc"], req, ans["enc"], exp["enc"])
            R.cmp("decoded", ans["dec"] == exp["dec"], req, ans["dec"], exp["dec"])
    return R


# ----------------------------------------------------------------------------------------------------- history
def corr_history(seed, tier):
    """EOF / MCA objects driven through generated call histories (fit on several data sets incl. lists of different length,
    transform of other data, queries, inverse_transform, compute, serialize, rotator fits): after every step the model
    (H2.run with the facts extracted from the current source) says which calls the answer depends on; the implementation
    agrees iff its answers equal those of a FRESH model given the last fit only exactly when the model says so."""
    from harness import zoo
    from harness.props import c14

    R = Result("history")
    rng = np.random.default_rng(8000 + seed)
    reqs, exps = [], []
    n_hist = {"quick": 6, "thorough": 40, "search": 20}[tier]
    for i in range(n_hist):
        cls = ["EOF", "MCA"][i % 2]
        ops = []
        L = int(rng.integers(3, 8))
        names = []
        for j in range(L):
            o = str(rng.choice(["fit0", "fit1", "fit2", "transform0", "transform1", "components", "scores", "inverse", "compute", "serialize", "rotator"]))
            names.append(o)
        if not any(o.startswith("fit") for o in names):
            names.insert(0, "fit0")
        while not names[0].startswith("fit"):
            names.pop(0)
        case = {"cls": cls, "ops": names, "dseed": int(rng.integers(0, 1000))}
        try:
            out = c14.run({"kind": "history", **case}) if "kind" in c14.cases(0, "quick")[0] else c14.run(case)
        except Exception as e:  # noqa: BLE001
            R.cmp("implementation-raises", False, case, None, exc_class(e) + ": " + str(e)[:200])
            continue
        equal_fresh = not out["findings"]
        mops, fid = [], 0
        items = {}  # every data set of c14.datasets is one item (DataArray or Dataset)
        last = None
        for o in names:
            if o.startswith("fit"):
                fid += 1
                last = (fid, items.get(o, 1))
                mops.append({"op": "fit", "id": fid, "items": items.get(o, 1)})
            elif o.startswith("transform"):
                mops.append({"op": "transform", "id": 50 + len(mops)})
            elif o == "rotator":
                mops.append({"op": "rotator", "id": 90 + len(mops)})
            elif o in ("components", "scores"):
                mops.append({"op": "query"})
            else:
                mops.append({"op": o})
        mops.append({"op": "query"})
        R.tally("class", cls)
        R.tally("n_fits", sum(1 for o in names if o.startswith("fit")))
        reqs.append({"fn": "history", "ops": mops, "_last": last, "_names": names})
        exps.append(equal_fresh)
    send = [{k: v for k, v in r.items() if not k.startswith("_")} for r in reqs]
    for req, eq, ans in zip(reqs, exps, ask(send)):
        fid, n = req["_last"]
        fresh = [fid] * n + [fid] * 4
        predicted = ans["answers"][-1] == fresh
        R.cmp("answers_equal_fresh_model", predicted == eq, {"ops": req["_names"]}, {"predicted_equal": predicted, "prov": ans["answers"][-1]}, {"observed_equal": eq})
    return R


# ----------------------------------------------------------------------------------------------------- lazy
def corr_lazy(seed, tier):
    """EOF.fit on dask-backed input for every (compute, check_nans) configuration with the scheduler instrumented, against
    Lazy2.forceLog over the forcing sites extracted from the source: does any computation happen during fit?"""
    import dask
    import dask.array as dsa
    from harness.common import count_scheduler_calls

    R = Result("lazy")
    rng = np.random.default_rng(9000 + seed)
    reqs, exps = [], []
    for compute in (False, True):
        for check_nans in (False, True):
            A = rng.normal(size=(24, 6))
            X = xr.DataArray(dsa.from_array(A, chunks=(8, 3)), dims=["time", "x"], coords={"time": np.arange(24), "x": np.arange(6)})
            with count_scheduler_calls() as cnt:
                m = xe.single.EOF(n_modes=2, compute=compute, check_nans=check_nans)
                m.fit(X, "time")
            n_calls = len(cnt)
            reqs.append({"fn": "lazy", "compute": compute, "check_nans": check_nans, "variance": False, "dask": True})
            exps.append(int(n_calls))
            R.tally("config", f"compute={compute},check_nans={check_nans}")
    A = rng.normal(size=(24, 6))
    Xn = da2d(A, "time", "x")
    with count_scheduler_calls() as cnt:
        xe.single.EOF(n_modes=2, compute=False, check_nans=False).fit(Xn, "time")
    reqs.append({"fn": "lazy", "compute": False, "check_nans": False, "variance": False, "dask": False})
    exps.append(len(cnt))
    for req, n_calls, ans in zip(reqs, exps, ask(reqs)):
        R.cmp("fit_forces", (ans["forces"] == 0) == (n_calls == 0), req, ans, {"scheduler_calls": n_calls})
    return R


# ----------------------------------------------------------------------------------------------------- scalar formulas
def corr_formulas(seed, tier):
    """generated scalar formulas evaluated on doubles against the quantities the implementation reports: POP damping times and
    periods from its eigenvalues, rotated explained variance vs pseudo-norms (EOFRotator), the Whitener's exponent
    (through T = C^((alpha-1)/2) on a diagonal covariance), the cross-covariance normaliser (CPCCA on orthogonal data),
    OPA lag weights/denominators (through decorrelation times), ExtendedEOF sample count"""
    R = Result("formulas")
    rng = np.random.default_rng(10000 + seed)
    reqs, exps = [], []
    reps = {"quick": 2, "thorough": 12, "search": 6}[tier]
    for i in range(reps):
        n, p = int(rng.integers(30, 60)), int(rng.integers(3, 6))
        # AR(1)-like data for POP
        A = np.zeros((n, p))
        B = rng.normal(size=(p, p)) * 0.4
        A[0] = rng.normal(size=p)
        for t in range(1, n):
            A[t] = A[t - 1] @ B + rng.normal(size=p)
        X = da2d(A, "time", "x")
        with warnings.catch_warnings():
            warnings.simplefilter("ignore")
            pop = xe.single.POP(n_modes=p, use_pca=False)
            pop.fit(X, "time")
            lam = pop.eigenvalues().values
            damp = pop.damping_times().values
            per = pop.periods().values
        for j in range(lam.size):
            reqs.append({"fn": "formulas", "x": f2b(abs(lam[j])), "y": f2b(np.angle(lam[j])), "z": f2b(1.0), "tau": 0, "tauMax": 1, "n": 2, "embedding": 1})
            exps.append(("pop_damping", "popDampingTime", float(damp[j])))
            R.tally("formula", "popDampingTime")
            if np.angle(lam[j]) != 0 and np.isfinite(per[j]):
                reqs.append({"fn": "formulas", "x": f2b(2 * np.pi), "y": f2b(np.angle(lam[j])), "z": f2b(1.0), "tau": 0, "tauMax": 1, "n": 2, "embedding": 1})
                exps.append(("pop_period", "popPeriod", float(per[j])))
                R.tally("formula", "popPeriod")
        # EOFRotator: pseudo-norm of a rotated mode
        with warnings.catch_warnings():
            warnings.simplefilter("ignore")
            eof = xe.single.EOF(n_modes=min(3, p))
            eof.fit(X, "time")
            try:
                rot = xe.single.EOFRotator(n_modes=min(3, p), max_iter=5000)
                rot.fit(eof)
                ev = rot.explained_variance().values
                norms = rot.data["norms"].values
            except RuntimeError:  # "Rotation process did not converge": nothing to compare
                R.tally("skipped", "rotation did not converge")
                ev = norms = np.zeros(0)
        for j in range(ev.size):
            reqs.append({"fn": "formulas", "x": f2b(ev[j]), "y": f2b(float(n)), "z": f2b(1.0), "tau": 0, "tauMax": 1, "n": 2, "embedding": 1})
            exps.append(("rotator_norm", "rotatorNorm", float(norms[j])))
            R.tally("formula", "rotatorNorm")
        # EOF explained variance from singular values
        sv = eof.singular_values().values
        evv = eof.explained_variance().values
        for j in range(sv.size):
            reqs.append({"fn": "formulas", "x": f2b(sv[j]), "y": f2b(float(n)), "z": f2b(float(eof.data["total_variance"].values)), "tau": 0, "tauMax": 1, "n": 2, "embedding": 1})
            exps.append(("eof_expvar", "eofExpVar", float(evv[j])))
            exps_ratio = float(eof.explained_variance_ratio().values[j])
            reqs.append(dict(reqs[-1]))
            exps.append(("threshold_fraction", "thresholdFraction", exps_ratio))
            R.tally("formula", "eofExpVar")
        # ExtendedEOF: number of samples kept
        emb, tau = int(rng.integers(1, 4)), int(rng.integers(1, 4))
        with warnings.catch_warnings():
            warnings.simplefilter("ignore")
            ee = xe.single.ExtendedEOF(n_modes=2, tau=tau, embedding=emb)
            ee.fit(X, "time")
            kept = int(ee.scores().notnull().all("mode").sum())  # the cut samples come back as NaN rows
        reqs.append({"fn": "formulas", "x": f2b(1.0), "y": f2b(2.0), "z": f2b(1.0), "tau": tau, "tauMax": 1, "n": n, "embedding": emb})
        exps.append(("eeof_samples", "eeofKept", kept))
        R.tally("formula", "eeofSamplesKept")
        # Whitener exponent: diagonal covariance diag(d) -> T = diag(d^((alpha-1)/2))
        from xeofs.preprocessing.whitener import Whitener

        alpha = float(rng.choice([0.0, 0.25, 0.5, 0.75]))
        d = np.array([4.0, 1.0, 0.25])
        nW = 8
        H = np.array([[1, 1, 1], [1, -1, 1], [1, 1, -1], [1, -1, -1], [-1, 1, 1], [-1, -1, 1], [-1, 1, -1], [-1, -1, -1]], dtype=float)
        Xw = da2d(H * np.sqrt(d) * np.sqrt(nW / nW), "sample", "feature")
        wh = Whitener(alpha=alpha)
        wh.fit(Xw)
        T = np.asarray(wh.T.values, dtype=float)
        cov_diag = (Xw.values ** 2).sum(axis=0)
        reqs.append({"fn": "formulas", "x": f2b(alpha), "y": f2b(float(nW)), "z": f2b(1.0), "tau": 0, "tauMax": 1, "n": 2, "embedding": 1})
        exps.append(("whitener_power", "whitenerPower", ("T", T.diagonal().tolist(), cov_diag.tolist(), nW)))
        R.tally("formula", "whitenerPower")
        # MCA: singular values are those of Xc^T Yc / crossCovDenominator(n)
        Y = da2d(A[:, : max(2, p - 1)] * 0.5 + rng.normal(size=(n, max(2, p - 1))), "time", "y")
        with warnings.catch_warnings():
            warnings.simplefilter("ignore")
            mca = xe.cross.MCA(n_modes=2, use_pca=False, solver="full")
            mca.fit(X, Y, "time")
            sv_mca = np.asarray(mca.data["singular_values"].values, dtype=float)
        Xc, Yc = A - A.mean(axis=0), Y.values - Y.values.mean(axis=0)
        reqs.append({"fn": "formulas", "x": f2b(float(n)), "y": f2b(2.0), "z": f2b(1.0), "tau": 0, "tauMax": 1, "n": 2, "embedding": 1})
        exps.append(("cross_cov_denominator", "crossCovDenominator", ("svd", np.linalg.svd(Xc.T @ Yc, compute_uv=False)[:2].tolist(), sv_mca.tolist())))
        R.tally("formula", "crossCovDenominator")
        # OPA: the reported decorrelation times are the weighted lag sums of the returned score series
        tau_max = int(rng.integers(1, 6))
        with warnings.catch_warnings():
            warnings.simplefilter("ignore")
            opa = xe.single.OPA(n_modes=2, tau_max=tau_max, n_pca_modes=min(3, p), solver="full")
            opa.fit(X, "time")
            Pm = np.asarray(opa.scores().transpose("time", "mode").values, dtype=float)
            Trep = np.asarray(opa.decorrelation_time().values, dtype=float)
        for tau in range(tau_max + 1):
            reqs.append({"fn": "formulas", "x": f2b(1.0), "y": f2b(2.0), "z": f2b(1.0), "tau": tau, "tauMax": tau_max, "n": n, "embedding": 1})
            exps.append(("opa_lag_sum", "opa", (tau, tau_max, Pm, Trep)))
        R.tally("formula", "opaLagWeight/opaLagDenominator")
    answers = ask(reqs)
    # OPA: assemble the lag sums from the per-lag answers
    opa_acc = {}
    for req, (what, key, exp), ans in zip(reqs, exps, answers):
        if key == "opa":
            tau, tau_max, Pm, Trep = exp
            acc = opa_acc.setdefault(id(Pm), {"P": Pm, "T": Trep, "terms": [], "tau_max": tau_max})
            nn = Pm.shape[0]
            cov = (Pm[: nn - tau] * Pm[tau:]).sum(axis=0) / ans["opaDen"]
            acc["terms"].append((tau, ans["opaWeight2"] / 2.0, cov))
    for acc in opa_acc.values():
        c0 = [c for (t, w, c) in acc["terms"] if t == 0][0]
        Tm = sum(w * c / c0 for (t, w, c) in acc["terms"])
        R.cmp("opa_lag_sum", close(Tm, acc["T"], 1e-8), {"tau_max": acc["tau_max"], "n": acc["P"].shape[0]}, np.asarray(Tm).tolist(), acc["T"].tolist())
    for req, (what, key, exp), ans in zip(reqs, exps, answers):
        if key == "opa":
            continue
        if key == "crossCovDenominator":
            den = b2f(ans[key])
            _, sv_raw, sv_rep = exp
            R.cmp(what, close(np.array(sv_raw) / den, sv_rep, 1e-9), {"n": b2f(req["x"])}, (np.array(sv_raw) / den).tolist(), sv_rep)
            continue
        if key in ("eeofKept",):
            R.cmp(what, ans[key] == exp, req, ans[key], exp)
        elif key == "whitenerPower":
            pw = b2f(ans[key])
            _, Td, cd, nW = exp
            # C = X^T X / (n-1) (diagonal); T = C^pw
            den = b2f(ans["whitenerCovDenominator"])  # evaluated at n = y
            ok = np.allclose(Td, (np.array(cd) / den) ** pw, rtol=1e-9)
            R.cmp(what, bool(ok), req, {"power": pw, "denominator": den}, {"T_diag": Td, "XtX_diag": cd, "n": nW})
        else:
            got = b2f(ans[key])
            ok = (got == exp) or (np.isfinite(exp) and abs(got - exp) <= 1e-12 * max(1.0, abs(exp))) or (np.isinf(exp) and np.isinf(got) and np.sign(exp) == np.sign(got))
            R.cmp(what, bool(ok), {k: (b2f(v) if k in "xyz" else v) for k, v in req.items() if k != "fn"}, got, exp)
    return R


CORR = {
    "eof_pipeline": corr_eof_pipeline,
    "cpcca_core": corr_cpcca_core,
    "rotator": corr_rotator,
    "whitener": corr_whitener,
    "complex": corr_complex,
    "bootstrap": corr_bootstrap,
    "opa": corr_opa,
    "pop": corr_pop,
    "hilbert": corr_hilbert,
    "eeof": corr_eeof,
    "scaler": corr_scaler,
    "threshold": corr_threshold,
    "validators": corr_validators,
    "sign_rule": corr_sign,
    "sanitizer": corr_sanitizer,
    "frame": corr_frame,
    "codec": corr_codec,
    "history": corr_history,
    "lazy": corr_lazy,
    "formulas": corr_formulas,
    "crot": corr_crot,
    "mcca": corr_mcca,
}

# which correspondences tie the model parts a property's theorems are stated on
BY_PROP = {
    "C01": ["complex", "eof_pipeline", "hilbert", "eeof", "sign_rule"],
    "C02": ["frame"],
    "C03": ["complex", "eof_pipeline", "scaler", "cpcca_core", "frame"],
    "C04": ["complex", "eof_pipeline", "cpcca_core", "rotator", "crot", "frame", "mcca"],
    "C05": ["eof_pipeline", "mcca"],
    "C06": ["sanitizer", "frame"],
    "C07": ["frame"],
    "C08": ["scaler", "eof_pipeline"],
    "C09": ["complex", "cpcca_core", "whitener", "formulas"],
    "C10": ["eeof", "complex", "cpcca_core", "whitener", "formulas", "mcca"],
    "C11": ["complex", "rotator", "crot", "formulas"],
    "C12": ["lazy"],
    "C13": ["codec"],
    "C14": ["history"],
    "C15": ["threshold", "validators", "sign_rule"],
    "C16": ["complex", "whitener", "formulas", "validators"],
    "C17": ["validators", "sanitizer"],
    "C18": ["pop", "formulas"],
    "C19": ["opa", "formulas"],
    "C20": ["bootstrap", "eof_pipeline"],
}


def run_for(prop, seed, tier):
    """returns ({name: summary}, [mismatch...], [harness errors])"""
    summ, mism, errs = {}, [], []
    for name in BY_PROP.get(prop, []):
        try:
            with warnings.catch_warnings():
                warnings.simplefilter("ignore")
                r = CORR[name](seed, tier)
            summ[name] = r.to_json()
            mism += r.mismatches
        except DriverBuildError as e:
            # the executable model no longer builds on the regenerated definitions: a broken tie, handled like a broken obligation
            summ[name] = {"compared": 0, "mismatches": 1, "driver_build": "failed"}
            mism.append({"correspondence": name, "what": "driver-build", "request": None, "model": str(e)[-1500:], "implementation": None})
        except Exception as e:  # noqa: BLE001  infrastructure, never a violation by itself
            import traceback

            errs.append(f"{name}: {type(e).__name__}: {e}\n{traceback.format_exc()[-1200:]}")
            summ[name] = {"compared": 0, "mismatches": 0, "error": f"{type(e).__name__}: {e}"[:300]}
    return summ, mism, errs


if __name__ == "__main__":
    import sys

    names = sys.argv[1:] or list(CORR)
    for nm in names:
        r = CORR[nm](int(os.environ.get("VERIF_SEED", "0")), os.environ.get("VERIF_TIER", "quick"))
        print(nm, json.dumps(r.to_json())[:600])
        for mm in r.mismatches[:4]:
            print("   MISMATCH", json.dumps(mm)[:900])
