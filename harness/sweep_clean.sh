#!/bin/bash
# usage: sweep_clean.sh <tier> <seeds...> : every check on the (clean) tree for several seeds; prints one line per run
tier=$1; shift
for s in "$@"; do
  for p in C01 C02 C03 C04 C05 C06 C07 C08 C09 C10 C11 C12 C13 C14 C15 C16 C17 C18 C19 C20; do
    out=$(VERIF_SEED=$s timeout 7200 ./check $p --tier $tier 2>&1); rc=$?
    echo "seed=$s $p rc=$rc $(echo "$out" | tail -1)"
    if [ $rc -ne 0 ]; then echo "$out" | grep -v "^KNOWN" | tail -12 | cut -c1-600; fi
  done
done
