#!/bin/bash
export VERIF_NO_EVIDENCE=1   # runs on a mutated tree never write /verif/evidence
# usage: sweep_seeded.sh [ids...] : every seeded change against the check of its own property (full check incl. Lean + correspondence)
# writes .work/sweep_seeded.log ; restores /repo and the generated Lean files afterwards
cd /verif
log=.work/sweep_seeded.log; [ $# -eq 0 ] && : > $log
ids=${@:-$(ls seeded | grep -v revert)}
for id in $ids; do
  prop=${id%%-*}
  d=/verif/seeded/$id/patch.diff
  if ! git -C /repo apply --check "$d" 2>/dev/null; then echo "$id APPLY-FAILED" | tee -a $log; continue; fi
  git -C /repo apply "$d"
  out=$(timeout 1500 ./check $prop --tier quick 2>&1); rc=$?
  git -C /repo checkout -- .
  nv=$(echo "$out" | grep -c '^VIOLATION')
  nf=$(echo "$out" | grep -c 'no-failing-input-found')
  br=$(echo "$out" | grep '^\[lean\] BROKEN' | cut -c1-90 | tr '\n' ';')
  echo "$id rc=$rc violations=$nv no-input=$nf broken=[$br] $(echo "$out" | grep '^\[fail\]' | head -1 | cut -c1-160)" | tee -a $log
done
python3 translator/translate.py > /dev/null
git -C /repo status --short | head -3
