"""C13 — a model survives serialisation unchanged."""
from __future__ import annotations

import json

from harness.common import *  # noqa: F401,F403
from harness.common import Finding, np, xr, xe, relerr, compare_labelled
from harness import zoo
from harness.props.c07 import field

RULE = ("every model class x input structure (DataArray, Dataset, list incl. >10 items, 2 sample dims, sample MultiIndex, NaN rows/columns) x "
        "parameter values (None/bool/list/dict) x user attribute dictionaries on data AND coordinate variables (empty string, python-"
        "literal look-alikes, brackets, quotes, unicode, list/None/bool/dict values) x codec (direct, netCDF attribute encoding+decoding, "
        "JSON round trip of all attributes, placeholders for input data) x serialisation before/after transform calls; plus the codec on "
        "generated attribute values directly; distinct by (kind, class, codec, structure, attr-kind)")
CODECS = ["direct", "nc", "json", "placeholders+nc", "placeholders+json"]
STRUCTS = ["DA", "DS", "LIST", "LIST12", "2s", "MI", "NaN", "AUX"]
ATTR_SETS = {
    "plain": {"units": "K", "long_name": "temperature"},
    "empty": {"units": "", "comment": ""},
    "brackets": {"units": "[m/s]", "note": "{a}", "x": "[unclosed", "y": "(1, 2)", "u2": "[m s-1]", "rng": "{0 deg .. 360 deg}", "q": "[1, 2"},
    "lookalike": {"flag": "True", "missing": "None", "levels": "[1, 2]", "d": "{'a': 1}"},
    "quotes": {"title": "it's \"quoted\"", "u": "µm · s⁻¹", "nl": "two\nlines"},
    "typed": {"valid_range": [-90.0, 90.0], "bounds": None, "flag": True, "meta": {"a": 1, "b": [1, 2]}, "n": 3, "f": 2.5},
}
CLASSES = list(zoo.ALL)  # (EOFBootstrapper is not among the classes C13 lists; its deserialize is not supported upstream)


def cases(seed, tier, broken=()):
    rng = np.random.default_rng(seed)
    out = []
    n = {"quick": 70, "thorough": 1500, "search": 500}[tier]
    akeys = list(ATTR_SETS)
    for i in range(n):
        cls = CLASSES[i % len(CLASSES)]
        out.append({"kind": "model", "cls": cls, "codec": CODECS[(i // len(CLASSES) + i) % len(CODECS)], "struct": STRUCTS[int(rng.integers(0, len(STRUCTS)))],
                    "attrs": akeys[i % len(akeys)], "coord_attrs": akeys[(i // 2) % len(akeys)], "mseed": int(rng.integers(0, 2**31)),
                    "after_transform": bool(rng.random() < 0.4), "params": str(rng.choice(["default", "lists", "kwargs"]))})
    # the NAME of the user's arrays is part of the input structure: names equal to a coordinate / dimension of the array, the empty
    # string, names with a path separator; and user weights named like the coordinate they are given along
    NAMES = ["lat", "", "u/v", "time", None, "lon"]
    for i in range({"quick": 12, "thorough": 120, "search": 60}[tier]):
        cls = ["EOF", "MCA", "EOFRotator", "POP", "ComplexEOF", "CCA", "OPA", "HilbertMCA"][i % 8]
        out.append({"kind": "model", "cls": cls, "codec": CODECS[i % len(CODECS)], "struct": ["DA", "NaN", "DA", "LIST"][i % 4], "attrs": "plain", "coord_attrs": "plain",
                    "mseed": int(rng.integers(0, 2**31)), "after_transform": False, "params": "default", "name": NAMES[(i // 2) % len(NAMES)] if i % 6 != 5 else "u",
                    "wname": "lat" if i % 6 == 5 else None})
    # the attribute codec on generated values
    for i in range({"quick": 40, "thorough": 600, "search": 200}[tier]):
        out.append({"kind": "codec", "vseed": int(rng.integers(0, 2**31)), "depth": int(rng.integers(0, 3)), "where": str(rng.choice(["node", "variable", "coordinate"]))})
    return out


def nontrivial_key(case, info):
    return tuple(sorted((k, str(v)) for k, v in case.items() if k not in ("mseed",)))


# ------------------------------------------------------------------------------------------------ codecs
def codec_nc(dt):
    from xeofs.utils.io import _sanitize_attrs_nc, _desanitize_attrs_nc

    dt = _sanitize_attrs_nc(dt)
    # a netCDF file stores only str / numbers / arrays: everything else must have been stringified. xarray's own validator
    # (the one `to_netcdf` runs before writing) decides; the hand-written test below is kept as a cross-check
    try:
        from xarray.backends.writers import _validate_attrs
    except Exception:  # noqa: BLE001  other xarray layout
        _validate_attrs = None
    for node in dt.subtree:
        if _validate_attrs is not None:
            try:
                _validate_attrs(node.to_dataset(), engine="netcdf4")
            except (TypeError, ValueError) as e:
                raise AssertionError(f"node {node.path}: {str(e)[:200]}")
        for holder in [node] + [node[v] for v in node.variables]:
            for k, a in holder.attrs.items():
                if isinstance(a, (dict, bool, type(None))) or (isinstance(a, list) and any(isinstance(x, (dict, list, type(None))) for x in a)):
                    raise AssertionError(f"attribute {k}={a!r} is not storable in netCDF after sanitising")
    return _desanitize_attrs_nc(dt)


def _jsonable(o):
    """what zarr's attribute encoder accepts beyond plain JSON: numpy integers and reals become Python numbers; anything else
    (numpy.bool_, arrays, objects) is a TypeError there, and here"""
    import numbers

    if isinstance(o, numbers.Integral):
        return int(o)
    if isinstance(o, numbers.Real):
        return float(o)
    raise TypeError(f"Object of type {type(o).__name__} is not JSON serializable")


def codec_json(dt):
    for node in dt.subtree:
        node.attrs = json.loads(json.dumps(dict(node.attrs), default=_jsonable))
        for v in node.variables:
            node[v].attrs = json.loads(json.dumps(dict(node[v].attrs), default=_jsonable))
    return dt


def apply_codec(dt, codec):
    from xeofs.utils.io import insert_placeholders

    dt = dt.copy(deep=True)
    if codec.startswith("placeholders"):
        dt = insert_placeholders(dt)
    if codec.endswith("nc"):
        dt = codec_nc(dt)
    elif codec.endswith("json"):
        dt = codec_json(dt)
    return dt


# ------------------------------------------------------------------------------------------------ model round trip
def build(case):
    cls = case["cls"]
    zc = "EOF" if cls == "EOFBootstrapper" else cls
    rng = np.random.default_rng(case["mseed"])
    cplx = zoo.needs_complex_input(zc)
    n = 30

    def with_attrs(A, seed_off=0):
        A = A.copy()
        A.attrs.update(ATTR_SETS[case["attrs"]])
        for c in ("lat", "lon", "time"):
            if c in A.coords:
                A[c].attrs.update(ATTR_SETS[case["coord_attrs"]])
        return A

    X = with_attrs(field(rng, n, 3, 4, cplx, off=2.0))
    Y = with_attrs(field(rng, n, 3, 3, cplx, off=-1.0) + 0.5 * X.isel(lon=slice(0, 3)).values)
    if "name" in case:
        X.name = case["name"]
        Y.name = case["name"]
    st = case["struct"]
    dim = "time"

    def shape(A, other=False):
        if st == "DS":
            return xr.Dataset({"a": A, "b": A * 1.5 - 1.0}, attrs=ATTR_SETS[case["attrs"]])
        if st == "LIST":
            return [A, (A * 0.5 + 2.0).isel(lon=slice(0, 2))]
        if st == "LIST12":
            return [A] + [(A.isel(lon=[j % A.sizes["lon"]]) * (1 + 0.1 * j) + j).rename(lon=f"lon{j}") for j in range(11)]
        if st == "MI":
            return A.stack(s=("time", "lat"))
        if st == "AUX":
            # non-index coordinates: a scalar one (left behind by `.sel(level=500)`) and auxiliary ones along a feature / the sample dimension
            return A.assign_coords(level=500.0, band=("lat", [f"b{j}" for j in range(A.sizes["lat"])]), season=("time", np.arange(A.sizes["time"]) % 4))
        if st == "NaN":
            B = A.copy()
            B.values[3] = np.nan
            B.values[:, 1, 2] = np.nan
            return B
        return A

    if st == "2s":
        dim = ("time", "lat")
    if st == "MI":
        dim = "s"
    two = zoo.takes_two(zc)
    if two:
        if zc == "multi.CCA" and st in ("LIST", "LIST12"):
            return (X, Y), dim
        data = (shape(X), shape(Y) if st not in ("LIST12",) else Y)
    else:
        data = shape(X)
    return data, dim


def cfg_for(case):
    cls = case["cls"]
    zc = "EOF" if cls == "EOFBootstrapper" else cls
    b = zoo.base_of(zc)
    cfg = zoo.default_cfg(zc, n_modes=2)
    if b != "multi.CCA":
        cfg["solver"] = "full"
    if b == "SparsePCA":
        cfg["alpha"] = 1e-3
    if b in ("POP", "OPA"):
        cfg["n_pca_modes"] = 3
    if case["params"] == "lists" and b in zoo.CROSS:
        cfg.update(standardize=[True, False], use_coslat=[False, False], n_pca_modes=[4, "all"], use_pca=True)
        if b.endswith("CPCCA"):
            cfg["alpha"] = [0.3, 1.0]
    if case["params"] == "kwargs" and b == "EOF":
        cfg.update(solver="randomized", random_state=3, solver_kwargs={"n_oversamples": 8, "power_iteration_normalizer": "QR"})
    if case["struct"] in ("2s", "MI") and "use_coslat" in cfg:
        cfg["use_coslat"] = False
    return cfg


def answers(cls, m, data, dim):
    zc = "EOF" if cls == "EOFBootstrapper" else cls
    out = {}
    if cls == "EOFBootstrapper":
        out["components"] = m.components()
        out["scores"] = m.scores()
        out["explained_variance"] = m.explained_variance()
        return out
    for i, s in enumerate(zoo.scores(zc, m)):
        out[f"scores{i}"] = s
    for i, c in enumerate(zoo.components(zc, m)):
        out[f"components{i}"] = c
    if zc not in zoo.NO_TRANSFORM:
        for i, t in enumerate(zoo.transform(zc, m, data)):
            out[f"transform{i}"] = t
    if zc not in zoo.NO_INVERSE:
        sc = [s.isel(mode=[0]) for s in zoo.scores(zc, m)]
        for i, r in enumerate(zoo.inverse_transform(zc, m, sc)):
            out[f"inverse{i}"] = r
    if zoo.kind(zc) == "cross" and hasattr(m, "predict") and zc not in zoo.NO_TRANSFORM:
        try:
            out["predict"] = m.predict(data[0])
        except NotImplementedError:
            pass
    return out


def params_equal(a, b):
    def norm(v):
        if isinstance(v, (tuple, list)):
            return [norm(x) for x in v]
        if isinstance(v, dict):
            return {str(k): norm(x) for k, x in v.items()}
        if isinstance(v, (np.floating, np.integer, np.bool_)):
            return v.item()
        return v

    na, nb = norm(a), norm(b)
    return na == nb, na, nb


def run_model(case):
    F = []
    cls = case["cls"]
    zc = "EOF" if cls == "EOFBootstrapper" else cls
    data, dim = build(case)
    cfg = cfg_for(case)
    codec = case["codec"]
    cc = f"{cls}|{codec}"
    rot = {"n_modes": 2, "power": 1} if "Rotator" in zc else None
    wts = None
    if case.get("wname"):
        first = data[0] if isinstance(data, (tuple, list)) else data
        w = xr.DataArray(np.linspace(1.0, 2.0, first.sizes["lat"]), dims="lat", coords={"lat": first["lat"].values}, name=case["wname"])
        wts = (w, w) if zoo.takes_two(zc) else w
    if "name" in case:
        cc += f"|name={case.get('name')!r}|wname={case.get('wname')!r}"
    try:
        m, base = zoo.fit(zc, data, dim, cfg, rot_cfg=rot, weights=wts)
        if "Rotator" in zc:
            # a rotator whose modes had to be RE-ORDERED after the rotation is the non-trivial object to store and rebuild: look
            # for one among a few data sets derived from the same seed (more modes, oblique rotation)
            for t in range(1, 7):
                if list(np.asarray(m.data["idx_modes_sorted"].values)) != list(range(int(m.data["idx_modes_sorted"].size))):
                    break
                try:
                    d2, dim2 = build(dict(case, mseed=case["mseed"] + 101 * t))
                    c2 = dict(cfg, n_modes=4)
                    m2_, b2_ = zoo.fit(zc, d2, dim2, c2, rot_cfg={"n_modes": 3 + (t % 2), "power": 1 + (t % 2)})
                    m, base, data, dim, cfg = m2_, b2_, d2, dim2, c2
                except (RuntimeError, ValueError):
                    continue
    except RuntimeError as e:
        if "did not converge" in str(e):
            return {"findings": [], "info": {}}
        raise
    except ValueError as e:
        if "rank" in str(e) or "n_components must be less" in str(e):
            return {"findings": [], "info": {}}
        raise
    if cls == "EOFBootstrapper":
        b = xe.validation.EOFBootstrapper(n_bootstraps=3, seed=2)
        b.fit(m)
        m = b
    if not hasattr(m, "serialize"):
        return {"findings": [], "info": {"dist": {"cls": cls, "outcome": "no serialize()"}}}
    if case["after_transform"] and zc not in zoo.NO_TRANSFORM:
        try:
            from harness.props.c05 import make_new

            zoo.transform(zc, m, make_new(data, {"n_new": 3, "coords": "disjoint", "mseed": 1}, np.random.default_rng(1)))
        except Exception:  # noqa: BLE001
            pass
    try:
        ref = answers(cls, m, data, dim)
    except Exception as e:  # noqa: BLE001  the fitted model itself no longer answers (after a transform of other data)
        F.append(Finding("oracle", "tree_roundtrip", cc + "|original-model-raises", f"{cls}: the fitted model raised {type(e).__name__} when queried"
                         f"{' after transform(other data)' if case['after_transform'] else ''}: {str(e)[:140]}"))
        return {"findings": F, "info": {"dist": {"cls": cls, "codec": codec}}}
    try:
        dt = apply_codec(m.serialize(), codec)
        m2 = type(m).deserialize(dt)
    except Exception as e:  # noqa: BLE001
        F.append(Finding("oracle", "tree_roundtrip", cc + f"|raises|attrs={case['attrs']}/{case['coord_attrs']}", f"serialize -> {codec} -> deserialize raised {type(e).__name__}: {str(e)[:160]}"))
        return {"findings": F, "info": {"dist": {"cls": cls, "codec": codec}}}
    # parameters
    ok, pa, pb = params_equal(m.get_params(), m2.get_params())
    if not ok:
        diff = {k: (pa.get(k), pb.get(k)) for k in set(pa) | set(pb) if pa.get(k) != pb.get(k)}
        F.append(Finding("oracle", "params_equal", cc, f"parameters differ after the round trip: {diff}"))
    # answers (placeholders replace only the input data: accessors that do not need it must still agree)
    try:
        got = answers(cls, m2, data, dim)
    except Exception as e:  # noqa: BLE001
        lk = codec.endswith("nc") and "lookalike" in (case["coord_attrs"], case["attrs"])
        F.append(Finding("oracle", "tree_roundtrip", ("lookalike-attrs|nc|query-raises" if lk else cc + f"|query-raises|struct={case['struct']}|cattrs={case['coord_attrs']}"),
                         f"{cls}: rebuilt model raised {type(e).__name__}: {str(e)[:160]}"))
        return {"findings": F, "info": {"dist": {"cls": cls, "codec": codec}}}
    checks = 0
    for k, a in ref.items():
        checks += 1
        if k not in got:
            F.append(Finding("oracle", "tree_roundtrip", cc, f"{k} missing from the rebuilt model"))
            continue
        sc = float(np.nanmax(np.abs(np.asarray(a.values)))) if isinstance(a, xr.DataArray) and a.size else 1.0
        r = compare_labelled(a, got[k], rtol=1e-10, atol=1e-10 * max(sc, 1e-300))
        if r:
            F.append(Finding("oracle", "tree_roundtrip", cc + f"|{k.rstrip('01')}", f"{k} differs after serialize -> {codec} -> deserialize: {r[:200]}"))
    return {"findings": F, "info": {"oracle_checks": {"answers": checks}, "dist": {"cls": cls, "codec": codec, "struct": case["struct"], "attrs": case["attrs"]}}}


# ------------------------------------------------------------------------------------------------ attribute codec on generated values
def gen_value(rng, depth):
    kinds = ["str", "str", "lookalike", "int", "float", "bool", "none", "list", "dict"]
    k = str(rng.choice(kinds if depth > 0 else kinds[:7]))
    if k == "str":
        alphabet = list("abz K/[]{}()'\"\\,: µ_-1")
        return "".join(rng.choice(alphabet, size=int(rng.integers(0, 7))))
    if k == "lookalike":
        return str(rng.choice(["True", "False", "None", "[1]", "{}", "[]", "{'a': 1}", "[m/s]", "{a}", "", "[", "]", "{", "1", "1.0"]))
    if k == "int":
        return int(rng.integers(-5, 5))
    if k == "float":
        return float(rng.normal())
    if k == "bool":
        return bool(rng.integers(0, 2))
    if k == "none":
        return None
    if k == "list":
        return [gen_value(rng, depth - 1) for _ in range(int(rng.integers(0, 4)))]
    return {"k%d" % i: gen_value(rng, depth - 1) for i in range(int(rng.integers(0, 3)))}


def vclass(v):
    if isinstance(v, str):
        from xeofs.utils.io import _should_desanitize

        try:
            look = _should_desanitize(v)
        except Exception:  # noqa: BLE001
            look = "raises"
        if v == "":
            return "str-empty"
        if look is True or look == "raises":
            try:
                import ast

                ast.literal_eval(v)
                return "str-parses-as-python-literal"
            except Exception:  # noqa: BLE001
                return "str-bracketed-non-literal"
        return "str-plain"
    if isinstance(v, list) and any(isinstance(x, (list, dict, type(None), bool)) for x in v):
        return "list-nested"
    return type(v).__name__


def run_codec(case):
    F = []
    rng = np.random.default_rng(case["vseed"])
    v = gen_value(rng, case["depth"])
    ds = xr.Dataset({"a": ("x", np.arange(3.0))}, coords={"x": [0, 1, 2]})
    where = case["where"]
    if where == "node":
        ds.attrs["k"] = v
    elif where == "variable":
        ds["a"].attrs["k"] = v
    else:
        ds["x"].attrs["k"] = v
    dt = xr.DataTree(xr.Dataset(), name="root")
    dt["n"] = xr.DataTree(ds)
    cc = f"{vclass(v)}"
    try:
        out = codec_nc(dt.copy(deep=True))
    except AssertionError as e:
        F.append(Finding("oracle", "nc_codec_storable", cc + f"|{where}", str(e)[:200]))
        return {"findings": F, "info": {"dist": {"vclass": cc, "where": where}}}
    except Exception as e:  # noqa: BLE001
        F.append(Finding("oracle", "nc_codec_roundtrip", cc + "|raises", f"decode(encode({v!r})) raised {type(e).__name__}: {str(e)[:100]}"))
        return {"findings": F, "info": {"dist": {"vclass": cc, "where": where}}}
    node = out["n"]
    got = {"node": node.attrs, "variable": node["a"].attrs, "coordinate": node["x"].attrs}[where].get("k", "<missing>")
    if not (type(got) is type(v) and got == v):
        F.append(Finding("oracle", "nc_codec_roundtrip", cc + f"|{where}", f"attribute {v!r} came back as {got!r}"))
    return {"findings": F, "info": {"oracle_checks": {"n": 1}, "dist": {"vclass": cc, "where": where}}}


def run(case):
    return run_model(case) if case["kind"] == "model" else run_codec(case)
