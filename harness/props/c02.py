"""C02 — outputs keep the input's structure and attach every value to its own label."""
from __future__ import annotations

from harness.common import *  # noqa: F401,F403
from harness.common import Finding, np, xr, xe, compare_labelled, labelmap
from harness import layouts

RULE = ("layout product: container (DataArray / Dataset same dims / Dataset different dim sets / list / list with Dataset / list with "
        "reversed dim order) x 1..3 sample dims x 1..3 feature dims x dim order x index kind per dim (ascending, unsorted, str, "
        "datetime, float descending, MultiIndex) x custom names x extra non-index coords; unique integer-coded cell values; "
        "thorough enumerates the product for <=2+2 dims exhaustively; distinct by the full layout key")
EXHAUSTIVE = {"quick": False, "thorough": False}


def cases(seed, tier, broken=()):
    rng = np.random.default_rng(seed)
    out = []
    n = {"quick": 220, "thorough": 3000, "search": 1500}[tier]
    for i in range(n):
        L = layouts.gen_layout(rng)
        L["kind"] = "roundtrip"
        L["flags"] = {"with_center": bool(rng.random() < 0.5), "with_std": bool(rng.random() < 0.3)}
        out.append(L)
    # latitude weighting is part of the way in and out: the whole range [-90, 90] incl. both poles, any accepted latitude name
    for i in range({"quick": 8, "thorough": 60, "search": 30}[tier]):
        out.append({"kind": "coslat_roundtrip", "container": ["DA", "DS", "LIST"][i % 3], "latname": ["lat", "latitude", "Lat", "lats"][i % 4],
                    "lats": [[-90.0, -45.0, 0.0, 45.0, 90.0], [90.0, 30.0, -30.0, -90.0], [-90.0, 90.0], sorted(float(x) for x in rng.uniform(-90, 90, size=4))][i % 4],
                    "mseed": int(rng.integers(0, 2**31)), "center": bool(i % 2)})
    # several sample dimensions (or a sample MultiIndex) AND entirely missing samples: the stacked index has to be restored
    # around the samples that were dropped in between
    for i in range({"quick": 6, "thorough": 60, "search": 24}[tier]):
        out.append({"kind": "missing_roundtrip", "container": ["DA", "DS", "LIST"][i % 3], "index": ["dims", "multi"][(i // 3) % 2],
                    "order": i % 3, "n_missing": 1 + i % 2, "mseed": int(rng.integers(0, 2**31))})
    # long lists (more than ten items, so that item numbers no longer sort like strings) whose items carry DIFFERENT feature coordinates,
    # through a model whose preprocessor is rebuilt (deferred fit + compute(), serialize/deserialize): every item keeps its own labels
    for i in range({"quick": 4, "thorough": 24, "search": 12}[tier]):
        out.append({"kind": "long_list_rebuilt", "container": "LIST", "n_items": [11, 13, 12, 14][i % 4], "route": ["compute", "serialize"][i % 2],
                    "mseed": int(rng.integers(0, 2**31))})
    if tier == "thorough":
        for L in layouts.enumerate_layouts():
            L["kind"] = "roundtrip"
            L["flags"] = {"with_center": False, "with_std": False}
            out.append(L)
    return out


def nontrivial_key(case, info):
    if case["kind"] == "missing_roundtrip":
        return ("missing", case["container"], case["index"], case["order"], case["n_missing"], case["mseed"])
    if case["kind"] == "long_list_rebuilt":
        return ("long_list", case["n_items"], case["route"], case["mseed"])
    if case["kind"] == "coslat_roundtrip":
        return ("coslat", case["container"], case["latname"], tuple(case["lats"]), case["center"])
    return (case["container"], tuple(case["sd"]), tuple(case["fd"]), tuple(case["perm"]), tuple(sorted(case["kinds"].items())), case["names"],
            tuple(sorted(case["flags"].items())))


def case_class(case):
    c = case["container"]
    if c == "LIST-sperm" and (len(case["sd"]) > 1 or case["kinds"][case["sd"][0]] == "multi"):
        c += "|stacked-samples"
    if case.get("extra_coord") and c != "DS-diff":
        c += "|aux"
    return c


def struct_of(obj):
    if isinstance(obj, list):
        return [struct_of(o) for o in obj]
    if isinstance(obj, xr.Dataset):
        return {str(v): struct_of(obj[v]) for v in obj.data_vars}
    return tuple(obj.dims)


def n_cells(obj, sd):
    if isinstance(obj, list):
        return sum(n_cells(o, sd) for o in obj)
    if isinstance(obj, xr.Dataset):
        return sum(n_cells(obj[v], sd) for v in obj.data_vars)
    return int(np.prod([obj.sizes[d] for d in obj.dims if d not in sd]))


def check_mode_struct(out, ref, keep_dims, what, F, cc):
    """`out` (components or scores) must have dims = keep_dims(ref) + mode with the labels of ref"""
    if isinstance(ref, list):
        if not isinstance(out, list) or len(out) != len(ref):
            F.append(Finding("oracle", f"{what}_structure", cc, f"{what}: list structure lost ({type(out).__name__})"))
            return
        for o, r in zip(out, ref):
            check_mode_struct(o, r, keep_dims, what, F, cc)
        return
    if isinstance(ref, xr.Dataset):
        if not isinstance(out, xr.Dataset) or sorted(map(str, out.data_vars)) != sorted(map(str, ref.data_vars)):
            F.append(Finding("oracle", f"{what}_structure", cc, f"{what}: Dataset variables {list(ref.data_vars)} -> {type(out).__name__} {list(getattr(out, 'data_vars', []))}"))
            return
        for v in ref.data_vars:
            check_mode_struct(out[v], ref[v], keep_dims, what, F, cc)
        return
    want = [d for d in ref.dims if d in keep_dims]
    got = [d for d in out.dims if d != "mode"]
    if "mode" not in out.dims or set(got) != set(want):
        F.append(Finding("oracle", f"{what}_structure", cc, f"{what}: dims {out.dims}, expected {want} + mode"))
        return
    for d in want:
        a = set(labelmap(ref.isel({x: 0 for x in ref.dims if x != d}, drop=True) if len(ref.dims) > 1 else ref).keys())
        b = set(labelmap(out.isel({x: 0 for x in out.dims if x != d}, drop=True)).keys())
        if a != b:
            F.append(Finding("oracle", f"{what}_labels", cc, f"{what}: labels of dim {d} differ from the input's"))
            return


def run_coslat(case):
    from xeofs.preprocessing.preprocessor import Preprocessor

    F = []
    rng = np.random.default_rng(case["mseed"])
    ln, lats = case["latname"], case["lats"]
    A = xr.DataArray(rng.normal(size=(6, len(lats), 3)) + 2.0, dims=("time", ln, "lon"), coords={"time": np.arange(6), ln: lats, "lon": [0.0, 10.0, 20.0]}, name="a")
    obj = {"DA": A, "DS": xr.Dataset({"a": A, "b": A * 2 - 1}), "LIST": [A, (A * 0.5).isel(lon=slice(0, 2))]}[case["container"]]
    cc = f"coslat|{case['container']}"
    try:
        p = Preprocessor(with_center=case["center"], with_coslat=True)
        D = p.fit_transform(obj, ["time"])
        R = p.inverse_transform_data(D)
    except Exception as e:  # noqa: BLE001
        F.append(Finding("oracle", "roundtrip_data", cc + "|raises", f"latitude-weighted preprocessing raised {type(e).__name__}: {str(e)[:150]}"))
        return {"findings": F, "info": {}}
    r = compare_labelled(obj, R, rtol=1e-9, atol=1e-9)
    if r:
        F.append(Finding("oracle", "roundtrip_data", cc, f"fit_transform -> inverse_transform_data with use_coslat, latitudes {lats}: {r[:200]}"))
    return {"findings": F, "info": {"dist": {"container": "coslat-" + case["container"]}}}


def run_missing(case):
    """(year, month, lat, lon) fields with entirely missing (year, month) samples, the two sample dimensions given as dimensions or as
    the user's own MultiIndex: matrix and back = the input at every label that is not missing; same container, names, dimensions"""
    from xeofs.preprocessing.preprocessor import Preprocessor

    F = []
    rng = np.random.default_rng(case["mseed"])
    ny_, nm_, nla, nlo = 4, 3, 2, 3
    gone = [(int(a), int(b)) for a, b in zip(rng.choice(ny_, size=case["n_missing"], replace=False), rng.choice(nm_, size=case["n_missing"], replace=False))]

    def field(nlo_):
        v = rng.normal(size=(ny_, nm_, nla, nlo_))
        for a, b in gone:
            v[a, b] = np.nan
        A = xr.DataArray(v, dims=("year", "month", "lat", "lon"), coords={"year": 2000 + np.arange(ny_), "month": np.arange(1, nm_ + 1),
                                                                          "lat": np.linspace(40, -40, nla), "lon": np.arange(nlo_) * 20.0})
        A = A.transpose(*[("year", "month", "lat", "lon"), ("lat", "year", "lon", "month"), ("lon", "lat", "month", "year")][case["order"]])
        return A.stack(t=("year", "month")) if case["index"] == "multi" else A

    sd = ("t",) if case["index"] == "multi" else ("year", "month")
    if case["container"] == "DA":
        obj = field(nlo)
    elif case["container"] == "DS":
        obj = xr.Dataset({"a": field(nlo), "b": field(nlo)})
    else:
        obj = [field(nlo), field(2)]
    cc = f"{case['container']}|{case['index']}|missing-samples"
    info = {"dist": {"container": case["container"], "ns": len(sd), "nf": 2, "multi": case["index"] == "multi", "missing_samples": case["n_missing"]}}

    def cmp(ref, got, what):
        parts = list(zip(ref, got)) if isinstance(ref, list) else ([(ref[v], got[v]) for v in ref.data_vars] if isinstance(ref, xr.Dataset) else [(ref, got)])
        for a, b in parts:
            if set(a.dims) != set(b.dims):
                return f"{what}: dims {b.dims} for input dims {a.dims}"
            a2 = a.unstack("t") if case["index"] == "multi" else a
            b2 = b.unstack("t") if "t" in b.dims and isinstance(b.indexes.get("t"), __import__("pandas").MultiIndex) else b
            b2 = b2.reindex({d: a2[d].values for d in a2.dims}).transpose(*a2.dims)
            av, bv = np.asarray(a2.values), np.asarray(b2.values)
            ok = ~np.isnan(av)
            if np.isnan(bv[ok]).any() or np.abs(bv[ok] - av[ok]).max() > 1e-8:
                return f"{what}: values differ from the input at labels that are not missing"
            if not np.isnan(bv[~ok]).all():
                return f"{what}: values at entirely missing samples"
        return None

    try:
        p = Preprocessor(with_center=False)
        D = p.fit_transform(obj, sd)
        R = p.inverse_transform_data(D)
        if type(R) is not type(obj):
            F.append(Finding("oracle", "roundtrip_data", cc, f"container {type(R).__name__} for {type(obj).__name__}"))
        else:
            r = cmp(obj, R, "fit_transform -> inverse_transform_data")
            if r:
                F.append(Finding("oracle", "roundtrip_data", cc, r))
    except Exception as e:  # noqa: BLE001
        F.append(Finding("oracle", "roundtrip_data", cc + "|raises", f"preprocessing a supported input (samples {gone} entirely missing) raised {type(e).__name__}: {str(e)[:150]}"))
        return {"findings": F, "info": info}
    try:
        m = xe.single.EOF(n_modes=int(min(D.shape[0] - 1, D.shape[1])), solver="full", center=True).fit(obj, sd)
        rec = m.inverse_transform(m.scores())
        r = cmp(obj, rec, "inverse_transform(scores()) with all modes")
        if r:
            F.append(Finding("oracle", "reconstruction_structure", cc, r))
    except Exception as e:  # noqa: BLE001
        F.append(Finding("oracle", "model_structure", cc + "|raises", f"EOF fit / reconstruction on a supported input (samples {gone} entirely missing) raised {type(e).__name__}: {str(e)[:150]}"))
    return {"findings": F, "info": info}


def run_long_list(case):
    F = []
    rng = np.random.default_rng(case["mseed"])
    n = 20
    items = []
    for j in range(case["n_items"]):
        p = int(rng.integers(2, 5))
        xs = (np.arange(p) * (j + 1.0) + 10.0 * j)
        if j % 3 == 1:
            xs = xs[::-1]  # descending: the same labels in another order must not matter either
        if j % 4 == 2:
            xs = np.arange(p) * 1.0  # several items share labels
        items.append(xr.DataArray(rng.normal(size=(n, p)) + 100.0 * j, dims=("time", "x"), coords={"time": np.arange(n), "x": xs}, name=f"v{j}"))
    cc = f"LIST{case['n_items']}|{case['route']}"
    ref = xe.single.EOF(n_modes=3, solver="full").fit(items, "time")
    if case["route"] == "compute":
        m = xe.single.EOF(n_modes=3, solver="full", compute=False).fit(items, "time")
        m.compute()
    else:
        m = xe.single.EOF.deserialize(ref.serialize())
    checks = 0
    try:
        triples = (("components", ref.components(), m.components()), ("reconstruction", ref.inverse_transform(ref.scores()), m.inverse_transform(m.scores())),
                   ("transform", [ref.transform(items)], [m.transform(items)]))
    except Exception as e:  # noqa: BLE001  the eager model answers (it was asked first); a rebuilt one that raises has lost the structure
        F.append(Finding("oracle", "roundtrip_data", cc + "|raises", f"the model whose preprocessor was rebuilt ({case['route']}) raised {type(e).__name__}: {str(e)[:140]}"))
        return {"findings": F, "info": {"dist": {"container": f"LIST{case['n_items']}", "route": case["route"]}}}
    for what, a, b in triples:
        if len(a) != len(b):
            F.append(Finding("oracle", "roundtrip_data", cc + "|" + what, f"{what}: {len(b)} items instead of {len(a)}"))
            continue
        for j, (u, v) in enumerate(zip(a, b)):
            checks += 1
            sc = float(np.nanmax(np.abs(np.asarray(u.values)))) if u.size else 1.0
            r = compare_labelled(u, v, rtol=1e-8, atol=1e-8 * max(sc, 1e-300))
            if r:
                F.append(Finding("oracle", "roundtrip_data", cc + "|" + what, f"{what} of item {j} after the preprocessor was rebuilt ({case['route']}): {r[:160]}"))
                break
    # and against the data itself: the full-rank reconstruction of the rebuilt model puts every value back on its own label
    full = xe.single.EOF(n_modes=min(n - 1, sum(it.sizes["x"] for it in items)), solver="full", compute=(case["route"] != "compute")).fit(items, "time")
    try:
        if case["route"] == "compute":
            full.compute()
        else:
            full = xe.single.EOF.deserialize(full.serialize())
        rec = full.inverse_transform(full.scores())
    except Exception as e:  # noqa: BLE001
        F.append(Finding("oracle", "roundtrip_data", cc + "|raises", f"full-rank model rebuilt via {case['route']} raised {type(e).__name__}: {str(e)[:140]}"))
        return {"findings": F, "info": {"dist": {"container": f"LIST{case['n_items']}", "route": case["route"]}}}
    for j, (u, v) in enumerate(zip(items, rec)):
        checks += 1
        r = compare_labelled(u, v, rtol=1e-6, atol=1e-6 * 100.0 * (j + 1))
        if r:
            F.append(Finding("oracle", "roundtrip_data", cc + "|data", f"item {j}: full reconstruction of the rebuilt model differs from the data at its labels: {r[:160]}"))
            break
    return {"findings": F, "info": {"oracle_checks": {"n": checks}, "dist": {"container": f"LIST{case['n_items']}", "route": case["route"]}}}


def run(case):
    from xeofs.preprocessing.preprocessor import Preprocessor

    if case["kind"] == "long_list_rebuilt":
        return run_long_list(case)
    if case["kind"] == "coslat_roundtrip":
        return run_coslat(case)
    if case["kind"] == "missing_roundtrip":
        return run_missing(case)
    F = []
    obj = layouts.build(case)
    sd = tuple(case["sd"])
    cc = case_class(case)
    kw = {"sample_name": "S", "feature_name": "F"} if case["names"] else {}
    info = {"dist": {"container": case["container"], "ns": len(sd), "nf": len(case["fd"]), "multi": "multi" in case["kinds"].values()}}
    # ---------------- Preprocessor: matrix and round trip
    try:
        p = Preprocessor(with_center=case["flags"]["with_center"], with_std=case["flags"]["with_std"], **kw)
        D = p.fit_transform(obj, sd)
        R = p.inverse_transform_data(D)
    except Exception as e:  # noqa: BLE001
        F.append(Finding("oracle", "roundtrip_data", cc + "|raises", f"preprocessing a supported input raised {type(e).__name__}: {str(e)[:150]}"))
        return {"findings": F, "info": info}
    first = obj[0] if isinstance(obj, list) else obj
    n_s = int(np.prod([first.sizes[d] for d in sd]))
    if D.shape != (n_s, n_cells(obj, sd)):
        F.append(Finding("oracle", "frame_bijective", cc, f"2-D matrix has shape {D.shape}, expected {(n_s, n_cells(obj, sd))}"))
    if not case["flags"]["with_center"] and not case["flags"]["with_std"]:
        # every cell exactly once
        def allvals(o):
            if isinstance(o, list):
                return np.concatenate([allvals(x) for x in o])
            if isinstance(o, xr.Dataset):
                return np.concatenate([allvals(o[v]) for v in o.data_vars])
            return np.asarray(o.values).ravel()

        a = np.sort(allvals(obj))
        b = np.sort(np.asarray(D.values).ravel())
        if a.shape != b.shape or not np.array_equal(a, b):
            F.append(Finding("oracle", "frame_bijective", cc, "the 2-D matrix is not a rearrangement of the input cells"))
    r = compare_labelled(obj, R, rtol=1e-12, atol=1e-9)
    if r:
        F.append(Finding("oracle", "roundtrip_data", cc, f"fit_transform -> inverse_transform_data: {r}"))
    # ---------------- model level: components / scores / reconstruction structure
    try:
        k = min(D.shape)
        m = xe.single.EOF(n_modes=k, solver="full", center=case["flags"]["with_center"], standardize=case["flags"]["with_std"], **kw)
        m.fit(obj, sd)
        comps = m.components()
        sc = m.scores()
        rec = m.inverse_transform(sc)
    except Exception as e:  # noqa: BLE001
        F.append(Finding("oracle", "model_structure", cc + "|raises", f"EOF fit/accessors on a supported input raised {type(e).__name__}: {str(e)[:150]}"))
        return {"findings": F, "info": info}
    fdims_all = set()
    for o in (obj if isinstance(obj, list) else [obj]):
        fdims_all |= set(o.dims) - set(sd)
    check_mode_struct(comps, obj, fdims_all, "components", F, cc)
    check_mode_struct(sc, first if not isinstance(first, xr.Dataset) else first[list(first.data_vars)[0]], set(sd), "scores", F, cc)
    scale = max(1.0, float(np.nanmax(np.abs(D.values))))
    r = compare_labelled(obj, rec, rtol=1e-8, atol=1e-8 * 4000)
    if r:
        F.append(Finding("oracle", "reconstruction_structure", cc, f"inverse_transform(scores()) with all modes: {r}"))
    # a reconstruction from ONE sample keeps the full input structure as well (its sample dimensions with that one label)
    try:
        one = sc.isel({d: [0] for d in sd})
        rec1 = m.inverse_transform(one)
        ref1 = [o.sel({d: one[d].values for d in sd}) for o in obj] if isinstance(obj, list) else obj.sel({d: one[d].values for d in sd})
        r = compare_labelled(ref1, rec1, rtol=1e-8, atol=1e-8 * 4000)
        if r:
            F.append(Finding("oracle", "reconstruction_structure", cc, f"inverse_transform of a single sample's scores: {r[:200]}"))
    except Exception as e:  # noqa: BLE001
        F.append(Finding("oracle", "reconstruction_structure", cc + "|raises", f"single sample: {type(e).__name__}: {str(e)[:150]}"))
    # the labels of the fitted results stay the model's own after other data went through `transform`: the same labelled data
    # stored in the opposite order along the first sample dimension
    try:
        rev = lambda o: o.isel({sd[0]: slice(None, None, -1)})  # noqa: E731
        B = [rev(o) for o in obj] if isinstance(obj, list) else rev(obj)
        m.transform(B)
        sc2 = m.scores()
        r = compare_labelled(sc, sc2, rtol=0.0, atol=0.0)
        if r:
            F.append(Finding("oracle", "labels_survive_transform", cc, f"scores() after transform(data in another storage order) no longer match scores() before: {r[:200]}"))
    except Exception as e:  # noqa: BLE001
        F.append(Finding("oracle", "labels_survive_transform", cc + "|raises", f"{type(e).__name__}: {str(e)[:150]}"))
    info["oracle_checks"] = {"layout": 6}
    return {"findings": F, "info": info}
