"""C05 — out-of-sample transform is a per-sample map labelled by the new data."""
from __future__ import annotations

from harness.common import *  # noqa: F401,F403
from harness.common import Finding, np, xr, xe, relerr
from harness import zoo
from harness.props import c04

RULE = ("every transform-capable class x new data with 1..N samples whose sample coordinates are disjoint from / overlapping / equal to the "
        "training ones (incl. repeated labels) x 1-2 sample dims / sample MultiIndex x every split point of the new data (thorough) or 3 "
        "random ones (quick) + subset-of-training check; distinct by (class, structure, coordinate kind, n_new, config)")


def cases(seed, tier, broken=()):
    rng = np.random.default_rng(seed)
    n = {"quick": 90, "thorough": 2500, "search": 700}[tier]
    out = []
    classes = zoo.TRANSFORM_CAPABLE
    for i in range(n):
        cls = classes[i % len(classes)]
        out.append({"cls": cls, "mseed": int(rng.integers(0, 2**31)), "k": int(rng.integers(2, 5)),
                    "standardize": bool(rng.random() < 0.4), "use_coslat": False, "weights": False,
                    "alpha": [float(rng.choice([0.0, 0.5, 1.0, float(rng.uniform(0, 1))])) for _ in range(2)],
                    "use_pca": bool(rng.random() < 0.5), "n_pca": "all", "power": int(rng.integers(1, 3)),
                    "normalized": bool(rng.random() < 0.3), "struct": str(rng.choice(["DA", "DA", "DS", "LIST", "2s", "MI"])),
                    "noise": "structured", "coords": str(rng.choice(["disjoint", "overlap", "equal", "repeated"])),
                    "n_new": int(rng.choice([1, 2, 5, 9])), "all_splits": tier == "thorough"})
    return out


def nontrivial_key(case, info):
    return tuple(sorted((k, str(v)) for k, v in case.items() if k != "mseed"))


def make_new(data, case, rng):
    """new samples sharing the feature layout of `data` (time coordinate re-labelled according to case['coords'])"""
    n_new = case["n_new"]
    kind = case["coords"]

    def one(A):
        if isinstance(A, list):
            return [one(a) for a in A]
        if isinstance(A, xr.Dataset):
            return xr.Dataset({v: one(A[v]) for v in A.data_vars})
        mi = "s" in A.dims
        B = A.unstack("s") if mi else A
        nt = B.sizes["time"]
        idx = rng_idx
        C = B.isel(time=idx).copy(deep=True)
        C.values[...] = np.asarray(vals_for(C))
        C = C.assign_coords(time=tcoord)
        if mi:
            C = C.stack(s=("time", "lat"))
        return C

    first = data[0] if isinstance(data, (tuple, list)) else data
    if isinstance(first, list):
        first = first[0]
    if isinstance(first, xr.Dataset):
        first = first[list(first.data_vars)[0]]
    tt = first.unstack("s").time.values if "s" in first.dims else first.time.values
    nt = len(tt)
    rng_idx = np.arange(n_new) % nt
    if kind == "disjoint":
        tcoord = np.arange(1001, 1001 + n_new * 2, 2)
    elif kind == "overlap":
        tcoord = np.concatenate([tt[: (n_new + 1) // 2], np.arange(2001, 2001 + n_new)])[:n_new]
    elif kind == "equal":
        tcoord = tt[:n_new]
    else:  # repeated labels
        tcoord = np.array([tt[0]] * n_new)
    seeds = {"i": 0}

    def vals_for(C):
        seeds["i"] += 1
        r = np.random.default_rng([case["mseed"], seeds["i"]])
        v = r.normal(size=C.shape) * 2.0 + 4.0
        if np.iscomplexobj(C.values):
            v = v + 1j * r.normal(size=C.shape)
        return v

    if isinstance(data, tuple):
        return tuple(one(d) for d in data)
    return one(data)


def sel_samples(d, idx, mi):
    """positional selection of samples (time positions)"""
    def one(A):
        if isinstance(A, list):
            return [one(a) for a in A]
        if isinstance(A, xr.Dataset) and mi:
            return xr.Dataset({v: one(A[v]) for v in A.data_vars})
        if mi:
            B = A.unstack("s").isel(time=idx)
            return B.stack(s=("time", "lat"))
        return A.isel(time=idx)

    if isinstance(d, tuple):
        return tuple(one(x) for x in d)
    return one(d)


def as_time_mode(t, mi):
    """(time[, lat], mode) numpy array with time leading, plus the time labels"""
    if mi:
        t = t.unstack("s")
    other = [d for d in t.dims if d not in ("time", "mode")]
    t = t.transpose("time", *other, "mode")
    return np.asarray(t.values), np.asarray(t.time.values)


def run(case):
    F = []
    cls = case["cls"]
    if case["coords"] == "repeated" and case["struct"] in ("2s", "MI"):
        case = dict(case, coords="disjoint")
    data, dim = c04.build(case)
    cfg = c04.model_cfg(case)
    rot_cfg = {"power": case["power"], "n_modes": cfg["n_modes"]} if "Rotator" in cls else None
    cc = f"{cls}|{case['struct']}|{case['coords']}"
    mi = case["struct"] == "MI"
    try:
        m, _ = zoo.fit(cls, data, dim, cfg, rot_cfg=rot_cfg)
    except RuntimeError as e:
        if "did not converge" in str(e):
            return {"findings": [], "info": {}}
        raise
    except ValueError as e:
        if "rank" in str(e) or "n_modes" in str(e) or "n_components must be less" in str(e):
            return {"findings": [], "info": {}}
        raise
    kw = {"normalized": True} if (case["normalized"] and cls != "multi.CCA") else {}
    rng = np.random.default_rng(case["mseed"] + 5)
    new = make_new(data, case, rng)
    n_new = case["n_new"]
    try:
        full = zoo.transform(cls, m, new, **kw)
    except Exception as e:  # noqa: BLE001
        F.append(Finding("oracle", "transform_labels", cc + "|raises", f"transform(new data) raised {type(e).__name__}: {str(e)[:160]}"))
        return {"findings": F, "info": {}}
    checks = 0
    first_new = new[0] if isinstance(new, tuple) else new
    if isinstance(first_new, list):
        first_new = first_new[0]
    if isinstance(first_new, xr.Dataset):
        first_new = first_new[list(first_new.data_vars)[0]]
    want_t = np.asarray((first_new.unstack("s") if mi else first_new).time.values)
    fulls = []
    for i, t in enumerate(full):
        checks += 1
        sd = set(dim) if isinstance(dim, tuple) else {dim}
        if set(t.dims) != sd | {"mode"}:
            F.append(Finding("oracle", "transform_labels", cc + "|dims", f"field {i}: dims {t.dims}, expected {sorted(sd)} + mode"))
            return {"findings": F, "info": {}}
        v, tl = as_time_mode(t, mi)
        if len(tl) != len(want_t) or not np.array_equal(tl, want_t):
            F.append(Finding("oracle", "transform_labels", cc, f"field {i}: result labelled {tl[:5]}..., new data labelled {want_t[:5]}... ({len(tl)} vs {len(want_t)} samples)"))
            return {"findings": F, "info": {}}
        if np.isnan(v).any():
            F.append(Finding("oracle", "no_spurious_nan", cc, f"field {i}: {int(np.isnan(v).sum())} NaN in the scores of NaN-free new data"))
            return {"findings": F, "info": {}}
        fulls.append(v)
    # cross-set models: each field is a per-sample map of ITS OWN new data — a field transformed alone, or next to a partner with
    # other samples, gives the same labelled result
    if zoo.kind(cls) in ("cross", "rot_cross") and n_new >= 2:
        Xn, Yn = new
        try:
            alone = [m.transform(X=Xn, **kw), m.transform(Y=Yn, **kw)]
            Xa = sel_samples((Xn, Yn), slice(0, 1), mi)[0]
            mixed = m.transform(X=Xa, Y=Yn, **kw)
            cand = [("alone", 0, alone[0]), ("alone", 1, alone[1]), ("partner-with-other-samples", 1, mixed[1])]
            for what, i, t in cand:
                checks += 1
                v, tl = as_time_mode(t, mi)
                if len(tl) != len(want_t) or not np.array_equal(tl, want_t):
                    F.append(Finding("oracle", "transform_labels", cc + "|field-" + what, f"field {i} transformed {what}: labelled {tl[:5]}... ({len(tl)} samples), its data are labelled {want_t[:5]}... ({len(want_t)})"))
                elif relerr(v, fulls[i]) > 1e-9:
                    F.append(Finding("oracle", "transform_row_local", cc + "|field-" + what, f"field {i} transformed {what} differs from the joint transform by rel {relerr(v, fulls[i]):.2e}"))
        except Exception as e:  # noqa: BLE001
            F.append(Finding("oracle", "transform_labels", cc + "|field-separately|raises", f"{type(e).__name__}: {str(e)[:160]}"))
    # list input: the elements of the NEW data are paired by sample LABEL — an element that stores the same samples in another order
    # is the same data, so every sample's scores stay the same ("each sample's scores depend only on that sample")
    if case["struct"] == "LIST" and n_new >= 2 and case["coords"] != "repeated":
        def rev_tail(o):
            return [o[0]] + [a.isel(time=slice(None, None, -1)) for a in o[1:]] if isinstance(o, list) else o
        new_r = tuple(rev_tail(o) for o in new) if isinstance(new, tuple) else rev_tail(new)
        if any(isinstance(o, list) for o in (new if isinstance(new, tuple) else (new,))):
            try:
                tr = zoo.transform(cls, m, new_r, **kw)
                for i, t in enumerate(tr):
                    checks += 1
                    v, tl = as_time_mode(t, mi)
                    if sorted(tl.tolist()) != sorted(want_t.tolist()):
                        F.append(Finding("oracle", "transform_labels", cc + "|element-in-other-sample-order", f"field {i}: labels {tl[:5]}... for new data labelled {want_t[:5]}..."))
                        continue
                    pos = [int(np.nonzero(tl == x)[0][0]) for x in want_t]
                    e = relerr(v[pos], fulls[i])
                    if e > 1e-9:
                        F.append(Finding("oracle", "transform_row_local", cc + "|element-in-other-sample-order", f"field {i}: scores at the same labels differ by rel {e:.2e} when a list element stores its samples in reverse order"))
            except Exception as e:  # noqa: BLE001
                F.append(Finding("oracle", "transform_labels", cc + "|element-in-other-sample-order|raises", f"{type(e).__name__}: {str(e)[:160]}"))
    # concat property: transform(A ++ B) == transform(A) ++ transform(B), for splits of the new data
    if n_new >= 2:
        splits = list(range(1, n_new)) if case.get("all_splits") else sorted(set(int(x) for x in rng.integers(1, n_new, size=3)))
        for sp in splits:
            A = sel_samples(new, slice(0, sp), mi)
            B = sel_samples(new, slice(sp, None), mi)
            try:
                ta = zoo.transform(cls, m, A, **kw)
                tb = zoo.transform(cls, m, B, **kw)
            except Exception as e:  # noqa: BLE001
                F.append(Finding("oracle", "transform_concat", cc + "|raises", f"transform of a part raised {type(e).__name__}: {str(e)[:120]}"))
                break
            for i in range(len(full)):
                va, _ = as_time_mode(ta[i], mi)
                vb, _ = as_time_mode(tb[i], mi)
                cat = np.concatenate([va, vb], axis=0)
                checks += 1
                e = relerr(cat, fulls[i])
                if e > 1e-9:
                    F.append(Finding("oracle", "transform_concat", cc, f"field {i}: transform(A++B) != transform(A)++transform(B) at split {sp}/{n_new}: rel {e:.2e}"))
                    break
    # subset of the training samples == subset of the scores
    idx = np.sort(rng.choice(np.arange(0, 28), size=min(5, 28), replace=False))
    sub = sel_samples(data, idx, mi)
    try:
        ts = zoo.transform(cls, m, sub, **kw)
        sc = zoo.scores(cls, m, **kw)
        for i in range(len(ts)):
            v, tl = as_time_mode(ts[i], mi)
            s, sl = as_time_mode(sc[i], mi)
            checks += 1
            pos = [int(np.nonzero(sl == x)[0][0]) for x in tl]
            e = relerr(v, s[pos])
            tol = 1e-7 if zoo.base_of(cls) != "SparsePCA" else 1e-6
            if e > tol:
                F.append(Finding("oracle", "transform_subset_of_training", cc, f"field {i}: transform(training subset) != scores subset: rel {e:.2e}"))
    except Exception as e:  # noqa: BLE001
        F.append(Finding("oracle", "transform_subset_of_training", cc + "|raises", f"{type(e).__name__}: {str(e)[:140]}"))
    # after transforming OTHER data, the full training data is still labelled with its own coordinates and reproduces the scores
    try:
        tt = zoo.transform(cls, m, data, **kw)
        sc = zoo.scores(cls, m, **kw)
        for i in range(len(tt)):
            v, tl = as_time_mode(tt[i], mi)
            s, sl = as_time_mode(sc[i], mi)
            checks += 1
            if len(tl) != len(sl) or not np.array_equal(tl, sl):
                F.append(Finding("oracle", "transform_labels", cc + "|after-other-data", f"field {i}: transform(training data) after transform(new data) is labelled {tl[:4]}..., training samples are {sl[:4]}..."))
            elif relerr(v, s) > (1e-7 if zoo.base_of(cls) != "SparsePCA" else 1e-6):
                F.append(Finding("oracle", "transform_subset_of_training", cc + "|after-other-data", f"field {i}: rel {relerr(v, s):.2e}"))
    except Exception as e:  # noqa: BLE001
        F.append(Finding("oracle", "transform_labels", cc + "|after-other-data|raises", f"{type(e).__name__}: {str(e)[:140]}"))
    return {"findings": F, "info": {"oracle_checks": {"n": checks}, "dist": {"cls": cls, "struct": case["struct"], "coords": case["coords"], "n_new": n_new}}}
