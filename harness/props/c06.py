"""C06 — fully missing features/samples are ignored exactly; isolated NaNs are refused."""
from __future__ import annotations

import itertools

from harness.common import *  # noqa: F401,F403
from harness.common import Finding, np, xr, xe, relerr
from harness import zoo

RULE = ("NaN masks over (time, lat, lon) fields: any subset of features and/or samples fully missing (boundary, interior, whole variable, "
        "different per variable), masks with >=1 isolated NaN incl. 'staggered' ones (every sample misses the same NUMBER of cells at "
        "different places); single-set, cross-set and rotated models; fit, transform (same mask, other mask, after a refused call); "
        "thorough enumerates all row/column subset masks for shapes <= 4x4 exhaustively; distinct by (kind, class, mask signature)")
EXHAUSTIVE = {"quick": False, "thorough": False}
CLASSES = ["EOF", "ComplexEOF", "EOFRotator", "MCA", "CPCCA", "MCARotator", "SparsePCA", "HilbertEOF", "POP"]


def cases(seed, tier, broken=()):
    rng = np.random.default_rng(seed)
    out = []
    n = {"quick": 60, "thorough": 1200, "search": 500}[tier]
    for i in range(n):
        cls = CLASSES[i % len(CLASSES)]
        nt, ny, nx = int(rng.integers(10, 20)), int(rng.integers(2, 4)), int(rng.integers(2, 5))
        rows = sorted(set(int(x) for x in rng.choice(nt, size=int(rng.integers(0, 4)), replace=False)))
        ncol = int(rng.integers(0, min(4, ny * nx - 2)))
        cols = sorted(set(int(x) for x in rng.choice(ny * nx, size=ncol, replace=False)))
        out.append({"kind": "deleted", "cls": cls, "nt": nt, "ny": ny, "nx": nx, "rows": rows, "cols": cols, "mseed": int(rng.integers(0, 2**31)),
                    "struct": str(rng.choice(["DA", "DS", "DS-var", "LIST"])), "second_rows": str(rng.choice(["same", "none"])),
                    "standardize": bool(i % 2)})
    pats = ["single", "staggered", "two_in_row", "plus_full_row", "block"]
    for i in range(max(20, n // 3)):
        cls = CLASSES[i % len(CLASSES)] if i >= 10 else ["EOF", "MCA"][i % 2]
        out.append({"kind": "isolated", "cls": cls, "nt": 12, "ny": 3, "nx": 3, "mseed": int(rng.integers(0, 2**31)),
                    "pattern": pats[i % 5], "where": ["fit", "transform"][(i // 5) % 2]})
    for i in range(max(10, n // 4)):
        cls = ["EOF", "ComplexEOF", "EOFRotator", "MCA", "SparsePCA"][i % 5]
        out.append({"kind": "mask_mismatch", "cls": cls, "nt": 14, "ny": 3, "nx": 3, "mseed": int(rng.integers(0, 2**31)),
                    "fit_cols": sorted(set(int(x) for x in rng.choice(9, size=int(rng.integers(0, 3)), replace=False))),
                    "new_cols": sorted(set(int(x) for x in rng.choice(9, size=int(rng.integers(1, 3)), replace=False))),
                    "center": bool(rng.random() < 0.5)})
    for i in range(max(6, n // 8)):
        out.append({"kind": "cross_positions", "cls": ["MCA", "CPCCA", "CCA"][i % 3], "mseed": int(rng.integers(0, 2**31)),
                    "rx": sorted(set(int(x) for x in rng.choice(16, size=2, replace=False))), "ry": sorted(set(int(x) for x in rng.choice(16, size=2, replace=False)))})
    # list input whose items miss the SAME NUMBER of samples at DIFFERENT positions: for the concatenated matrix these are NaN blocks that
    # are neither whole samples nor whole features -> refused, or treated as deleted from every item; never paired row by row
    for i in range({"quick": 8, "thorough": 60, "search": 40}[tier]):
        nt = int(rng.integers(12, 24))
        r1, r2 = (int(x) for x in rng.choice(nt, size=2, replace=False))
        out.append({"kind": "list_staggered", "cls": ["EOF", "ComplexEOF", "EOFRotator", "SparsePCA"][i % 4] if i % 2 else "EOF", "nt": nt, "ny": 3, "nx": 4,
                    "mseed": int(rng.integers(0, 2**31)), "r1": r1, "r2": r2, "where": ["fit", "transform"][i % 2]})
    if tier == "thorough":
        for nt, p in ((4, 3), (3, 4), (4, 4)):
            for r in range(0, nt - 1):
                for rows in itertools.combinations(range(nt), r):
                    for c in range(0, p - 1):
                        for cols in itertools.combinations(range(p), c):
                            out.append({"kind": "deleted", "cls": "EOF", "nt": nt + 2, "ny": 1, "nx": p, "rows": list(rows), "cols": list(cols), "mseed": 1,
                                        "struct": "DA", "second_rows": "same"})
    return out


def nontrivial_key(case, info):
    return tuple(sorted((k, str(v)) for k, v in case.items() if k != "mseed"))


def base_fields(case, cls):
    rng = np.random.default_rng(case["mseed"])
    nt, ny, nx = case["nt"], case["ny"], case["nx"]
    cplx = zoo.needs_complex_input(cls)

    def f(nx_, off):
        t = np.arange(nt)[:, None, None]
        v = rng.normal(size=(nt, ny, nx_)) + 2 * np.sin(t / 2.0) * rng.normal(size=(1, ny, nx_)) + off
        if cplx:
            v = v + 1j * rng.normal(size=(nt, ny, nx_))
        return xr.DataArray(v, dims=("time", "lat", "lon"), coords={"time": np.arange(nt), "lat": np.linspace(-30, 30, ny), "lon": np.arange(nx_) * 10.0}, name="f")

    X = f(nx, 3.0)
    Y = f(max(2, nx - 1), -1.0) + 0.4 * X.isel(lon=slice(0, max(2, nx - 1))).values
    return X, Y


def mask_field(A, rows, cols):
    B = A.copy(deep=True)
    nx = A.sizes["lon"]
    for r in rows:
        B.values[r] = np.nan
    for c in cols:
        if c // nx < A.sizes["lat"] and c % nx < nx:
            B.values[:, c // nx, c % nx] = np.nan
    return B


def delete_field(A, rows, cols):
    """the same field with the masked samples removed and the masked cells removed (as a stacked feature dim)"""
    keep_t = [i for i in range(A.sizes["time"]) if i not in rows]
    S = A.isel(time=keep_t).stack(cell=("lat", "lon"))
    nx = A.sizes["lon"]
    keep_c = [i for i in range(S.sizes["cell"]) if i not in cols]
    S = S.isel(cell=keep_c)
    return S.drop_vars(["cell", "lat", "lon"]).assign_coords(cell=np.arange(len(keep_c))), keep_t, keep_c


def cfg_for(cls, k=2):
    b = zoo.base_of(cls)
    if b in zoo.SINGLE:
        cfg = {"n_modes": k, "solver": "full"}
        if b == "POP":
            cfg["n_pca_modes"] = 3
        if b == "SparsePCA":
            cfg["alpha"] = 1e-3
        return cfg
    cfg = {"n_modes": k, "solver": "full", "use_pca": False}
    if b.endswith("CPCCA"):
        cfg["alpha"] = 0.5
    return cfg


def run_deleted(case):
    F = []
    cls = case["cls"]
    X, Y = base_fields(case, cls)
    rows, cols = case["rows"], [c for c in case["cols"] if c < case["ny"] * case["nx"]]
    two = zoo.takes_two(cls)
    st = case["struct"] if not two else "DA"
    cc = f"{cls}|{st}"
    Xm = mask_field(X, rows, cols)
    Xd, keep_t, keep_c = delete_field(X, rows, cols)
    if len(keep_t) < 4 or len(keep_c) < 2:
        return {"findings": [], "info": {}}
    if two:
        ycols = [c for c in cols if (c % case["nx"]) < Y.sizes["lon"]][:1]
        ycols_y = [(c // case["nx"]) * Y.sizes["lon"] + (c % case["nx"]) for c in ycols]
        Ym = mask_field(Y, rows, ycols_y)
        Yd, _, keep_cy = delete_field(Y, rows, ycols_y)
        masked, deleted = (Xm, Ym), (Xd, Yd)
    elif st == "DS":
        masked = xr.Dataset({"a": Xm, "b": mask_field(X * 2 + 1, rows, cols)})
        deleted = xr.Dataset({"a": Xd, "b": Xd * 2 + 1})
    elif st == "DS-var":
        # different pattern per variable: variable b misses one more cell
        extra = [c for c in range(case["ny"] * case["nx"]) if c not in cols][:1]
        masked = xr.Dataset({"a": Xm, "b": mask_field(X * 2 + 1, rows, cols + extra)})
        Bd, _, _ = delete_field(X * 2 + 1, rows, cols + extra)
        deleted = [Xd, Bd.rename(cell="cell_b")]
    elif st == "LIST":
        masked = [Xm, mask_field((X * 0.5).isel(lon=slice(0, 2)), rows, [])]
        deleted = [Xd, (X * 0.5).isel(lon=slice(0, 2), time=keep_t)]
    else:
        masked, deleted = Xm, Xd
    k = 2
    cfg = cfg_for(cls, k)
    # every preprocessing statistic (mean, standard deviation, weights) must ignore the missing samples as well
    if case.get("standardize"):
        cfg["standardize"] = True
    cc += "|std" if case.get("standardize") else ""
    rot = {"n_modes": k, "power": 1} if "Rotator" in cls else None
    try:
        m1, _ = zoo.fit(cls, masked, "time", cfg, rot_cfg=rot)
    except Exception as e:  # noqa: BLE001
        # "the fitted model is the one obtained by deleting them beforehand": if the fit of the deleted data is refused in the same
        # way (e.g. the rotation does not converge on these numbers), both behave alike and nothing is claimed
        try:
            zoo.fit(cls, deleted, "time", cfg, rot_cfg=rot)
            same = False
        except Exception as e2:  # noqa: BLE001
            same = type(e2) is type(e)
        if not same:
            F.append(Finding("oracle", "fit_masked_eq_fit_deleted", cc + "|raises", f"fit on data with fully missing samples {rows} / cells {cols} raised {type(e).__name__}: {str(e)[:140]}"))
        return {"findings": F, "info": {"dist": {"outcome": "both-refused" if same else "raises"}}}
    m2, _ = zoo.fit(cls, deleted, "time", cfg, rot_cfg=rot)
    checks = 0
    # identical spectra / scores on remaining labels
    def spec(m):
        if zoo.is_cross(cls):
            return np.asarray(m.data["squared_covariance"].values)
        if zoo.base_of(cls) == "POP":
            return np.sort(np.abs(np.asarray(m.eigenvalues().values)))
        return np.asarray(m.explained_variance().values)

    e = relerr(spec(m1), spec(m2))
    checks += 1
    if e > 1e-8:
        F.append(Finding("oracle", "fit_masked_eq_fit_deleted", cc, f"spectrum differs from the fit on the reduced data by rel {e:.2e} (rows {rows}, cells {cols})"))
    s1 = zoo.scores(cls, m1)
    s2 = zoo.scores(cls, m2)
    c1 = zoo.components(cls, m1)
    for i, (a, b) in enumerate(zip(s1, s2)):
        a = a.transpose("mode", "time")
        b = b.transpose("mode", "time")
        av = np.asarray(a.values)
        # NaN exactly at the deleted samples (or omitted)
        tl = list(a.time.values)
        present_deleted = [t for t in rows if t in tl]
        for t in present_deleted:
            if not np.isnan(av[:, tl.index(t)]).all():
                F.append(Finding("oracle", "nan_exactly_at_deleted", cc + "|scores", f"scores at the fully missing sample {t} are not NaN"))
                break
        keep_pos = [tl.index(t) for t in keep_t if t in tl]
        if len(keep_pos) != len(keep_t):
            F.append(Finding("oracle", "nan_exactly_at_deleted", cc + "|scores", "scores lack valid samples"))
            continue
        if np.isnan(av[:, keep_pos]).any():
            F.append(Finding("oracle", "nan_exactly_at_deleted", cc + "|scores", "scores contain NaN at valid samples"))
            continue
        checks += 1
        bv = np.asarray(b.values)
        if zoo.base_of(cls) == "POP":
            ee = relerr(np.sort(np.abs(av[:, keep_pos]).ravel()), np.sort(np.abs(bv).ravel()))
        else:
            ee = min(relerr(av[:, keep_pos], bv), relerr(np.abs(av[:, keep_pos]), np.abs(bv)))
        if ee > 1e-7:
            F.append(Finding("oracle", "fit_masked_eq_fit_deleted", cc + "|scores", f"scores on the remaining samples differ from the reduced fit by rel {ee:.2e}"))
    # components: NaN exactly at the deleted cells
    comp = c1[0]
    if isinstance(comp, xr.Dataset):
        comp = comp["a"]
    if isinstance(comp, list):
        comp = comp[0]
    cv = np.asarray(comp.transpose("mode", "lat", "lon").values).reshape(comp.sizes["mode"], -1)
    nanmask = np.isnan(cv).all(axis=0)
    anynan = np.isnan(cv).any(axis=0)
    expect = np.zeros(cv.shape[1], bool)
    expect[[c for c in cols]] = True
    checks += 1
    if not np.array_equal(nanmask, expect) or not np.array_equal(anynan, expect):
        F.append(Finding("oracle", "nan_exactly_at_deleted", cc + "|components", f"components are NaN at cells {list(np.nonzero(anynan)[0])}, deleted cells are {cols}"))
    # reconstruction: NaN exactly at deleted labels
    if cls not in zoo.NO_INVERSE:
        try:
            rec = zoo.inverse_transform(cls, m1, s1)[0]
            if isinstance(rec, xr.Dataset):
                rec = rec["a"]
            if isinstance(rec, list):
                rec = rec[0]
            rv = np.asarray(rec.transpose("time", "lat", "lon").values).reshape(rec.sizes["time"], -1)
            tl = list(rec.time.values)
            bad = False
            for t in keep_t:
                if t in tl:
                    row = np.isnan(rv[tl.index(t)])
                    if not np.array_equal(row, expect):
                        bad = True
            checks += 1
            if bad:
                F.append(Finding("oracle", "nan_exactly_at_deleted", cc + "|reconstruction", "reconstruction NaN pattern at valid samples differs from the deleted cells"))
        except Exception as e:  # noqa: BLE001
            F.append(Finding("oracle", "nan_exactly_at_deleted", cc + "|reconstruction|raises", f"{type(e).__name__}: {str(e)[:120]}"))
    # transform of the masked training data (same mask) must be accepted and reproduce the scores
    if cls not in zoo.NO_TRANSFORM:
        try:
            tf = zoo.transform(cls, m1, masked)
            for i, (a, t) in enumerate(zip(s1, tf)):
                a2, t2 = xr.align(a, t.transpose(*a.dims), join="inner")
                av, tv = np.asarray(a2.values), np.asarray(t2.values)
                mk = ~(np.isnan(av) | np.isnan(tv))
                checks += 1
                if mk.sum() < len(keep_t) * k or relerr(av[mk], tv[mk]) > 1e-7:
                    F.append(Finding("oracle", "transform_same_mask", cc, f"transform of the masked training data: rel {relerr(av[mk], tv[mk]):.2e}, {int(mk.sum())} valid entries"))
        except Exception as e:  # noqa: BLE001
            F.append(Finding("oracle", "transform_same_mask", cc + "|raises", f"{type(e).__name__}: {str(e)[:140]}"))
    return {"findings": F, "info": {"oracle_checks": {"n": checks}, "dist": {"kind": "deleted", "cls": cls, "struct": st, "nrows": len(rows), "ncols": len(cols)}}}


def isolated_pattern(A, pattern, rng):
    B = A.copy(deep=True)
    nt, ny, nx = B.shape
    if pattern == "single":
        B.values[int(rng.integers(0, nt)), int(rng.integers(0, ny)), int(rng.integers(0, nx))] = np.nan
    elif pattern == "staggered":
        # every sample misses exactly one cell, at different places
        for t in range(nt):
            c = t % (ny * nx)
            B.values[t, c // nx, c % nx] = np.nan
    elif pattern == "two_in_row":
        t = int(rng.integers(0, nt))
        B.values[t, 0, 0] = np.nan
        B.values[t, ny - 1, nx - 1] = np.nan
    elif pattern == "plus_full_row":
        B.values[2] = np.nan
        B.values[5, 1, 1] = np.nan
    elif pattern == "block":
        B.values[3:6, 0, :] = np.nan
    return B


def run_isolated(case):
    F = []
    cls = case["cls"]
    X, Y = base_fields(case, cls)
    rng = np.random.default_rng(case["mseed"] + 1)
    Xi = isolated_pattern(X, case["pattern"], rng)
    two = zoo.takes_two(cls)
    cfg = cfg_for(cls)
    rot = {"n_modes": 2, "power": 1} if "Rotator" in cls else None
    cc = f"{cls}|{case['pattern']}|{case['where']}"
    if case["where"] == "fit":
        try:
            m, _ = zoo.fit(cls, (Xi, Y) if two else Xi, "time", cfg, rot_cfg=rot)
        except Exception as e:  # noqa: BLE001
            ok = isinstance(e, ValueError)
            if not ok:
                F.append(Finding("oracle", "isolated_nan_refused", cc + "|wrong-exception", f"isolated NaN at fit raised {type(e).__name__} (not the sanitizer's ValueError): {str(e)[:100]}"))
            return {"findings": F, "info": {"oracle_checks": {"n": 1}, "dist": {"kind": "isolated", "cls": cls}}}
        F.append(Finding("oracle", "isolated_nan_refused", cc, "data with isolated NaNs was accepted by fit"))
    else:
        if cls in zoo.NO_TRANSFORM:
            return {"findings": [], "info": {}}
        m, _ = zoo.fit(cls, (X, Y) if two else X, "time", cfg, rot_cfg=rot)
        try:
            t = zoo.transform(cls, m, (Xi, Y) if two else Xi)
        except Exception:  # noqa: BLE001
            return {"findings": F, "info": {"oracle_checks": {"n": 1}, "dist": {"kind": "isolated", "cls": cls}}}
        F.append(Finding("oracle", "isolated_nan_refused", cc, f"transform accepted data with isolated NaNs ({int(np.isnan(np.asarray(t[0].values)).sum())} NaN in result)"))
    return {"findings": F, "info": {"oracle_checks": {"n": 1}, "dist": {"kind": "isolated", "cls": cls}}}


def run_mask_mismatch(case):
    """transform data whose missing features differ from the training data must be refused - also on the second attempt,
    and a refused call must not change what the model accepts afterwards"""
    F = []
    cls = case["cls"]
    X, Y = base_fields(case, cls)
    two = zoo.takes_two(cls)
    fit_cols, new_cols = case["fit_cols"], case["new_cols"]
    if sorted(fit_cols) == sorted(new_cols):
        new_cols = sorted(set(new_cols) ^ {8})
    Xf = mask_field(X, [], fit_cols)
    Xn = mask_field(X, [], new_cols)
    cfg = cfg_for(cls)
    if zoo.base_of(cls) in zoo.SINGLE:
        cfg["center"] = case["center"]
    rot = {"n_modes": 2, "power": 1} if "Rotator" in cls else None
    centred = case["center"] or zoo.base_of(cls) not in zoo.SINGLE
    rel = "fewer-missing" if set(new_cols) < set(fit_cols) else "other-missing"
    cc = f"{rel}|{'scaled' if centred else 'unscaled'}"
    m, _ = zoo.fit(cls, (Xf, Y) if two else Xf, "time", cfg, rot_cfg=rot)
    ref = [np.asarray(t.values) for t in zoo.transform(cls, m, (Xf, Y) if two else Xf)]
    for attempt in (1, 2):
        try:
            zoo.transform(cls, m, (Xn, Y) if two else Xn)
            F.append(Finding("oracle", "transform_mask_mismatch_refused", cc, f"{cls}: transform accepted data with missing cells {new_cols}, fitted with {fit_cols} (attempt {attempt})"))
            break
        except Exception:  # noqa: BLE001
            pass
    # after refused calls the training data must still be accepted and give the same answer
    try:
        again = [np.asarray(t.values) for t in zoo.transform(cls, m, (Xf, Y) if two else Xf)]
        if any(relerr(a, b) > 1e-12 for a, b in zip(ref, again)):
            F.append(Finding("oracle", "refused_call_leaves_no_trace", cc, f"{cls}: transform of the training data changed after a refused transform"))
    except Exception as e:  # noqa: BLE001
        F.append(Finding("oracle", "refused_call_leaves_no_trace", cc + "|raises", f"training data refused after a refused transform: {type(e).__name__}: {str(e)[:100]}"))
    return {"findings": F, "info": {"oracle_checks": {"n": 3}, "dist": {"kind": "mask_mismatch", "cls": cls}}}


def run_cross_positions(case):
    """cross-set: samples missing in either field are deleted from both or the call is refused"""
    F = []
    cls = case["cls"]
    c2 = dict(case, nt=16, ny=3, nx=4)
    X, Y = base_fields(c2, cls)
    rx, ry = case["rx"], case["ry"]
    Xn, Yn = mask_field(X, rx, []), mask_field(Y, ry, [])
    cfg = cfg_for(cls)
    cc = f"{cls}|{'same' if rx == ry else 'different'}-positions"
    keep = [i for i in range(16) if i not in set(rx) | set(ry)]
    ref, _ = zoo.fit(cls, (X.isel(time=keep), Y.isel(time=keep)), "time", cfg)
    try:
        m, _ = zoo.fit(cls, (Xn, Yn), "time", cfg)
    except ValueError:
        return {"findings": [], "info": {"oracle_checks": {"n": 1}, "dist": {"kind": "cross_positions", "outcome": "refused"}}}
    e = relerr(np.asarray(m.data["singular_values"].values), np.asarray(ref.data["singular_values"].values))
    if e > 1e-8:
        F.append(Finding("oracle", "cross_samples_consistent", cc, f"fields with missing samples X{rx} Y{ry} were accepted but the result differs from the fit with those samples deleted from both (rel {e:.2e})"))
    return {"findings": F, "info": {"oracle_checks": {"n": 1}, "dist": {"kind": "cross_positions", "outcome": "accepted"}}}


def run_list_staggered(case):
    F = []
    cls = case["cls"]
    X, _ = base_fields(case, cls)
    r1, r2 = case["r1"], case["r2"]
    B0 = (X * 0.5 + 1.0).isel(lon=slice(0, 2))
    A, B = mask_field(X, [r1], []), mask_field(B0, [r2], [])
    keep = [t for t in range(case["nt"]) if t not in (r1, r2)]
    cfg = cfg_for(cls, 2)
    rot = {"n_modes": 2, "power": 1} if "Rotator" in cls else None
    cc = f"{cls}|LIST|{case['where']}"
    out = "refused"
    try:
        if case["where"] == "fit":
            try:
                m1, _ = zoo.fit(cls, [A, B], "time", cfg, rot_cfg=rot)
            except Exception:  # noqa: BLE001  refusal is one of the two allowed outcomes
                return {"findings": F, "info": {"dist": {"outcome": "refused"}}}
            out = "accepted"
            m2, _ = zoo.fit(cls, [X.isel(time=keep), B0.isel(time=keep)], "time", cfg, rot_cfg=rot)
            e = relerr(np.asarray(m1.explained_variance().values), np.asarray(m2.explained_variance().values))
            if not (e <= 1e-8):
                F.append(Finding("oracle", "list_items_missing_different_samples", cc, f"items miss samples {r1} / {r2}: the fit was accepted but its spectrum differs from the fit with both samples deleted by rel {e:.2e}"))
            s1 = zoo.scores(cls, m1)[0].transpose("mode", "time")
            tl = list(s1.time.values)
            vals = np.asarray(s1.values)
            for t in (r1, r2):
                if t in tl and not np.isnan(vals[:, tl.index(t)]).all():
                    F.append(Finding("oracle", "list_items_missing_different_samples", cc + "|scores", f"scores at sample {t} (missing in one item) are numbers"))
                    break
        else:
            m, _ = zoo.fit(cls, [X, B0], "time", cfg, rot_cfg=rot)
            ref = zoo.transform(cls, m, [X, B0])[0].transpose("mode", "time")
            try:
                got = zoo.transform(cls, m, [A, B])[0].transpose("mode", "time")
            except Exception:  # noqa: BLE001
                return {"findings": F, "info": {"dist": {"outcome": "refused"}}}
            out = "accepted"
            tl = list(got.time.values)
            gv, rv = np.asarray(got.values), np.asarray(ref.values)
            bad = [t for t in (r1, r2) if t in tl and not np.isnan(gv[:, tl.index(t)]).all()]
            if bad:
                F.append(Finding("oracle", "list_items_missing_different_samples", cc + "|scores", f"transform: scores at samples {bad} (missing in one item) are numbers"))
            rl = list(ref.time.values)
            pos = [(tl.index(t), rl.index(t)) for t in keep if t in tl]
            if len(pos) != len(keep):
                F.append(Finding("oracle", "list_items_missing_different_samples", cc + "|labels", f"transform: {len(keep) - len(pos)} valid samples are missing from the answer"))
            elif pos:
                e = relerr(gv[:, [a for a, _ in pos]], rv[:, [b for _, b in pos]])
                if not (e <= 1e-8):
                    F.append(Finding("oracle", "list_items_missing_different_samples", cc + "|values", f"transform: scores of the valid samples differ from those of the complete data by rel {e:.2e} (items miss samples {r1} / {r2})"))
    except RuntimeError as e:
        if "did not converge" not in str(e):
            raise
    return {"findings": F, "info": {"oracle_checks": {"n": 1}, "dist": {"outcome": out, "where": case["where"]}}}


def run(case):
    return {"list_staggered": run_list_staggered, "deleted": run_deleted, "isolated": run_isolated, "mask_mismatch": run_mask_mismatch, "cross_positions": run_cross_positions}[case["kind"]](case)
