"""C11 — rotation re-expresses the retained subspace without changing what it represents."""
from __future__ import annotations

from harness.common import *  # noqa: F401,F403
from harness.common import Finding, np, xr, xe, relerr, compare_labelled
from harness import zoo
from harness.props.c07 import field

RULE = ("every rotator class on its base model (real, complex, Hilbert; single-set and cross-set with alpha grid and PCA on/off) x n_modes "
        "2..n_modes(model) x power 1..4 x data with well separated and with nearly equal variances x refit of the same rotator object; "
        "rotation matrix taken from the public data['rotation_matrix']; distinct by (rotator, base config, n_rot, power, data kind)")
ROTS = list(zoo.SINGLE_ROT) + list(zoo.CROSS_ROT)


def cases(seed, tier, broken=()):
    rng = np.random.default_rng(seed)
    n = {"quick": 72, "thorough": 2000, "search": 600}[tier]
    out = []
    for i in range(n):
        rot = ROTS[i % len(ROTS)]
        kb = int(rng.integers(3, 8))
        out.append({"rot": rot, "mseed": int(rng.integers(0, 2**31)), "k_base": kb, "k_rot": int(rng.integers(2, kb + 1)), "power": 1 + (i // len(ROTS)) % 4,
                    "data": str(rng.choice(["separated", "near_equal", "white"])), "alpha": [float(rng.choice([0.0, 0.5, 1.0, float(rng.uniform(0, 1))])) for _ in range(2)],
                    "use_pca": bool(rng.random() < 0.5), "standardize": bool(rng.random() < 0.3), "refit": bool(rng.random() < 0.3),
                    # entirely missing time steps (dropped by the Sanitizer, restored as NaN): the sample count behind the pseudo-norms is that
                    # of the VALID samples
                    "nan_rows": bool(i % 4 == 1)})
    return out


def nontrivial_key(case, info):
    return tuple(sorted((k, str(v)) for k, v in case.items() if k != "mseed"))


def make_fields(case, cplx):
    X, Y = _make_fields(case, cplx)
    if case.get("nan_rows"):
        X, Y = X.copy(deep=True), Y.copy(deep=True)
        for t in (3, 17, 18, 41, 59):
            X.values[t] = np.nan
            Y.values[t] = np.nan
    return X, Y


def _make_fields(case, cplx):
    rng = np.random.default_rng(case["mseed"])
    n = 60
    if case["data"] == "white":
        def f(nx, off):
            v = rng.normal(size=(n, 3, nx)) + (1j * rng.normal(size=(n, 3, nx)) if cplx else 0)
            return xr.DataArray(v + off, dims=("time", "lat", "lon"), coords={"time": np.arange(n), "lat": np.linspace(-50, 40, 3), "lon": np.arange(nx) * 15.0}, name="u")
        X, Y = f(4, 2.0), f(3, -1.0)
        Y = Y + 0.5 * X.isel(lon=slice(0, 3)).values
        return X, Y
    X = field(rng, n, 3, 4, cplx, off=2.0)
    Y = field(rng, n, 3, 3, cplx, off=-1.0) + 0.5 * X.isel(lon=slice(0, 3)).values
    if case["data"] == "near_equal":
        # flatten the spectrum: standardise every principal direction to nearly equal variance
        def flat(A):
            M = np.asarray(A.values).reshape(n, -1)
            mu = M.mean(axis=0)
            U, s, Vt = np.linalg.svd(M - mu, full_matrices=False)
            s2 = s.mean() * (1 + 0.02 * np.arange(len(s))[::-1] / len(s))
            return A.copy(data=((U * s2) @ Vt + mu).reshape(A.shape))
        X, Y = flat(X), flat(Y)
    return X, Y


def varimax_criterion(L):
    """Varimax criterion with Kaiser (row) normalisation - the form the implementation optimises"""
    h = np.sqrt(np.sum(L**2, axis=1))
    L = L / np.where(h > 0, h, 1.0)[:, None]
    return float(np.sum(np.mean(L**4, axis=0) - np.mean(L**2, axis=0) ** 2))


def run(case):
    F = []
    rot = case["rot"]
    base = zoo.base_of(rot)
    cplx = zoo.needs_complex_input(rot)
    hil = "Hilbert" in rot
    X, Y = make_fields(case, cplx)
    two = zoo.takes_two(rot)
    kb, kr, power = case["k_base"], case["k_rot"], case["power"]
    if two:
        kb = min(kb, 9)
        kr = min(kr, kb)
        cfg = {"n_modes": kb, "solver": "full", "standardize": case["standardize"], "use_pca": case["use_pca"], "n_pca_modes": "all"}
        if base.endswith("CPCCA"):
            cfg["alpha"] = case["alpha"]
    else:
        cfg = {"n_modes": kb, "solver": "full", "standardize": case["standardize"]}
    if hil:
        cfg["padding"] = "none"
    cc = f"{rot}|power={'1' if power == 1 else '>1'}"
    model = zoo.construct(rot, cfg)
    if two:
        model.fit(X, Y, "time")
    else:
        model.fit(X, "time")
    mod = xe.single if rot in zoo.SINGLE_ROT else xe.cross
    r = getattr(mod, rot)(n_modes=kr, power=power)
    try:
        if case["refit"]:
            # the same rotator object is first fitted on another model
            X2, Y2 = make_fields(dict(case, mseed=case["mseed"] + 1, data="white"), cplx)
            m2 = zoo.construct(rot, cfg)
            m2.fit(X2, Y2, "time") if two else m2.fit(X2, "time")
            r.fit(m2)
        r.fit(model)
    except RuntimeError as e:
        if "did not converge" in str(e):
            return {"findings": [], "info": {"dist": {"rot": rot, "outcome": "not-converged"}}}
        raise
    checks = 0
    # ---- reconstruction from rotated scores == reconstruction from the same number of unrotated modes
    try:
        sc_r = zoo.scores(rot, r)
        rec_r = zoo.inverse_transform(rot, r, sc_r)
        sc_m = [s.sel(mode=slice(1, kr)) for s in zoo.scores(base, model)]
        rec_m = zoo.inverse_transform(base, model, sc_m)
        for i, (a, b) in enumerate(zip(rec_m, rec_r)):
            checks += 1
            av, bv = np.asarray(a.values), np.asarray(b.transpose(*a.dims).values)
            if not np.array_equal(np.isnan(av), np.isnan(bv)):
                F.append(Finding("oracle", "rot_reconstruction", cc + "|nan-pattern", f"field {i}: rotated and unrotated reconstructions are NaN at different places"))
                continue
            fin = ~np.isnan(av)
            e = relerr(av[fin], bv[fin])
            if e > 1e-7:
                F.append(Finding("oracle", "rot_reconstruction", cc + ("|complex" if cplx or hil else "|real"), f"field {i}: reconstruction from {kr} rotated modes differs from that of {kr} unrotated modes by rel {e:.2e}"))
    except Exception as e:  # noqa: BLE001
        F.append(Finding("oracle", "rot_reconstruction", cc + "|raises", f"{type(e).__name__}: {str(e)[:140]}"))
    # ---- descending order
    ev = np.asarray((r.data["squared_covariance"] if two else r.explained_variance()).values)
    checks += 1
    if np.any(np.diff(ev) > 1e-10 * max(ev.max(), 1e-300)):
        F.append(Finding("oracle", "rot_sorted", cc + ("|refit" if case["refit"] else ""), f"rotated modes not in descending order of {'squared covariance' if two else 'explained variance'}: {ev}"))
    R = np.asarray(r.data["rotation_matrix"].transpose("mode_m", "mode_n").values)
    if power == 1:
        e = np.abs(R.conj().T @ R - np.eye(kr)).max()
        checks += 1
        if e > 1e-8:
            F.append(Finding("oracle", "varimax_R_unitary", cc, f"|R^H R - 1| = {e:.2e}"))
    if not two:
        fd = r.data["components"].dims
        fname = [d for d in fd if d != "mode"][0]
        C = np.asarray(r.data["components"].transpose(fname, "mode").values)
        # sign convention (real data): largest-magnitude loading positive
        if not (cplx or hil):
            for j in range(C.shape[1]):
                col = C[:, j]
                big = col[np.abs(col) >= np.abs(col).max() * (1 - 1e-9)]
                checks += 1
                if not (big > 0).any():
                    F.append(Finding("oracle", "rot_sign_rule", cc, f"rotated mode {j+1}: largest-magnitude loading is negative"))
                    break
        # summed explained variance is conserved
        tot_in = float(model.explained_variance().sel(mode=slice(1, kr)).sum())
        tot_out = float(ev.sum())
        checks += 1
        if abs(tot_in - tot_out) > 1e-8 * tot_in and power == 1:
            F.append(Finding("oracle", "rot_expvar_sum", cc, f"summed explained variance {tot_out:.10g} vs {tot_in:.10g} that went in"))
        if power == 1:
            S = np.asarray(r.scores(normalized=True).transpose("time", "mode").values)
            S = S[~np.isnan(S).any(axis=1)]
            G = S.conj().T @ S
            e = np.abs(G - np.eye(kr)).max()
            checks += 1
            if e > 1e-8:
                F.append(Finding("oracle", "rot_scores_orthonormal", cc, f"normalised rotated scores: |S^H S - 1| = {e:.2e}"))
            if not (cplx or hil):
                # Varimax simplicity of the loadings is not lower than before
                Lr = C * np.sqrt(ev)
                Cm = np.asarray(model.data["components"].sel(mode=slice(1, kr)).transpose(fname, "mode").values)
                Lm = Cm * np.sqrt(np.asarray(model.explained_variance().sel(mode=slice(1, kr)).values))
                v0, v1 = varimax_criterion(Lm), varimax_criterion(Lr)
                checks += 1
                if v1 < v0 - 1e-9 * max(abs(v0), 1e-300) - 1e-14:
                    F.append(Finding("oracle", "varimax_criterion_not_lower", cc, f"criterion after rotation {v1:.8g} < before {v0:.8g}"))
    # ---- components of rotated single models have unit norm; transform reproduces scores (C04 covers it in depth)
    return {"findings": F, "info": {"oracle_checks": {"n": checks}, "dist": {"rot": rot, "power": power, "data": case["data"], "refit": case["refit"], "nan_rows": bool(case.get("nan_rows"))}}}
