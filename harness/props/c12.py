"""C12 — dask-backed and deferred fits equal the in-memory fit and stay lazy until asked."""
from __future__ import annotations

from harness.common import *  # noqa: F401,F403
from harness.common import Finding, np, xr, xe, relerr, count_scheduler_calls
from harness import zoo

RULE = ("dask-capable classes (EOF, ExtendedEOF with/without PCA pre-reduction, SparsePCA, POP, OPA, MCA/CCA/CPCCA/RDA, their rotators) x chunk "
        "layout (single chunk, along samples, along features, both, one element per chunk) x scheduler (synchronous, threads 1/4/16) x "
        "compute True/False; scheduler invocations counted with a scheduler callable; results compared with the fit of the same data held "
        "in numpy (low-rank + noise data so that randomised solvers agree); distinct by (mode, class, chunks, scheduler)")
ASSUMPTIONS = ["equality under every thread interleaving and the absence of hidden computation inside xarray/dask/numpy are runtime facts: sampled, not proved"]
CLASSES = ["EOF", "ExtendedEOF", "ExtendedEOF+pca", "SparsePCA", "POP", "OPA", "MCA", "CCA", "CPCCA", "RDA", "EOFRotator", "EOFRotator+promax", "MCARotator", "CPCCARotator"]
CHUNKS = ["single", "samples", "features", "both", "tiny"]
SCHED = ["synchronous", "threads1", "threads4", "threads16"]


def cases(seed, tier, broken=()):
    rng = np.random.default_rng(seed)
    out = []
    if tier == "quick":
        for i, cls in enumerate(CLASSES):
            out.append({"mode": "lazy", "cls": cls, "chunks": CHUNKS[i % 4], "sched": "synchronous", "mseed": int(rng.integers(0, 2**31)),
                        "prep": PREP[i % len(PREP)]})
            ch = CHUNKS[(i + 1) % 5]
            if ch == "tiny" and "Rotator" in cls:
                ch = "both"  # one element per chunk with an iterative rotation takes a minute: thorough tier only
            out.append({"mode": "eager", "cls": cls, "chunks": ch, "sched": SCHED[i % 4], "mseed": int(rng.integers(0, 2**31))})
    else:
        for cls in CLASSES:
            for ch in CHUNKS:
                for pr in PREP:
                    out.append({"mode": "lazy", "cls": cls, "chunks": ch, "sched": "synchronous", "mseed": int(rng.integers(0, 2**31)), "prep": pr})
                for sc in SCHED:
                    out.append({"mode": "eager", "cls": cls, "chunks": ch, "sched": sc, "mseed": int(rng.integers(0, 2**31))})
    return out


PREP = ["plain", "standardize", "coslat", "standardize+coslat"]


def nontrivial_key(case, info):
    return (case["mode"], case["cls"], case["chunks"], case["sched"], case.get("prep", "plain"))


def make(case):
    rng = np.random.default_rng(case["mseed"])
    n, ny, nx = (48, 3, 4) if case["chunks"] != "tiny" else (16, 2, 3)
    t = np.arange(n)[:, None, None]

    def f(nx_, off):
        v = sum((5.0 - 1.3 * j) * np.sin(t * (0.21 + 0.17 * j) + j) * rng.normal(size=(1, ny, nx_)) for j in range(3)) + 1e-4 * rng.normal(size=(n, ny, nx_))
        return xr.DataArray(v + off, dims=("time", "lat", "lon"), coords={"time": np.arange(n), "lat": np.linspace(-40, 40, ny), "lon": np.arange(nx_) * 10.0}, name="u")

    X = f(nx, 2.0)
    Y = f(nx - 1, -1.0) + 0.5 * X.isel(lon=slice(0, nx - 1)).values
    return X, Y


def chunked(A, how):
    n = A.sizes["time"]
    if how == "single":
        return A.chunk({d: -1 for d in A.dims})
    if how == "samples":
        return A.chunk({"time": n // 4, "lat": -1, "lon": -1})
    if how == "features":
        return A.chunk({"time": -1, "lat": 1, "lon": 2})
    if how == "both":
        return A.chunk({"time": n // 3, "lat": 2, "lon": 2})
    return A.chunk({"time": 1, "lat": 1, "lon": 1})


def build(cls, X, Y, compute, check_nans=True, prep="plain"):
    """returns a function fitting (model, rotator-or-None)"""
    base = cls.split("+")[0]
    zc = zoo.base_of(base)
    k = 2
    cfg = {"n_modes": k, "compute": compute, "check_nans": check_nans, "random_state": 5}
    if zc == "ExtendedEOF":
        cfg.update(tau=1, embedding=2)
        if cls.endswith("+pca"):
            cfg["n_pca_modes"] = 4
    if zc == "SparsePCA":
        cfg.update(alpha=1e-3, max_iter=3)
    if zc == "POP":
        cfg.update(n_pca_modes=3)
    if zc == "OPA":
        cfg.update(tau_max=2, n_pca_modes=3)
    if zc in zoo.CROSS:
        cfg.update(use_pca=True, n_pca_modes=3)
        if zc == "CPCCA":
            cfg["alpha"] = 0.5
    two = zc in zoo.CROSS
    # the preprocessing statistics (standard deviation, latitude weights) are part of the fit path as well
    if "standardize" in prep:
        cfg["standardize"] = True
    if "coslat" in prep:
        cfg["use_coslat"] = True

    def fit():
        m = zoo.construct(base, cfg)
        m.fit(X, Y, "time") if two else m.fit(X, "time")
        r = None
        if "Rotator" in base:
            mod = xe.single if base in zoo.SINGLE_ROT else xe.cross
            r = getattr(mod, base)(n_modes=k, power=2 if cls.endswith("+promax") else 1, compute=compute, max_iter=150 if not compute else 1000)
            r.fit(m)
        return m, r

    return fit, two


def summary(cls, m):
    """gauge-free summaries: spectrum and subspace projectors of scores"""
    base = cls.split("+")[0]
    zc = zoo.base_of(base)
    out = {}
    if zc in zoo.CROSS:
        out["spectrum"] = np.asarray(m.data["squared_covariance"].values, dtype=float)
        S = np.asarray(m.data["scores1"].transpose("sample", "mode").values)
    elif zc == "POP":
        out["spectrum"] = np.sort(np.abs(np.asarray(m.data["eigenvalues"].values)))[::-1]
        S = None
    elif zc == "OPA":
        out["spectrum"] = np.asarray(m.data["decorrelation_time"].values if "decorrelation_time" in m.data else m.decorrelation_time().values, dtype=float)
        S = np.asarray(m.data["scores"].transpose("sample", "mode").values)
    else:
        out["spectrum"] = np.asarray(m.data["explained_variance"].values, dtype=float)
        S = np.asarray(m.data["scores"].transpose("sample", "mode").values)
    if S is not None:
        Q, _ = np.linalg.qr(S)
        out["projector"] = Q @ Q.conj().T
    return out


def run(case):
    import dask
    import dask.array as da

    F = []
    cls = case["cls"]
    X, Y = make(case)
    Xd, Yd = chunked(X, case["chunks"]), chunked(Y, case["chunks"])
    cc = f"{cls}|{case['chunks']}"
    info = {"dist": {"mode": case["mode"], "cls": cls, "chunks": case["chunks"], "sched": case["sched"]}}
    sched = {"synchronous": dict(scheduler="synchronous"), "threads1": dict(scheduler="threads", num_workers=1),
             "threads4": dict(scheduler="threads", num_workers=4), "threads16": dict(scheduler="threads", num_workers=16)}[case["sched"]]
    # reference: the same data held in memory
    try:
        prep = case.get("prep", "plain") if case["mode"] == "lazy" else "plain"
        fit_np, two = build(cls, X, Y, True, prep=prep)
        m_ref, r_ref = fit_np()
    except RuntimeError as e:
        if "did not converge" in str(e):
            return {"findings": [], "info": info}
        raise
    ref = summary(cls, r_ref if r_ref is not None else m_ref)
    if case["mode"] == "eager":
        try:
            with dask.config.set(**sched):
                fit_d, _ = build(cls, Xd, Yd, True)
                m, r = fit_d()
        except NotImplementedError:
            info["dist"]["outcome"] = "refused"
            return {"findings": [], "info": info}
        except ValueError as e:
            if "chunk" in str(e):
                info["dist"]["outcome"] = "refused-chunks"
                return {"findings": [], "info": info}
            raise
        except RuntimeError as e:
            if "did not converge" in str(e):
                return {"findings": [], "info": info}
            raise
        got = summary(cls, r if r is not None else m)
        tol = 1e-5
        e = relerr(got["spectrum"], ref["spectrum"])
        if e > tol:
            F.append(Finding("oracle", "dask_equals_numpy", cc + f"|{case['sched']}", f"spectrum of the dask-backed fit differs from the in-memory fit by rel {e:.2e}: {got['spectrum'][:3]} vs {ref['spectrum'][:3]}"))
        elif "projector" in ref and np.abs(got["projector"] - ref["projector"]).max() > 1e-4:
            F.append(Finding("oracle", "dask_equals_numpy", cc + f"|{case['sched']}|scores", f"score subspace differs by {np.abs(got['projector'] - ref['projector']).max():.2e}"))
        # the input data is never replaced by an in-memory copy
        mm = r if r is not None else m
        for key in ("input_data", "input_data1", "input_data2"):
            if key in mm.data and not isinstance(mm.data[key].data, da.Array) and zoo.base_of(cls.split("+")[0]) not in ("POP", "OPA", "ExtendedEOF"):
                F.append(Finding("oracle", "input_never_loaded", cc, f"{key} is held in memory after an eager fit on dask input"))
        return {"findings": F, "info": dict(info, oracle_checks={"n": 2})}
    # ---------------- deferred: no computation at all during fit / rotator fit
    try:
        with count_scheduler_calls() as calls:
            fit_d, _ = build(cls, Xd, Yd, False, check_nans=False, prep=case.get("prep", "plain"))
            m, r = fit_d()
            n_calls = len(calls)
    except NotImplementedError:
        info["dist"]["outcome"] = "refused"
        return {"findings": [], "info": info}
    except ValueError as e:
        if "chunk" in str(e):
            info["dist"]["outcome"] = "refused-chunks"
            return {"findings": [], "info": info}
        raise
    mm = r if r is not None else m
    if n_calls != 0:
        F.append(Finding("oracle", "no_force_when_deferred", cls, f"[{case['chunks']}] {n_calls} dask computation(s) were triggered during fit(compute=False, check_nans=False)"))
    lazy = {k: isinstance(v.data, da.Array) for k, v in mm.data.items()}
    not_lazy = sorted(k for k, v in lazy.items() if not v)
    if not_lazy:
        F.append(Finding("oracle", "deferred_results_lazy", cls, f"[{case['chunks']}] results held in memory after a deferred fit: {not_lazy[:6]}"))
    # a later compute() yields the eager results, input stays lazy
    try:
        with dask.config.set(**sched):
            if r is not None:
                m.compute()
            mm.compute()
        got = summary(cls, mm)
        e = relerr(got["spectrum"], ref["spectrum"])
        tol = 1e-5 if "Rotator" not in cls else 1e-3  # a deferred rotation runs a fixed number of iterations without convergence check
        if e > tol:
            F.append(Finding("oracle", "compute_then_equals_eager", cc, f"spectrum after compute() differs from the eager in-memory fit by rel {e:.2e}"))
        for key in ("input_data", "input_data1", "input_data2"):
            if key in mm.data and lazy.get(key, False) and not isinstance(mm.data[key].data, da.Array):
                F.append(Finding("oracle", "input_never_loaded", cc, f"{key} was replaced by an in-memory copy by compute()"))
        # … nor by a SECOND compute() (or anything else that computes again, e.g. saving): "never"
        if not F:
            with dask.config.set(**sched):
                mm.compute()
            for key in ("input_data", "input_data1", "input_data2"):
                if key in mm.data and lazy.get(key, False) and not isinstance(mm.data[key].data, da.Array):
                    F.append(Finding("oracle", "input_never_loaded", cc + "|second-compute", f"{key} was replaced by an in-memory copy by a second compute()"))
            got2 = summary(cls, mm)
            if relerr(got2["spectrum"], got["spectrum"]) > 1e-12:
                F.append(Finding("oracle", "compute_then_equals_eager", cc + "|second-compute", f"a second compute() changed the results by rel {relerr(got2['spectrum'], got['spectrum']):.2e}"))
        still = sorted(k for k, v in mm.data.items() if k not in ("input_data", "input_data1", "input_data2") and isinstance(v.data, da.Array))
        if still:
            F.append(Finding("oracle", "compute_then_equals_eager", cc + "|still-lazy", f"entries still lazy after compute(): {still[:5]}"))
    except Exception as e:  # noqa: BLE001
        F.append(Finding("oracle", "compute_then_equals_eager", cc + "|raises", f"compute() raised {type(e).__name__}: {str(e)[:140]}"))
    return {"findings": F, "info": dict(info, oracle_checks={"n": 4}, scheduler_calls=n_calls)}
