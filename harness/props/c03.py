"""C03 — full-mode inverse_transform restores the data; transform(inverse_transform(s)) = s; `normalized` switches."""
from __future__ import annotations

from harness.common import *  # noqa: F401,F403
from harness.common import Finding, np, xr, xe, compare_labelled, relerr
from harness import zoo, eofcase

RULE = ("cases: (a) full-mode reconstruction for EOF/ComplexEOF/HilbertEOF and the real+complex CPCCA family over preprocessing flags, "
        "weights, alpha grid, PCA on/off (all modes), DataArray/Dataset inputs, scales 1e-6..1e6; (b) transform(inverse_transform(s)) = s "
        "for arbitrary s with new/repeated sample coordinates, every class offering both directions; (c) normalized switches of "
        "scores/components/transform/inverse_transform; distinct by (kind, class, flags, alpha, pca, structure)")
EXACT_BOTH = ["EOF", "ComplexEOF", "EOFRotator", "ComplexEOFRotator", "CPCCA", "MCA", "CCA", "RDA", "ComplexCPCCA", "ComplexMCA", "ComplexCCA",
              "ComplexRDA", "CPCCARotator", "MCARotator", "ComplexCPCCARotator", "ComplexMCARotator"]
RECON = ["EOF", "ComplexEOF", "HilbertEOF", "CPCCA", "MCA", "CCA", "RDA", "ComplexCPCCA", "ComplexMCA", "ComplexCCA", "ComplexRDA",
         "HilbertMCA", "HilbertCPCCA"]


def cases(seed, tier, broken=()):
    rng = np.random.default_rng(seed)
    n = {"quick": 40, "thorough": 700, "search": 300}[tier]
    out = []
    for i in range(n):
        cls = RECON[i % len(RECON)]
        out.append({"kind": "recon", "cls": cls, "mseed": int(rng.integers(0, 2**31)),
                    "center": bool(rng.random() < 0.8), "standardize": bool(rng.random() < 0.5), "use_coslat": bool(rng.random() < 0.5),
                    "weights": bool(rng.random() < 0.5), "scale": float(10.0 ** int(rng.integers(-6, 7))),
                    "alpha": [float(rng.choice([0.0, 0.25, 0.5, 1.0, float(rng.uniform(0, 1))])) for _ in range(2)],
                    "use_pca": bool(rng.random() < 0.5), "struct": str(rng.choice(["DA", "DA", "DS", "2s"])),
                    "tiny": bool(i % 3 == 0)})
        if out[-1]["tiny"]:
            out[-1]["standardize"] = bool(i % 2 == 0) or out[-1]["standardize"]
            out[-1]["scale"] = min(out[-1]["scale"], 1.0)
        elif i % 6 == 4:
            # integer-valued input stored with an integer dtype (counts, packed fields): "in physical units" is not "in the input's dtype"
            out[-1].update(int_input=True, scale=1.0)
    # latitude weighting over the whole sphere: grids that contain both poles (weight sqrt(cos 90°) ~ 8e-9, still undone)
    for i in range(max(4, n // 10)):
        out.append({"kind": "poles", "cls": ["EOF", "MCA", "ComplexEOF", "ComplexMCA"][i % 4], "mseed": int(rng.integers(0, 2**31)), "standardize": bool(i % 2)})
    cross = [c for c in RECON if zoo.takes_two(c) and "Hilbert" not in c]
    for i in range(max(6, n // 6)):
        out.append({"kind": "recon", "cls": cross[i % len(cross)], "mseed": int(rng.integers(0, 2**31)), "center": True,
                    "standardize": bool(i % 2), "use_coslat": False, "weights": False, "scale": float(10.0 ** int(rng.integers(-3, 4))),
                    "alpha": [float(rng.choice([0.0, 0.5, 1.0])), float(rng.choice([0.0, 0.25, 0.5, 0.75]))], "use_pca": bool(i % 3 == 2),
                    "struct": "DA", "tiny": False, "collinear": True})
    for i in range(n):
        cls = EXACT_BOTH[i % len(EXACT_BOTH)]
        out.append({"kind": "tfinv", "cls": cls, "mseed": int(rng.integers(0, 2**31)), "standardize": bool(rng.random() < 0.5),
                    "use_coslat": bool(rng.random() < 0.5), "weights": bool(rng.random() < 0.4),
                    "alpha": [float(rng.choice([0.0, 0.5, 1.0, float(rng.uniform(0, 1))])) for _ in range(2)],
                    "use_pca": bool(rng.random() < 0.5), "power": int(rng.integers(1, 3)), "coords": str(rng.choice(["new", "repeated", "training"])),
                    "k": int(rng.integers(1, 6)), "tiny": bool(i % 4 == 0), "desc_lat": bool(i % 2)})
        if out[-1]["tiny"]:
            out[-1]["standardize"] = True
        if i % 3 == 2:
            # the field as a Dataset of two variables stored (lon, lat, time): the layout of the data handed to `transform` (the
            # reconstruction comes back in another dimension order) must not matter
            out[-1].update(layout="DS", weights=False)
            out[-1]["k"] = 99  # all modes
    for i in range(max(8, n // 2)):
        cls = (EXACT_BOTH + ["SparsePCA", "POP", "HilbertEOF", "HilbertMCA"])[i % (len(EXACT_BOTH) + 4)]
        out.append({"kind": "normalized", "cls": cls, "mseed": int(rng.integers(0, 2**31)), "standardize": bool(rng.random() < 0.5),
                    "alpha": [float(rng.choice([0.0, 0.5, 1.0])) for _ in range(2)], "use_pca": bool(rng.random() < 0.5)})
    return out


def nontrivial_key(case, info):
    return tuple(sorted((k, str(v)) for k, v in case.items() if k != "mseed"))


def _data(case, cls, n=24, ny=3, nx=4, nx2=3):
    rng = np.random.default_rng(case["mseed"])
    cplx = zoo.needs_complex_input(cls)
    sc = case.get("scale", 1.0)

    def field(ny, nx, off):
        v = rng.normal(size=(n, ny, nx)) * rng.uniform(0.5, 2.0, size=(1, ny, nx)) * sc + off * sc
        if cplx:
            v = v + 1j * rng.normal(size=(n, ny, nx)) * sc
        elif case.get("int_input"):
            v = np.round(v * 10.0).astype(np.int64)
        lat = np.linspace(-70, 65, ny)
        if case.get("desc_lat"):
            lat = lat[::-1].copy()  # north -> south, as reanalysis grids are stored: an UNSORTED feature coordinate
        return xr.DataArray(v, dims=("time", "lat", "lon"), coords={"time": np.arange(n), "lat": lat, "lon": np.arange(nx) * 15.0}, name="f")

    X = field(ny, nx, 5.0)
    if case.get("tiny"):
        # one cell in very small units (std ~ 1e-9 x scale) and one exactly constant cell
        X.values[:, 0, 0] = X.values[:, 0, 0] * 1e-9
        X.values[:, -1, -1] = 3.25 * sc
    W = None
    if case.get("weights"):
        W = xr.DataArray(rng.uniform(0.3, 2.5, size=(ny, nx)), dims=("lat", "lon"), coords={"lat": X.lat, "lon": X.lon})
    if zoo.takes_two(cls):
        Y = field(ny, nx2, -2.0) + 0.6 * X.isel(lon=slice(0, nx2)).values
        Y.name = "g"
        if case.get("int_input") and not cplx:
            Y = Y.round().astype(np.int64)
        if case.get("tiny"):
            # cross-set: whitening needs a well-conditioned covariance (C16), so no constant cell, and a small-unit cell
            # only where standardisation brings it back to O(1)
            X.values[:, -1, -1] = field(1, 1, 5.0).values[:, 0, 0]
            if case.get("standardize"):
                # stays above the 1.2e-7 floor at which standardisation clips (below it the cell counts as constant)
                Y.values[:, 0, 1] = Y.values[:, 0, 1] * min(1.0, max(1e-9, 1e-5 / sc))
            else:
                X.values[:, 0, 0] = X.values[:, 0, 0] * 1e9
        if case.get("collinear"):
            # exactly collinear features in the field that must be restored: its covariance is rank deficient
            Y.values[:, -1, -1] = Y.values[:, 0, 0] + 0.5 * Y.values[:, 1, 0]
        WY = None
        if case.get("weights"):
            WY = xr.DataArray(rng.uniform(0.3, 2.5, size=(ny, nx2)), dims=("lat", "lon"), coords={"lat": Y.lat, "lon": Y.lon})
        return (X, Y), (W, WY)
    return X, W


def _cfg(case, cls, n_modes):
    b = zoo.base_of(cls)
    cfg = {"n_modes": n_modes, "solver": "full"}
    if b in zoo.SINGLE:
        cfg.update(center=case.get("center", True), standardize=case.get("standardize", False), use_coslat=case.get("use_coslat", False))
    else:
        cfg.update(standardize=case.get("standardize", False), use_coslat=case.get("use_coslat", False), use_pca=case.get("use_pca", False),
                   n_pca_modes="all")
        if b.endswith("CPCCA"):
            cfg["alpha"] = case["alpha"]
    if b == "POP":
        cfg.update(n_pca_modes=4)
        cfg.pop("solver")
        cfg["solver"] = "full"
    return cfg


def run_recon(case):
    F = []
    cls = case["cls"]
    data, W = _data(case, cls)
    two = zoo.takes_two(cls)
    struct = case["struct"]
    dim = "time"
    if struct == "DS" and not two:
        data = xr.Dataset({"a": data, "b": data * 2.0 + 1.0})
        W = None if W is None else xr.Dataset({"a": W, "b": W * 0.5})
    elif struct == "DS" and two:
        X, Y = data
        data = (xr.Dataset({"a": X, "b": X * 2.0 + 1.0}), Y)
        W = (None if W[0] is None else xr.Dataset({"a": W[0], "b": W[0] * 0.5}), W[1])
    elif struct == "2s":
        dim = ("time", "lat") if two else ("time", "lon")
        if case.get("weights"):
            W = (None, None) if two else None
        case = dict(case, weights=False, use_coslat=False if two else case.get("use_coslat", False))
    # number of modes = everything
    if two:
        k = 200
    cc = f"{cls}|{struct}"
    # all modes: rank of the decomposed matrix
    def nfeat(o, dim):
        dims = (dim,) if isinstance(dim, str) else dim
        if isinstance(o, xr.Dataset):
            return sum(nfeat(o[v], dim) for v in o.data_vars)
        return int(np.prod([o.sizes[d] for d in o.dims if d not in dims]))

    def nsamp(o, dim):
        dims = (dim,) if isinstance(dim, str) else dim
        o = o[list(o.data_vars)[0]] if isinstance(o, xr.Dataset) else o
        return int(np.prod([o.sizes[d] for d in dims]))

    if two:
        p1, p2 = nfeat(data[0], dim), nfeat(data[1], dim)
        ns = nsamp(data[0], dim)
        k = min(p1, p2, ns)
    else:
        k = min(nfeat(data, dim), nsamp(data, dim))
    cfg = _cfg(case, cls, k)
    if "Hilbert" in cls and not two:
        cfg["padding"] = "none"
    try:
        m, _ = zoo.fit(cls, data, dim, cfg, weights=W if (W is not None and (not two or any(w is not None for w in W))) else None)
    except Exception as e:  # noqa: BLE001
        F.append(Finding("oracle", "full_reconstruction", cc + "|raises", f"fit raised {type(e).__name__}: {str(e)[:150]}"))
        return {"findings": F, "info": {}}
    sc = zoo.scores(cls, m)
    try:
        rec = zoo.inverse_transform(cls, m, sc)
    except Exception as e:  # noqa: BLE001
        F.append(Finding("oracle", "full_reconstruction", cc + "|raises", f"inverse_transform(scores()) raised {type(e).__name__}: {str(e)[:150]}"))
        return {"findings": F, "info": {}}
    fields = list(data) if two else [data]
    checked = 0
    for i, (orig, r) in enumerate(zip(fields, rec)):
        if two and nfeat(orig, dim) > k:
            continue  # the identity is claimed only for fields whose feature count does not exceed the number of modes
        if not two and ns_rank_deficient(orig, dim, k, case):
            continue
        rr = r
        if "Hilbert" in cls:
            rr = r.real if not isinstance(r, xr.Dataset) else r.map(lambda v: v.real)
        scale = case.get("scale", 1.0)
        res = compare_labelled(orig, rr, rtol=1e-7, atol=1e-7 * scale * 10)
        if not res:
            res = per_feature_error(orig, rr, dim)
        checked += 1
        if res:
            F.append(Finding("oracle", "full_reconstruction", cc, f"field {i}: inverse_transform(scores()) != fitted data: {res[:200]}"))
    return {"findings": F, "info": {"oracle_checks": {"recon": checked}, "dist": {"kind": "recon", "cls": cls, "struct": struct}}}


def per_feature_error(orig, rec, dim):
    """reconstruction error measured against each cell's own anomaly scale (catches errors hidden below a global tolerance)"""
    dims = (dim,) if isinstance(dim, str) else tuple(dim)
    if isinstance(orig, xr.Dataset):
        for v in orig.data_vars:
            r = per_feature_error(orig[v], rec[v], dim)
            if r:
                return f"var {v}: {r}"
        return None
    rec = rec.transpose(*orig.dims)
    rec = rec.reindex_like(orig)
    err = np.abs(rec - orig).max(dims)
    sd = np.abs(orig - orig.mean(dims)).max(dims)
    mag = np.abs(orig).max(dims)
    bad = err > 1e-6 * sd + 1e-10 * mag
    if bool(bad.any()):
        worst = float((err / (sd + 1e-300)).where(bad).max())
        return f"{int(bad.sum())} feature(s) reconstructed with error up to {worst:.2e} x their own anomaly scale"
    return None


def ns_rank_deficient(orig, dim, k, case):
    return False


def run_poles(case):
    """full-mode reconstruction with use_coslat on a grid containing both poles: finite everywhere, and equal to the data (the
    weight at a pole is ~8e-9, so the cells there are restored to ~1e-7 relative, everything else to rounding)"""
    F = []
    cls = case["cls"]
    rng = np.random.default_rng(case["mseed"])
    n, lats, lons = 20, [-90.0, -40.0, 10.0, 90.0], [0.0, 30.0, 60.0]
    cplx = zoo.needs_complex_input(cls)

    def fld(nx_):
        v = rng.normal(size=(n, len(lats), nx_)) + 3.0
        if cplx:
            v = v + 1j * rng.normal(size=v.shape)
        return xr.DataArray(v, dims=("time", "lat", "lon"), coords={"time": np.arange(n), "lat": lats, "lon": lons[:nx_]})

    X, Y = fld(3), fld(2)
    two = zoo.takes_two(cls)
    cfg = {"n_modes": 12 if not two else 8, "solver": "full", "use_coslat": True, "standardize": case["standardize"]}
    if two:
        cfg.update(use_pca=False)
    m, _ = zoo.fit(cls, (X, Y) if two else X, "time", cfg)
    rec = zoo.inverse_transform(cls, m, zoo.scores(cls, m))
    cc = f"{cls}|poles"
    for i, (orig, r) in enumerate(zip((X, Y) if two else (X,), rec)):
        if two and i == 0:
            continue  # 12 features > 8 modes: exempt
        rv = np.asarray(r.transpose("time", "lat", "lon").values)
        if not np.isfinite(rv).all():
            F.append(Finding("oracle", "full_reconstruction", cc, f"field {i}: {int((~np.isfinite(rv)).sum())} non-finite values in the reconstruction on a grid with poles (use_coslat=True)"))
            continue
        e = np.abs(rv - orig.values).max() / np.abs(orig.values).max()
        if e > 1e-5:
            F.append(Finding("oracle", "full_reconstruction", cc, f"field {i}: reconstruction differs from the data by rel {e:.2e} on a grid with poles"))
    return {"findings": F, "info": {"oracle_checks": {"poles": 1}, "dist": {"kind": "poles", "cls": cls}}}


def run_tfinv(case):
    F = []
    cls = case["cls"]
    data, W = _data(case, cls)
    two = zoo.takes_two(cls)
    if case.get("layout") == "DS":
        def as_ds(A):
            B = (A * 0.5 + 1.0).isel(lon=slice(None, None, -1)).assign_coords(lon=A.lon.values)
            return xr.Dataset({"a": A.transpose("lon", "lat", "time"), "b": B.transpose("lon", "lat", "time")})
        data = tuple(as_ds(A) for A in data) if two else as_ds(data)
    rng = np.random.default_rng(case["mseed"] + 1)
    k = case["k"]
    if k == 99:
        k = 9 if two else 12
    cfg = _cfg(case, cls, k)
    rot_cfg = {"power": case["power"], "n_modes": k} if "Rotator" in cls else None
    if "Rotator" in cls and k < 2:
        k = 2
        cfg["n_modes"] = 2
        rot_cfg["n_modes"] = 2
    m, _ = zoo.fit(cls, data, "time", cfg, rot_cfg=rot_cfg, weights=W if (W is not None and (not two or any(w is not None for w in W))) else None)
    sc = zoo.scores(cls, m)
    ns = 6
    if case["coords"] == "new":
        tc = np.arange(900, 900 + ns)
    elif case["coords"] == "repeated":
        tc = np.array([3, 3, 7, 900, 7, 3])
    else:
        tc = np.arange(ns)
    news = []
    for s in sc:
        kk = s.sizes["mode"]
        v = rng.normal(size=(kk, ns)) * 3.0 + (1j * rng.normal(size=(kk, ns)) if np.iscomplexobj(s.values) else 0)
        news.append(xr.DataArray(v, dims=("mode", "time"), coords={"mode": s.mode.values, "time": tc}))
    cc = f"{cls}|{case['coords']}"
    try:
        rec = zoo.inverse_transform(cls, m, news)
        back = zoo.transform(cls, m, tuple(rec) if two else rec[0])
    except Exception as e:  # noqa: BLE001
        F.append(Finding("oracle", "transform_inverse_id", cc + "|raises", f"{type(e).__name__}: {str(e)[:160]}"))
        return {"findings": F, "info": {}}
    for i, (a, b) in enumerate(zip(news, back)):
        if set(b.dims) != {"mode", "time"} or b.sizes["time"] != ns:
            F.append(Finding("oracle", "transform_inverse_id", cc, f"field {i}: result dims {b.dims} sizes {dict(b.sizes)}"))
            continue
        bv = b.transpose("mode", "time")
        if not np.array_equal(np.asarray(bv.time.values), tc):
            F.append(Finding("oracle", "transform_inverse_id", cc + "|labels", f"field {i}: sample labels {bv.time.values} != {tc}"))
            continue
        e = relerr(bv.values, a.values)
        if e > 1e-8:
            F.append(Finding("oracle", "transform_inverse_id", cc, f"field {i}: transform(inverse_transform(s)) differs from s by rel {e:.2e}"))
    # cross-set models: "arbitrary score arrays with arbitrary sample coordinates" — the two fields need not share their samples
    if two and len(news) == 2:
        tc2 = np.arange(500, 500 + ns + 2)
        s2 = sc[1]
        v2 = rng.normal(size=(s2.sizes["mode"], ns + 2)) * 3.0 + (1j * rng.normal(size=(s2.sizes["mode"], ns + 2)) if np.iscomplexobj(s2.values) else 0)
        other = xr.DataArray(v2, dims=("mode", "time"), coords={"mode": s2.mode.values, "time": tc2})
        try:
            rec2 = zoo.inverse_transform(cls, m, [news[0], other])
            back2 = zoo.transform(cls, m, tuple(rec2))
            for i, (a, b, lab) in enumerate(zip([news[0], other], back2, [tc, tc2])):
                bv = b.transpose("mode", "time")
                if bv.sizes["time"] != len(lab) or not np.array_equal(np.asarray(bv.time.values), lab):
                    F.append(Finding("oracle", "transform_inverse_id", cc + "|fields-with-different-samples|labels", f"field {i}: {bv.sizes['time']} samples labelled {bv.time.values[:4]}..., given {len(lab)} labelled {lab[:4]}..."))
                elif relerr(bv.values, a.values) > 1e-8:
                    F.append(Finding("oracle", "transform_inverse_id", cc + "|fields-with-different-samples", f"field {i}: rel {relerr(bv.values, a.values):.2e}"))
        except Exception as e:  # noqa: BLE001
            F.append(Finding("oracle", "transform_inverse_id", cc + "|fields-with-different-samples|raises", f"{type(e).__name__}: {str(e)[:160]}"))
    return {"findings": F, "info": {"oracle_checks": {"tfinv": len(news)}, "dist": {"kind": "tfinv", "cls": cls}}}


def run_normalized(case):
    F = []
    cls = case["cls"]
    data, W = _data(case, cls)
    two = zoo.takes_two(cls)
    cfg = _cfg(case, cls, 3)
    m, _ = zoo.fit(cls, data, "time", cfg)
    cc = cls

    def norms_of(i):
        if two:
            return m.data["norm%d" % (i + 1)]
        return m.data["norms"]

    checks = 0
    # scores
    try:
        s0 = zoo.scores(cls, m, normalized=False)
        s1 = zoo.scores(cls, m, normalized=True)
        for i, (a, b) in enumerate(zip(s0, s1)):
            e = relerr((b * norms_of(i)).transpose(*a.dims).values, a.values)
            checks += 1
            if e > 1e-10:
                F.append(Finding("oracle", "normalized_switch_scores", cc, f"scores(normalized=True) * norms != scores(): rel {e:.2e}"))
    except TypeError:
        pass
    # components
    try:
        c1 = zoo.components(cls, m, normalized=True)
        c0 = zoo.components(cls, m, normalized=False)
        for i, (a, b) in enumerate(zip(c1, c0)):
            e = relerr((a * norms_of(i)).transpose(*b.dims).values, b.values)
            checks += 1
            if e > 1e-10:
                F.append(Finding("oracle", "normalized_switch_components", cc, f"components(normalized=True) * norms != components(normalized=False): rel {e:.2e}"))
    except TypeError:
        pass
    # transform
    if cls not in zoo.NO_TRANSFORM:
        try:
            t0 = zoo.transform(cls, m, data, normalized=False)
            t1 = zoo.transform(cls, m, data, normalized=True)
            for i, (a, b) in enumerate(zip(t0, t1)):
                e = relerr((b * norms_of(i)).transpose(*a.dims).values, a.values)
                checks += 1
                if e > 1e-10:
                    F.append(Finding("oracle", "normalized_switch_transform", cc, f"transform(normalized=True) * norms != transform(): rel {e:.2e}"))
        except TypeError:
            pass
    # inverse_transform
    if cls not in zoo.NO_INVERSE and not two:
        try:
            s0 = zoo.scores(cls, m, normalized=False)
            s1 = zoo.scores(cls, m, normalized=True)
            r0 = zoo.inverse_transform(cls, m, s0)
            r1 = zoo.inverse_transform(cls, m, s1, normalized=True)
            for a, b in zip(r0, r1):
                res = compare_labelled(a, b, rtol=1e-9, atol=1e-9)
                checks += 1
                if res:
                    F.append(Finding("oracle", "normalized_switch_inverse", cc, f"inverse_transform(normalized scores, normalized=True) != inverse_transform(scores): {res[:160]}"))
        except TypeError:
            pass
    return {"findings": F, "info": {"oracle_checks": {"normalized": checks}, "dist": {"kind": "normalized", "cls": cls}}}


def run(case):
    return {"recon": run_recon, "tfinv": run_tfinv, "normalized": run_normalized, "poles": run_poles}[case["kind"]](case)
