"""C15 — solver choice, variance thresholds, seeds, sign rule, solver_kwargs routing."""
from __future__ import annotations

import warnings

from harness.common import *  # noqa: F401,F403
from harness.common import Finding, np, xr, xe, matrix_with_spectrum, da2d, relerr, exc_class

RULE = ("structured generator: matrices with prescribed spectra (geom/lin/flat/cluster/rankdef + exact dyadic boundary spectra) x "
        "fraction x init_rank_reduction x solver x entry point (Decomposer/SVD/PCA/EOF) ; seeds ; kwargs routing per model class; "
        "distinct = (kind, entry, spectrum, shape, solver, fraction-class)")
ASSUMPTIONS = [
    "exact-vs-randomised agreement and bit-identity on the real BLAS are runtime facts: exercised differentially, not proved",
]


def boundary_matrix(k, a2, extra_cols=0):
    """orthogonal columns, zero column means, every quantity in the threshold block exactly representable"""
    n = 4 * k + 1
    X = np.zeros((n, k + extra_cols))
    for i in range(k):
        a = np.sqrt(a2[i])
        X[4 * i: 4 * i + 4, i] = [a, -a, a, -a]
    return X


DYADIC = {2: [4, 4], 4: [16, 4, 4, 1 + 3], 8: [64, 16, 16, 16, 4, 4, 4, 4]}
DYADIC[4] = [16, 8, 4, 4]  # sum 32


def cases(seed, tier, broken=()):
    rng = np.random.default_rng(seed)
    out = []
    nrand = {"quick": 24, "thorough": 400, "search": 200}[tier]
    # --- threshold
    for k in (2, 4, 8):
        for j in range(k):
            for entry in ("Decomposer", "SVD", "PCA", "EOF"):
                out.append({"kind": "threshold", "entry": entry, "matrix": "boundary", "k": k, "j": j, "extra": int(rng.integers(0, 3)),
                            "irr": 1.0, "solver": "full", "frac": "hit"})
    for i in range(nrand):
        n, p = int(rng.integers(6, 40)), int(rng.integers(2, 24))
        out.append({"kind": "threshold", "entry": ["Decomposer", "SVD", "PCA", "EOF"][i % 4], "matrix": "spec",
                    "spec": ["geom", "lin", "flat", "cluster", "rankdef", "random"][int(rng.integers(0, 6))],
                    "n": n, "p": p, "mseed": int(rng.integers(0, 2**31)), "scale": float(10.0 ** rng.integers(-8, 9)),
                    "irr": float(rng.choice([1.0, 1.0, 0.8, 0.5, 0.3, 0.05])),
                    "solver": ["full", "auto", "randomized"][int(rng.integers(0, 3))],
                    "frac": float(rng.choice([0.1, 0.5, 0.9, 0.99, 1.0, float(rng.uniform(0.01, 1.0))]))})
    # complex matrices (ComplexEOF / Hilbert data): "variance" is the mean squared MODULUS
    for i in range({"quick": 8, "thorough": 80, "search": 40}[tier]):
        n, p = int(rng.integers(6, 40)), int(rng.integers(2, 24))
        out.append({"kind": "threshold", "entry": ["Decomposer", "SVD"][i % 2], "matrix": "spec", "cplx": True,
                    "spec": ["geom", "lin", "flat", "cluster", "rankdef", "random"][int(rng.integers(0, 6))],
                    "n": n, "p": p, "mseed": int(rng.integers(0, 2**31)), "scale": float(10.0 ** rng.integers(-3, 4)), "irr": 1.0, "solver": "full",
                    "frac": float(rng.choice([0.5, 0.9, 0.99, 0.999, float(rng.uniform(0.01, 1.0))]))})
    # --- exact vs randomized / auto
    for i in range({"quick": 12, "thorough": 150, "search": 60}[tier]):
        n, p = int(rng.integers(20, 60)), int(rng.integers(8, 30))
        out.append({"kind": "solvers", "n": n, "p": p, "mseed": int(rng.integers(0, 2**31)), "k": int(rng.integers(1, 5)),
                    "cplx": bool(i % 5 == 4), "rs": int(rng.integers(0, 1000)), "scale": float(10.0 ** rng.integers(-4, 5))})
    # --- the exact solver on TALL matrices whose spectrum spans ten decades: "full" means every requested singular value right relative
    # to itself and orthonormal factors (a solver working on the Gram matrix squares the condition number)
    for i in range({"quick": 4, "thorough": 40, "search": 16}[tier]):
        p = int(rng.integers(4, 9))
        out.append({"kind": "tall_exact", "n": int(p * rng.integers(12, 40)), "p": p, "mseed": int(rng.integers(0, 2**31)), "cplx": bool(i % 4 == 3),
                    "decades": float([10.0, 9.0, 11.0, 8.5][i % 4]), "entry": ["Decomposer", "EOF"][i % 2], "solver": ["full", "auto"][(i // 2) % 2]})
    # --- seeds: bit identity
    for i in range({"quick": 8, "thorough": 80, "search": 20}[tier]):
        out.append({"kind": "seed", "backend": ["numpy", "complex", "dask"][i % 3], "n": int(rng.integers(20, 50)), "p": int(rng.integers(6, 20)),
                    "mseed": int(rng.integers(0, 2**31)), "rs": int(rng.integers(0, 2**31)), "k": int(rng.integers(1, 4))})
    for i, cls in enumerate(SEED_CLASSES * {"quick": 1, "thorough": 6, "search": 2}[tier]):
        out.append({"kind": "seedcls", "cls": cls, "mseed": int(rng.integers(0, 2**31)), "rs": int(rng.integers(0, 2**31))})
    # boundary seeds: 0 is a valid seed, not "no seed"
    for cls in ("EOF", "ExtendedEOF", "MCA", "SparsePCA+rand", "POP"):
        out.append({"kind": "seedcls", "cls": cls, "mseed": int(rng.integers(0, 2**31)), "rs": 0})
    for be in ("numpy", "complex", "dask"):
        out.append({"kind": "seed", "backend": be, "n": 40, "p": 12, "mseed": int(rng.integers(0, 2**31)), "rs": 0, "k": 2})
    # --- sign rule
    for i in range({"quick": 16, "thorough": 200, "search": 100}[tier]):
        out.append({"kind": "sign", "variant": ["random", "const_neg", "tie", "single"][i % 4], "n": int(rng.integers(5, 30)), "p": int(rng.integers(1, 8)) if i % 4 != 3 else 1,
                    "mseed": int(rng.integers(0, 2**31)), "entry": ["EOF", "SVD", "Decomposer"][(i // 4) % 3]})
    # … also for WIDE matrices (fewer samples than features), for every entry point (the numpy wrapper serves the PCA pre-reductions)
    for i in range({"quick": 9, "thorough": 90, "search": 45}[tier]):
        nn = int(rng.integers(2, 6))
        out.append({"kind": "sign", "variant": "random", "n": nn, "p": nn + int(rng.integers(2, 9)), "mseed": int(rng.integers(0, 2**31)),
                    "entry": ["SVD", "EOF", "Decomposer"][i % 3], "wide": True})
    # --- kwargs routing
    for cls in KW_CLASSES:
        out.append({"kind": "kwargs", "cls": cls, "opt": "n_oversamples", "val": int(rng.integers(5, 15))})
    return out


SEED_CLASSES = ["EOF", "ComplexEOF", "HilbertEOF", "ExtendedEOF", "ExtendedEOF+pca", "POP", "OPA", "SparsePCA", "SparsePCA+rand", "MCA", "CPCCA", "CCA", "EOFRotator", "MCARotator"]
KW_CLASSES = ["EOF", "ComplexEOF", "HilbertEOF", "ExtendedEOF", "POP", "OPA", "SparsePCA", "MCA", "CCA", "CPCCA", "RDA", "SVD", "PCA", "Decomposer"]


def nontrivial_key(case, info):
    k = case["kind"]
    if k == "threshold":
        return ("threshold", case["entry"], case.get("spec", "boundary"), case.get("n", case.get("k")), case.get("p", case.get("j")),
                case["solver"], str(case["frac"]), case["irr"], bool(case.get("cplx")))
    if k == "kwargs":
        return ("kwargs", case["cls"])
    return tuple(sorted((a, str(b)) for a, b in case.items()))


def _matrix(case):
    if case["matrix"] == "boundary":
        X = boundary_matrix(case["k"], DYADIC[case["k"]], case["extra"])
    else:
        rng = np.random.default_rng(case["mseed"])
        X, _ = matrix_with_spectrum(rng, case["n"], case["p"], case["spec"], case["scale"], cplx=bool(case.get("cplx")))
        X = X - X.mean(axis=0)
    return X


def _ref_cum(X, k):
    s = np.linalg.svd(X, compute_uv=False)[:k]
    N = X.shape[0] - 1
    tot = X.var(axis=0, ddof=1).sum()
    return (s**2 / N / tot).cumsum()


def run_threshold(case):
    from xeofs.linalg.decomposer import Decomposer
    from xeofs.linalg.svd import SVD
    from xeofs.preprocessing.pca import PCA

    F = []
    X = _matrix(case)
    n, p = X.shape
    rank = min(n, p)
    k = max(1, int(rank * case["irr"]))
    cum = _ref_cum(X, k)
    if case["frac"] == "hit":
        f = float(cum[case["j"]])
    else:
        f = float(case["frac"])
    solver = case["solver"]
    Xd = da2d(X, "sample", "feature")
    entry = case["entry"]
    with warnings.catch_warnings(record=True) as w:
        warnings.simplefilter("always")
        if entry == "Decomposer":
            d = Decomposer(n_modes=f, init_rank_reduction=case["irr"], solver=solver, random_state=3)
            d.fit(Xd)
            kept = int(d.s_.size)
        elif entry == "SVD":
            U, s, V = SVD(n_modes=f, init_rank_reduction=case["irr"], solver=solver, random_state=3).fit_transform(Xd)
            kept = int(s.size)
        elif entry == "PCA":
            pca = PCA(n_modes=f, init_rank_reduction=case["irr"], random_state=3)
            pca.fit(Xd)
            kept = int(pca.V.sizes["mode"])
            solver = "auto"
        else:
            m = xe.single.EOF(n_modes=f, center=False, solver=solver, random_state=3)
            m.fit(Xd, "sample")
            kept = int(m.singular_values().size)
            k = max(1, int(rank * 0.3))  # EOF uses the default init_rank_reduction
            cum = _ref_cum(X, k)
            if case["frac"] == "hit":
                return {"findings": [], "info": {"oracle_checks": {"threshold_skipped": 1}}}
    warned = any("explained variance was requested" in str(x.message) for x in w)
    # expected: least m with cum[m-1] >= f, else k (+warning).  Only asserted where the comparison is robust:
    # an exact (dyadic) boundary hit, or a margin of 1e-6 on both sides for the solver used.
    exact_solver = solver == "full" or (solver == "auto" and max(n, p) < 500 and k > int(0.8 * rank) and entry != "PCA") or \
        (entry == "PCA" and k > int(0.8 * rank))
    reach = np.nonzero(cum >= f)[0]
    m_exp = int(reach[0]) + 1 if reach.size else k
    margin = np.min(np.abs(cum - f))
    robust = (case["frac"] == "hit" and case["matrix"] == "boundary") or (margin > 1e-6 and (exact_solver or _gap_ok(X, k)))
    cc = f"{entry}|{'boundary' if case['frac']=='hit' else 'interior'}" + ("|complex" if case.get("cplx") else "")
    checks = {"threshold": 0}
    if robust:
        checks["threshold"] = 1
        if kept != m_exp:
            F.append(Finding("oracle", "threshold_minimal", cc, f"kept {kept} modes, least prefix reaching f={f!r} is {m_exp} (cum={cum[:6]})",
                             observed=kept, expected=m_exp))
        if (not reach.size) != warned and entry in ("Decomposer", "SVD", "PCA", "EOF"):
            F.append(Finding("oracle", "threshold_warning", cc, f"unreachable={not reach.size} but warned={warned}"))
    return {"findings": F, "info": {"oracle_checks": checks, "dist": {"kind": "threshold", "entry": entry, "solver": case["solver"]}}}


def _gap_ok(X, k):
    s = np.linalg.svd(X, compute_uv=False)
    if k >= s.size:
        return True
    return s[k] < 0.5 * s[k - 1] or s[k] <= 1e-9 * s[0]


def run_tall_exact(case):
    from xeofs.linalg.decomposer import Decomposer

    F = []
    rng = np.random.default_rng(case["mseed"])
    n, p, cplx = case["n"], case["p"], case["cplx"]
    U = np.linalg.qr(rng.normal(size=(n, p)) + (1j * rng.normal(size=(n, p)) if cplx else 0))[0]
    V = np.linalg.qr(rng.normal(size=(p, p)) + (1j * rng.normal(size=(p, p)) if cplx else 0))[0]
    s = np.logspace(0, -case["decades"], p)
    X = (U * s) @ V.conj().T
    Xd = da2d(X, "t", "x")
    cc = f"tall|{case['entry']}|{case['solver']}" + ("|complex" if cplx else "")
    # all p modes requested: solver="auto" then resolves to the exact solver as well (n_modes > 0.8 rank)
    if case["entry"] == "Decomposer":
        d = Decomposer(n_modes=p, solver=case["solver"], flip_signs=True)
        d.fit(Xd, dims=("t", "x"))
        sv = np.asarray(d.s_.values)
        Uo = np.asarray(d.U_.transpose("t", "mode").values)
        Vo = np.asarray(d.V_.transpose("x", "mode").values)
    else:
        cls = xe.single.ComplexEOF if cplx else xe.single.EOF
        m = cls(n_modes=p, center=False, solver=case["solver"]).fit(Xd, "t")
        sv = np.asarray(m.singular_values().values)
        Uo = np.asarray(m.scores(normalized=True).transpose("t", "mode").values)
        Vo = np.asarray(m.components().transpose("x", "mode").values)
    ref = np.linalg.svd(X, compute_uv=False)
    rel = np.abs(sv - ref) / ref
    # LAPACK's own accuracy: absolute error ~ eps * s_1, i.e. relative error eps * s_1 / s_j for the small ones
    ok = rel <= 1e-9 + 50 * 2.3e-16 * ref[0] / ref
    if not ok.all():
        j = int(np.argmin(ok))
        F.append(Finding("oracle", "exact_solver_values", cc, f"exact solver: singular value {j+1} = {sv[j]:.6e}, LAPACK's SVD gives {ref[j]:.6e} (rel {rel[j]:.1e}; spectrum spans {case['decades']} decades, {n}x{p})"))
    eu = np.abs(Uo.conj().T @ Uo - np.eye(p)).max()
    ev = np.abs(Vo.conj().T @ Vo - np.eye(p)).max()
    if eu > 1e-6 or ev > 1e-6:
        F.append(Finding("oracle", "exact_solver_values", cc + "|orthonormal", f"exact solver: |U^H U - 1| = {eu:.1e}, |V^H V - 1| = {ev:.1e} on a tall matrix whose spectrum spans {case['decades']} decades"))
    return {"findings": F, "info": {"oracle_checks": {"tall": 2}, "dist": {"kind": "tall_exact", "entry": case["entry"], "solver": case["solver"]}}}


def run_solvers(case):
    F = []
    rng = np.random.default_rng(case["mseed"])
    n, p, k = case["n"], case["p"], case["k"]
    r = min(n, p)
    U = np.linalg.qr(rng.normal(size=(n, r)) + (1j * rng.normal(size=(n, r)) if case["cplx"] else 0))[0]
    V = np.linalg.qr(rng.normal(size=(p, r)) + (1j * rng.normal(size=(p, r)) if case["cplx"] else 0))[0]
    # (scipy's lobpcg-based svds, used for complex data, loses accuracy on badly scaled input: complex cases stay at unit scale;
    #  accuracy of the iterative solvers is a runtime matter, see ASSUMPTIONS)
    scale = 1.0 if case["cplx"] else case["scale"]
    s = np.concatenate([np.linspace(1.0, 0.6, k), 1e-3 * np.linspace(1.0, 0.1, r - k)]) * scale  # gap after mode k
    X = (U * s) @ V.conj().T
    Xd = da2d(X, "t", "x")
    cls = xe.single.ComplexEOF if case["cplx"] else xe.single.EOF
    res = {}
    for solver in ("full", "randomized", "auto"):
        m = cls(n_modes=k, center=False, solver=solver, random_state=case["rs"]).fit(Xd, "t")
        C = m.components().transpose("x", "mode").values
        res[solver] = (m.singular_values().values, C @ C.conj().T, m.scores().transpose("t", "mode").values)
    sv_f, P_f, _ = res["full"]
    sv_r, P_r, _ = res["randomized"]
    if relerr(sv_f, s[:k]) > 1e-9:
        F.append(Finding("oracle", "exact_solver_values", "full", f"full solver singular values off by {relerr(sv_f, s[:k]):.2e}"))
    tol = 1e-4
    if relerr(sv_r, sv_f) > tol or np.abs(P_r - P_f).max() > tol:
        F.append(Finding("oracle", "exact_vs_randomized", "gap" + ("|complex" if case["cplx"] else ""),
                         f"sv rel {relerr(sv_r, sv_f):.2e}, projector {np.abs(P_r - P_f).max():.2e}"))
    # dask back-end (real data): the compressed SVD with the documented four power iterations agrees with the exact solver when the
    # tail after the gap decays slowly (tail / s_k = 0.25: error ~ 0.25^9 with the iterations, ~ 0.25 without)
    if not case["cplx"]:
        s2 = np.concatenate([np.linspace(50.0, 20.0, k), np.linspace(5.0, 1.0, r - k)]) * scale
        X2 = (U * s2) @ V.T
        Xc = da2d(X2, "t", "x").chunk({"t": max(2, n // 3), "x": -1})
        try:
            md = xe.single.EOF(n_modes=k, center=False, solver="randomized", random_state=case["rs"]).fit(Xc, "t")
            mf = xe.single.EOF(n_modes=k, center=False, solver="full").fit(da2d(X2, "t", "x"), "t")
            svd_, svf_ = md.singular_values().values, mf.singular_values().values
            Cd = md.components().transpose("x", "mode").values
            Cf = mf.components().transpose("x", "mode").values
            e1, e2 = relerr(svd_, svf_), np.abs(Cd @ Cd.T - Cf @ Cf.T).max()
            if e1 > 1e-3 or e2 > 1e-3:
                F.append(Finding("oracle", "exact_vs_randomized", "gap|dask", f"dask solver vs exact: sv rel {e1:.2e}, projector {e2:.2e} (tail/s_k = 0.25)"))
        except NotImplementedError:
            pass
    a = res["auto"]
    same_full = all(np.array_equal(x, y) for x, y in zip(a, res["full"]))
    same_rand = all(np.array_equal(x, y) for x, y in zip(a, res["randomized"]))
    if not (same_full or same_rand):
        F.append(Finding("oracle", "auto_selects_two", "auto", "result of solver='auto' is neither the exact nor the randomised result"))
    # unknown solver must be refused
    try:
        cls(n_modes=k, solver="bogus", center=False).fit(Xd, "t")
        F.append(Finding("oracle", "unknown_solver_refused", "fit", "solver='bogus' was accepted"))
    except Exception:  # noqa: BLE001
        pass
    return {"findings": F, "info": {"oracle_checks": {"solvers": 4}, "dist": {"kind": "solvers", "cplx": case["cplx"]}}}


def run_seed(case):
    F = []
    rng = np.random.default_rng(case["mseed"])
    n, p, k = case["n"], case["p"], case["k"]
    D = rng.normal(size=(n, p))
    be = case["backend"]
    if be == "complex":
        D = D + 1j * rng.normal(size=(n, p))
    Xd = da2d(D, "t", "x")
    if be == "dask":
        Xd = Xd.chunk({"t": max(2, n // 2)})
    cls = xe.single.ComplexEOF if be == "complex" else xe.single.EOF

    def fit():
        m = cls(n_modes=k, solver="randomized", random_state=case["rs"]).fit(Xd, "t")
        return [np.asarray(m.components().values), np.asarray(m.scores().values), np.asarray(m.singular_values().values)]

    try:
        a, b = fit(), fit()
    except NotImplementedError:
        return {"findings": [], "info": {"oracle_checks": {"seed_refused": 1}}}
    if not all(np.array_equal(x, y) for x, y in zip(a, b)):
        F.append(Finding("oracle", "seed_determinism", be, f"two fits with random_state={case['rs']} differ (max {max(np.abs(x - y).max() for x, y in zip(a, b)):.2e})"))
    return {"findings": F, "info": {"oracle_checks": {"seed": 1}, "dist": {"kind": "seed", "backend": be}}}


def run_seedcls(case):
    """equal inputs + equal random_state => bit-identical results, for every model class taking random_state"""
    F = []
    cls = case["cls"]
    X = mk(n=60, ny=5, nx=6, seed=case["mseed"] % 1000)
    Y = mk(n=60, ny=4, nx=5, seed=case["mseed"] % 1000 + 1)
    rs = case["rs"] % (2**31)

    def fit():
        if cls in ("EOF", "ComplexEOF", "HilbertEOF"):
            m = getattr(xe.single, cls)(n_modes=2, solver="randomized", random_state=rs).fit(X, "time")
            return [m.scores().values, m.components().values, m.explained_variance().values]
        if cls.startswith("ExtendedEOF"):
            m = xe.single.ExtendedEOF(n_modes=2, tau=1, embedding=2, n_pca_modes=5 if "+pca" in cls else None, solver="randomized", random_state=rs).fit(X, "time")
            return [m.scores().values, m.components().values, m.explained_variance().values]
        if cls == "POP":
            m = xe.single.POP(n_modes=2, n_pca_modes=4, random_state=rs).fit(X, "time")
            return [m.scores().values, m.components().values, m.eigenvalues().values]
        if cls == "OPA":
            m = xe.single.OPA(n_modes=2, tau_max=3, n_pca_modes=4, random_state=rs).fit(X, "time")
            return [m.scores().values, m.components().values, m.decorrelation_time().values]
        if cls.startswith("SparsePCA"):
            m = xe.single.SparsePCA(n_modes=2, random_state=rs, solver="randomized" if "+rand" in cls else "auto").fit(X, "time")
            return [m.scores().values, m.components().values, m.explained_variance().values]
        if cls in ("MCA", "CPCCA", "CCA"):
            kw = {"alpha": 0.5} if cls == "CPCCA" else {}
            m = getattr(xe.cross, cls)(n_modes=2, n_pca_modes=4, random_state=rs, **kw).fit(X, Y, "time")
            return [m.scores()[0].values, m.scores()[1].values, m.components()[0].values, m.data["singular_values"].values]
        if cls == "EOFRotator":
            m = xe.single.EOF(n_modes=3, solver="randomized", random_state=rs).fit(X, "time")
            r = xe.single.EOFRotator(n_modes=3).fit(m)
            return [r.scores().values, r.components().values, r.explained_variance().values]
        if cls == "MCARotator":
            m = xe.cross.MCA(n_modes=3, n_pca_modes=4, random_state=rs).fit(X, Y, "time")
            r = xe.cross.MCARotator(n_modes=3).fit(m)
            return [r.scores()[0].values, r.components()[1].values]
        raise KeyError(cls)

    a, b = fit(), fit()
    if not all(np.array_equal(x, y, equal_nan=True) for x, y in zip(a, b)):
        d = max(float(np.nanmax(np.abs(np.asarray(x) - np.asarray(y)))) for x, y in zip(a, b))
        F.append(Finding("oracle", "seed_determinism", cls + ("|seed0" if rs == 0 else ""), f"two fits of {cls} with random_state={rs} differ (max abs {d:.2e})"))
    return {"findings": F, "info": {"oracle_checks": {"seedcls": 1}, "dist": {"kind": "seedcls", "cls": cls}}}


def run_sign(case):
    from xeofs.linalg.decomposer import Decomposer
    from xeofs.linalg.svd import SVD

    F = []
    rng = np.random.default_rng(case["mseed"])
    n, p = case["n"], case["p"]
    var = case["variant"]
    if var == "const_neg":
        p = max(p, 2)
        D = np.outer(rng.normal(size=n), np.ones(p))  # first mode has all-equal loadings
    elif var == "tie":
        p = max(p, 2)
        v = np.zeros(p)
        v[0], v[1] = 1.0, -1.0  # |max| = |min|
        D = np.outer(rng.normal(size=n), v)
    else:
        D = rng.normal(size=(n, p))
    Xd = da2d(D, "sample", "feature")
    k = 1 if var in ("const_neg", "tie") else min(n, p, 3)
    if case["entry"] == "EOF":
        m = xe.single.EOF(n_modes=k, center=False, solver="full").fit(Xd, "sample")
        C = m.components().transpose("feature", "mode").values
    elif case["entry"] == "SVD":
        _, _, V = SVD(n_modes=k, solver="full").fit_transform(Xd)
        C = V.transpose("feature", "mode").values
    else:
        d = Decomposer(n_modes=k, solver="full")
        d.fit(Xd)
        C = d.V_.transpose("feature", "mode").values
    for j in range(C.shape[1]):
        col = C[:, j]
        amax = np.abs(col).max()
        big = col[np.abs(col) >= amax * (1 - 1e-9)]
        # the largest-magnitude loading must be positive; if positive and negative loadings tie, either sign is acceptable
        if (big > 0).any():
            continue
        F.append(Finding("oracle", "sign_rule_max_abs_positive", f"{var}|{case['entry']}" + ("|wide" if case.get("wide") else ""),
                         f"mode {j+1}: largest-magnitude loading is negative: {col[:4]}"))
    return {"findings": F, "info": {"oracle_checks": {"sign": C.shape[1]}, "dist": {"kind": "sign", "variant": var}}}


def run_kwargs(case):
    """a documented pass-through option must be accepted AND reach the solver function"""
    import sklearn.utils.extmath as em

    F = []
    cls = case["cls"]
    opt, val = case["opt"], case["val"]
    seen = []
    import xeofs.linalg.decomposer as dec
    import xeofs.linalg._numpy._svd as nsvd

    orig = em.randomized_svd

    def spy(M, *a, **k):
        seen.append(dict(k))
        return orig(M, *a, **k)

    X = mk(n=40, ny=3, nx=4, seed=1)
    Y = mk(n=40, ny=3, nx=3, seed=2)
    X2 = da2d(np.random.default_rng(0).normal(size=(40, 12)), "sample", "feature")
    old = (dec.randomized_svd, nsvd.randomized_svd)
    dec.randomized_svd = spy
    nsvd.randomized_svd = spy
    sp_old = None
    try:
        import xeofs.single._numpy._sparse_pca as sp

        sp_old = getattr(sp, "randomized_svd", None)
    except Exception:  # noqa: BLE001
        sp = None
    try:
        kw = {"solver": "randomized", "random_state": 1, "solver_kwargs": {opt: val}}
        try:
            if cls in ("ComplexEOF", "HilbertEOF"):
                # complex data selects scipy's svds: use one of *its* documented options
                import scipy.sparse.linalg as ssl

                orig_c = dec.complex_svd

                def spyc(M, *a, **k):
                    seen.append(dict(k))
                    return orig_c(M, *a, **k)

                dec.complex_svd = spyc
                try:
                    Xc = mk(n=40, ny=3, nx=4, seed=1, cplx=True) if cls == "ComplexEOF" else X
                    kwc = {"solver": "randomized", "random_state": 1, "solver_kwargs": {"tol": 1e-9}}
                    getattr(xe.single, cls)(n_modes=2, **kwc).fit(Xc, "time")
                finally:
                    dec.complex_svd = orig_c
                opt, val = "tol", 1e-9
            elif cls == "EOF":
                getattr(xe.single, cls)(n_modes=2, **kw).fit(X, "time")
            elif cls == "ExtendedEOF":
                xe.single.ExtendedEOF(n_modes=2, tau=1, embedding=2, **kw).fit(X, "time")
            elif cls == "POP":
                xe.single.POP(n_modes=2, n_pca_modes=4, **kw).fit(X, "time")
            elif cls == "OPA":
                xe.single.OPA(n_modes=2, tau_max=2, n_pca_modes=4, **kw).fit(X, "time")
            elif cls == "SparsePCA":
                kw2 = dict(kw)
                kw2["solver_kwargs"] = {}
                return {"findings": [], "info": {"oracle_checks": {"kwargs_skipped": 1}}}
            elif cls in ("MCA", "CCA", "CPCCA", "RDA"):
                getattr(xe.cross, cls)(n_modes=2, n_pca_modes=3, **kw).fit(X, Y, "time")
            elif cls == "SVD":
                from xeofs.linalg.svd import SVD

                SVD(n_modes=3, **kw).fit_transform(X2)
            elif cls == "PCA":
                from xeofs.preprocessing.pca import PCA

                PCA(n_modes=3, random_state=1, solver_kwargs={opt: val}).fit(X2)
            elif cls == "Decomposer":
                dec.Decomposer(n_modes=3, **kw).fit(X2)
        except Exception as e:  # noqa: BLE001
            F.append(Finding("oracle", "kwargs_reach_solver", cls, f"solver_kwargs={{{opt!r}: {val}}} refused: {exc_class(e)}: {str(e)[:120]}"))
            return {"findings": F, "info": {"oracle_checks": {"kwargs": 1}}}
        if not seen:
            F.append(Finding("oracle", "kwargs_reach_solver", cls, "randomised solver was never called"))
        elif not any(k.get(opt) == val for k in seen):
            # (pre-reduction steps inside a model may use their own solver; the option must reach the model's main solver)
            F.append(Finding("oracle", "kwargs_reach_solver", cls, f"option {opt}={val} did not reach the solver: {seen[:3]}"))
    finally:
        dec.randomized_svd, nsvd.randomized_svd = old
    return {"findings": F, "info": {"oracle_checks": {"kwargs": 1}, "dist": {"kind": "kwargs", "cls": cls}}}


def run(case):
    return {"threshold": run_threshold, "tall_exact": run_tall_exact, "solvers": run_solvers, "seed": run_seed, "seedcls": run_seedcls, "sign": run_sign, "kwargs": run_kwargs}[case["kind"]](case)
