"""C09 — cross-set models diagonalise the (partially whitened) cross-covariance."""
from __future__ import annotations

from harness.common import *  # noqa: F401,F403
from harness.common import Finding, np, xr, xe, relerr
from harness import zoo

RULE = ("pairs of fields with equal sample count (real / complex / Hilbert; feature counts incl. p > n after PCA; fields mixing magnitudes "
        "up to cond ~1e5), alpha in [0,1]^2, PCA off / all / truncated, n_modes 1..rank, named specialisations; the whitened cross-covariance "
        "is recomputed independently with numpy eigh on (N-1)-normalised covariances; distinct by (class, alpha, pca, shape, structure)")
BASES = ["CPCCA", "MCA", "CCA", "RDA", "ComplexCPCCA", "ComplexMCA", "ComplexCCA", "ComplexRDA", "HilbertCPCCA", "HilbertMCA", "HilbertCCA", "HilbertRDA"]
ALPHA = {"MCA": (1.0, 1.0), "CCA": (0.0, 0.0), "RDA": (0.0, 1.0)}


def cases(seed, tier, broken=()):
    rng = np.random.default_rng(seed)
    n = {"quick": 72, "thorough": 2000, "search": 600}[tier]
    out = []
    for i in range(n):
        cls = BASES[i % len(BASES)]
        out.append({"cls": cls, "mseed": int(rng.integers(0, 2**31)), "n": int(rng.integers(40, 90)), "px": int(rng.integers(2, 9)), "py": int(rng.integers(2, 7)),
                    "alpha": [float(rng.choice([0.0, 0.2, 0.5, 0.8, 1.0, float(rng.uniform(0, 1))])) for _ in range(2)],
                    "pca": str(rng.choice(["off", "off", "all", "trunc"])), "k": int(rng.integers(1, 5)),
                    "standardize": bool(rng.random() < 0.3), "mixed_units": bool(rng.random() < 0.3), "wide": bool(rng.random() < 0.15),
                    # a lagged analysis: the second field carries OTHER sample labels (partly overlapping); samples are paired by position
                    "shifted_labels": bool(i % 5 == 2)})
    return out


def nontrivial_key(case, info):
    return tuple(sorted((k, str(v)) for k, v in case.items() if k != "mseed"))


def fields(case):
    rng = np.random.default_rng(case["mseed"])
    cls = case["cls"]
    cplx = cls.startswith("Complex")
    n, px, py = case["n"], case["px"], case["py"]
    if case["wide"] and case["pca"] == "trunc":
        px = n + 5  # more features than samples: only meaningful with PCA truncation
    r = 3
    Z = rng.normal(size=(n, r)) + (1j * rng.normal(size=(n, r)) if cplx else 0)
    A = rng.normal(size=(r, px)) + (1j * rng.normal(size=(r, px)) if cplx else 0)
    B = rng.normal(size=(r, py)) + (1j * rng.normal(size=(r, py)) if cplx else 0)
    X = Z @ A + 0.7 * (rng.normal(size=(n, px)) + (1j * rng.normal(size=(n, px)) if cplx else 0))
    Y = Z @ B + 0.7 * (rng.normal(size=(n, py)) + (1j * rng.normal(size=(n, py)) if cplx else 0))
    if case["mixed_units"]:
        X = X * (10.0 ** rng.uniform(-2.3, 2.3, size=px))  # e.g. K next to Pa: covariance condition number up to ~1e9
    X = X + 3.0
    Y = Y - 1.0
    Xd = xr.DataArray(X, dims=("time", "x"), coords={"time": np.arange(n), "x": np.arange(px)}, name="X")
    Yd = xr.DataArray(Y, dims=("time", "y"), coords={"time": np.arange(n) + (3 if case.get("shifted_labels") else 0), "y": np.arange(py)}, name="Y")
    return Xd, Yd


def sym_power(C, p):
    w, V = np.linalg.eigh((C + C.conj().T) / 2)
    w = np.clip(w, 0, None)
    keep = w > w.max() * 1e-14
    return (V[:, keep] * w[keep] ** p) @ V[:, keep].conj().T


def run(case):
    F = []
    cls = case["cls"]
    b = cls.replace("Complex", "").replace("Hilbert", "")
    Xd, Yd = fields(case)
    n = case["n"]
    ax, ay = ALPHA.get(b, tuple(case["alpha"]))
    k = case["k"]
    cfg = {"n_modes": k, "solver": "full", "standardize": case["standardize"]}
    if b == "CPCCA":
        cfg["alpha"] = [ax, ay]
    npc = None
    if case["pca"] == "off":
        cfg["use_pca"] = False
    elif case["pca"] == "all":
        cfg.update(use_pca=True, n_pca_modes="all")
    else:
        npc = [max(2, min(case["px"], n - 1) - 1) if not case["wide"] else 6, max(2, case["py"] - 1)]
        cfg.update(use_pca=True, n_pca_modes=npc)
    cc = f"{cls}|pca={case['pca']}"
    hil = cls.startswith("Hilbert")
    if hil:
        # default exponential padding in half of the cases (the independent sigma reference below exists for "none" only)
        cfg["padding"] = "exp" if case["mseed"] % 2 else "none"
    try:
        m = getattr(xe.cross, cls)(**cfg).fit(Xd, Yd, "time")
    except ValueError as e:
        if "rank" in str(e) or "n_modes" in str(e):
            return {"findings": [], "info": {"dist": {"cls": cls, "outcome": "refused"}}}
        raise
    kk = int(m.data["singular_values"].size)
    # ------------- independent reference: preprocess, (PCA), Hilbert, whiten with (N-1) covariances
    def prep(A):
        M = np.asarray(A.values)
        M = M - M.mean(axis=0)
        if case["standardize"]:
            sd = np.sqrt(np.mean(np.abs(M) ** 2, axis=0))
            M = M / np.clip(sd, np.finfo(np.float32).eps, None)
        return M

    X, Y = prep(Xd), prep(Yd)
    X_feat, Y_feat = X, Y
    if case["pca"] == "trunc":
        Vx = np.linalg.svd(X, full_matrices=False)[2][: npc[0]].conj().T
        Vy = np.linalg.svd(Y, full_matrices=False)[2][: npc[1]].conj().T
        # the model's PCA runs the solver xeofs selects for it (randomised for wide fields): its basis spans the leading subspace only to
        # that method's accuracy (C01's subject, not C09's). When the model's own orthonormal basis differs measurably from the exact one,
        # the reference is whitened in the model's basis; either way the whitening and the SVD below are independent of xeofs.
        basis_note = "exact"
        try:
            Vmx = np.asarray(m.pca1.V.transpose(..., "mode").values)
            Vmy = np.asarray(m.pca2.V.transpose(..., "mode").values)
            ok_shape = Vmx.shape == Vx.shape and Vmy.shape == Vy.shape
            ortho = ok_shape and max(np.abs(Vmx.conj().T @ Vmx - np.eye(Vmx.shape[1])).max(), np.abs(Vmy.conj().T @ Vmy - np.eye(Vmy.shape[1])).max()) < 1e-8
            if not ortho:
                F.append(Finding("oracle", "pca_basis_orthonormal", f"{cls}|pca=trunc", f"the model's PCA bases are not orthonormal / have shapes {Vmx.shape},{Vmy.shape} for {npc}"))
            else:
                dev = max(np.linalg.norm(Vmx - Vx @ (Vx.conj().T @ Vmx)), np.linalg.norm(Vmy - Vy @ (Vy.conj().T @ Vmy)))
                if dev > 1e-9:
                    Vx, Vy, basis_note = Vmx, Vmy, f"model basis (subspace deviation {dev:.1e})"
        except AttributeError:
            pass
        X, Y = X @ Vx, Y @ Vy
    if hil and cfg["padding"] != "none":
        X = Y = None
    elif hil:
        from scipy.signal import hilbert as sph

        def ana(M):
            h = sph(M.real, axis=0)
            return h - 1j * h.imag.mean(axis=0)
        if case["pca"] == "off":
            X, Y = ana(X), ana(Y)
        else:
            # the Hilbert transform is applied to the PCs: use the model's own PCA basis only through public PCs? not available ->
            # skip the independent sigma comparison for Hilbert + PCA (the diagonality / genuineness checks below still apply)
            X = Y = None
    checks = 0
    s = np.asarray(m.data["singular_values"].values)
    if np.any(s < -1e-12) or np.any(np.diff(s) > 1e-9 * max(s.max(), 1e-300)):
        F.append(Finding("oracle", "sigma_nonneg_antitone", cc, f"singular values not non-negative/descending: {s}"))
    S1 = np.asarray(m.data["scores1"].transpose("sample", "mode").values)
    S2 = np.asarray(m.data["scores2"].transpose("sample", "mode").values)
    G = S1.conj().T @ S2 / (n - 1)
    e = np.abs(G - np.diag(s)).max() / max(s.max(), 1e-300)
    checks += 1
    if e > 1e-7:
        F.append(Finding("oracle", "scores_cross_cov_diag", cc, f"cross-covariance of the scores differs from diag(singular values) by rel {e:.2e}"))
    # … as a genuine covariance (means removed): the fields are centred, so the score series have zero mean
    Gc = (S1 - S1.mean(axis=0)).conj().T @ (S2 - S2.mean(axis=0)) / (n - 1)
    e = np.abs(Gc - np.diag(s)).max() / max(s.max(), 1e-300)
    checks += 1
    if e > 1e-7:
        F.append(Finding("oracle", "scores_cross_cov_diag", cc + "|genuine", f"covariance (means removed) of the scores differs from diag(singular values) by rel {e:.2e}; "
                         f"largest |mean score| / norm = {np.abs(S1.mean(axis=0)).max() / max(np.abs(S1).max(), 1e-300):.2e}"))
    # public scores agree with the 2-D ones
    p1 = np.asarray(m.scores()[0].transpose("time", "mode").values)
    if relerr(p1, S1) > 1e-12:
        F.append(Finding("oracle", "scores_public", cc, "public scores() differ from the stored scores"))
    if X is not None:
        Cxx, Cyy, Cxy = X.conj().T @ X / (n - 1), Y.conj().T @ Y / (n - 1), X.conj().T @ Y / (n - 1)
        cond = max(np.linalg.cond(Cxx) if ax < 1 else 1.0, np.linalg.cond(Cyy) if ay < 1 else 1.0)
        Cw = sym_power(Cxx, (ax - 1) / 2) @ Cxy @ sym_power(Cyy, (ay - 1) / 2)
        sref = np.linalg.svd(Cw, compute_uv=False)
        factor = ((n - 1) / n) ** ((ax + ay - 2) / 2)
        tol = max(1e-7, 1e-12 * cond)
        checks += 1
        e = relerr(s, factor * sref[:kk])
        if e > tol and cond < 1e10:
            F.append(Finding("oracle", "sigma_proportional", cc, f"singular values vs independently whitened cross-covariance: rel {e:.2e} (alpha=({ax:.2f},{ay:.2f}), factor {factor:.6f}, cond {cond:.1e}); {s[:3]} vs {factor * sref[:3]}"))
        if b == "CCA" and cond < 1e10:
            # correlation between paired scores = canonical correlations
            cors = np.array([abs(np.vdot(S1[:, j] - S1[:, j].mean(), S2[:, j] - S2[:, j].mean())) /
                             (np.linalg.norm(S1[:, j] - S1[:, j].mean()) * np.linalg.norm(S2[:, j] - S2[:, j].mean())) for j in range(kk)])
            checks += 1
            if relerr(cors, sref[:kk]) > max(1e-6, 1e-12 * cond):
                F.append(Finding("oracle", "cca_correlations", cc, f"correlation of paired scores {cors[:3]} vs canonical correlations {sref[:3]}"))
    if b == "MCA":
        Q1 = np.asarray(m.components()[0].transpose("x", "mode").values)
        Q2 = np.asarray(m.components()[1].transpose("y", "mode").values)
        for nm, Q in (("1", Q1), ("2", Q2)):
            e = np.abs(Q.conj().T @ Q - np.eye(kk)).max()
            checks += 1
            if e > 1e-8:
                F.append(Finding("oracle", "mca_components_orthonormal", cc, f"components{nm}: |Q^H Q - 1| = {e:.2e}"))
        if X is not None and case["pca"] != "trunc":
            Cxy = X.conj().T @ Y / (n - 1)
            scf = np.asarray(m.squared_covariance_fraction().values)
            ref = (np.linalg.svd(Cxy, compute_uv=False)[:kk] ** 2) / (np.linalg.norm(Cxy) ** 2)
            checks += 1
            if relerr(scf, ref) > 1e-7:
                F.append(Finding("oracle", "mca_scf", cc, f"squared covariance fraction {scf[:3]} vs sigma^2/|C|_F^2 {ref[:3]}"))
            if kk == min(Cxy.shape) and abs(scf.sum() - 1) > 1e-7:
                F.append(Finding("oracle", "mca_scf", cc + "|sum", f"SCF sums to {scf.sum():.8f} at full rank"))
    # every reported correlation is a genuine correlation
    if not hil:
        try:
            for nm, acc in (("X", m.correlation_coefficients_X), ("Y", m.correlation_coefficients_Y)):
                Cm = np.asarray(acc().values)
                checks += 1
                if np.abs(Cm).max() > 1 + 1e-9:
                    F.append(Finding("oracle", "correlation_genuine", cc + f"|coef_{nm}", f"|correlation| up to {np.abs(Cm).max():.6f}"))
                d = np.abs(np.diag(Cm) - 1).max()
                if d > 1e-9:
                    F.append(Finding("oracle", "correlation_genuine", cc + f"|self_{nm}", f"self-correlation differs from one by {d:.2e}"))
            cx = np.asarray(m.cross_correlation_coefficients().values)
            checks += 1
            if np.abs(cx).max() > 1 + 1e-9:
                F.append(Finding("oracle", "correlation_genuine", cc + "|cross", f"|cross-correlation| up to {np.abs(cx).max():.6f}"))
            # independent value: Pearson correlation of the paired score series
            ref = np.array([np.vdot(S1[:, j] - S1[:, j].mean(), S2[:, j] - S2[:, j].mean()) /
                            (np.linalg.norm(S1[:, j] - S1[:, j].mean()) * np.linalg.norm(S2[:, j] - S2[:, j].mean())) for j in range(kk)])
            if relerr(np.abs(cx), np.abs(ref)) > 1e-8:
                F.append(Finding("oracle", "correlation_genuine", cc + "|cross-value", f"cross_correlation_coefficients {cx[:3]} vs Pearson correlation of the paired scores {ref[:3]}"))
            hp = m.homogeneous_patterns()[0]
            het = m.heterogeneous_patterns()[0]
            for nm, pats, Sc, Fm in (("hom", hp, (S1, S2), (X_feat, Y_feat)), ("het", het, (S2, S1), (X_feat, Y_feat))):
                for fi, (P, dimf) in enumerate(zip(pats, ("x", "y"))):
                    Pm = np.asarray(P.transpose(dimf, "mode").values)
                    checks += 1
                    if np.nanmax(np.abs(Pm)) > 1 + 1e-9:
                        F.append(Finding("oracle", "correlation_genuine", cc + f"|{nm}", f"{nm}ogeneous pattern {fi}: |r| up to {np.nanmax(np.abs(Pm)):.6f}"))
                        continue
                    if case["pca"] == "trunc":
                        continue  # patterns then refer to the PCA-filtered field: still genuine correlations, but not of the raw data
                    D = Fm[fi]
                    Sx = Sc[fi]
                    Dc = D - D.mean(axis=0)
                    Scn = Sx - Sx.mean(axis=0)
                    refp = (Dc.conj().T @ Scn) / (np.linalg.norm(Dc, axis=0)[:, None] * np.linalg.norm(Scn, axis=0)[None, :])
                    if relerr(np.abs(Pm), np.abs(refp)) > 1e-7:
                        F.append(Finding("oracle", "correlation_genuine", cc + f"|{nm}-value", f"{nm}ogeneous pattern {fi} differs from the Pearson correlation (data, scores) by rel {relerr(np.abs(Pm), np.abs(refp)):.2e}"))
        except NotImplementedError:
            pass
    return {"findings": F, "info": {"oracle_checks": {"n": checks}, "dist": {"cls": cls, "pca": case["pca"], "alpha": f"{ax:.1f},{ay:.1f}"}}}
