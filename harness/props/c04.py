"""C04 — transform of the training data reproduces the model's scores (every transform-capable class)."""
from __future__ import annotations

from harness.common import *  # noqa: F401,F403
from harness.common import Finding, np, xr, xe, relerr
from harness import zoo
from harness.props import c03

RULE = ("every transform-capable class (single, cross, multi, all rotators) x alpha grid x PCA on/off (int / 'all') x rotation power 1..3 x "
        "normalized on/off x preprocessing flags x input structure (DataArray, Dataset, list, 2 sample dims, sample MultiIndex) x NaN rows/"
        "columns; white-noise as well as structured data so that rotations re-sort and flip signs; distinct by the configuration tuple")
STRUCTS = ["DA", "DA", "DS", "LIST", "2s", "MI", "NaN", "2sNaN", "MINaN", "DSrev", "LAG"]


def cases(seed, tier, broken=()):
    rng = np.random.default_rng(seed)
    n = {"quick": 96, "thorough": 3000, "search": 800}[tier]
    out = []
    classes = zoo.TRANSFORM_CAPABLE
    for i in range(n):
        cls = classes[i % len(classes)]
        out.append({"cls": cls, "mseed": int(rng.integers(0, 2**31)), "k": int(rng.integers(2, 7)),
                    "standardize": bool(rng.random() < 0.4), "use_coslat": bool(rng.random() < 0.3), "weights": False,
                    "alpha": [float(rng.choice([0.0, 0.3, 0.5, 1.0, float(rng.uniform(0, 1))])) for _ in range(2)],
                    "use_pca": bool(rng.random() < 0.5), "n_pca": str(rng.choice(["all", "int"])), "power": int(rng.integers(1, 4)),
                    "normalized": bool(rng.random() < 0.5), "struct": STRUCTS[int(rng.integers(0, len(STRUCTS)))],
                    "noise": str(rng.choice(["white", "structured"]))})
    return out


def nontrivial_key(case, info):
    return tuple(sorted((k, str(v)) for k, v in case.items() if k != "mseed"))


def build(case):
    """returns (data, dim) with the requested structure; for two-field classes a tuple"""
    cls = case["cls"]
    rng = np.random.default_rng(case["mseed"])
    cplx = zoo.needs_complex_input(cls)
    n, ny = 28, 3

    def field(nx, seed_off, name):
        v = rng.normal(size=(n, ny, nx))
        if case["noise"] == "structured":
            t = np.arange(n)[:, None, None]
            v = v * 0.3 + 3 * np.sin(t / 3.0) * rng.normal(size=(1, ny, nx)) + 2 * np.cos(t / 5.0) * rng.normal(size=(1, ny, nx))
        if cplx:
            v = v + 1j * rng.normal(size=(n, ny, nx))
        return xr.DataArray(v + 4.0, dims=("time", "lat", "lon"),
                            coords={"time": np.arange(n) * 2, "lat": np.linspace(-50, 60, ny), "lon": np.arange(nx) * 20.0}, name=name)

    X = field(4, 0, "u")
    Y = field(3, 1, "v") + 0.5 * X.isel(lon=slice(0, 3)).values
    st = case["struct"]
    dim = "time"

    def shape(A):
        if st in ("DS", "DSrev"):
            return xr.Dataset({"a": A, "b": A * 1.5 - 1.0})
        if st == "LIST":
            return [A, (A * 0.5 + 2.0).isel(lon=slice(0, 2)).rename("w")]
        if st == "MI":
            return A.stack(s=("time", "lat"))
        if st in ("2sNaN", "MINaN"):
            # two sample dimensions (or a sample MultiIndex) AND entirely missing samples: (time, lat) pairs without any value
            B = A.copy()
            B.values[3, 1, :] = np.nan
            B.values[17, 0, :] = np.nan
            return B.stack(s=("time", "lat")) if st == "MINaN" else B
        if st == "NaN":
            B = A.copy()
            B.values[3] = np.nan
            B.values[17] = np.nan
            B.values[:, 1, 2] = np.nan
            return B
        return A

    if st in ("2s", "2sNaN"):
        dim = ("time", "lat")
    if st in ("MI", "MINaN"):
        dim = "s"
    if zoo.takes_two(cls):
        if cls == "multi.CCA" and st in ("LIST",):
            return (X, Y), dim
        if st == "LAG" and cls != "multi.CCA":
            # a lagged analysis: the second field carries its OWN (later) sample labels; samples are paired by position and every field's
            # scores / transform answers are labelled with that field's samples
            return (X, Y.assign_coords(time=Y.time.values + 6)), dim
        return (shape(X), shape(Y)), dim
    return shape(X), dim


def model_cfg(case):
    cls = case["cls"]
    b = zoo.base_of(cls)
    k = case["k"]
    if b in zoo.SINGLE:
        cfg = {"n_modes": k, "solver": "full", "standardize": case["standardize"], "use_coslat": case["use_coslat"] and case["struct"] not in ("2s", "MI", "2sNaN", "MINaN")}
        if b == "POP":
            cfg["n_pca_modes"] = max(k, 4)
            cfg["n_modes"] = min(k, cfg["n_pca_modes"])
        if b == "SparsePCA":
            cfg["alpha"] = 1e-3
    elif b == "multi.CCA":
        cfg = {"n_modes": min(k, 3), "pca": case["use_pca"], "use_coslat": case["use_coslat"] and case["struct"] not in ("2s", "MI", "2sNaN", "MINaN")}
        if case["use_pca"]:
            cfg["variance_fraction"] = 0.999
            cfg["init_pca_modes"] = 1.0
    else:
        cfg = {"n_modes": min(k, 6), "solver": "full", "standardize": case["standardize"], "use_coslat": case["use_coslat"] and case["struct"] not in ("2s", "MI", "2sNaN", "MINaN"),
               "use_pca": case["use_pca"], "n_pca_modes": "all" if case["n_pca"] == "all" else 6}
        if b.endswith("CPCCA"):
            cfg["alpha"] = case["alpha"]
    return cfg


def run(case):
    F = []
    cls = case["cls"]
    data, dim = build(case)
    cfg = model_cfg(case)
    rot_cfg = {"power": case["power"], "n_modes": cfg["n_modes"]} if "Rotator" in cls else None
    cc = f"{cls}|{case['struct']}"
    try:
        m, _ = zoo.fit(cls, data, dim, cfg, rot_cfg=rot_cfg)
    except RuntimeError as e:
        if "did not converge" in str(e):
            return {"findings": [], "info": {"dist": {"cls": cls, "outcome": "rotation-not-converged"}}}
        raise
    except ValueError as e:
        if "rank" in str(e) or "n_modes" in str(e) or "n_components must be less" in str(e):
            return {"findings": [], "info": {"dist": {"cls": cls, "outcome": "refused"}}}
        F.append(Finding("oracle", "transform_training_eq_scores", cc + "|fit-raises", f"{type(e).__name__}: {str(e)[:160]}"))
        return {"findings": F, "info": {}}
    kw = {}
    if case["normalized"] and cls != "multi.CCA":
        kw["normalized"] = True
    try:
        sc = zoo.scores(cls, m, **kw)
        tdata = data
        if case["struct"] == "DSrev":
            # the very same Dataset(s) with the variables listed in another order (a Dataset is a mapping: the same data)
            rev = lambda d: d[list(reversed(list(d.data_vars)))] if isinstance(d, xr.Dataset) else d  # noqa: E731
            tdata = tuple(rev(d) for d in data) if isinstance(data, tuple) else rev(data)
        tf = zoo.transform(cls, m, tdata, **kw)
    except Exception as e:  # noqa: BLE001
        F.append(Finding("oracle", "transform_training_eq_scores", cc + "|raises", f"transform(X_fit) raised {type(e).__name__}: {str(e)[:160]}"))
        return {"findings": F, "info": {}}
    checks = 0
    for i, (s, t) in enumerate(zip(sc, tf)):
        checks += 1
        if set(s.dims) != set(t.dims):
            F.append(Finding("oracle", "transform_training_eq_scores", cc + "|dims", f"field {i}: scores dims {s.dims} vs transform dims {t.dims}"))
            continue
        t = t.transpose(*s.dims)
        # samples that are entirely missing may be omitted or NaN: compare on the labels transform returns, require all valid score labels
        try:
            s2, t2 = xr.align(s, t, join="inner")
        except Exception as e:  # noqa: BLE001
            F.append(Finding("oracle", "transform_training_eq_scores", cc + "|labels", f"field {i}: cannot align: {str(e)[:100]}"))
            continue
        valid = s.notnull().all("mode")
        sdims = [d for d in s.dims if d != "mode"]
        if case["struct"] in ("DA", "LAG", "DS", "DSrev", "LIST"):
            # complete data: the scores and the transform answer are labelled with exactly this field's samples, all of them valid
            bad = [d for d in sdims if set(np.asarray(s[d].values).tolist()) != set(np.asarray(t[d].values).tolist())]
            if bad or int(valid.sum()) != int(np.prod([s.sizes[d] for d in sdims])):
                F.append(Finding("oracle", "transform_training_eq_scores", cc + "|labels", f"field {i}: scores carry labels {np.asarray(s[sdims[0]].values)[:4]}… ({int(valid.sum())} valid of {s.sizes[sdims[0]]}), transform answers {np.asarray(t[sdims[0]].values)[:4]}…"))
                continue
        n_valid = int(valid.sum())
        tv = t.notnull().all("mode")
        if int(tv.sum()) < n_valid or s2.size == 0:
            F.append(Finding("oracle", "transform_training_eq_scores", cc + "|labels", f"field {i}: transform returned {int(tv.sum())} valid samples, scores have {n_valid}"))
            continue
        a = np.asarray(s2.values)
        b = np.asarray(t2.values)
        mask = ~(np.isnan(a) | np.isnan(b))
        if (np.isnan(a) != np.isnan(b)).any() and not case["struct"] == "NaN":
            F.append(Finding("oracle", "transform_training_eq_scores", cc + "|nan", f"field {i}: NaN pattern differs"))
            continue
        if not mask.any():
            continue
        den = max(float(np.abs(a[mask]).max()), 1e-300)
        err = float(np.abs(a[mask] - b[mask]).max() / den)
        tol = 1e-7 if zoo.base_of(cls) not in ("SparsePCA",) else 1e-6
        if err > tol:
            F.append(Finding("oracle", "transform_training_eq_scores", cc, f"field {i}: transform(X_fit) differs from scores() by rel {err:.2e} (normalized={case['normalized']}, cfg={cfg}, rot={rot_cfg})"))
    # the same holds for an object that is fitted AGAIN (on other numbers) after it has been used for a transform: nothing computed
    # for the first fit may survive into the second one (model objects and rotator objects alike)
    if case["mseed"] % 2 == 0 and not F:
        try:
            dataB, dimB = build(dict(case, mseed=case["mseed"] + 17))
            k_ = zoo.kind(cls)
            if k_ in ("rot_single", "rot_cross"):
                baseB = zoo.construct(zoo.base_of(cls) if False else {"EOFRotator": "EOF", "ComplexEOFRotator": "ComplexEOF", "HilbertEOFRotator": "HilbertEOF"}.get(cls, zoo.CROSS_ROT.get(cls, cls)), cfg)
                if k_ == "rot_single":
                    baseB.fit(dataB, dimB)
                else:
                    baseB.fit(dataB[0], dataB[1], dimB)
                m.fit(baseB)
            else:
                zoo.fit(cls, dataB, dimB, cfg, model=m)
            scB = zoo.scores(cls, m, **kw)
            tfB = zoo.transform(cls, m, dataB, **kw)
            for i, (s_, t_) in enumerate(zip(scB, tfB)):
                checks += 1
                s2, t2 = xr.align(s_, t_.transpose(*s_.dims), join="inner")
                a, b = np.asarray(s2.values), np.asarray(t2.values)
                mask = ~(np.isnan(a) | np.isnan(b))
                if mask.any():
                    err = float(np.abs(a[mask] - b[mask]).max() / max(float(np.abs(a[mask]).max()), 1e-300))
                    if err > (1e-7 if zoo.base_of(cls) not in ("SparsePCA",) else 1e-6):
                        F.append(Finding("oracle", "transform_training_eq_scores", cc + "|refit", f"field {i}: after fit(A), transform, fit(B) on the same object: transform(B) differs from scores() by rel {err:.2e}"))
        except RuntimeError as e:
            if "did not converge" not in str(e):
                F.append(Finding("oracle", "transform_training_eq_scores", cc + "|refit|raises", f"{type(e).__name__}: {str(e)[:160]}"))
        except ValueError as e:
            if not ("rank" in str(e) or "n_modes" in str(e) or "n_components must be less" in str(e)):
                F.append(Finding("oracle", "transform_training_eq_scores", cc + "|refit|raises", f"{type(e).__name__}: {str(e)[:160]}"))
        except Exception as e:  # noqa: BLE001
            F.append(Finding("oracle", "transform_training_eq_scores", cc + "|refit|raises", f"{type(e).__name__}: {str(e)[:160]}"))
    return {"findings": F, "info": {"oracle_checks": {"fields": checks}, "dist": {"cls": cls, "struct": case["struct"], "normalized": case["normalized"]}}}
