"""C20 — bootstrap members are sign-aligned, reproducible EOF analyses of resamples."""
from __future__ import annotations

from harness.common import *  # noqa: F401,F403
from harness.common import Finding, np, xr, xe, relerr
from harness.props.c07 import field

RULE = ("fitted EOF models (structure DataArray / Dataset / list / 2 sample dims, preprocessing flags incl. standardise+coslat+weights, custom "
        "sample_name/feature_name) x n_bootstraps 1..50 x integer seeds incl. 0; each member is compared with an independent centred SVD of the "
        "resample that numpy's default_rng(seed).choice draws from the model's own preprocessed samples; distinct by (structure, flags, "
        "names, n_bootstraps, seed class)")


def cases(seed, tier, broken=()):
    rng = np.random.default_rng(seed)
    n = {"quick": 36, "thorough": 600, "search": 200}[tier]
    out = []
    for i in range(n):
        out.append({"mseed": int(rng.integers(0, 2**31)), "struct": ["DA", "DS", "LIST", "2s", "DA", "NaN"][i % 6], "k": int(rng.integers(1, 4)),
                    "standardize": bool(i % 2), "use_coslat": bool((i // 2) % 2), "weights": bool((i // 4) % 2), "names": bool(i % 3 == 0),
                    "nb": int(rng.choice([1, 2, 3, 5, 10, 50])) if tier != "quick" else int(rng.choice([1, 2, 3, 5])),
                    "bseed": [0, 1, 7, 42, int(rng.integers(0, 2**31))][i % 5]})
    # short records with many modes: a resample of n samples holds about 0.63 n DISTINCT ones, fewer than the modes asked for; every member
    # still has the model's number of modes (the trailing ones with zero variance) and no NaN
    for i in range({"quick": 6, "thorough": 40, "search": 20}[tier]):
        nn, kk = [(8, 7), (10, 6), (9, 8), (12, 9)][i % 4]
        out.append({"mseed": int(rng.integers(0, 2**31)), "struct": "DA", "k": kk, "n": nn, "standardize": False, "use_coslat": False, "weights": False,
                    "names": False, "nb": 6, "bseed": [0, 1, 7][i % 3]})
    # "whatever its dimension names": a user dimension called like the member dimension of the results (`n`)
    for i in range(2):
        out.append({"mseed": int(rng.integers(0, 2**31)), "struct": "dim-n", "k": 2, "standardize": False, "use_coslat": False, "weights": False,
                    "names": False, "nb": 3, "bseed": 1, "as_sample": bool(i)})
    return out


def nontrivial_key(case, info):
    return tuple(sorted((k, str(v)) for k, v in case.items() if k != "mseed"))


def run(case):
    F = []
    rng = np.random.default_rng(case["mseed"])
    n = case.get("n", 40)
    X = field(rng, n, 3, 4, False, off=2.0)
    st = case["struct"]
    dim = "time"
    W = xr.DataArray(rng.uniform(0.3, 2.0, size=(3, 4)), dims=("lat", "lon"), coords={"lat": X.lat, "lon": X.lon}) if case["weights"] else None
    data = X
    use_coslat = case["use_coslat"]
    if st == "DS":
        data = xr.Dataset({"a": X, "b": X * 1.5 - 1.0})
        W = xr.Dataset({"a": W, "b": W * 0.5}) if W is not None else None
    elif st == "LIST":
        data = [X, (X * 0.5 + 2.0).isel(lon=slice(0, 2))]
        W = [W, W.isel(lon=slice(0, 2))] if W is not None else None
    elif st == "2s":
        dim = ("time", "lat")
        use_coslat = False
        W = None
    elif st == "NaN":
        data = X.copy()
        data.values[3] = np.nan
        data.values[:, 1, 2] = np.nan
    if st == "dim-n":
        Xn = X.rename(time="n") if case.get("as_sample") else X.rename(lat="n")
        m0 = xe.single.EOF(n_modes=2, solver="full").fit(Xn, "n" if case.get("as_sample") else "time")
        try:
            b0 = xe.validation.EOFBootstrapper(n_bootstraps=3, seed=1)
            b0.fit(m0)
            c_, s_ = b0.components(), b0.scores()
            want = (set(Xn.dims) - ({"n"} if case.get("as_sample") else {"time"})) | {"mode"}
            if not want <= set(c_.dims) or c_.sizes.get("mode") != 2:
                F.append(Finding("oracle", "member_structure", "dim-n|components", f"components dims {c_.dims} for data with dims {Xn.dims}"))
        except Exception as e:  # noqa: BLE001
            F.append(Finding("oracle", "member_structure", "dim-n|user-dimension-named-n", f"data with a {'sample' if case.get('as_sample') else 'feature'} dimension named 'n': {type(e).__name__}: {str(e)[:140]}"))
        return {"findings": F, "info": {"oracle_checks": {"n": 1}, "dist": {"struct": st, "names": False, "nb": 3, "seed0": False}}}
    kw = {"sample_name": "S", "feature_name": "F"} if case["names"] else {}
    sname = kw.get("sample_name", "sample")
    fname = kw.get("feature_name", "feature")
    k = case["k"]
    model = xe.single.EOF(n_modes=k, solver="full", standardize=case["standardize"], use_coslat=use_coslat, **kw).fit(data, dim, weights=W)
    cc = f"{st}|{'names' if case['names'] else 'default-names'}"
    nb, bseed = case["nb"], case["bseed"]
    try:
        b = xe.validation.EOFBootstrapper(n_bootstraps=nb, seed=bseed)
        b.fit(model)
    except Exception as e:  # noqa: BLE001
        F.append(Finding("oracle", "member_structure", cc + "|raises", f"bootstrapper.fit raised {type(e).__name__}: {str(e)[:140]}"))
        return {"findings": F, "info": {}}
    ev = np.asarray(b.data["explained_variance"].transpose("n", "mode").values)
    tv = np.asarray(b.data["total_variance"].values).reshape(-1)
    try:
        # the members live in the model's own (possibly renamed) sample/feature dimensions, and the public accessors bring them back
        C = np.asarray(b.data["components"].transpose("n", fname, "mode").values)
        S = np.asarray(b.data["scores"].transpose("n", sname, "mode").values)
        b.components()
        b.scores()
    except Exception as e:  # noqa: BLE001
        F.append(Finding("oracle", "member_structure", cc + "|dimension-names", f"member results are not expressed in the model's dimensions ({sname!r}, {fname!r}): {type(e).__name__}: {str(e)[:140]}"))
        return {"findings": F, "info": {}}
    D = np.asarray(model.data["input_data"].transpose(sname, fname).values)
    ns = D.shape[0]
    checks = 0
    # structure
    if ev.shape != (nb, k) or tv.shape != (nb,):
        F.append(Finding("oracle", "member_count", cc, f"explained variance has shape {ev.shape}, total variance {tv.shape}; expected {nb} members x {k} modes"))
        return {"findings": F, "info": {}}
    comps_pub = b.components()
    sc_pub = b.scores()
    c0 = comps_pub[0] if isinstance(comps_pub, list) else comps_pub
    c0 = c0[list(c0.data_vars)[0]] if isinstance(c0, xr.Dataset) else c0
    want_f = {"lat", "lon"} - (set(dim) if isinstance(dim, tuple) else {dim})
    if set(c0.dims) != want_f | {"n", "mode"}:
        F.append(Finding("oracle", "member_structure", cc + "|components", f"components dims {c0.dims}"))
    want_s = set(dim) if isinstance(dim, tuple) else {dim}
    if set(sc_pub.dims) != want_s | {"n", "mode"}:
        F.append(Finding("oracle", "member_structure", cc + "|scores", f"scores dims {sc_pub.dims}"))
    # members against the independently drawn resamples
    g = np.random.default_rng(bseed)
    Ms = np.asarray(model.data["scores"].transpose(sname, "mode").values)
    for i in range(nb):
        idx = g.choice(ns, ns, replace=True)
        R = D[idx]
        Rc = R - R.mean(axis=0)
        sv = np.linalg.svd(Rc, compute_uv=False)
        lam = sv**2 / (ns - 1)
        gap = k >= len(sv) or sv[k] < 0.9 * sv[k - 1]
        checks += 1
        e = relerr(ev[i], lam[:k])
        if e > 1e-6 and gap:
            F.append(Finding("oracle", "member_is_eof_of_resample", cc + ("|seed0" if bseed == 0 else ""), f"member {i+1}: explained variance {ev[i]} vs EOF of the seeded resample {lam[:k]} (seed={bseed})"))
            break
        tot = float(np.var(R, axis=0, ddof=1).sum())
        if abs(tv[i] - tot) > 1e-8 * tot:
            F.append(Finding("oracle", "member_is_eof_of_resample", cc + "|total_variance", f"member {i+1}: total variance {tv[i]:.8g} vs that of the resample {tot:.8g}"))
            break
        Ci = C[i]
        if np.abs(Ci.conj().T @ Ci - np.eye(k)).max() > 1e-8:
            F.append(Finding("oracle", "member_orthonormal", cc, f"member {i+1}: components not orthonormal"))
            break
        if np.any(ev[i] < 0) or np.any(np.diff(ev[i]) > 1e-10 * ev[i].max()) or ev[i].sum() > tv[i] * (1 + 1e-9):
            F.append(Finding("oracle", "member_variances", cc, f"member {i+1}: variances {ev[i]} not non-negative/descending/below the total {tv[i]}"))
            break
        # (a resample with fewer distinct samples than modes has zero trailing variances: their directions are arbitrary, the claim is
        # about the directions that carry variance)
        r_eff = int(min(k, np.count_nonzero(sv > 1e-9 * sv[0])))
        if r_eff < k and r_eff >= 1:
            Vt = np.linalg.svd(Rc, full_matrices=False)[2][:r_eff].T
            Cr = Ci[:, :r_eff]
            if np.abs(Cr @ Cr.conj().T - Vt @ Vt.T).max() > 1e-5:
                F.append(Finding("oracle", "member_is_eof_of_resample", cc + "|components|rank-deficient-resample", f"member {i+1}: the {r_eff} components carrying variance do not span the row space of the resample"))
                break
        elif gap:
            # components span the leading subspace of the resample covariance
            Vt = np.linalg.svd(Rc, full_matrices=False)[2][:k].T
            if np.abs(Ci @ Ci.T - Vt @ Vt.T).max() > 1e-5:
                F.append(Finding("oracle", "member_is_eof_of_resample", cc + "|components", f"member {i+1}: components do not span the leading subspace of the resample"))
                break
        # scores are the projection of the ORIGINAL samples (centred with the resample mean)
        proj = (D - R.mean(axis=0)) @ Ci
        if relerr(S[i], proj) > 1e-7:
            F.append(Finding("oracle", "member_scores_are_projection", cc, f"member {i+1}: scores differ from the projection of the original samples by rel {relerr(S[i], proj):.2e}"))
            break
        # orientation: non-negative correlation with the model's mode
        for j in range(k):
            a, m_ = S[i][:, j], Ms[:, j]
            c = np.mean((a - 0) * (m_ - 0)) / (a.std() * m_.std())
            if c < -1e-9:
                F.append(Finding("oracle", "sign_aligned", cc, f"member {i+1} mode {j+1} correlates negatively ({c:.3f}) with the model's mode"))
                break
    # reproducibility: same seed, same members
    b2 = xe.validation.EOFBootstrapper(n_bootstraps=nb, seed=bseed)
    b2.fit(model)
    ev2 = np.asarray(b2.data["explained_variance"].transpose("n", "mode").values)
    checks += 1
    if relerr(ev, ev2) > 1e-7:
        F.append(Finding("oracle", "seed_reproducible", cc + ("|seed0" if bseed == 0 else ""), f"two bootstrappers with seed={bseed} disagree (rel {relerr(ev, ev2):.2e})"))
    # … also when the SAME bootstrapper object is fitted again: the seed determines the resamples, not the object's history
    try:
        b.fit(model)
        ev3 = np.asarray(b.data["explained_variance"].transpose("n", "mode").values)
        checks += 1
        if relerr(ev, ev3) > 1e-7:
            F.append(Finding("oracle", "seed_reproducible", cc + "|refit" + ("|seed0" if bseed == 0 else ""), f"fitting the same bootstrapper (seed={bseed}) a second time gives other members (rel {relerr(ev, ev3):.2e})"))
    except Exception as e:  # noqa: BLE001
        F.append(Finding("oracle", "seed_reproducible", cc + "|refit|raises", f"{type(e).__name__}: {str(e)[:140]}"))
    return {"findings": F, "info": {"oracle_checks": {"n": checks}, "dist": {"struct": st, "names": case["names"], "nb": nb, "seed0": bseed == 0}}}
