"""C07 — results do not depend on how the same data is laid out or named."""
from __future__ import annotations

from harness.common import *  # noqa: F401,F403
from harness.common import Finding, np, xr, xe, relerr, labelmap
from harness import zoo

RULE = ("pairs of fits on re-laid-out copies of one data set, for every model class: transposed dims, permuted feature order, features split "
        "over Dataset variables / list items (incl. items with different dim order), custom sample_name/feature_name, permuted samples "
        "(order-dependent methods exempt from the sample permutation); results compared label-wise up to the per-mode gauge the class "
        "leaves free (sign for real, phase for complex/POP); distinct by (class, relation, config)")
RELATIONS = ["transpose", "feature_perm", "split_ds", "split_list", "split_list_revorder", "names", "sample_perm", "two_sdims_transpose", "two_sdims_list", "list_sample_order"]
ORDER_DEP = {"ExtendedEOF", "OPA", "POP", "HilbertEOF", "HilbertEOFRotator", "HilbertMCA", "HilbertCPCCA", "HilbertCCA", "HilbertRDA", "HilbertMCARotator", "HilbertCPCCARotator"}
CLASSES = [c for c in zoo.ALL]


def cases(seed, tier, broken=()):
    rng = np.random.default_rng(seed)
    out = []
    reps = {"quick": 1, "thorough": 12, "search": 4}[tier]
    for r in range(reps):
        for i, cls in enumerate(CLASSES):
            rels = RELATIONS if tier != "quick" else [RELATIONS[(i + j) % len(RELATIONS)] for j in range(3)] + ["names"]
            for rel in dict.fromkeys(rels):
                out.append({"cls": cls, "rel": rel, "mseed": int(rng.integers(0, 2**31)), "k": int(rng.integers(2, 4)),
                            "standardize": bool(rng.random() < 0.3), "use_coslat": bool(rng.random() < 0.3),
                            "sname": str(rng.choice(["S", "sample_dim", "time2"])), "fname": str(rng.choice(["F", "feat", "space"])),
                            "use_pca": bool(rng.random() < 0.5)})
                # user weights are labelled data too: the same labelled weights with the features of the data stored in another order
                if rel in ("feature_perm", "transpose", "sample_perm") and cls not in ("multi.CCA",) and (i + r) % 2 == 0:
                    out[-1]["weights"] = True
    # orientation of intermediate bases (PCA pre-reduction) must not leak into the signs: cross-set models with all PCs kept
    for r in range({"quick": 2, "thorough": 12, "search": 6}[tier]):
        for cls in ("MCA", "CCA", "RDA"):
            for rel in ("feature_perm", "sample_perm"):
                out.append({"cls": cls, "rel": rel, "mseed": int(rng.integers(0, 2**31)), "k": 3, "standardize": False, "use_coslat": False,
                            "sname": "S", "fname": "F", "use_pca": True})
    # latitude weighting and list items that are latitude BANDS of a fine tropical grid (an item may then hold latitudes of a few degrees only)
    for r in range({"quick": 1, "thorough": 6, "search": 3}[tier]):
        for cls in ("EOF", "ComplexEOF", "EOFRotator", "SparsePCA", "HilbertEOF"):
            out.append({"cls": cls, "rel": "split_list_lat", "mseed": int(rng.integers(0, 2**31)), "k": 2, "standardize": bool(r % 2), "use_coslat": True,
                        "sname": "S", "fname": "F", "use_pca": False})
    # the bootstrapper is built on top of EOF
    for r in range(reps):
        out.append({"cls": "EOFBootstrapper", "rel": "names", "mseed": int(rng.integers(0, 2**31)), "k": 2, "standardize": False, "use_coslat": False,
                    "sname": "S", "fname": "F"})
    return out


def nontrivial_key(case, info):
    return (case["cls"], case["rel"], case["k"], case["standardize"], case["use_coslat"], case["sname"], case["fname"], case.get("use_pca"), case.get("weights"))


def field(rng, n, ny, nx, cplx, off=0.0):
    t = np.arange(n)[:, None, None]
    v = rng.normal(size=(n, ny, nx)) * 0.5
    for j in range(3):
        v = v + (3.0 - j) * np.sin(t * (0.3 + 0.17 * j) + j) * rng.normal(size=(1, ny, nx))
    if cplx:
        v = v + 1j * (rng.normal(size=(n, ny, nx)) * 0.5 + np.cos(t * 0.21) * rng.normal(size=(1, ny, nx)))
    return xr.DataArray(v + off, dims=("time", "lat", "lon"),
                        coords={"time": np.arange(n), "lat": np.linspace(-50, 40, ny), "lon": np.arange(nx) * 15.0}, name="u")


def relayout(A, rel, rng, second=False):
    if rel == "transpose":
        return A.transpose("lon", "time", "lat")
    if rel == "feature_perm":
        return A.isel(lon=rng.permutation(A.sizes["lon"]), lat=rng.permutation(A.sizes["lat"]))
    if rel == "split_ds":
        h = A.sizes["lon"] // 2
        return ("DS", A, h)
    if rel in ("split_list", "split_list_revorder"):
        h = A.sizes["lon"] // 2
        a, b = A.isel(lon=slice(0, h)), A.isel(lon=slice(h, None))
        if rel == "split_list_revorder":
            b = b.transpose("lon", "lat", "time")
        return [a, b]
    if rel == "split_list_lat":
        return [A.isel(lat=[0]), A.isel(lat=slice(1, None))]
    if rel == "sample_perm":
        return A.isel(time=rng.permutation(A.sizes["time"]))
    if rel == "two_sdims_transpose":
        return A.transpose("lat", "lon", "time")
    if rel == "two_sdims_list":
        h = A.sizes["lon"] // 2
        return [A.isel(lon=slice(0, h)), A.isel(lon=slice(h, None)).transpose("lat", "lon", "time")]
    if rel == "list_sample_order":
        h = A.sizes["lon"] // 2
        return [A.isel(lon=slice(0, h)), A.isel(lon=slice(h, None)).isel(time=rng.permutation(A.sizes["time"]))]
    return A


def cfg_for(case, names=False):
    cls = case["cls"]
    b = zoo.base_of(cls) if cls != "EOFBootstrapper" else "EOF"
    k = case["k"]
    cfg = zoo.default_cfg(cls if cls != "EOFBootstrapper" else "EOF", n_modes=k)
    if b != "multi.CCA":
        cfg["solver"] = "full"
        cfg["standardize"] = case["standardize"]
        cfg["use_coslat"] = case["use_coslat"]
    if b == "OPA":
        cfg.update(n_pca_modes=4, tau_max=3)
    if b == "POP":
        cfg.update(n_pca_modes=4)
    if b == "SparsePCA":
        cfg["alpha"] = 1e-3
    if b in zoo.CROSS and case.get("use_pca"):
        # the PCA pre-reduction keeping every mode is a change of basis: nothing may depend on the layout through it either
        cfg.update(use_pca=True, n_pca_modes="all")
    if names:
        cfg["sample_name"] = case["sname"]
        if b in zoo.CROSS:
            cfg["feature_name"] = [case["fname"] + "1", case["fname"] + "2"]
        else:
            cfg["feature_name"] = case["fname"]
    return cfg


def gauge_align(a, b, complex_gauge):
    """align b to a per mode (columns = modes): sign for real, unit phase for complex; returns aligned b"""
    out = b.copy()
    for j in range(a.shape[1]):
        ip = np.vdot(b[:, j][~np.isnan(b[:, j])], a[:, j][~np.isnan(a[:, j])]) if a[:, j].shape == b[:, j].shape else 0
        if complex_gauge:
            ph = ip / abs(ip) if abs(ip) > 0 else 1.0
        else:
            ph = np.sign(ip.real) if ip.real != 0 else 1.0
        out[:, j] = b[:, j] * ph
    return out


def to_label_matrix(objs, mode_dim="mode"):
    """list of DataArrays/Datasets/lists with a mode dim -> ({label-key: row}, modes) flattened over everything but mode"""
    rows = {}

    def add(da, tag):
        other = [d for d in da.dims if d != mode_dim]
        da = da.transpose(*other, mode_dim)
        lm = labelmap(da.isel({mode_dim: 0}, drop=True)) if other else {frozenset(): None}
        vals = np.asarray(da.values).reshape(-1, da.sizes[mode_dim])
        for idx, key in enumerate(lm.keys()):
            rows[(tag, key)] = vals[idx]

    def walk(o, tag):
        if isinstance(o, list):
            for i, x in enumerate(o):
                walk(x, tag)  # list position is layout, not identity: merge by labels
        elif isinstance(o, xr.Dataset):
            for v in o.data_vars:
                walk(o[v], tag)
        else:
            add(o, tag)

    for i, o in enumerate(objs):
        walk(o, i)
    return rows


def compare_rows(ra, rb, what, gauge_complex, F, cc, tol=1e-6, free_gauge=True):
    if set(ra) != set(rb):
        F.append(Finding("oracle", "relayout_invariant", cc + "|labels", f"{what}: label sets differ ({len(set(ra) ^ set(rb))} of {len(ra)})"))
        return None
    keys = sorted(ra, key=lambda k: (k[0], sorted(k[1])))
    A = np.array([ra[k] for k in keys])
    B = np.array([rb[k] for k in keys])
    if free_gauge:
        B = gauge_align(A, B, gauge_complex)
    e = relerr(A, B)
    if e > tol:
        F.append(Finding("oracle", "relayout_invariant", cc, f"{what} differ label-wise by rel {e:.2e}"))
    return e


def run(case):
    F = []
    cls = case["cls"]
    rel = case["rel"]
    rng = np.random.default_rng(case["mseed"])
    boot = cls == "EOFBootstrapper"
    zc = "EOF" if boot else cls
    if rel == "names" and zc == "multi.CCA":
        return {"findings": [], "info": {"dist": {"cls": cls, "rel": rel, "outcome": "no such option"}}}
    if rel == "sample_perm" and zoo.base_of(zc) in ORDER_DEP or (rel == "sample_perm" and zc in ORDER_DEP):
        return {"findings": [], "info": {"dist": {"cls": cls, "rel": rel, "outcome": "exempt"}}}
    cplx = zoo.needs_complex_input(zc)
    n, ny, nx = (80 if zoo.takes_two(zc) else 30), 3, 4
    X = field(rng, n, ny, nx, cplx, off=2.0)
    Y = field(rng, n, ny, 3, cplx, off=-1.0) + 0.5 * X.isel(lon=slice(0, 3)).values
    two = zoo.takes_two(zc)
    if rel == "split_list_lat":
        X = X.assign_coords(lat=[-2.5, 0.5, 1.25])
        Y = Y.assign_coords(lat=[-2.5, 0.5, 1.25])
    cc = f"{cls}|{rel}"
    cfgA = cfg_for(case, names=False)
    cfgB = cfg_for(case, names=(rel == "names"))
    prng = np.random.default_rng(case["mseed"] + 9)

    def lay(A):
        r = relayout(A, rel, np.random.default_rng(case["mseed"] + 9))
        if isinstance(r, tuple):
            _, A0, h = r
            return xr.Dataset({"p": A0.isel(lon=slice(0, h)), "q": A0.isel(lon=slice(h, None)).rename({"lon": "lon_q"})}) if False else \
                xr.Dataset({"p": A0.isel(lon=slice(0, h)), "q": A0.isel(lon=slice(h, None)).rename(lon="lonq")})
        return r

    if rel == "split_ds":
        # a Dataset whose variables have DIFFERENT dims is KF-C02-1; split over variables with the same dims instead:
        def lay(A):  # noqa: F811
            h = A.sizes["lat"]
            return xr.Dataset({"p": A.isel(lon=slice(0, 2)).assign_coords(lon=[0.0, 1.0]), "q": A.isel(lon=slice(2, 4)).assign_coords(lon=[0.0, 1.0])}) if A.sizes["lon"] == 4 else A

    dataA = (X, Y) if two else X
    if two:
        dataB = (lay(X), Y if rel in ("split_ds",) else lay(Y)) if zc != "multi.CCA" or rel not in ("split_list", "split_list_revorder", "split_ds", "two_sdims_list", "list_sample_order") else (X, Y)
        if zc == "multi.CCA" and rel in ("split_list", "split_list_revorder", "split_ds", "two_sdims_list", "list_sample_order"):
            return {"findings": [], "info": {"dist": {"cls": cls, "rel": rel, "outcome": "n/a"}}}
    else:
        dataB = lay(X)
    rot = {"n_modes": case["k"], "power": 1} if "Rotator" in zc else None
    dimA = dimB = "time"
    if rel in ("two_sdims_transpose", "two_sdims_list"):
        dimA = dimB = ("time", "lat")
        for c_ in (cfgA, cfgB):
            if "use_coslat" in c_:
                c_["use_coslat"] = False
    wkw = {}
    if case.get("weights"):
        wr = np.random.default_rng(case["mseed"] + 77)
        WX = xr.DataArray(wr.uniform(0.3, 2.5, size=(ny, nx)), dims=("lat", "lon"), coords={"lat": X.lat, "lon": X.lon})
        WY = xr.DataArray(wr.uniform(0.3, 2.5, size=(ny, 3)), dims=("lat", "lon"), coords={"lat": Y.lat, "lon": Y.lon})
        wkw = {"weights": (WX, WY) if two else WX}
        cc += "|weights"
    try:
        mA, bA = zoo.fit(zc, dataA, dimA, cfgA, rot_cfg=rot, **wkw)
    except Exception as e:  # noqa: BLE001
        if "did not converge" in str(e):
            return {"findings": [], "info": {}}
        raise
    try:
        mB, bB = zoo.fit(zc, dataB, dimB, cfgB, rot_cfg=rot, **wkw)
    except Exception as e:  # noqa: BLE001
        if "did not converge" in str(e):
            return {"findings": [], "info": {}}
        F.append(Finding("oracle", "relayout_invariant", cc + "|raises", f"fit on the re-laid-out copy raised {type(e).__name__}: {str(e)[:150]}"))
        return {"findings": F, "info": {"dist": {"cls": cls, "rel": rel}}}
    if boot:
        try:
            qa = xe.validation.EOFBootstrapper(n_bootstraps=3, seed=5)
            qa.fit(mA)
            qb = xe.validation.EOFBootstrapper(n_bootstraps=3, seed=5)
            qb.fit(mB)
            e = relerr(np.asarray(qa.explained_variance().values), np.asarray(qb.explained_variance().values))
            if e > 1e-6:
                F.append(Finding("oracle", "names_irrelevant", cc, f"bootstrapped explained variance differs by rel {e:.2e}"))
            if set(qb.scores().dims) != {"n", "mode", "time"}:
                F.append(Finding("oracle", "names_irrelevant", cc + "|dims", f"bootstrapped scores dims {qb.scores().dims}"))
        except Exception as e:  # noqa: BLE001
            F.append(Finding("oracle", "names_irrelevant", cc + "|raises", f"bootstrapper raised {type(e).__name__}: {str(e)[:140]}"))
        return {"findings": F, "info": {"oracle_checks": {"n": 2}, "dist": {"cls": cls, "rel": rel}}}
    checks = 0
    b = zoo.base_of(zc)
    gauge_complex = cplx or b in ("POP",) or "Hilbert" in zc
    strict_sign = (not gauge_complex) and zc in ("EOF", "MCA", "CCA", "RDA", "CPCCA", "EOFRotator", "MCARotator", "CPCCARotator")
    # spectra
    def spec(m):
        if zoo.is_cross(zc):
            return np.asarray(m.data["squared_covariance"].values)
        if b == "POP":
            return np.sort(np.abs(np.asarray(m.eigenvalues().values)))[::-1]
        if b == "OPA":
            return np.asarray(m.decorrelation_time().values)
        if b == "multi.CCA":
            return np.zeros(1)
        return np.asarray(m.explained_variance().values)

    e = relerr(spec(mA), spec(mB))
    checks += 1
    tol = 1e-6 if b != "SparsePCA" else 1e-4
    if e > tol:
        F.append(Finding("oracle", "relayout_invariant", cc + "|spectrum", f"spectrum differs by rel {e:.2e}: {spec(mA)[:3]} vs {spec(mB)[:3]}"))
        return {"findings": F, "info": {"dist": {"cls": cls, "rel": rel}}}
    if b == "multi.CCA":
        return {"findings": F, "info": {"oracle_checks": {"n": checks}, "dist": {"cls": cls, "rel": rel}}}
    # scores: label-wise (time labels), permuted identically under sample permutation
    sA, sB = zoo.scores(zc, mA), zoo.scores(zc, mB)
    # modes may be gauge-rotated per mode; pairs of conjugate POP modes may swap: compare per-mode up to phase, allow conj-pair swap by sorting magnitudes
    for i, (a, b_) in enumerate(zip(sA, sB)):
        ra = to_label_matrix([a])
        rb = to_label_matrix([b_])
        checks += 1
        if b == "POP":
            A_ = np.sort(np.abs(np.array([ra[k] for k in sorted(ra, key=lambda k: sorted(k[1]))])), axis=1)
            B_ = np.sort(np.abs(np.array([rb[k] for k in sorted(rb, key=lambda k: sorted(k[1]))])), axis=1)
            if set(ra) != set(rb) or relerr(A_, B_) > 1e-6:
                F.append(Finding("oracle", "relayout_invariant", cc + "|scores", f"POP score amplitudes differ (rel {relerr(A_, B_):.2e})"))
            continue
        e_g = compare_rows(ra, rb, f"scores[{i}]", gauge_complex, F, cc + "|scores", tol=max(tol, 1e-6))
        # real models with an exact solver also fix the SIGN of every mode from the numbers alone (largest-magnitude loading positive),
        # so not even a per-mode sign may depend on the layout
        if e_g is not None and e_g <= max(tol, 1e-6) and strict_sign:
            checks += 1
            compare_rows(ra, rb, f"scores[{i}] (signs)", gauge_complex, F, cc + "|scores|sign", tol=max(tol, 1e-6), free_gauge=False)
    # components: label-wise over (lat, lon) labels, merging variables/list items
    if rel not in ("split_ds",) and b != "POP":
        cA, cB = zoo.components(zc, mA), zoo.components(zc, mB)
        for i, (a, b_) in enumerate(zip(cA, cB)):
            def norm(o):
                # the split Dataset renamed/re-labelled lon: undo by comparing on (lat, position) only when no relabel happened
                return o
            ra = to_label_matrix([a])
            rb = to_label_matrix([b_])
            checks += 1
            e_g = compare_rows(ra, rb, f"components[{i}]", gauge_complex, F, cc + "|components", tol=max(tol, 1e-6))
            if e_g is not None and e_g <= max(tol, 1e-6) and strict_sign:
                checks += 1
                compare_rows(ra, rb, f"components[{i}] (signs)", gauge_complex, F, cc + "|components|sign", tol=max(tol, 1e-6), free_gauge=False)
    return {"findings": F, "info": {"oracle_checks": {"n": checks}, "dist": {"cls": cls, "rel": rel}}}
