"""C18 — POP modes are eigen-pairs of the lag-1 feedback matrix."""
from __future__ import annotations

from harness.common import *  # noqa: F401,F403
from harness.common import Finding, np, xr, xe, relerr

RULE = ("multivariate time series with more samples than retained PCs: random red-noise mixtures, synthetic damped oscillators with known "
        "eigenvalues (noise-free and noisy, components of very different amplitude), n_pca_modes 2..p, use_pca on/off, centre on/off with "
        "non-zero time mean, standardise/coslat flags; the feedback matrix is recomputed independently from data['input_data']; distinct "
        "by (kind, shape, n_pca_modes, flags)")


def cases(seed, tier, broken=()):
    rng = np.random.default_rng(seed)
    n = {"quick": 50, "thorough": 1000, "search": 300}[tier]
    out = []
    for i in range(n):
        kind = ["random", "oscillator", "oscillator_noisefree", "mixed_amplitude"][i % 4]
        out.append({"kind": kind, "mseed": int(rng.integers(0, 2**31)), "n": int(rng.integers(40, 200)), "p": int(rng.integers(2, 8)),
                    "use_pca": bool(rng.random() < 0.6), "npc": int(rng.integers(2, 6)), "center": bool(rng.random() < 0.6),
                    "standardize": bool(rng.random() < 0.3), "mean_offset": float(rng.choice([0.0, 3.0, -10.0])),
                    "period": float(rng.uniform(5, 20)), "r": float(rng.uniform(0.85, 0.99)), "amp_ratio": float(10.0 ** rng.uniform(-3.5, 0))})
    # a GROWING noise-free oscillation (|lambda| > 1): the damping time is the (negative) e-folding time the formula gives, not a placeholder
    for i in range({"quick": 4, "thorough": 30, "search": 12}[tier]):
        out.append({"kind": "oscillator_noisefree", "mseed": int(rng.integers(0, 2**31)), "n": int(rng.integers(40, 90)), "p": 2, "use_pca": bool(i % 2), "npc": 2,
                    "center": False, "standardize": False, "mean_offset": 0.0, "period": float(rng.uniform(6, 15)), "r": float(rng.uniform(1.005, 1.03)),
                    "amp_ratio": 1.0})
    return out


def nontrivial_key(case, info):
    return tuple(sorted((k, str(v)) for k, v in case.items() if k != "mseed"))


def make(case):
    rng = np.random.default_rng(case["mseed"])
    n, p = case["n"], case["p"]
    kind = case["kind"]
    th = 2 * np.pi / case["period"]
    r = case["r"]
    R = r * np.array([[np.cos(th), -np.sin(th)], [np.sin(th), np.cos(th)]])
    if kind == "random":
        z = np.zeros((n, p))
        phi = rng.uniform(-0.5, 0.95, size=p)
        e = rng.normal(size=(n, p))
        for t in range(1, n):
            z[t] = phi * z[t - 1] + e[t]
        D = z @ rng.normal(size=(p, p))
    elif kind in ("oscillator", "oscillator_noisefree"):
        p = max(p, 2)
        x = np.zeros((n, 2))
        x[0] = [1.0, 0.3]
        for t in range(1, n):
            x[t] = R @ x[t - 1]
        if kind == "oscillator_noisefree":
            p = 2
            D = x @ np.array([[1.0, 0.4], [-0.3, 1.2]])
        else:
            D = x @ rng.normal(size=(2, p)) + 0.05 * rng.normal(size=(n, p))
    else:  # two oscillations of very different amplitude, noise-free
        p = 4
        th2 = 2 * np.pi / (case["period"] * 0.37 + 3)
        R2 = 0.93 * np.array([[np.cos(th2), -np.sin(th2)], [np.sin(th2), np.cos(th2)]])
        x = np.zeros((n, 4))
        x[0] = [1.0, 0.3, case["amp_ratio"], -0.5 * case["amp_ratio"]]
        for t in range(1, n):
            x[t, :2] = R @ x[t - 1, :2]
            x[t, 2:] = R2 @ x[t - 1, 2:]
        D = x @ (np.eye(4) + 0.3 * rng.normal(size=(4, 4)))
    D = D + case["mean_offset"]
    X = xr.DataArray(D, dims=("time", "f"), coords={"time": np.arange(n), "f": np.arange(D.shape[1])}, name="x")
    return X, (r, case["period"])


def run(case):
    F = []
    X, (r_true, T_true) = make(case)
    n, p = X.shape
    kind = case["kind"]
    noisefree = kind in ("oscillator_noisefree", "mixed_amplitude")
    use_pca = case["use_pca"] and not noisefree
    npc = min(case["npc"], p)
    center = case["center"] if not noisefree else False
    if noisefree:
        X = X - case["mean_offset"]
    cfg = dict(n_modes=2, use_pca=use_pca, n_pca_modes=npc if use_pca else 2, center=center, standardize=case["standardize"] and not noisefree, random_state=1)
    cc = f"{kind}|{'pca' if use_pca else 'nopca'}|{'center' if center else 'nocenter'}"
    try:
        m = xe.single.POP(**cfg).fit(X, "time")
    except np.linalg.LinAlgError:
        return {"findings": [], "info": {"dist": {"kind": kind, "outcome": "singular"}}}
    D = np.asarray(m.data["input_data"].transpose("sample", "feature").values)
    k = D.shape[1]
    # independent feedback matrix in the space of the decomposed data
    D0, D1 = D[:-1], D[1:]
    C0 = D0.conj().T @ D0
    A = D1.conj().T @ D0 @ np.linalg.inv(C0)
    condC0 = np.linalg.cond(C0)
    lam = np.asarray(m.eigenvalues().values)
    P = np.asarray(m.components().transpose("f", "mode").values)
    # map PC-space -> feature space independently: D = Xp V  =>  V = pinv(Xp) D
    Xp = np.asarray(X.values, dtype=float)
    if center:
        Xp = Xp - Xp.mean(axis=0)
    if cfg["standardize"]:
        Xp = Xp / np.clip(np.std(np.asarray(X.values), axis=0), np.finfo(np.float32).eps, None)
    V = np.linalg.pinv(Xp) @ D if use_pca else np.eye(p)
    Af = V @ A @ V.conj().T
    checks = 0
    tol = max(1e-8, 1e-13 * condC0)
    res = np.abs(Af @ P - P * lam).max() / max(np.abs(Af).max() * np.abs(P).max(), 1e-300)
    checks += 1
    if res > tol * 100 and condC0 < 1e12:
        F.append(Finding("oracle", "pop_eigenpair", cc, f"|A p - lambda p| rel {res:.2e} (cond(C0)={condC0:.1e}, eigenvalues {lam[:4]})"))
    # eigenvalues are those of the independently computed A (multiset)
    lam_ref = np.linalg.eigvals(A)
    def canon(z):
        return np.array(sorted(z, key=lambda c: (round(abs(c), 9), round(abs(np.angle(c)), 9), np.sign(c.imag))))
    if len(lam) != len(lam_ref):
        F.append(Finding("oracle", "pop_eigenpair", cc + "|count", f"{len(lam)} eigenvalues returned, feedback matrix is {k}x{k}"))
    else:
        # compare as multisets: every reference eigenvalue has a partner
        used = np.zeros(len(lam), bool)
        worst = 0.0
        for z in lam_ref:
            d = np.abs(lam - z)
            d[used] = np.inf
            j = int(np.argmin(d))
            used[j] = True
            worst = max(worst, d[j])
        checks += 1
        if worst > max(1e-7, 1e-12 * condC0) and condC0 < 1e12:
            F.append(Finding("oracle", "pop_eigenpair", cc + "|eigenvalues", f"eigenvalues differ from those of the independently computed feedback matrix by {worst:.2e}: {np.sort_complex(lam)} vs {np.sort_complex(lam_ref)}"))
    # conjugate pairs
    for z in lam:
        if abs(z.imag) > 1e-10:
            checks += 1
            if np.min(np.abs(lam - np.conj(z))) > 1e-8 * max(1.0, abs(z)):
                F.append(Finding("oracle", "pop_conjugate_pairs", cc, f"complex eigenvalue {z} has no conjugate partner in {lam}"))
                break
    # damping times and periods
    tau = np.asarray(m.damping_times().values, dtype=float)
    Tper = np.asarray(m.periods().values, dtype=float)
    with np.errstate(divide="ignore", invalid="ignore"):
        tau_ref = -1 / np.log(np.abs(lam))
        T_ref = 2 * np.pi / np.angle(lam)
    checks += 2
    if relerr(tau, tau_ref) > 1e-9:
        F.append(Finding("oracle", "tau_T_formulas", cc + "|tau", f"damping times {tau[:4]} vs -1/log|lambda| {tau_ref[:4]}"))
    cplx_mask = np.abs(lam.imag) > 1e-10
    if cplx_mask.any() and relerr(Tper[cplx_mask], T_ref[cplx_mask]) > 1e-9:
        F.append(Finding("oracle", "tau_T_formulas", cc + "|T", f"periods {Tper[cplx_mask][:4]} vs 2 pi/arg(lambda) {T_ref[cplx_mask][:4]}"))
    posreal = (~cplx_mask) & (lam.real > 0)
    if posreal.any() and not np.all(np.isinf(Tper[posreal])):
        F.append(Finding("oracle", "tau_T_formulas", cc + "|T-real", f"positive real eigenvalues must have infinite period, got {Tper[posreal]}"))
    # ordering: descending standard deviation of the coefficient series
    Z = np.asarray(m.scores().transpose("time", "mode").values)
    sd = np.std(Z, axis=0)
    checks += 1
    if np.any(np.diff(sd) > 1e-9 * max(sd.max(), 1e-300)):
        F.append(Finding("oracle", "pop_sorted_by_std", cc, f"standard deviations of the coefficient series are not descending: {sd}"))
    # coefficients of the training data are what transform computes
    tz = np.asarray(m.transform(X).transpose("time", "mode").values)
    checks += 1
    if relerr(tz, Z) > 1e-8:
        F.append(Finding("oracle", "pop_scores_are_transform", cc, f"transform(X_fit) differs from scores() by rel {relerr(tz, Z):.2e}"))
    # noise-free oscillation: the true period and damping time are recovered
    if noisefree:
        lam_true = r_true * np.exp(1j * 2 * np.pi / T_true)
        j = int(np.argmin(np.minimum(np.abs(lam - lam_true), np.abs(lam - np.conj(lam_true)))))
        T_est, tau_est = abs(Tper[j]), tau[j]
        checks += 1
        # recovering a weak, decaying oscillation next to a strong one (and, without centring, next to the constant offset) is as
        # well conditioned as the lag-0 Gram matrix the feedback matrix is solved with
        X2 = np.asarray(m.data["input_data"].values, dtype=float)
        condG = float(np.linalg.cond(X2[:-1].T @ X2[:-1]))
        tolT = max(1e-6, 1e-12 * condG)
        if abs(T_est - T_true) > tolT * T_true or abs(tau_est - (-1 / np.log(r_true))) > 10 * tolT * abs(1 / np.log(r_true)):
            F.append(Finding("oracle", "noise_free_recovery", cc, f"recovered period {T_est:.8g} / damping {tau_est:.8g}, true {T_true:.8g} / {-1/np.log(r_true):.8g} (amplitude ratio {case['amp_ratio']:.1e})"))
    return {"findings": F, "info": {"oracle_checks": {"n": checks}, "dist": {"kind": kind, "pca": use_pca, "center": center, "k": k}}}
