"""C08 — centring, standardisation, weights, coslat and global scale mean exactly what the options say."""
from __future__ import annotations

from harness.common import *  # noqa: F401,F403
from harness.common import Finding, np, xr, xe, relerr
from harness import zoo
from harness.props.c07 import to_label_matrix, gauge_align, field

RULE = ("pairs of fits on transformed copies of one data set: per-feature shift (centre on), per-feature positive affine rescaling over 1e-6.."
        "1e6 with std above the 1.2e-7 floor (standardise on), weights vs pre-multiplied data, use_coslat vs weights sqrt(cos(lat)) under "
        "every accepted latitude name, global factor c != 0 (incl. negative); single-set and cross-set classes, per-field option "
        "sequences for cross-set models, DataArray/Dataset/list containers; distinct by (relation, class, config)")
SINGLE = ["EOF", "ComplexEOF", "HilbertEOF", "ExtendedEOF", "SparsePCA", "EOFRotator"]
CROSS = ["MCA", "CCA", "CPCCA", "RDA", "ComplexMCA", "HilbertMCA", "MCARotator"]
RELS = ["shift", "affine", "weights", "coslat", "global"]
LATNAMES = None


def latnames():
    from xeofs.utils.constants import VALID_LATITUDE_NAMES

    return list(VALID_LATITUDE_NAMES)


def cases(seed, tier, broken=()):
    rng = np.random.default_rng(seed)
    reps = {"quick": 1, "thorough": 25, "search": 8}[tier]
    out = []
    names = latnames()
    for r in range(reps):
        for i, cls in enumerate(SINGLE + CROSS):
            for rel in RELS:
                out.append({"cls": cls, "rel": rel, "mseed": int(rng.integers(0, 2**31)), "k": int(rng.integers(2, 4)),
                            "struct": str(rng.choice(["DA", "DA", "DS", "LIST"])), "per_field": bool(rng.random() < 0.5),
                            "log_scale": float(rng.uniform(-6, 6)), "c": float(rng.choice([-3.7, 0.5, 1e-4, 2.5e5, -1e-3])),
                            "latname": names[int(rng.integers(0, len(names)))], "extra_flags": bool(rng.random() < 0.5),
                            "wide_std": bool(rng.random() < 0.5), "one_sided": bool((i + r) % 2)})
    return out


def nontrivial_key(case, info):
    return tuple(sorted((k, str(v)) for k, v in case.items() if k != "mseed"))


def structure(A, st, latname, B=None):
    """B: an independent second field (exactly collinear variables would make every whitened cross-set model ill-conditioned)"""
    A = A.rename(lat=latname)
    B = A * 0.7 + 1.0 if B is None else B.rename(lat=latname)
    if st == "DS":
        return xr.Dataset({"a": A, "b": B})
    if st == "LIST":
        return [A, B.isel(lon=slice(0, 2))]
    return A


def map_struct(f, *objs):
    o = objs[0]
    if isinstance(o, list):
        return [map_struct(f, *[x[i] for x in objs]) for i in range(len(o))]
    if isinstance(o, xr.Dataset):
        return xr.Dataset({v: f(*[x[v] for x in objs]) for v in o.data_vars})
    return f(*objs)


def spectrum_of(cls, m):
    b = zoo.base_of(cls)
    if zoo.is_cross(cls):
        return np.asarray(m.data["squared_covariance"].values) ** 0.5
    return np.asarray(m.data["norms"].values) if "norms" in m.data else np.asarray(m.explained_variance().values)


def fractions_of(cls, m):
    if zoo.is_cross(cls):
        return np.asarray(m.squared_covariance_fraction().values)
    if hasattr(m, "explained_variance_ratio"):
        return np.asarray(m.explained_variance_ratio().values)
    return None


def compare_models(cls, mA, mB, F, cc, score_factor=1.0, spec_factor=1.0, comp_same=True, tol=1e-6, check_frac=True, score_factors=None):
    cplx = zoo.needs_complex_input(cls) or "Hilbert" in cls
    sA, sB = spectrum_of(cls, mA), spectrum_of(cls, mB)
    e = relerr(sA * spec_factor, sB)
    if e > tol:
        F.append(Finding("oracle", cc[0], cc[1] + "|spectrum", f"singular values: expected factor {spec_factor:g}, rel error {e:.2e} ({sA[:3]} vs {sB[:3]})"))
        return
    if check_frac:
        fa, fb = fractions_of(cls, mA), fractions_of(cls, mB)
        if fa is not None and relerr(fa, fb) > tol:
            F.append(Finding("oracle", cc[0], cc[1] + "|fractions", f"variance/covariance fractions changed by rel {relerr(fa, fb):.2e}"))
    for i, (a, b) in enumerate(zip(zoo.scores(cls, mA), zoo.scores(cls, mB))):
        ra, rb = to_label_matrix([a]), to_label_matrix([b])
        keys = sorted(ra, key=lambda k: sorted(k[1]))
        sfac = score_factors[i] if score_factors is not None else score_factor
        A = np.array([ra[k] for k in keys]) * sfac
        B = np.array([rb[k] for k in keys])
        B = gauge_align(A, B, cplx)
        e = relerr(A, B)
        if e > tol:
            F.append(Finding("oracle", cc[0], cc[1] + "|scores", f"scores[{i}]: expected factor {sfac:g} (up to the per-mode gauge), rel error {e:.2e}"))
    if comp_same:
        for i, (a, b) in enumerate(zip(zoo.components(cls, mA), zoo.components(cls, mB))):
            ra, rb = to_label_matrix([a]), to_label_matrix([b])
            if set(ra) != set(rb):
                continue
            keys = sorted(ra, key=lambda k: (k[0], sorted(k[1])))
            A = np.array([ra[k] for k in keys])
            B = np.array([rb[k] for k in keys])
            if score_factors is not None:
                # whitened cross-set patterns carry the data's units: compare directions
                A = A / np.sqrt(np.nansum(np.abs(A) ** 2, axis=0))
                B = B / np.sqrt(np.nansum(np.abs(B) ** 2, axis=0))
            B = gauge_align(A, B, cplx)
            e = relerr(A, B)
            if e > tol:
                F.append(Finding("oracle", cc[0], cc[1] + "|components", f"components[{i}] changed by rel {e:.2e}"))


def run(case):
    F = []
    cls, rel = case["cls"], case["rel"]
    rng = np.random.default_rng(case["mseed"])
    two = zoo.takes_two(cls)
    cplx = zoo.needs_complex_input(cls)
    n = 60 if two else 30
    X0 = field(rng, n, 3, 4, cplx, off=2.0)
    Y0 = field(rng, n, 3, 3, cplx, off=-1.0) + 0.5 * X0.isel(lon=slice(0, 3)).values
    if case["wide_std"]:
        # features whose standard deviations span many orders of magnitude (all far above the 1.2e-7 floor)
        # … and, for the whitened cross-set models, a covariance inside the conditioning range the whitening claims (C16: cond(X) <= 1e6;
        # here cond(X) ~ 1e3); a global factor |c| < 1 must not push the smallest deviation below the floor either
        lo, hi = (-1.5, 1.5) if two else (-3.0, 3.0)
        if rel == "global" and abs(case["c"]) < 1:
            lo = max(lo, -1.0)
        X0 = X0 * xr.DataArray(10.0 ** rng.uniform(lo, hi, size=(3, 4)), dims=("lat", "lon"), coords={"lat": X0.lat, "lon": X0.lon})
    latname = case["latname"] if rel == "coslat" else "lat"
    st = case["struct"] if not (two and cls.startswith("Hilbert")) else "DA"
    X = structure(X0, st, latname, B=field(rng, n, 3, 4, cplx, off=0.5) * 0.7)
    Y = Y0.rename(lat=latname)
    b = zoo.base_of(cls)
    k = case["k"]
    cfg = zoo.default_cfg(cls, n_modes=k)
    cfg["solver"] = "full"
    if b == "SparsePCA":
        cfg["alpha"] = 1e-3
    if b in zoo.CROSS and b.endswith("CPCCA"):
        cfg["alpha"] = [0.5, 1.0]
    rot = {"n_modes": k, "power": 1} if "Rotator" in cls else None
    tol = 1e-6 if b != "SparsePCA" else 1e-3
    r2 = np.random.default_rng(case["mseed"] + 3)

    def pf(v):  # per-field option values for cross-set models
        return [v, (not v) if isinstance(v, bool) and case["per_field"] else v] if two else v

    def fit(data, **over):
        c = dict(cfg)
        c.update(over)
        W = c.pop("_weights", None)
        try:
            return zoo.fit(cls, data, "time", c, rot_cfg=rot, weights=W)[0]
        except RuntimeError as e:
            if "did not converge" in str(e):
                return None
            raise

    def shaped_like_features(o, gen):
        def one(a):
            fd = [d for d in a.dims if d != "time"]
            return xr.DataArray(gen([a.sizes[d] for d in fd]), dims=fd, coords={d: a.coords[d] for d in fd})
        return map_struct(one, o)

    cc0 = {"shift": "center_shift_invariant", "affine": "standardize_affine_invariant", "weights": "weights_eq_premultiplied",
           "coslat": "coslat_eq_weights", "global": "global_scale"}[rel]
    cc = (cc0, f"{cls}|{st}")
    if rel == "shift":
        if case["mseed"] % 4 == 0 and not np.iscomplexobj(Y.values):
            # integer-valued data stored with an integer dtype is the same data: centring subtracts the (non-integer) mean
            X = map_struct(lambda a: (a * 10.0).round().astype(np.int64), X)
            Y = (Y * 10.0).round().astype(np.int64)
            cc = (cc[0], cc[1] + "|int-dtype")
        sh = shaped_like_features(X, lambda s: r2.normal(size=s) * 10.0 ** case["log_scale"])
        X2 = map_struct(lambda a, s: a + s, X, sh)
        Y2 = Y + 7.5
        over = {"standardize": pf(case["extra_flags"])} if not two else {"standardize": [case["extra_flags"], False]}
        mA = fit((X, Y) if two else X, **over)
        mB = fit((X2, Y2) if two else X2, **over)
        if mA is None or mB is None:
            return {"findings": [], "info": {}}
        compare_models(cls, mA, mB, F, cc, tol=max(tol, 1e-6 * max(1.0, 10.0 ** case["log_scale"])))
    elif rel == "affine":
        sc = shaped_like_features(X, lambda s: 10.0 ** r2.uniform(-4, 4, size=s))
        sh = shaped_like_features(X, lambda s: r2.normal(size=s))
        X2 = map_struct(lambda a, s, h: a * s + h, X, sc, sh)
        Y2 = Y * 3.0 - 4.0
        if two:
            # per-field sequence: standardise both, or only X (then Y must not be rescaled)
            mode = ["both", "x_only", "y_only"][case["mseed"] % 3]
            if mode == "x_only":
                over = {"standardize": [True, False]}
                Y2 = Y
            elif mode == "y_only":
                over = {"standardize": [False, True]}
                X2 = X
            else:
                over = {"standardize": [True, True]}
        else:
            over = {"standardize": True}
        mA = fit((X, Y) if two else X, **over)
        mB = fit((X2, Y2) if two else X2, **over)
        if mA is None or mB is None:
            return {"findings": [], "info": {}}
        compare_models(cls, mA, mB, F, cc, tol=max(tol, 1e-6))
    elif rel == "weights":
        W = shaped_like_features(X, lambda s: r2.uniform(0.2, 3.0, size=s))
        WY = xr.DataArray(r2.uniform(0.2, 3.0, size=(3, 3)), dims=(latname, "lon"), coords={latname: Y[latname], "lon": Y.lon})
        # pre-multiplication is only equivalent without standardisation (with it, pre-multiplication is annihilated)
        Xc = map_struct(lambda a: a - a.mean("time"), X)
        Yc = Y - Y.mean("time")
        X2 = map_struct(lambda a, w: a * w, Xc, W)
        Y2 = Yc * WY
        # weights are paired with the data BY LABEL: the same weights stored in another order along a dimension are the same weights
        def other_order(w):
            return map_struct(lambda a: a.isel({a.dims[0]: slice(None, None, -1)}), w)
        if case["mseed"] % 2:
            W_fit, WY_fit = other_order(W), WY.isel({WY.dims[0]: slice(None, None, -1)})
            cc = (cc[0], cc[1] + "|weights-stored-in-other-order")
        else:
            W_fit, WY_fit = W, WY
        if two and case.get("one_sided") and isinstance(Xc, xr.DataArray):
            # weights for ONE field only, the other field living on the very same grid: the other field stays unweighted
            Ys = (field(np.random.default_rng(case["mseed"] + 11), n, 3, 4, cplx, off=-0.5) + 0.4 * X0.values).rename(lat=latname)
            Ys = Ys - Ys.mean("time")
            Yc, Y2, WY_fit = Ys, Ys, None
            cc = (cc[0], cc[1] + "|weights-for-one-field-same-grid")
        mA = fit((Xc, Yc) if two else Xc, _weights=(W_fit, WY_fit) if two else W_fit)
        mB = fit((X2, Y2) if two else X2)
        if mA is None or mB is None:
            return {"findings": [], "info": {}}
        compare_models(cls, mA, mB, F, cc, comp_same=True, tol=tol)
    elif rel == "coslat":
        if case["mseed"] % 3 == 0:
            # "all latitude coordinates in [-90, 90]": also a domain hugging the equator (degrees that would also pass as radians)
            # and one reaching a pole
            newlat = [[-1.2, 0.3, 1.4], [-90.0, 0.5, 60.0]][(case["mseed"] // 3) % 2]
            X = map_struct(lambda a: a.assign_coords({latname: newlat}), X)
            Y = Y.assign_coords({latname: newlat})
        def wl(a):
            fd = [d for d in a.dims if d != "time"]
            w = np.sqrt(np.clip(np.cos(np.deg2rad(a[latname])), 0, 1))
            return (xr.ones_like(a.isel(time=0, drop=True)) * w).transpose(*fd)
        W = map_struct(wl, X)
        WY = wl(Y)
        std = case["extra_flags"]
        mA = fit((X, Y) if two else X, use_coslat=pf(True) if not two else [True, True], standardize=pf(std) if not two else [std, std])
        mB = fit((X, Y) if two else X, _weights=(W, WY) if two else W, standardize=pf(std) if not two else [std, std])
        if mA is None or mB is None:
            return {"findings": [], "info": {}}
        compare_models(cls, mA, mB, F, (cc0, f"{cls}|{st}|{latname}"), tol=tol)
    elif rel == "global":
        c = case["c"]
        X2 = map_struct(lambda a: a * c, X)
        Y2 = Y * c
        std = case["extra_flags"]
        over = {"standardize": pf(std) if not two else [std, std]}
        mA = fit((X, Y) if two else X, **over)
        mB = fit((X2, Y2) if two else X2, **over)
        if mA is None or mB is None:
            return {"findings": [], "info": {}}
        if std:
            compare_models(cls, mA, mB, F, cc, score_factor=np.sign(c) if False else 1.0, spec_factor=1.0, tol=tol)
        else:
            al = {"MCA": (1, 1), "CCA": (0, 0), "RDA": (0, 1), "CPCCA": (0.5, 1.0)}.get(b.replace("Complex", "").replace("Hilbert", ""), (1, 1))
            sf = abs(c) ** (al[0] + al[1]) if two else abs(c)
            # rotated cross-set scores are scaled differently; compare spectrum and fractions only there
            if zoo.kind(cls) == "rot_cross":
                sA, sB = spectrum_of(cls, mA), spectrum_of(cls, mB)
                if relerr(sA * sf, sB) > tol:
                    F.append(Finding("oracle", cc0, cc[1] + "|spectrum", f"covariances: expected factor {sf:g}, rel error {relerr(sA * sf, sB):.2e}"))
                fa, fb = fractions_of(cls, mA), fractions_of(cls, mB)
                if relerr(fa, fb) > tol:
                    F.append(Finding("oracle", cc0, cc[1] + "|fractions", f"fractions changed by rel {relerr(fa, fb):.2e}"))
            else:
                if two:
                    # whitened scores scale by c*|c|^(alpha-1) per field: compare each field with its own factor
                    compare_models(cls, mA, mB, F, cc, score_factor=None, spec_factor=sf, tol=tol, score_factors=[c * abs(c) ** (al[0] - 1), c * abs(c) ** (al[1] - 1)])
                else:
                    compare_models(cls, mA, mB, F, cc, score_factor=c, spec_factor=sf, tol=tol)
    return {"findings": F, "info": {"oracle_checks": {"pairs": 1}, "dist": {"cls": cls, "rel": rel, "struct": st}}}
