"""C14 — a model's answers depend only on its last fit, never on call history."""
from __future__ import annotations

import itertools

from harness.common import *  # noqa: F401,F403
from harness.common import Finding, np, xr, xe, compare_labelled, mk
from harness import zoo

RULE = ("histories over {fit(D_i), transform(D_j), inverse_transform, components, scores, metrics, compute, serialize, rotator.fit, "
        "bootstrapper.fit} on ONE model object, for every model class; after each step every answer is compared with a fresh model "
        "fitted on the data of the last fit; user inputs deep-compared before/after; thorough = all histories up to length 4 over a "
        "reduced alphabet per class + random longer ones; distinct by (class, op sequence)")
EXHAUSTIVE = {"quick": False, "thorough": False}
CLASSES = ["EOF", "ComplexEOF", "HilbertEOF", "ExtendedEOF", "SparsePCA", "POP", "OPA", "MCA", "CPCCA", "CCA", "ComplexMCA", "multi.CCA", "MCA+pcaall", "POP+pcaall"]
OPS = ["fit0", "fit1", "fit2", "fit3", "fit4", "transform0", "transform1", "transformN", "inverse", "components", "scores", "metrics", "compute",
       "serialize", "rotator", "bootstrap"]  # (+ fit5, fit6, transformL in the fixed histories)


def dim_of(which):
    return ("time", "lat") if which == 4 else "time"


def datasets(name, which):
    """D0, D1: same structure, different numbers/scales; D2: other shape + other coordinates; D3: Dataset / list structure"""
    cplx = zoo.needs_complex_input(name)
    two = zoo.takes_two(name)

    def one(seed, n=24, ny=3, nx=4, scale=1.0, shift=0.0, s0=0):
        X = mk(n=n, ny=ny, nx=nx, seed=seed, t0=s0, cplx=cplx) * scale + shift
        X.name = "t2m"
        return X

    if which == 0:
        X = one(1)
    elif which == 1:
        X = one(2, scale=300.0, shift=1000.0)
    elif which == 2:
        X = one(3, n=30, ny=2, nx=5, s0=100)
    elif which == 3:
        a = one(4)
        if name == "multi.CCA":
            X = one(4, n=24, ny=2, nx=3)
        else:
            X = xr.Dataset({"a": a, "b": a * 2.0 + 1.0})
    elif which in (5, 6):
        # lists of fields with different grids: three items, then two (a refit on FEWER fields must forget the third)
        items = [one(6), one(7, ny=2, nx=3) * 2.0, one(8, ny=3, nx=2) - 1.0]
        X = items if which == 5 else items[:2]
        if two or name == "multi.CCA":
            X = one(6 if which == 5 else 7)
    elif which == 4:
        X = one(5, n=12, ny=3, nx=4)  # fitted with dim=("time", "lat"): the sample axis goes through a MultiIndex
    elif which == "N":  # new samples, fitted structure of D(last) is needed: built by caller
        raise KeyError
    if two:
        if isinstance(X, xr.Dataset):
            Y = X["a"].isel(lon=slice(0, 3)) * 1.5
        else:
            Y = X.isel(lon=slice(0, max(2, X.sizes["lon"] - 1))) * 0.7 + one(50 + (which if isinstance(which, int) else 9), n=X.sizes["time"], ny=X.sizes["lat"], nx=max(2, X.sizes["lon"] - 1), s0=int(X.time[0])).values
        Y.name = "slp"
        if name == "multi.CCA" and which == 5:
            # three views, then (fit6) two: a refit with ANOTHER NUMBER of views must behave like a fresh model
            Z = one(9, n=X.sizes["time"], ny=2, nx=2, s0=int(X.time[0])) + 0.3 * X.isel(lat=slice(0, 2), lon=slice(0, 2)).values
            Z.name = "z500"
            return (X, Y, Z)
        return (X, Y)
    return X


def new_samples(d, k=5, seed=77):
    def f(x):
        r = np.random.default_rng(seed)
        y = x.isel(time=slice(0, k)).copy(deep=True)
        if isinstance(y, xr.Dataset):
            for v in y.data_vars:
                y[v].values[...] = r.normal(size=y[v].shape)
        else:
            y.values[...] = r.normal(size=y.shape) if not np.iscomplexobj(y.values) else r.normal(size=y.shape) + 1j * r.normal(size=y.shape)
        return y.assign_coords(time=np.arange(500, 500 + k))

    return tuple(f(x) for x in d) if isinstance(d, tuple) else f(d)


def cases(seed, tier, broken=()):
    rng = np.random.default_rng(seed)
    out = []
    # fixed regression histories first
    for cls in CLASSES:
        out.append({"cls": cls, "ops": ["fit0", "fit1", "scores", "components", "transform1", "inverse"]})
        out.append({"cls": cls, "ops": ["fit0", "transformN", "scores", "rotator", "scores", "components", "metrics", "serialize", "transform0"]})
    out.append({"cls": "EOF", "ops": ["fit0", "bootstrap", "scores", "components", "metrics"]})
    for cls in CLASSES:
        out.append({"cls": cls, "ops": ["fit0", "metrics", "compute", "scores", "metrics", "serialize", "components"]})
    for cls in ("EOF", "ComplexEOF", "SparsePCA", "POP", "ExtendedEOF", "OPA", "HilbertEOF"):
        out.append({"cls": cls, "ops": ["fit5", "components", "fit6", "components", "scores", "inverse", "fit5", "scores"]})
    out.append({"cls": "multi.CCA", "ops": ["fit6", "scores", "fit5", "scores", "components", "transform5", "fit6", "scores", "components"]})
    out.append({"cls": "multi.CCA", "ops": ["fit5", "components", "fit0", "scores", "transform0"]})
    for cls in ("EOF", "SparsePCA", "POP", "MCA", "CCA"):
        out.append({"cls": cls, "ops": ["fit0", "transformL", "components", "scores", "inverse", "metrics"]})
    for cls in ("EOF", "MCA", "SparsePCA", "EOF"):
        out.append({"cls": cls, "ops": ["fit4", "transformN", "scores", "inverse", "components", "transform4"]})
    out.append({"cls": "EOF", "ops": ["fit0", "fit3", "components", "fit2", "scores", "transform2"]})
    for cls in ("EOF", "SparsePCA", "POP"):
        out.append({"cls": cls, "ops": ["fitW", "serialize", "scores", "components"]})
    for cls in ("MCA+pcaall", "POP+pcaall"):
        out.append({"cls": cls, "ops": ["fit2", "fit0", "scores", "components", "metrics"]})
    # the object under test is a ROTATOR: fitted on model A, queried through every public accessor, fitted on model B — every answer
    # must then be that of a fresh rotator fitted on model B
    for i, rn in enumerate(["EOFRotator", "MCARotator", "CPCCARotator", "ComplexEOFRotator", "ComplexMCARotator", "HilbertEOFRotator", "HilbertMCARotator", "ComplexCPCCARotator"]):
        for power in ((1, 2) if tier != "quick" else ((1,) if i % 2 else (2,))):
            out.append({"cls": "rot:" + rn, "ops": ["rotfitA", "queries", "rotfitB", "queries"], "power": power})
    nrand = {"quick": 36, "thorough": 600, "search": 300}[tier]
    for i in range(nrand):
        cls = CLASSES[i % len(CLASSES)]
        L = int(rng.integers(3, 8))
        ops = ["fit%d" % rng.integers(0, 5)]
        for _ in range(L):
            ops.append(str(rng.choice(OPS, p=_op_p())))
        out.append({"cls": cls, "ops": ops})
    if tier == "thorough":
        alpha = ["fit0", "fit1", "fit3", "transformN", "scores", "inverse", "serialize", "rotator"]
        for cls in ("EOF", "MCA"):
            for L in (1, 2, 3):
                for seq in itertools.product(alpha, repeat=L):
                    out.append({"cls": cls, "ops": ["fit0", *seq, "scores", "components"]})
    return out


_NOT_QUERIES = {"fit", "fit_transform", "transform", "inverse_transform", "predict", "compute", "serialize", "deserialize", "save", "load", "get_params"}


def all_queries(model):
    """call every public accessor that needs no argument ("no sequence of queries … changes any later answer"); what they return or
    refuse is not judged here, only what they leave behind"""
    import inspect

    n = 0
    for name in sorted(dir(model)):
        if name.startswith("_") or name in _NOT_QUERIES:
            continue
        f = getattr(model, name, None)
        if not callable(f) or inspect.isclass(f):
            continue
        try:
            sig = inspect.signature(f)
        except (TypeError, ValueError):
            continue
        if any(p.default is inspect.Parameter.empty and p.kind in (p.POSITIONAL_ONLY, p.POSITIONAL_OR_KEYWORD, p.KEYWORD_ONLY) for p in sig.parameters.values()):
            continue
        try:
            f()
            n += 1
        except Exception:  # noqa: BLE001
            pass
    return n


def _op_p():
    w = np.array([2, 2, 1.5, 1.5, 1.5, 1, 1, 1.5, 1, 1, 1, 1, 1, 1, 1.2, 0.6])
    return w / w.sum()


def nontrivial_key(case, info):
    return (case["cls"], tuple(case["ops"])) if info.get("steps", 0) > 1 else None


def snapshot(d):
    if isinstance(d, (tuple, list)):
        return [snapshot(x) for x in d]
    return d.copy(deep=True)


def same_input(a, b):
    if isinstance(a, (tuple, list)):
        return all(same_input(x, y) for x, y in zip(a, b))
    if not a.identical(b):
        return False
    if isinstance(a, xr.DataArray) and a.name != b.name:
        return False
    return True


def _fresh(cls, data, cfg, dim="time"):
    m, _ = zoo.fit(cls, data, dim, cfg)
    return m


def compare_answers(a, b, rtol=1e-9):
    for k in a:
        if k not in b:
            return f"{k} missing"
        x, y = a[k], b[k]
        scale = 0.0
        try:
            scale = float(np.nanmax(np.abs(np.asarray(x.values if hasattr(x, 'values') else 0)))) if isinstance(x, xr.DataArray) else 0.0
        except Exception:  # noqa: BLE001
            pass
        r = compare_labelled(x, y, rtol=rtol, atol=rtol * max(scale, 1e-300))
        if r:
            return f"{k}: {r}"
    return None


def meta(model):
    out = {}
    for k, v in model.data.items():
        at = {a: b for a, b in dict(v.attrs).items() if a != "date"}
        out[k] = (v.name, repr(sorted(at.items(), key=lambda kv: kv[0])))
    return out


def accessor_answers(obj):
    """every public zero-argument accessor -> flat dict of labelled arrays (what it refuses is recorded as the exception class)"""
    import inspect

    out = {}
    for name in sorted(dir(obj)):
        if name.startswith("_") or name in _NOT_QUERIES:
            continue
        f = getattr(obj, name, None)
        if not callable(f) or inspect.isclass(f):
            continue
        try:
            sig = inspect.signature(f)
        except (TypeError, ValueError):
            continue
        if any(p.default is inspect.Parameter.empty and p.kind in (p.POSITIONAL_ONLY, p.POSITIONAL_OR_KEYWORD, p.KEYWORD_ONLY) for p in sig.parameters.values()):
            continue
        try:
            r = f()
        except Exception as e:  # noqa: BLE001
            out[name] = type(e).__name__
            continue
        items = r if isinstance(r, (list, tuple)) else [r]
        for j, it in enumerate(items):
            if isinstance(it, (list, tuple)):
                for jj, it2 in enumerate(it):
                    if isinstance(it2, xr.DataArray):
                        out[f"{name}[{j}][{jj}]"] = it2
            elif isinstance(it, xr.DataArray):
                out[f"{name}[{j}]"] = it
    return out


def run_rot(case):
    F = []
    rn = case["cls"].split(":")[1]
    base = zoo.base_of(rn)
    cfg = zoo.default_cfg(base, n_modes=4, solver="full", random_state=1)
    if "Hilbert" in rn:
        cfg["padding"] = "none"
    mod = xe.single if rn in zoo.SINGLE_ROT else xe.cross

    def fitted(which):
        m = zoo.construct(base, cfg)
        zoo.fit(base, datasets(base, which), "time", cfg, model=m)
        return m

    try:
        mA, mB = fitted(0), fitted(2)
        r = getattr(mod, rn)(n_modes=3, power=case["power"])
        r.fit(mA)
        accessor_answers(r)
        r.fit(mB)
        fresh = getattr(mod, rn)(n_modes=3, power=case["power"])
        fresh.fit(fitted(2))
    except RuntimeError as e:
        if "did not converge" in str(e):
            return {"findings": [], "info": {"dist": {"cls": rn, "outcome": "not-converged"}}}
        raise
    a, b = accessor_answers(r), accessor_answers(fresh)
    n = 0
    for k in b:
        n += 1
        if k not in a:
            F.append(Finding("oracle", "last_fit_determines", f"{rn}|rotator-refit", f"{k}: missing from the re-fitted rotator"))
            break
        if isinstance(b[k], str) or isinstance(a[k], str):
            if a[k] != b[k] and not (isinstance(a[k], str) and isinstance(b[k], str)):
                F.append(Finding("oracle", "last_fit_determines", f"{rn}|rotator-refit", f"{k}: {a[k] if isinstance(a[k], str) else 'answer'} vs fresh {b[k] if isinstance(b[k], str) else 'answer'}"))
                break
            continue
        rr = compare_answers({k: b[k]}, {k: a[k]})
        if rr:
            F.append(Finding("oracle", "last_fit_determines", f"{rn}|rotator-refit", f"a rotator fitted on model A, queried, then fitted on model B answers differently from a fresh rotator fitted on B: {rr[:200]}"))
            break
    return {"findings": F, "info": {"steps": 4, "oracle_checks": {"accessors": n}, "dist": {"cls": rn, "len": 4}}}


def run(case):
    if case["cls"].startswith("rot:"):
        return run_rot(case)
    F = []
    cls0 = case["cls"]
    cls = cls0.split("+")[0]
    cfg = zoo.default_cfg(cls, n_modes=2, solver="full", random_state=1) if cls not in ("multi.CCA",) else zoo.default_cfg(cls, n_modes=2)
    if cls == "OPA":
        cfg["n_pca_modes"] = 4
    if cls0.endswith("+pcaall"):
        cfg.update(n_pca_modes="all")
        if cls == "MCA":
            cfg.update(use_pca=True)
    model = zoo.construct(cls, cfg)
    last = None  # data of the last fit
    fresh = None
    steps = 0
    has_tf = cls not in zoo.NO_TRANSFORM
    has_inv = cls not in zoo.NO_INVERSE
    for op in case["ops"]:
        steps += 1
        try:
            if op == "fitW":
                if zoo.kind(cls) != "single":
                    continue
                d = datasets(cls, 0)
                W = xr.DataArray(np.linspace(0.5, 2.0, 12).reshape(3, 4), dims=("lat", "lon"), coords={"lat": d.lat, "lon": d.lon})
                W0 = W.copy(deep=True)
                model.fit(d, "time", weights=W)
                if hasattr(model, "serialize"):
                    model.serialize()
                if not (W.identical(W0) and W.name == W0.name):
                    F.append(Finding("oracle", "input_unmodified", f"{cls}|weights", f"the user's weights object was modified (name {W0.name!r} -> {W.name!r})"))
                last = d
                last_dim = "time"
                fresh = zoo.construct(cls, cfg)
                fresh.fit(datasets(cls, 0), "time", weights=W0.copy(deep=True))
            elif op.startswith("fit"):
                d = datasets(cls, int(op[3:]))
                snap = snapshot(d)
                last_dim = dim_of(int(op[3:]))
                zoo.fit(cls, d, last_dim, cfg, model=model)
                if not same_input(d, snap):
                    F.append(Finding("oracle", "input_unmodified", f"{cls}|fit", f"{op} modified the user's input object"))
                last = d
                fresh = _fresh(cls, datasets(cls, int(op[3:])), cfg, last_dim)
            elif last is None:
                continue
            elif op.startswith("transform"):
                if not has_tf:
                    continue
                w = op[9:]
                if w == "N":
                    d = new_samples(last)
                elif w == "L":
                    # the same kind of data in ANOTHER container (a one-element list for an array, and back): what the model
                    # returns later is decided by the data it was fitted on, not by the container of the last transform
                    if isinstance(last, (tuple, list)) and not (isinstance(last, list) and len(last) == 1):
                        continue
                    d = [new_samples(last)] if not isinstance(last, list) else new_samples(last[0])
                else:
                    d = datasets(cls, int(w))
                snap = snapshot(d)
                try:
                    zoo.transform(cls, model, d)
                except Exception:  # noqa: BLE001  transforming data of another structure may legitimately fail
                    pass
                if not same_input(d, snap):
                    F.append(Finding("oracle", "input_unmodified", f"{cls}|transform", f"{op} modified the user's input object"))
            elif op == "inverse":
                if has_inv:
                    zoo.inverse_transform(cls, model, [s.isel(mode=[0]) for s in zoo.scores(cls, model)])
            elif op == "components":
                zoo.components(cls, model)
            elif op == "scores":
                zoo.scores(cls, model)
            elif op == "metrics":
                zoo.answers(cls, model)
                all_queries(model)
            elif op == "compute":
                if callable(getattr(model, "compute", None)):
                    model.compute()
            elif op == "serialize":
                if callable(getattr(model, "serialize", None)):
                    tree = model.serialize()
                    if callable(getattr(type(model), "deserialize", None)):
                        type(model).deserialize(tree)  # whatever was asked before, the object can still be stored and rebuilt
            elif op in ("rotator", "bootstrap"):
                rot = None
                if op == "rotator":
                    rn = {"EOF": "EOFRotator", "ComplexEOF": "ComplexEOFRotator", "HilbertEOF": "HilbertEOFRotator", "MCA": "MCARotator",
                          "CPCCA": "CPCCARotator", "ComplexMCA": "ComplexMCARotator"}.get(cls)
                    if rn is None:
                        continue
                    before = meta(model)
                    mod = xe.single if rn in zoo.SINGLE_ROT else xe.cross
                    getattr(mod, rn)(n_modes=2).fit(model)
                else:
                    if cls != "EOF":
                        continue
                    before = meta(model)
                    xe.validation.EOFBootstrapper(n_bootstraps=2, seed=1).fit(model)
                after = meta(model)
                ch = {k: (before[k], after[k]) for k in before if before[k] != after.get(k)}
                if ch:
                    k0 = sorted(ch)[0]
                    F.append(Finding("oracle", "rotator_bootstrap_read_only", f"{cls}|{op}|labels",
                                     f"{op}.fit(model) re-labelled the model's own results: {k0}: {ch[k0][0][0]!r} -> {ch[k0][1][0]!r} ({len(ch)} entries)"))
        except Exception as e:  # noqa: BLE001
            if isinstance(e, RuntimeError) and "did not converge" in str(e):
                # the rotation iteration refusing these numbers is a (history-independent) refusal of the ROTATOR object, which is
                # discarded here; the model object under test carries on
                continue
            F.append(Finding("oracle", "history_step_raises", f"{cls}|{op.rstrip('0123N')}", f"{op} raised {type(e).__name__}: {str(e)[:160]} after {case['ops'][:steps-1]}"))
            break
        # after every step: all answers equal those of a fresh model fitted on the data of the last fit
        if last is not None:
            try:
                a = zoo.answers(cls, model, last if has_tf else None)
                b = zoo.answers(cls, fresh, last if has_tf else None)
            except Exception as e:  # noqa: BLE001
                F.append(Finding("oracle", "history_query_raises", f"{cls}|{op.rstrip('0123N')}", f"querying after {case['ops'][:steps]} raised {type(e).__name__}: {str(e)[:160]}"))
                break
            r = compare_answers(b, a)
            if r:
                kind = "refit" if sum(1 for o in case["ops"][:steps] if o.startswith("fit")) > 1 else "queries"
                F.append(Finding("oracle", "last_fit_determines", f"{cls0}|{kind}", f"after {case['ops'][:steps]}: {r}"))
                break
    return {"findings": F, "info": {"steps": steps, "oracle_checks": {"steps": steps}, "dist": {"cls": cls, "len": len(case["ops"])}}}
