"""C19 — OPA returns uncorrelated series ordered by their own decorrelation time."""
from __future__ import annotations

from harness.common import *  # noqa: F401,F403
from harness.common import Finding, np, xr, xe, relerr

RULE = ("multivariate time series: white noise, red-noise mixtures with known persistence ordering, anti-persistent components; tau_max in "
        "1..n/3 (plain int and numpy integer), n_pca_modes 2..rank, n_modes 1..n_pca_modes, centre on/off with non-zero mean, "
        "standardise; the decorrelation functional is re-evaluated independently on the returned score series and maximised "
        "independently over the retained PCs; distinct by (kind, n, tau_max, n_pca_modes, n_modes, flags)")


def cases(seed, tier, broken=()):
    rng = np.random.default_rng(seed)
    n = {"quick": 60, "thorough": 1200, "search": 400}[tier]
    out = []
    for i in range(n):
        nt = int(rng.choice([60, 120, 300, 900]))
        npc = int(rng.integers(2, 6))
        out.append({"kind": ["red", "white", "anti", "red"][i % 4], "mseed": int(rng.integers(0, 2**31)), "n": nt, "p": int(rng.integers(npc, 9)),
                    "tau_max": int(rng.integers(1, max(2, nt // 3))) if i % 3 else int(rng.integers(1, 8)), "np_int": bool(i % 7 == 3),
                    "npc": npc, "k": int(rng.integers(1, npc + 1)), "center": bool(rng.random() < 0.7), "standardize": bool(rng.random() < 0.3),
                    "offset": float(rng.choice([0.0, 5.0]))})
    # propagating (noise-free or nearly so) waves sampled over whole periods: the two PCs of each wave are in quadrature and have
    # EQUAL variance, so the zero-lag covariance of the retained PCs has repeated eigenvalues and its decomposition is an arbitrary
    # rotation inside each pair (decided by rounding: several phases / resolutions per run)
    for i in range({"quick": 10, "thorough": 60, "search": 40}[tier]):
        out.append({"kind": "wave", "mseed": int(rng.integers(0, 2**31)), "n": int([240, 120, 360][i % 3]), "p": int([16, 12, 20][i % 3]), "tau_max": int([10, 5, 8, 3][i % 4]),
                    "np_int": False, "npc": 4, "k": int([4, 2, 3][i % 3]), "center": True, "standardize": False, "offset": 0.0,
                    "noise": float([0.0, 0.0, 1e-9][i % 3])})
    return out


def nontrivial_key(case, info):
    return tuple(sorted((k, str(v)) for k, v in case.items() if k != "mseed"))


def make(case):
    rng = np.random.default_rng(case["mseed"])
    n, p = case["n"], case["p"]
    r = case["npc"] + 1
    if case["kind"] == "wave":
        t = np.arange(n)[:, None]
        x = np.arange(p)[None, :]
        ph = rng.uniform(0, 2 * np.pi, size=2)
        per = [(24, 60), (12, 40), (30, 60)][case["mseed"] % 3]
        Z = np.cos(2 * np.pi * (x / p - t / per[0]) + ph[0]) + 0.5 * np.cos(2 * np.pi * (2 * x / p - t / per[1]) + ph[1])
        Z = Z + case.get("noise", 0.0) * rng.normal(size=Z.shape)
        return xr.DataArray(Z, dims=("time", "x"), coords={"time": np.arange(n), "x": np.arange(p)}, name="v")
    if case["kind"] == "white":
        phi = np.zeros(r)
    elif case["kind"] == "anti":
        phi = np.linspace(-0.8, 0.6, r)
    else:
        phi = np.linspace(0.95, 0.0, r)
    z = np.zeros((n, r))
    e = rng.normal(size=(n, r))
    for t in range(1, n):
        z[t] = phi * z[t - 1] + e[t]
    D = z @ rng.normal(size=(r, p)) + 0.1 * rng.normal(size=(n, p)) + case["offset"]
    return xr.DataArray(D, dims=("time", "x"), coords={"time": np.arange(n), "x": np.arange(p)}, name="v")


def lagcov(A, B, tau):
    n = A.shape[0]
    return A[: n - tau].T @ B[tau:] / (n - tau - 1)


def dtime(p, tau_max):
    c0 = lagcov(p[:, None], p[:, None], 0)[0, 0]
    tot = 0.5
    for tau in range(1, tau_max + 1):
        w = 0.5 if tau == tau_max else 1.0
        tot += w * lagcov(p[:, None], p[:, None], tau)[0, 0] / c0
    return float(tot)


def run(case):
    F = []
    X = make(case)
    n, p = X.shape
    tau_max = case["tau_max"]
    tm = np.int64(tau_max) if case["np_int"] else tau_max
    cc = f"{case['kind']}|{'center' if case['center'] else 'nocenter'}"
    m = xe.single.OPA(n_modes=case["k"], tau_max=tm, n_pca_modes=case["npc"], center=case["center"], standardize=case["standardize"], solver="full").fit(X, "time")
    P = np.asarray(m.scores().transpose("time", "mode").values)
    T = np.asarray(m.decorrelation_time().values, dtype=float)
    k = P.shape[1]
    checks = 0
    # uncorrelated with equal norm (genuine, mean-removed correlations)
    Pc = P - P.mean(axis=0)
    G = Pc.T @ Pc
    d = np.diag(G)
    checks += 1
    off = np.abs(G - np.diag(d)).max() / d.max()
    if off > 1e-8:
        F.append(Finding("oracle", "opa_scores_uncorrelated_equal_norm", cc + "|uncorrelated", f"score series are correlated: max off-diagonal {off:.2e}"))
    if np.abs(d / d[0] - 1).max() > 1e-8:
        F.append(Finding("oracle", "opa_scores_uncorrelated_equal_norm", cc + "|norm", f"score series have unequal norms: {np.sqrt(d)}"))
    # bi-orthogonality of filter patterns and OPPs
    Vf = np.asarray(m.filter_patterns().transpose("x", "mode").values)
    W = np.asarray(m.components().transpose("x", "mode").values)
    B = Vf.T @ W
    checks += 1
    offb = np.abs(B - np.diag(np.diag(B))).max() / max(np.abs(np.diag(B)).max(), 1e-300)
    if offb > 1e-7:
        F.append(Finding("oracle", "opa_biorthogonal", cc, f"filter patterns are not bi-orthogonal to the OPPs: off-diagonal {offb:.2e}"))
    # each reported decorrelation time is the trapezoidal lag sum of that very series
    Tref = np.array([dtime(P[:, j] - (P[:, j].mean() if True else 0), tau_max) for j in range(k)])
    Traw = np.array([dtime(P[:, j], tau_max) for j in range(k)])
    checks += 1
    e = np.abs(T - Traw).max() / max(np.abs(Traw).max(), 1e-300)
    neg = bool((Traw < 0).any())
    if e > 1e-7:
        F.append(Finding("oracle", "opa_T_is_trapezoid", cc + ("|negative-lag-sum" if neg else ""), f"reported decorrelation times {T[:4]} vs trapezoidal lag sum of the returned series {Traw[:4]} (tau_max={tau_max}, n={n})"))
    if np.any(np.diff(T) > 1e-9 * max(np.abs(T).max(), 1e-300)):
        F.append(Finding("oracle", "opa_sorted", cc, f"decorrelation times not descending: {T}"))
    # optimality of the first mode over the retained PCs (independent maximisation)
    Xp = np.asarray(X.values, dtype=float)
    Xp = Xp - Xp.mean(axis=0)
    if case["standardize"]:
        Xp = Xp / np.std(np.asarray(X.values), axis=0)
    U, s, Vt = np.linalg.svd(Xp, full_matrices=False)
    Q = U[:, : case["npc"]]  # normalised PCs
    M = 0.5 * lagcov(Q, Q, 0)
    for tau in range(1, tau_max + 1):
        M = M + (0.5 if tau == tau_max else 1.0) * lagcov(Q, Q, tau)
    Ms = 0.5 * (M + M.T)
    C0 = lagcov(Q, Q, 0)
    w, _ = np.linalg.eig(np.linalg.solve(C0, Ms))
    tmax_ref = float(np.max(w.real))
    checks += 1
    if tmax_ref > 0 and abs(T[0] - tmax_ref) > 1e-6 * abs(tmax_ref) and not neg:
        F.append(Finding("oracle", "opa_first_optimal", cc, f"first decorrelation time {T[0]:.8g}, maximum of the functional over the retained PCs {tmax_ref:.8g}"))
    return {"findings": F, "info": {"oracle_checks": {"n": checks}, "dist": {"kind": case["kind"], "tau_max": "large" if tau_max > 20 else "small", "neg": neg}}}
