"""C10 — named methods coincide with the general method at their special parameter values."""
from __future__ import annotations

from harness.common import *  # noqa: F401,F403
from harness.common import Finding, np, xr, xe, relerr
from harness import zoo
from harness.props.c07 import to_label_matrix, gauge_align, field

RULE = ("pairs of fitted models on the same data: MCA/CCA/RDA (+Complex/Hilbert) vs CPCCA at alpha 1 / 0 / (0,1); MCA(X,X) vs EOF; complex "
        "model on real data vs real model; ExtendedEOF(embedding=1) vs EOF; SparsePCA(alpha=beta=0) vs EOF; PCA keeping all modes vs no "
        "PCA (incl. complex, inverse_transform and patterns); two-view multi.CCA vs cross.CCA; over preprocessing flags (incl. per-field), "
        "weights, centre on/off, n_modes; equalities up to the per-mode sign/phase; distinct by (pair, config)")
PAIRS = ["mca_cpcca", "cca_cpcca", "rda_cpcca", "mca_self_eof", "complex_real_eof", "complex_real_mca", "eeof_eof", "sparse_eof", "pca_all", "mcca_cca"]


def cases(seed, tier, broken=()):
    rng = np.random.default_rng(seed)
    reps = {"quick": 6, "thorough": 80, "search": 25}[tier]
    out = []
    for r in range(reps):
        for pair in PAIRS:
            out.append({"pair": pair, "mseed": int(rng.integers(0, 2**31)), "k": int(rng.integers(1, 5)), "variant": str(rng.choice(["", "Complex", "Hilbert"])),
                        "center": bool(rng.random() < 0.6), "standardize": bool(rng.random() < 0.5), "use_coslat": bool(rng.random() < 0.5),
                        "weights": bool(rng.random() < 0.4), "std2": bool(rng.random() < 0.5), "use_pca": bool(rng.random() < 0.5),
                        "alpha": [float(rng.choice([0.0, 0.5, 1.0])) for _ in range(2)], "solver": str(rng.choice(["full", "full", "randomized"]))})
            # stratify the flags that matter for the pair instead of leaving them to chance
            c = out[-1]
            c["center"] = bool(r % 2 == 0)
            c["solver"] = ["full", "randomized"][r % 2]
            if pair in ("eeof_eof",):
                c["standardize"] = bool((r // 2) % 2 == 0)
                c["use_coslat"] = c["weights"] = bool((r // 2) % 2 == 0) and bool(r % 3 != 2)
            if pair in ("pca_all", "mca_cpcca", "cca_cpcca", "rda_cpcca"):
                c["variant"] = ["", "Complex", "Hilbert"][r % 3]
            # every option of the PCA pre-reduction given explicitly and identically to both classes, on data with a flat spectrum (the number
            # of PCs that survive a variance threshold then depends on each of them)
            c["pca_opts"] = bool(pair in ("mca_cpcca", "cca_cpcca", "rda_cpcca") and r % 2 == 1)
    return out


def nontrivial_key(case, info):
    return tuple(sorted((k, str(v)) for k, v in case.items() if k != "mseed"))


def cmp_models(tag, cls_a, ma, cls_b, mb, F, cc, cplx, tol=1e-7, spectrum=True, what=("scores", "components")):
    def spec(cls, m):
        cls = cls.replace("+pca", "")
        if zoo.is_cross(cls):
            return np.asarray(m.data["singular_values"].values)
        return np.asarray(m.explained_variance().values)

    if spectrum:
        e = relerr(spec(cls_a, ma), spec(cls_b, mb))
        if e > tol:
            F.append(Finding("oracle", tag, cc + "|spectrum", f"{cls_a} vs {cls_b}: spectrum differs by rel {e:.2e}: {spec(cls_a, ma)[:3]} vs {spec(cls_b, mb)[:3]}"))
            return
    for w in what:
        ca_, cb_ = cls_a.replace("+pca", ""), cls_b.replace("+pca", "")
        fa = zoo.scores(ca_, ma) if w == "scores" else zoo.components(ca_, ma)
        fb = zoo.scores(cb_, mb) if w == "scores" else zoo.components(cb_, mb)
        for i, (a, b) in enumerate(zip(fa, fb)):
            ra, rb = to_label_matrix([a]), to_label_matrix([b])
            if set(ra) != set(rb):
                F.append(Finding("oracle", tag, cc + f"|{w}|labels", f"{cls_a} vs {cls_b}: {w}[{i}] label sets differ"))
                continue
            keys = sorted(ra, key=lambda k: (k[0], sorted(k[1])))
            A = np.array([ra[k] for k in keys]).astype(complex if cplx else float)
            B = gauge_align(A, np.array([rb[k] for k in keys]).astype(complex if cplx else float), cplx)
            e = relerr(A, B)
            if e > tol:
                F.append(Finding("oracle", tag, cc + f"|{w}", f"{cls_a} vs {cls_b}: {w}[{i}] differ by rel {e:.2e}"))


def run(case):
    F = []
    pair = case["pair"]
    rng = np.random.default_rng(case["mseed"])
    k = case["k"]
    var = case["variant"] if pair in ("mca_cpcca", "cca_cpcca", "rda_cpcca", "pca_all") else ""
    cplx_in = var == "Complex"
    n = 70
    X = field(rng, n, 3, 4, cplx_in, off=2.0)
    Y = field(rng, n, 3, 3, cplx_in, off=-1.0) + 0.5 * X.isel(lon=slice(0, 3)).values
    WX = xr.DataArray(rng.uniform(0.3, 2.0, size=(3, 4)), dims=("lat", "lon"), coords={"lat": X.lat, "lon": X.lon}) if case["weights"] else None
    WY = xr.DataArray(rng.uniform(0.3, 2.0, size=(3, 3)), dims=("lat", "lon"), coords={"lat": Y.lat, "lon": Y.lon}) if case["weights"] else None
    std = [case["standardize"], case["std2"]]
    common = {"n_modes": k, "solver": "full", "standardize": std, "use_coslat": case["use_coslat"], "use_pca": case["use_pca"], "n_pca_modes": "all"}
    if var == "Hilbert":
        common["padding"] = "none"
    if case.get("pca_opts"):
        X = X + 3.0 * field(np.random.default_rng(case["mseed"] + 5), n, 3, 4, cplx_in).copy(data=np.random.default_rng(case["mseed"] + 6).normal(size=(n, 3, 4))).values
        Y = Y + 3.0 * np.random.default_rng(case["mseed"] + 7).normal(size=(n, 3, 3))
        common.update(use_pca=True, n_pca_modes=[0.9, 0.8][case["mseed"] % 2], pca_init_rank_reduction=1.0, random_state=1)
        common["n_modes"] = min(k, 2)
    cc = pair + ("|" + var if var else "") + ("|pca-options" if case.get("pca_opts") else "")
    checks = 1
    gc = bool(var)

    def fitx(cls, **kw):
        c = dict(common)
        c.update(kw)
        return getattr(xe.cross, cls)(**c).fit(X, Y, "time", weights_X=WX, weights_Y=WY)

    if pair in ("mca_cpcca", "cca_cpcca", "rda_cpcca"):
        named = {"mca_cpcca": "MCA", "cca_cpcca": "CCA", "rda_cpcca": "RDA"}[pair]
        al = {"mca_cpcca": 1.0, "cca_cpcca": 0.0, "rda_cpcca": [0.0, 1.0]}[pair]
        a = fitx(var + named)
        b = fitx(var + "CPCCA", alpha=al)
        cmp_models("named_is_cpcca", var + named, a, var + "CPCCA", b, F, cc, gc)
        pa, pb = a.get_params(), b.get_params()
        if "alpha" in pa and named != "CPCCA" and False:
            pass
    elif pair == "mca_self_eof":
        e = xe.single.EOF(n_modes=k, solver="full", center=True, standardize=case["standardize"], use_coslat=case["use_coslat"]).fit(X, "time", weights=WX)
        m = xe.cross.MCA(n_modes=k, solver="full", standardize=case["standardize"], use_coslat=case["use_coslat"], use_pca=case["use_pca"], n_pca_modes="all").fit(
            X, X, "time", weights_X=WX, weights_Y=WX)
        ev = np.asarray(e.explained_variance().values)
        sv = np.asarray(m.data["singular_values"].values)
        if relerr(ev, sv) > 1e-7:
            F.append(Finding("oracle", "mca_self_is_eof", cc + "|spectrum", f"MCA(X,X) singular values {sv[:3]} vs EOF explained variances {ev[:3]}"))
        else:
            for i in (0, 1):
                ra, rb = to_label_matrix([e.components()]), to_label_matrix([m.components()[i]])
                keys = sorted(ra, key=lambda q: (q[0], sorted(q[1])))
                A = np.array([ra[q] for q in keys])
                B = gauge_align(A, np.array([rb[q] for q in keys]), False)
                if relerr(A, B) > 1e-6:
                    F.append(Finding("oracle", "mca_self_is_eof", cc + "|components", f"MCA(X,X) components{i+1} differ from the EOFs by rel {relerr(A, B):.2e}"))
    elif pair == "complex_real_eof":
        kw = dict(n_modes=k, solver="full", center=case["center"], standardize=case["standardize"], use_coslat=case["use_coslat"])
        a = xe.single.EOF(**kw).fit(X, "time", weights=WX)
        b = xe.single.ComplexEOF(**kw).fit(X, "time", weights=WX)
        cmp_models("complex_on_real", "EOF", a, "ComplexEOF", b, F, cc, True)
        # and the rotated versions
        if k >= 2:
            try:
                ra = xe.single.EOFRotator(n_modes=k).fit(a)
                rb = xe.single.ComplexEOFRotator(n_modes=k).fit(b)
                if relerr(np.asarray(ra.explained_variance().values), np.asarray(rb.explained_variance().values)) > 1e-5:
                    F.append(Finding("oracle", "complex_on_real", cc + "|rotated", "rotated explained variance differs between EOFRotator and ComplexEOFRotator on real data"))
            except RuntimeError:
                pass
    elif pair == "complex_real_mca":
        a = fitx("MCA")
        b = fitx("ComplexMCA")
        cmp_models("complex_on_real", "MCA", a, "ComplexMCA", b, F, cc, True)
    elif pair == "eeof_eof":
        kw = dict(n_modes=k, solver="full", center=case["center"], standardize=case["standardize"], use_coslat=case["use_coslat"])
        a = xe.single.EOF(**kw).fit(X, "time", weights=WX)
        b = xe.single.ExtendedEOF(tau=int(rng.integers(1, 4)), embedding=1, **kw).fit(X, "time", weights=WX)
        e = relerr(np.asarray(a.explained_variance().values), np.asarray(b.explained_variance().values))
        if e > 1e-7:
            F.append(Finding("oracle", "eeof_single_embedding_is_eof", cc + "|spectrum", f"explained variance differs by rel {e:.2e} (center={case['center']}, std={case['standardize']}, coslat={case['use_coslat']}, weights={case['weights']})"))
        else:
            ra = to_label_matrix([a.components()])
            rb = to_label_matrix([b.components().isel(embedding=0, drop=True)])
            keys = sorted(ra, key=lambda q: (q[0], sorted(q[1])))
            A = np.array([ra[q] for q in keys])
            B = gauge_align(A, np.array([rb[q] for q in keys]), False)
            if relerr(A, B) > 1e-6:
                F.append(Finding("oracle", "eeof_single_embedding_is_eof", cc + "|components", f"components differ by rel {relerr(A, B):.2e}"))
            sa = to_label_matrix([a.scores()])
            sb = to_label_matrix([b.scores()])
            keys = sorted(sa, key=lambda q: (q[0], sorted(q[1])))
            A = np.array([sa[q] for q in keys])
            B = gauge_align(A, np.array([sb[q] for q in keys]), False)
            if relerr(A, B) > 1e-6:
                F.append(Finding("oracle", "eeof_single_embedding_is_eof", cc + "|scores", f"scores differ by rel {relerr(A, B):.2e}"))
    elif pair == "sparse_eof":
        # low-rank signal + small noise: the randomised compression is then accurate to the noise level
        t = np.arange(n)[:, None, None]
        S = sum((4.0 - j) * np.sin(t * (0.2 + 0.13 * j) + j) * rng.normal(size=(1, 3, 4)) for j in range(3)) + 1e-3 * rng.normal(size=(n, 3, 4))
        Xs = xr.DataArray(S + 1.0, dims=("time", "lat", "lon"), coords=X.coords, name="u")
        kk = min(k, 3)
        solver = case["solver"]
        a = xe.single.EOF(n_modes=kk, solver="full", standardize=case["standardize"], use_coslat=case["use_coslat"]).fit(Xs, "time", weights=WX)
        b = xe.single.SparsePCA(n_modes=kk, alpha=0, beta=0, solver=solver, random_state=3, standardize=case["standardize"], use_coslat=case["use_coslat"]).fit(Xs, "time", weights=WX)
        e = relerr(np.asarray(a.explained_variance().values), np.asarray(b.explained_variance().values))
        tol = 5e-3
        if e > tol:
            F.append(Finding("oracle", "sparse_no_penalty_is_eof", cc + f"|spectrum|{solver}", f"explained variance differs by rel {e:.2e} (solver={solver}): {np.asarray(b.explained_variance().values)[:3]} vs EOF {np.asarray(a.explained_variance().values)[:3]}"))
        else:
            ra, rb = to_label_matrix([a.components()]), to_label_matrix([b.components()])
            keys = sorted(ra, key=lambda q: (q[0], sorted(q[1])))
            A = np.array([ra[q] for q in keys])
            B = gauge_align(A, np.array([rb[q] for q in keys]), False)
            if relerr(A, B) > 2e-2:
                F.append(Finding("oracle", "sparse_no_penalty_is_eof", cc + f"|components|{solver}", f"components differ by rel {relerr(A, B):.2e}"))
    elif pair == "pca_all":
        cls = var + str(rng.choice(["CPCCA", "MCA", "CCA", "RDA"]))
        kw = {"alpha": case["alpha"]} if cls.endswith("CPCCA") else {}
        a = fitx(cls, use_pca=False, **kw)
        b = fitx(cls, use_pca=True, n_pca_modes="all", **kw)
        cmp_models("pca_all_modes_is_no_pca", cls, a, cls + "+pca", b, F, cc + "|" + cls.replace(var, ""), gc, tol=1e-6)
        # maps back to feature space
        try:
            ia = a.inverse_transform(*a.scores())
            ib = b.inverse_transform(*b.scores())
            for i, (u, v) in enumerate(zip(ia, ib)):
                e = relerr(np.asarray(u.transpose(*v.dims).values), np.asarray(v.values))
                if e > 1e-6:
                    F.append(Finding("oracle", "pca_all_modes_is_no_pca", cc + "|inverse_transform", f"{cls}: inverse_transform differs by rel {e:.2e} (field {i})"))
            if not var:
                ha = a.homogeneous_patterns()[0]
                hb = b.homogeneous_patterns()[0]
                for i, (u, v) in enumerate(zip(ha, hb)):
                    e = relerr(np.abs(np.asarray(u.transpose(*v.dims).values)), np.abs(np.asarray(v.values)))
                    if e > 1e-6:
                        F.append(Finding("oracle", "pca_all_modes_is_no_pca", cc + "|patterns", f"{cls}: homogeneous patterns differ by rel {e:.2e} (field {i})"))
        except NotImplementedError:
            pass
    elif pair == "mcca_cca":
        kk = min(k, 3)
        a = xe.cross.CCA(n_modes=kk, solver="full", use_pca=False, use_coslat=case["use_coslat"]).fit(X, Y, "time")
        b = xe.multi.CCA(n_modes=kk, pca=False, use_coslat=case["use_coslat"]).fit([X, Y], "time")

        def cors(sc):
            s1 = np.asarray(sc[0].transpose("time", "mode").values)
            s2 = np.asarray(sc[1].transpose("time", "mode").values)
            return np.array([abs(np.corrcoef(s1[:, j], s2[:, j])[0, 1]) for j in range(s1.shape[1])])

        ca, cb = cors(a.scores()), cors(b.scores())
        if relerr(ca, cb) > 1e-6:
            F.append(Finding("oracle", "two_view_mcca_is_cca", cc, f"canonical correlations: cross.CCA {ca} vs multi.CCA {cb}"))
    return {"findings": F, "info": {"oracle_checks": {"pairs": checks}, "dist": {"pair": pair, "variant": var}}}
