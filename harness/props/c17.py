"""C17 — unusable input is rejected with an error, never answered with numbers."""
from __future__ import annotations

from harness.common import *  # noqa: F401,F403
from harness.common import Finding, np, xr, xe, exc_class
from harness import zoo
from harness.props.c07 import field

RULE = ("fault enumeration: every single-fault mutation of a valid call from the taxonomy (input type, sample/feature dimension faults, "
        "n_modes faults incl. > rank, negative alpha, unknown solver, transform data with missing/extra/renamed dimension, shifted or "
        "re-valued feature coordinate, dropped variable, shorter/longer list, unknown mode labels with normalized on/off, unequal "
        "sample counts) x model class, plus the explicitly valid variations that must be ACCEPTED; quick = stratified sample, thorough = "
        "the full taxonomy x classes; distinct by (fault, class)")
EXHAUSTIVE = {"quick": True, "thorough": True}
FAULTS = ["numpy_input", "list_of_numpy", "none_input", "unknown_dim", "empty_dim", "all_dims_sample", "dim_wrong_type",
          "n_modes_zero", "n_modes_negative", "n_modes_float_zero", "n_modes_float_negzero", "n_modes_float_negative", "n_modes_float_gt1", "n_modes_str", "n_modes_none", "n_modes_list", "n_modes_gt_rank",
          "alpha_negative", "unknown_solver", "rot_n_modes_gt_model",
          "tf_numpy", "tf_missing_dim", "tf_missing_dim_scalar_coord", "tf_missing_dim_sel", "tf_missing_sample_dim", "tf_extra_dim", "tf_renamed_dim", "tf_shifted_coord", "tf_revalued_coord", "tf_fewer_features",
          "tf_dropped_variable", "tf_list_shorter", "tf_list_longer", "tf_da_for_list",
          "inv_unknown_mode", "inv_unknown_mode_normalized", "inv_numpy",
          "cross_sample_count", "cross_y_numpy"]
VALID = ["ok_alpha_gt1", "ok_extra_variable", "ok_scores_extra_dim", "ok_plain"]
CLASSES = ["EOF", "ComplexEOF", "SparsePCA", "POP", "EOFRotator", "MCA", "CPCCA", "CCA", "MCARotator", "multi.CCA", "HilbertEOF", "ExtendedEOF", "OPA"]


def applicable(fault, cls):
    k = zoo.kind(cls)
    two = zoo.takes_two(cls)
    if (fault.startswith("tf_") or fault == "ok_extra_variable") and cls in zoo.NO_TRANSFORM:
        return False
    if fault.startswith("inv_") and (cls in zoo.NO_INVERSE or cls == "multi.CCA"):
        return False
    if fault in ("alpha_negative", "ok_alpha_gt1") and not (k in ("cross",) and cls.endswith("CPCCA")):
        return False
    if fault in ("cross_sample_count", "cross_y_numpy") and k not in ("cross",):
        return False
    if fault == "unknown_solver" and cls == "multi.CCA":
        return False
    if fault in ("n_modes_gt_rank",) and cls in ("multi.CCA", "POP", "OPA"):
        return False
    if fault == "rot_n_modes_gt_model" and "Rotator" not in cls:
        return False
    if fault.startswith("n_modes") and cls == "multi.CCA":
        return False
    if fault in ("tf_dropped_variable", "ok_extra_variable", "tf_list_shorter", "tf_list_longer", "tf_da_for_list") and k in ("multi",):
        return False
    if fault == "ok_scores_extra_dim" and (cls in zoo.NO_INVERSE or two):
        return False
    return True


def cases(seed, tier, broken=()):
    rng = np.random.default_rng(seed)
    out = []
    allc = [(f, c) for c in CLASSES for f in FAULTS + VALID if applicable(f, c)]
    if tier in ("thorough", "quick", "search"):
        # the whole fault taxonomy x class table is small (a few hundred calls, ~10 s): every tier enumerates it completely
        sel = allc
    else:
        # every fault at least once (rotating classes) + a random sample
        sel = []
        for i, f in enumerate(FAULTS + VALID):
            cs = [c for c in CLASSES if applicable(f, c)]
            for j in range(3):
                sel.append((f, cs[(i + j * 5) % len(cs)]))
        idx = rng.choice(len(allc), size=min(len(allc), {"quick": 40, "search": 200}[tier]), replace=False)
        sel += [allc[i] for i in idx]
        sel = list(dict.fromkeys(sel))
    for f, c in sel:
        out.append({"fault": f, "cls": c, "mseed": int(rng.integers(0, 2**31))})
    return out


def nontrivial_key(case, info):
    return (case["fault"], case["cls"])


def run(case):
    F = []
    fault, cls = case["fault"], case["cls"]
    rng = np.random.default_rng(case["mseed"])
    cplx = zoo.needs_complex_input(cls)
    n = 30
    X = field(rng, n, 3, 4, cplx, off=2.0)
    Y = field(rng, n, 3, 3, cplx, off=-1.0) + 0.5 * X.isel(lon=slice(0, 3)).values
    two = zoo.takes_two(cls)
    k = zoo.kind(cls)
    struct_ds = fault in ("tf_dropped_variable", "ok_extra_variable")
    struct_list = fault in ("tf_list_shorter", "tf_list_longer", "tf_da_for_list")
    Xin = X
    if struct_ds:
        Xin = xr.Dataset({"a": X, "b": X * 2.0 + 1.0})
    if struct_list:
        Xin = [X, (X * 0.5).isel(lon=slice(0, 2))]
    data = (Xin, Y) if two else Xin
    if cls == "multi.CCA":
        data = (X, Y)
    cfg = zoo.default_cfg(cls, n_modes=2)
    if zoo.base_of(cls) in ("POP", "OPA"):
        cfg["n_pca_modes"] = 3
    dim = "time"
    rot = {"n_modes": 2, "power": 1} if "Rotator" in cls else None
    expect_error = fault in FAULTS

    def outcome(fn):
        try:
            r = fn()
            return "ok", r
        except Exception as e:  # noqa: BLE001
            return exc_class(e), str(e)[:120]

    def fit(data=data, dim=dim, cfg=cfg):
        return zoo.fit(cls, data, dim, cfg, rot_cfg=rot)[0]

    # ---------------- construction / fit faults
    if fault in ("numpy_input", "list_of_numpy", "none_input"):
        bad = {"numpy_input": np.asarray(X.values), "list_of_numpy": [np.asarray(X.values), np.asarray(X.values)], "none_input": None}[fault]
        res = outcome(lambda: fit(data=(bad, Y) if two and cls != "multi.CCA" else ((bad, np.asarray(Y.values)) if cls == "multi.CCA" else bad)))
    elif fault == "unknown_dim":
        res = outcome(lambda: fit(dim="no_such_dim"))
    elif fault == "empty_dim":
        res = outcome(lambda: fit(dim=()))
    elif fault == "all_dims_sample":
        res = outcome(lambda: fit(dim=("time", "lat", "lon")))
    elif fault == "dim_wrong_type":
        res = outcome(lambda: fit(dim=3))
    elif fault.startswith("n_modes"):
        v = {"n_modes_zero": 0, "n_modes_negative": -2, "n_modes_float_zero": 0.0, "n_modes_float_negzero": -0.0, "n_modes_float_negative": -0.25,
             "n_modes_float_gt1": 2.5, "n_modes_str": "many", "n_modes_none": None, "n_modes_list": [2],
             "n_modes_gt_rank": 500}[fault]
        c2 = dict(cfg, n_modes=v)
        res = outcome(lambda: fit(cfg=c2))
    elif fault == "rot_n_modes_gt_model":
        # a rotator asked to rotate more modes than the model has: refused, not answered with fewer
        res = outcome(lambda: zoo.fit(cls, data, dim, cfg, rot_cfg={"n_modes": 5, "power": 1})[0])
    elif fault == "alpha_negative":
        res = outcome(lambda: fit(cfg=dict(cfg, alpha=-0.5)))
    elif fault == "ok_alpha_gt1":
        res = outcome(lambda: fit(cfg=dict(cfg, alpha=1.7)))
        if res[0] == "ok":
            ref = fit(cfg=dict(cfg, alpha=1.0))
            a, b = np.asarray(res[1].data["singular_values"].values), np.asarray(ref.data["singular_values"].values)
            if np.abs(a - b).max() > 1e-9 * np.abs(b).max():
                F.append(Finding("oracle", "valid_accepted", f"{fault}|meaning", f"{cls}: alpha > 1 is accepted but does not mean 'no whitening' (differs from alpha = 1)"))
    elif fault == "unknown_solver":
        res = outcome(lambda: fit(cfg=dict(cfg, solver="bogus")))
    elif fault == "cross_sample_count":
        res = outcome(lambda: fit(data=(Xin, Y.isel(time=slice(0, n - 3)))))
    elif fault == "cross_y_numpy":
        res = outcome(lambda: fit(data=(Xin, np.asarray(Y.values))))
    elif fault == "ok_plain":
        res = outcome(lambda: fit())
    else:
        # ---------------- faults on a fitted model
        try:
            m = fit()
        except RuntimeError as e:
            if "did not converge" in str(e):
                return {"findings": [], "info": {}}
            raise

        def tf(d):
            return zoo.transform(cls, m, d)

        def second(d):
            return (d, Y) if two and cls != "multi.CCA" else ((d, Y) if cls == "multi.CCA" else d)

        if fault == "tf_numpy":
            res = outcome(lambda: tf(second(np.asarray(X.values))))
        elif fault == "tf_missing_dim":
            res = outcome(lambda: tf(second(X.isel(lon=0, drop=True))))
        elif fault == "tf_missing_dim_scalar_coord":
            # the usual way of taking a slice leaves the dimension behind as a SCALAR coordinate: the dimension is missing all the same
            res = outcome(lambda: tf(second(X.isel(lon=1))))
        elif fault == "tf_missing_dim_sel":
            res = outcome(lambda: tf(second(X.sel(lat=X.lat.values[0]))))
        elif fault == "tf_missing_sample_dim":
            res = outcome(lambda: tf(second(X.isel(time=0, drop=True))))
        elif fault == "tf_extra_dim":
            res = outcome(lambda: tf(second(X.expand_dims(member=[0, 1]))))
        elif fault == "tf_renamed_dim":
            res = outcome(lambda: tf(second(X.rename(lon="longitude"))))
        elif fault == "tf_shifted_coord":
            res = outcome(lambda: tf(second(X.assign_coords(lon=X.lon + 5.0))))
        elif fault == "tf_revalued_coord":
            res = outcome(lambda: tf(second(X.assign_coords(lon=X.lon.values[::-1] * 1.5))))
        elif fault == "tf_fewer_features":
            res = outcome(lambda: tf(second(X.isel(lon=slice(0, 3)))))
        elif fault == "tf_dropped_variable":
            res = outcome(lambda: tf(second(Xin[["a"]])))
        elif fault == "ok_extra_variable":
            res = outcome(lambda: tf(second(Xin.assign(c=("z", np.arange(3.0))))))
            if res[0] == "ok":
                ref = tf(second(Xin))
                if any(np.abs(np.asarray(a.values) - np.asarray(b.values)).max() > 1e-9 for a, b in zip(res[1], ref)):
                    F.append(Finding("oracle", "valid_accepted", f"{fault}|meaning", f"{cls}: an additional Dataset variable changed the projection"))
        elif fault == "tf_list_shorter":
            res = outcome(lambda: tf(second([X])))
        elif fault == "tf_list_longer":
            res = outcome(lambda: tf(second([X, (X * 0.5).isel(lon=slice(0, 2)), X * 3.0])))
        elif fault == "tf_da_for_list":
            res = outcome(lambda: tf(second(X)))
        elif fault in ("inv_unknown_mode", "inv_unknown_mode_normalized"):
            sc = zoo.scores(cls, m)
            bad = [s.isel(mode=[0, 1]).assign_coords(mode=[1, 77]) for s in sc]
            kw = {"normalized": True} if fault.endswith("normalized") and not two else {}
            res = outcome(lambda: zoo.inverse_transform(cls, m, bad, **kw))
        elif fault == "inv_numpy":
            sc = zoo.scores(cls, m)
            res = outcome(lambda: zoo.inverse_transform(cls, m, [np.asarray(s.values) for s in sc]))
        elif fault == "ok_scores_extra_dim":
            sc = zoo.scores(cls, m)[0]
            ext = xr.concat([sc, sc * 2.0], dim="member").assign_coords(member=[0, 1])
            res = outcome(lambda: zoo.inverse_transform(cls, m, [ext]))
            if res[0] == "ok":
                r0 = zoo.inverse_transform(cls, m, [sc])[0]
                r1 = res[1][0]
                if "member" not in r1.dims or np.abs(np.asarray(r1.isel(member=0).transpose(*r0.dims).values) - np.asarray(r0.values)).max() > 1e-9:
                    F.append(Finding("oracle", "valid_accepted", f"{fault}|meaning", f"{cls}: scores with an additional dimension are not reconstructed member by member"))
        else:
            raise KeyError(fault)
    got = res[0]
    if expect_error and got == "ok":
        detail = res[1]
        shape = ""
        try:
            r0 = detail[0] if isinstance(detail, (list, tuple)) else detail
            shape = f" (returned {type(r0).__name__} {getattr(r0, 'shape', '')})"
        except Exception:  # noqa: BLE001
            pass
        F.append(Finding("oracle", "fault_rejected", fault, f"{cls}: the call was answered instead of refused{shape}"))
    if not expect_error and got != "ok":
        F.append(Finding("oracle", "valid_accepted", fault, f"{cls}: a valid call raised {got}: {res[1]}"))
    return {"findings": F, "info": {"oracle_checks": {"n": 1}, "outcome": got, "dist": {"fault": fault, "cls": cls, "outcome": got}}}
