"""C01 — EOF-type modes are the exact eigen-decomposition of the preprocessed data."""
from __future__ import annotations

from harness.common import *  # noqa: F401,F403
from harness.common import Finding, np, xr, xe, relerr, mode_matrix
from harness import eofcase

RULE = ("structured generator: class (EOF/ComplexEOF/HilbertEOF/ExtendedEOF) x shape kind (tall/wide/single feature/square) x "
        "7 spectrum kinds x scale 1e-8..1e8 x real/complex x 16 flag combinations + weights x solver x k in 1..rank; "
        "non-trivial = fit succeeded and >=1 mode with non-zero variance; distinct by (class, shape kind, spectrum, flags, solver, k)")
ASSUMPTIONS = ["accuracy of the randomised solver is a runtime matter: asserted only with a spectral gap and a loose tolerance"]
TOL = 2e-9


def cases(seed, tier, broken=()):
    rng = np.random.default_rng(seed)
    n = {"quick": 160, "thorough": 4000, "search": 1200}[tier]
    out = []
    for i in range(n):
        solvers = ("full",) if i % 5 else ("auto", "randomized")
        c = eofcase.gen_eof_case(rng, solvers=solvers)
        c["kind"] = "eigen"
        out.append(c)
    # tall matrices whose spectrum spans seven decades, ALL modes requested, exact solver: every singular value must be right relative
    # to itself (a solver that works on the squared matrix loses everything below 1e-8 of the largest one)
    for i in range({"quick": 6, "thorough": 60, "search": 30}[tier]):
        c = eofcase.gen_eof_case(rng, classes=("EOF", "ComplexEOF"), solvers=("full",))
        ny, nx = int(rng.integers(1, 3)), int(rng.integers(3, 5))
        c.update(kind="eigen", ny=ny, nx=nx, n=ny * nx * int(rng.integers(10, 15)), spec="logwide", k=ny * nx, standardize=False,
                 scale=float(10.0 ** int(rng.integers(-3, 4))))
        out.append(c)
    return out


def nontrivial_key(case, info):
    if not info.get("nontrivial"):
        return None
    return (case["cls"], case["n"] > case["ny"] * case["nx"], case["ny"] * case["nx"] == 1, case["spec"], case["cplx"], case["center"],
            case["standardize"], case["use_coslat"], case["weights"], case["solver"], case["k"])


def embed(M, tau, emb):
    n = M.shape[0]
    cut = (emb - 1) * tau
    blocks = [M[i * tau: n - cut + i * tau, :] for i in range(emb)]
    return np.concatenate(blocks, axis=1)


def run(case):
    F = []
    cls = case["cls"]
    X, W = eofcase.build_input(case)
    m = eofcase.make_model(case)
    cc = f"{cls}|{'full' if case['solver']=='full' else 'rand'}"
    try:
        m.fit(X, "time", weights=W)
    except ValueError as e:
        # the only legitimate refusal: more modes requested than the rank bound min(n, p) of the decomposed matrix
        if "rank" in str(e) or "`k` must be an integer satisfying" in str(e):
            return {"findings": [], "info": {"nontrivial": False, "dist": {"cls": cls, "outcome": "refused-rank"}}}
        raise
    D = np.asarray(m.data["input_data"].values)
    sdim, fdim = m.data["input_data"].dims
    n = D.shape[0]
    k = int(m.singular_values().size)
    exact = case["solver"] == "full"
    tol = TOL if exact else 1e-5

    # --- the decomposed matrix is the independently preprocessed one
    Dref = eofcase.ref_preprocess(X, W, case)
    if cls in ("EOF", "ComplexEOF"):
        if relerr(D, Dref) > 1e-10:
            F.append(Finding("oracle", "input_data_is_preprocessed", cc, f"input_data differs from independent preprocessing by {relerr(D, Dref):.2e}"))
    elif cls == "HilbertEOF":
        re_ref = Dref.real
        if relerr(D.real, re_ref) > 1e-9:
            F.append(Finding("oracle", "hilbert_real_part", cc, f"real part of augmented data differs by {relerr(D.real, re_ref):.2e}"))
        if case.get("padding") == "none":
            from scipy.signal import hilbert as sp_hilbert

            h = sp_hilbert(Dref.real, axis=0)
            h = h - 1j * h.imag.mean(axis=0)
            if relerr(D, h) > 1e-9:
                F.append(Finding("oracle", "hilbert_analytic_signal", cc, f"augmented data differs from scipy analytic signal by {relerr(D, h):.2e}"))
    elif cls == "ExtendedEOF":
        E = embed(Dref, case["tau"], case["embedding"])
        if case["center"]:
            E = E - E.mean(axis=0)
        # column order of the model's matrix is an internal choice: compare Gram spectra and shapes
        if D.shape != E.shape:
            F.append(Finding("oracle", "eeof_embedded_shape", cc, f"decomposed matrix {D.shape} vs delay-embedded reference {E.shape}"))
        else:
            a = np.linalg.svd(D, compute_uv=False)
            b = np.linalg.svd(E, compute_uv=False)
            if relerr(a, b) > 1e-9:
                F.append(Finding("oracle", "eeof_embedded_matrix", cc, f"singular spectrum of decomposed matrix differs from delay-embedded reference by {relerr(a, b):.2e}"))

    # --- gather results as matrices
    comps = m.components()
    scores = m.scores()
    s = np.asarray(m.singular_values().values)
    ev = np.asarray(m.explained_variance().values)
    if cls == "ExtendedEOF":
        Cd = m.data["components"].transpose("embedding", fdim, "mode")
        C = np.asarray(Cd.values).reshape(-1, Cd.sizes["mode"])
    else:
        C = np.asarray(m.data["components"].transpose(fdim, "mode").values)  # (p, k) in the 2-D space
    S = np.asarray(m.data["scores"].transpose(sdim, "mode").values)
    # public accessors must agree with the stored 2-D results (label-wise re-assembly is C02's business)
    Cpub = mode_matrix(comps)
    Spub = mode_matrix(scores)
    if cls != "ExtendedEOF" and Cpub.shape[0] == C.shape[0] and abs(np.linalg.norm(Cpub[~np.isnan(Cpub).any(axis=1)]) - np.linalg.norm(C)) > 1e-9 * max(1.0, np.linalg.norm(C)):
        F.append(Finding("oracle", "components_public_vs_2d", cc, "public components() differ in norm from the 2-D components"))
    sref = np.linalg.svd(D, compute_uv=False)
    smax = max(sref[0], 1e-300)
    gap_ok = exact or (k < sref.size and sref[k] < 0.3 * sref[k - 1]) or k == sref.size
    nontrivial = bool(sref[0] > 0)
    checks = 0
    if not gap_ok:
        return {"findings": F, "info": {"nontrivial": nontrivial, "oracle_checks": {"skipped_no_gap": 1}, "dist": {"cls": cls, "outcome": "no-gap"}}}

    # components orthonormal
    G = C.conj().T @ C
    err = np.abs(G - np.eye(k)).max()
    checks += 1
    if err > (1e-9 if exact else 1e-6):
        F.append(Finding("oracle", "components_orthonormal", cc, f"|C^H C - 1| = {err:.2e}", observed=G))
    # scores mutually orthogonal with norms = singular values
    GS = S.conj().T @ S
    errS = np.abs(GS - np.diag(s**2)).max() / smax**2
    checks += 1
    if errS > tol * 10:
        F.append(Finding("oracle", "scores_gram", cc, f"|S^H S - diag(s^2)|/s1^2 = {errS:.2e}"))
    # singular values / explained variance = leading eigenvalues (descending) of the (N-1) covariance
    lam = np.sort(np.linalg.eigvalsh(D.conj().T @ D / (n - 1)))[::-1]
    lam = np.clip(lam, 0, None)
    lamk = np.zeros(k)
    lamk[: min(k, lam.size)] = lam[:k]
    errE = np.abs(ev - lamk).max() / max(lam[0], 1e-300)
    checks += 1
    if errE > tol * 10:
        F.append(Finding("oracle", "expvar_are_eigenvalues", cc, f"explained variance vs eigvalsh(cov): rel {errE:.2e}; ev={ev[:4]} lam={lamk[:4]}",
                         observed=ev, expected=lamk))
    if np.any(np.diff(ev) > tol * max(lam[0], 1e-300)) or np.any(ev < 0):
        F.append(Finding("oracle", "expvar_descending_nonneg", cc, f"explained variance not descending/non-negative: {ev}"))
    if relerr(s, sref[:k] if k <= sref.size else np.pad(sref, (0, k - sref.size))) > tol * 10:
        F.append(Finding("oracle", "singular_values", cc, f"singular values differ from numpy SVD by {relerr(s, sref[:k]):.2e}"))
    if exact:
        # every retained singular value is right RELATIVE TO ITSELF (a solver working on X^H X would lose the small ones), and the
        # normalised score series of the resolved modes are orthonormal
        keep = [i for i in range(min(k, sref.size)) if sref[i] >= 1e-9 * smax and sref[i] > 0]
        if keep:
            checks += 1
            rel = np.abs(s[keep] - sref[keep]) / sref[keep]
            if rel.max() > 1e-6:
                i0 = keep[int(np.argmax(rel))]
                F.append(Finding("oracle", "singular_values", cc + "|relative", f"singular value {i0 + 1} = {s[i0]:.6e}, numpy SVD {sref[i0]:.6e} (rel {rel.max():.2e}; s/s1 = {sref[i0] / smax:.1e})"))
            Sn = S[:, keep] / s[keep]
            eo = np.abs(Sn.conj().T @ Sn - np.eye(len(keep))).max()
            if eo > 1e-6:
                F.append(Finding("oracle", "scores_gram", cc + "|normalised", f"normalised scores of the resolved modes are not orthonormal: {eo:.2e}"))
    # eigen relation cov C = C diag(lambda)
    cov = D.conj().T @ D / (n - 1)
    errEig = np.abs(cov @ C - C * ev).max() / max(lam[0], 1e-300)
    checks += 1
    if errEig > (1e-8 if exact else 1e-4):
        F.append(Finding("oracle", "expvar_eigen", cc, f"|cov C - C diag(ev)| rel {errEig:.2e}"))
    # ratios against the total variance of the same anomalies (centring on)
    if case["center"]:
        tr = float(np.trace(cov).real)
        if tr > 0:
            ratio = np.asarray(m.explained_variance_ratio().values)
            errR = np.abs(ratio - lamk / tr).max()
            checks += 1
            if errR > tol * 10:
                F.append(Finding("oracle", "ratio_eq", cc, f"explained_variance_ratio vs lambda/trace: {errR:.2e}"))
    # Eckart-Young: the rank-k reconstruction attains the tail sum, which no rank-k matrix beats
    R = S @ C.conj().T
    err2 = np.linalg.norm(D - R) ** 2
    tail = float((sref[k:] ** 2).sum())
    checks += 1
    if abs(err2 - tail) > (1e-9 if exact else 1e-5) * smax**2 * max(1, sref.size):
        F.append(Finding("oracle", "recon_error", cc, f"|D - S C^H|_F^2 = {err2:.6e}, optimal tail sum = {tail:.6e}"))
    return {"findings": F, "info": {"nontrivial": nontrivial, "oracle_checks": {"eigen": checks},
                                    "dist": {"cls": cls, "spec": case["spec"], "solver": case["solver"], "shape": "wide" if n < D.shape[1] else "tall"}}}
