"""C16 — fractional whitening and PCA reduction are exact, invertible changes of basis."""
from __future__ import annotations

from harness.common import *  # noqa: F401,F403
from harness.common import Finding, np, xr, xe, relerr, orth

RULE = ("centred matrices with n_samples > n_features, full column rank and prescribed condition number up to 1e6 (singular spectrum "
        "geometric between 1 and 1/cond), real and complex, alpha grid in [0,1] incl. end points, PCA with integer / fractional / 'all' "
        "mode counts, numpy and dask back-ends (feature dimension in one chunk); distinct by (kind, dtype, cond decade, alpha, backend)")


def cases(seed, tier, broken=()):
    rng = np.random.default_rng(seed)
    n = {"quick": 60, "thorough": 1500, "search": 500}[tier]
    out = []
    for i in range(n):
        out.append({"kind": "whitener", "mseed": int(rng.integers(0, 2**31)), "n": int(rng.integers(30, 90)), "p": int(rng.integers(2, 9)),
                    "cplx": bool(i % 2), "logcond": float(rng.choice([0.3, 1.0, 2.0, 3.0, 4.0, 5.0, 6.0])),
                    "alpha": float(rng.choice([0.0, 0.25, 0.5, 0.75, 1.0, float(rng.uniform(0, 1))])), "dask": bool(i % 5 == 4), "scale": float(10.0 ** rng.integers(-3, 4)),
                    # the SAME Whitener object was fitted before, on data with fewer (or more) features: nothing of that fit may survive
                    "prefit": [0, 0, -1, 0, 1, 0][i % 6]})
    for i in range(max(20, n // 3)):
        out.append({"kind": "pca", "mseed": int(rng.integers(0, 2**31)), "n": int(rng.integers(30, 70)), "p": int(rng.integers(3, 10)),
                    "cplx": bool(i % 2), "logcond": float(rng.choice([0.5, 2.0, 4.0])), "n_modes": str(rng.choice(["all", "int", "float"])), "dask": bool(i % 5 == 4)})
    return out


def nontrivial_key(case, info):
    return tuple(sorted((k, str(v)) for k, v in case.items() if k != "mseed"))


def matrix(case):
    rng = np.random.default_rng(case["mseed"])
    n, p, cplx = case["n"], case["p"], case["cplx"]
    U = orth(rng, n, p, cplx)
    V = orth(rng, p, p, cplx)
    s = np.logspace(0, -case["logcond"], p) if p > 1 else np.ones(1)
    D = (U * s) @ V.conj().T * case.get("scale", 1.0) * np.sqrt(n)
    D = D - D.mean(axis=0)
    for j in range(int(case.get("collinear", 0))):
        if p - 1 - j >= 1:
            D[:, p - 1 - j] = D[:, : p - 1 - j] @ rng.normal(size=(p - 1 - j,))
    return D


def as_da(D, dask):
    X = xr.DataArray(D, dims=("sample", "feature"), coords={"sample": np.arange(D.shape[0]), "feature": np.arange(D.shape[1])}, name="X")
    if dask:
        X = X.chunk({"sample": max(2, D.shape[0] // 3), "feature": -1})
    return X


def run_whitener(case):
    from xeofs.preprocessing.whitener import Whitener

    F = []
    D = matrix(case)
    n, p = D.shape
    alpha = case["alpha"]
    X = as_da(D, case["dask"])
    cc = f"{'complex' if case['cplx'] else 'real'}|{'dask' if case['dask'] else 'numpy'}"
    try:
        w = Whitener(alpha=alpha)
        if case.get("prefit"):
            p0 = max(1, p - 2) if case["prefit"] < 0 else p + 2
            D0 = matrix(dict(case, p=p0, mseed=case["mseed"] + 7))
            w.fit(as_da(D0, case["dask"]))
            cc += "|refit-narrower-before" if case["prefit"] < 0 else "|refit-wider-before"
        w = w.fit(X)
        Z = np.asarray(w.transform(X).transpose("sample", "feature").values)
    except NotImplementedError:
        return {"findings": [], "info": {"dist": {"outcome": "refused"}}}
    cond = 10.0 ** case["logcond"]
    tol = max(1e-8, 1e-13 * cond**2)
    C = D.conj().T @ D / n
    ev, V = np.linalg.eigh(C)
    ev = np.clip(ev, 0, None)
    coll = bool(case.get("collinear"))
    if coll:
        cc += "|collinear"
        keep = ev > 1e-10 * ev.max()
        Ca = (V[:, keep] * ev[keep] ** alpha) @ V[:, keep].conj().T  # the power acts on the range of C
    else:
        Ca = (V * ev**alpha) @ V.conj().T
    sc = max(ev.max() ** alpha, 1e-300)
    checks = 0
    e = np.abs(Z.conj().T @ Z / n - Ca).max() / sc
    checks += 1
    if e > tol:
        F.append(Finding("oracle", "whitened_cov", cc, f"covariance of the whitened data vs C^alpha: rel {e:.2e} (alpha={alpha:.3f}, cond(X)={cond:.0e})"))
    back = np.asarray(w.inverse_transform_data(w.transform(X)).transpose("sample", "feature").values)
    e = relerr(back, D)
    checks += 1
    if e > tol * 10:
        F.append(Finding("oracle", "unwhiten", cc, f"inverse_transform_data(transform(X)) differs from X by rel {e:.2e} (alpha={alpha:.3f}, cond(X)={cond:.0e})"))
    if coll:
        return {"findings": F, "info": {"oracle_checks": {"n": checks}, "dist": {"kind": "whitener", "cond": "collinear", "alpha": round(alpha, 2), "backend": cc}}}
    if not w.is_identity:
        T = np.asarray(w.T.transpose("feature", "mode").values)
        Ti = np.asarray(w.Tinv.transpose("mode", "feature").values)
        checks += 3
        if np.abs(T - T.conj().T).max() > 1e-9 * np.abs(T).max():
            F.append(Finding("oracle", "T_hermitian", cc, f"T is not Hermitian: {np.abs(T - T.conj().T).max() / np.abs(T).max():.2e}"))
        if np.abs(Ti - Ti.conj().T).max() > tol * 10 * np.abs(Ti).max():
            F.append(Finding("oracle", "T_hermitian", cc + "|Tinv", f"Tinv is not Hermitian: {np.abs(Ti - Ti.conj().T).max() / np.abs(Ti).max():.2e}"))
        e = np.abs(T @ Ti - np.eye(p)).max()
        if e > tol * 100:
            F.append(Finding("oracle", "T_Tinv", cc, f"|T Tinv - 1| = {e:.2e} (alpha={alpha:.3f}, cond(X)={cond:.0e})"))
    # patterns there and back
    rng = np.random.default_rng(case["mseed"] + 1)
    Pm = rng.normal(size=(p, 2)) + (1j * rng.normal(size=(p, 2)) if case["cplx"] else 0)
    P = xr.DataArray(Pm, dims=("feature", "mode"), coords={"feature": np.arange(p), "mode": [1, 2]})
    Pb = np.asarray(w.inverse_transform_components(w.transform_components(P)).transpose("feature", "mode").values)
    e = relerr(Pb, Pm)
    checks += 1
    if e > tol * 100:
        F.append(Finding("oracle", "components_there_and_back", cc, f"patterns mapped into and out of the whitened space differ by rel {e:.2e} (alpha={alpha:.3f})"))
    Pb2 = np.asarray(w.transform_components(w.inverse_transform_components(P)).transpose("feature", "mode").values)
    e = relerr(Pb2, Pm)
    if e > tol * 100:
        F.append(Finding("oracle", "components_there_and_back", cc + "|out-in", f"patterns mapped out of and into the whitened space differ by rel {e:.2e} (alpha={alpha:.3f})"))
    # the pattern map is the adjoint of the data map: <X T, Q> consistent, i.e. transform_components(P) == T^H P
    if not w.is_identity:
        TP = np.asarray(w.transform_components(P).transpose("feature", "mode").values)
        e = relerr(TP, T.conj().T @ Pm)
        checks += 1
        if e > 1e-9:
            F.append(Finding("oracle", "components_map_is_adjoint", cc, f"transform_components(P) differs from T^H P by rel {e:.2e}"))
    return {"findings": F, "info": {"oracle_checks": {"n": checks}, "dist": {"kind": "whitener", "cond": case["logcond"], "alpha": round(alpha, 2), "backend": cc}}}


def run_pca(case):
    from xeofs.preprocessing.pca import PCA

    F = []
    D = matrix(case)
    n, p = D.shape
    X = as_da(D, case["dask"])
    nm = {"all": "all", "int": max(1, p - 2), "float": 0.9}[case["n_modes"]]
    cc = f"{'complex' if case['cplx'] else 'real'}|{'dask' if case['dask'] else 'numpy'}|{case['n_modes']}"
    try:
        pca = PCA(n_modes=nm, init_rank_reduction=1.0, random_state=3, compute_eagerly=True).fit(X)
        Z = pca.transform(X)
    except (NotImplementedError, ValueError) as e:
        if isinstance(e, ValueError) and "dask" not in str(e):
            raise
        return {"findings": [], "info": {"dist": {"outcome": "refused"}}}
    V = np.asarray(pca.V.transpose("feature", "mode").values)
    k = V.shape[1]
    checks = 0
    e = np.abs(V.conj().T @ V - np.eye(k)).max()
    checks += 1
    if e > 1e-8:
        F.append(Finding("oracle", "pca_basis_orthonormal", cc, f"|V^H V - 1| = {e:.2e}"))
    Vt = np.linalg.svd(D, full_matrices=False)[2][:k].conj().T
    sv = np.linalg.svd(D, compute_uv=False)
    gap = k == p or sv[k] < 0.7 * sv[k - 1]
    # the dask back-end decomposes with dask's compressed (randomised) SVD whose power iterations resolve a direction only
    # while (s_k / s_1)^9 stays above rounding level; the exact-subspace claim is checked where the solver is exact or that holds
    if case["dask"] and k < p and (sv[k - 1] / sv[0]) ** 9 < 1e-10:
        gap = False
    if gap:
        e = np.abs(V @ V.conj().T - Vt @ Vt.conj().T).max()
        checks += 1
        if e > 1e-6:
            F.append(Finding("oracle", "pca_spans_leading", cc, f"PCA basis does not span the leading principal subspace: projector differs by {e:.2e}"))
    Zv = np.asarray(Z.transpose("sample", "feature").values)
    back = np.asarray(pca.inverse_transform_data(Z).transpose("sample", "feature").values)
    proj = D @ V @ V.conj().T
    e = relerr(back, proj)
    checks += 1
    if e > 1e-8:
        F.append(Finding("oracle", "pca_inverse_is_projection", cc, f"inverse_transform_data(transform(X)) differs from the projection on the retained subspace by rel {e:.2e}"))
    rng = np.random.default_rng(case["mseed"] + 1)
    Q = rng.normal(size=(k, 2)) + (1j * rng.normal(size=(k, 2)) if case["cplx"] else 0)
    Pm = V @ Q  # a pattern inside the retained subspace
    P = xr.DataArray(Pm, dims=("feature", "mode"), coords={"feature": np.arange(p), "mode": [1, 2]})
    Pb = np.asarray(pca.inverse_transform_components(pca.transform_components(P)).transpose("feature", "mode").values)
    e = relerr(Pb, Pm)
    checks += 1
    if e > 1e-8:
        F.append(Finding("oracle", "components_there_and_back", cc, f"patterns inside the retained subspace come back changed by rel {e:.2e}"))
    return {"findings": F, "info": {"oracle_checks": {"n": checks}, "dist": {"kind": "pca", "n_modes": case["n_modes"], "backend": cc}}}


def run(case):
    return run_whitener(case) if case["kind"] == "whitener" else run_pca(case)
