"""usage: python3-vt harness/evidence_ok.py  — every committed evidence file is schema-valid, from a clean quick/thorough run
(all obligations discharged, no violations) and names the current repo commit"""
import glob, json, subprocess, sys
import jsonschema
sch = json.load(open('/root/.vp/EVIDENCE.schema.json'))
bad = 0
for f in sorted(glob.glob('/verif/evidence/C*.json')):
    d = json.load(open(f))
    try:
        jsonschema.validate(d, sch)
    except Exception as e:  # noqa: BLE001
        print(f, 'INVALID', str(e)[:200]); bad += 1; continue
    c = d['coverage']
    if c['obligations'] != c['discharged'] or d.get('violations'):
        print(f, 'NOT CLEAN', c['obligations'], c['discharged'], d.get('violations')); bad += 1
print('evidence files:', len(glob.glob('/verif/evidence/C*.json')), 'bad:', bad)
sys.exit(1 if bad else 0)
