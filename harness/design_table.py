"""usage: python3 harness/design_table.py  — rewrites §0.4 of DESIGN.md (between the DETECTION markers) from seeded/DETECTION.log"""
import json, re, os
V = os.path.dirname(os.path.dirname(os.path.abspath(__file__)))
rows, stats = [], {"n": 0, "input": 0, "obl_only": 0, "missed": 0, "obl_and_input": 0}
for ln in sorted(open(os.path.join(V, "seeded", "DETECTION.log"))):
    m = re.match(r"(C\d\d-m\d+) rc=(\d) violations=(\d+) no-input=(\d+) broken=\[(.*)\] ?(\[fail\].*)?$", ln.strip())
    if not m:
        continue
    id_, rc, nv, ni, br, first = m.groups()
    first = first or ""
    meta = json.load(open(os.path.join(V, "seeded", id_, "meta.json")))
    names = re.findall(r"BROKEN (\w+): ([^;]+);", br)
    ob = "; ".join(f"{k} {n.replace('XeofsProofs/Props/', 'Props/').replace('XeofsModel/', 'Model/')}" for k, n in names) or "—"
    site = re.search(r"oracle (\S+) \[", first)
    stats["n"] += 1
    if int(rc) == 0:
        res = "**missed**"; stats["missed"] += 1
    elif int(ni) > 0 and not site:
        res = "obligation only (`no-failing-input-found`)"; stats["obl_only"] += 1
    else:
        res = f"`{site.group(1) if site else '?'}` ({nv} replays)"; stats["input"] += 1
        if names:
            stats["obl_and_input"] += 1
    what = " ".join(meta["summary"].split())[:150].replace("|", "/")
    rows.append(f"| {id_} | {what}… | {ob} | {res} |")
head = (f"`harness/sweep_seeded.sh` applies every seeded change to /repo, runs the full check of its property and restores /repo.\n"
        f"Last full sweep (`seeded/DETECTION.log`, {stats['n']} changes from five rounds of fresh sub-agents): **{stats['input']} detected with a concrete failing "
        f"input** ({stats['obl_and_input']} of them also break a proof obligation, translator target or correspondence), "
        f"{stats['obl_only']} detected by a broken obligation only (`VIOLATION … no-failing-input-found`), {stats['missed']} missed.\n"
        "\"broken obligations\" lists what Tie A / the proofs / Tie B reported; \"—\" means only the oracle on the implementation saw it.\n\n"
        "| change | what it does | broken obligations | first oracle site |\n|---|---|---|---|\n")
p = os.path.join(V, "DESIGN.md")
s = open(p).read()
B, E = "<!-- DETECTION-TABLE-BEGIN -->", "<!-- DETECTION-TABLE-END -->"
if B not in s:
    i = s.index("`harness/sweep_seeded.sh` applies every seeded change")
    j = s.index("\n\nReverse diffs of fix commits are also detected")
    s = s[:i] + B + "\n" + E + s[j:]
i, j = s.index(B) + len(B), s.index(E)
s = s[:i] + "\n" + head + "\n".join(rows) + "\n" + s[j:]
open(p, "w").write(s)
print(stats)
