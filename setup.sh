#!/bin/bash
# MANIFEST.setup_cmd: regenerate the source-dependent Lean files and build the Lean project (offline; Mathlib is on the
# toolchain's search path). ~3-6 min cold.
cd "$(dirname "$0")"
/venv/bin/python translator/translate.py > /dev/null || exit 1
cd lean && lake build 2>&1 | tail -3
