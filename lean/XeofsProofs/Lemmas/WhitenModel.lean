import XeofsProofs.Bridge
import XeofsProofs.Lemmas.WhitenRank
import XeofsModel.Whiten
/-! The executable Whitener / PCA model in Mathlib's matrix language; C16's theorems restated on the executable definitions. -/
open XM Matrix XP.Whiten

variable {𝕜 : Type} [RCLike 𝕜] {n p k m r : ℕ}

namespace XP.WhitenM

theorem fracPower_toMatrix (V : Mat p p 𝕜) (s : Fin p → ℝ) (keep : Fin p → Bool) (q : ℝ) :
    (fracPower V s keep q).toMatrix = specPowM V.toMatrix s keep q := by
  unfold fracPower specPowM
  rw [toMatrix_mul, toMatrix_conjT]
  congr 1
  ext i j
  simp only [toMatrix_apply, Mat.get_ofFn, Matrix.mul_diagonal, Num.pow_real, Entry.ofReal_eq]
  by_cases h : keep j = true
  · simp [h]
  · simp only [h]; simp; rfl

theorem whitenCov_toMatrix (X : Mat n p 𝕜) :
    (whitenCov (ρ := ℝ) X).toMatrix = ((Gen.whitenerCovDenominator (n : ℝ) : ℝ) : 𝕜)⁻¹ • ((X.toMatrix)ᴴ * X.toMatrix) := by
  ext i j
  simp only [whitenCov, toMatrix_apply, Mat.get_ofFn, Entry.divReal_eq, Matrix.smul_apply, smul_eq_mul]
  have : (X.conjT.mul X).get i j = ((X.toMatrix)ᴴ * X.toMatrix) i j := by
    rw [← toMatrix_apply, toMatrix_mul, toMatrix_conjT]
  rw [this, div_eq_mul_inv, mul_comm]
  rfl

/-- **un-whitening restores the data** on the executable model, also for a rank-deficient covariance: the directions that
`keep` drops are those with `s i = 0`, and `XᴴX = V diag(c·s) Vᴴ` -/
theorem model_unwhiten (X : Mat n p 𝕜) (V : Mat p p 𝕜) (hV : (V.toMatrix)ᴴ * V.toMatrix = 1) (hV' : V.toMatrix * (V.toMatrix)ᴴ = 1)
    (s : Fin p → ℝ) (c : ℝ) (keep : Fin p → Bool) (hs : ∀ i, keep i = true → 0 < s i) (hm : ∀ i, keep i = false → s i = 0)
    (hC : (X.toMatrix)ᴴ * X.toMatrix = V.toMatrix * diagonal (fun i => ((c * s i : ℝ) : 𝕜)) * (V.toMatrix)ᴴ) (alpha : ℝ) :
    (whitenInverseData (whitenFit V s keep alpha) (whitenTransform (whitenFit V s keep alpha) X)).toMatrix = X.toMatrix := by
  simp only [whitenInverseData, whitenTransform, whitenFit, toMatrix_mul, fracPower_toMatrix]
  have hinv : Gen.whitenerInversePower alpha = -(Gen.whitenerPower alpha) := by simp [Gen.whitenerInversePower]
  rw [hinv]
  exact XP.Whiten.unwhiten_rank_deficient V.toMatrix hV hV' s keep hs _ X.toMatrix
    (XP.Whiten.dropped_directions_carry_no_data X.toMatrix V.toMatrix hV s c keep hm hC)

/-- **T and Tinv of the model are mutually inverse** at full rank -/
theorem model_T_Tinv (V : Mat p p 𝕜) (hV : (V.toMatrix)ᴴ * V.toMatrix = 1) (hV' : V.toMatrix * (V.toMatrix)ᴴ = 1)
    (s : Fin p → ℝ) (hs : ∀ i, 0 < s i) (alpha : ℝ) :
    (whitenFit V s (fun _ => true) alpha).T.toMatrix * (whitenFit V s (fun _ => true) alpha).Tinv.toMatrix = 1 := by
  simp only [whitenFit, fracPower_toMatrix, specPowM_all]
  have hinv : Gen.whitenerInversePower alpha = -(Gen.whitenerPower alpha) := by simp [Gen.whitenerInversePower]
  rw [hinv]
  exact XP.Whiten.T_Tinv V.toMatrix hV hV' s hs _

/-- **whitened covariance** of the model at full rank: `Tᴴ C T = C^α` with `C = V diag(s) Vᴴ` -/
theorem model_whitened_cov (V : Mat p p 𝕜) (hV : (V.toMatrix)ᴴ * V.toMatrix = 1) (s : Fin p → ℝ) (hs : ∀ i, 0 < s i) (alpha : ℝ) :
    ((whitenFit V s (fun _ => true) alpha).T.toMatrix)ᴴ * specPow V.toMatrix s 1 * (whitenFit V s (fun _ => true) alpha).T.toMatrix
      = specPow V.toMatrix s alpha := by
  simp only [whitenFit, fracPower_toMatrix, specPowM_all]
  have : Gen.whitenerPower alpha = (alpha - 1) / 2 := by simp [Gen.whitenerPower]
  rw [this]
  exact XP.Whiten.whitened_cov V.toMatrix hV s hs alpha

/-- **patterns there and back** through the model's component maps (full rank) -/
theorem model_components_there_and_back (V : Mat p p 𝕜) (hV : (V.toMatrix)ᴴ * V.toMatrix = 1) (hV' : V.toMatrix * (V.toMatrix)ᴴ = 1)
    (s : Fin p → ℝ) (hs : ∀ i, 0 < s i) (alpha : ℝ) (P : Mat p k 𝕜) :
    (whitenInverseComps (whitenFit V s (fun _ => true) alpha) (whitenTransformComps (whitenFit V s (fun _ => true) alpha) P)).toMatrix
      = P.toMatrix := by
  have h := model_T_Tinv V hV hV' s hs alpha
  simp only [whitenInverseComps, whitenTransformComps, toMatrix_mul, toMatrix_conjT]
  rw [← Matrix.mul_assoc, ← conjTranspose_mul, h, conjTranspose_one, Matrix.one_mul]

/-- PCA maps of the model: back-projection of a projected pattern inside the retained subspace -/
theorem model_pca_there_and_back (V : Mat p k 𝕜) (hV : (V.toMatrix)ᴴ * V.toMatrix = 1) (Q : Mat k r 𝕜) :
    (pcaTransformComps V (pcaInverseComps V Q)).toMatrix = Q.toMatrix := by
  simp only [pcaTransformComps, pcaInverseComps, toMatrix_mul, toMatrix_conjT]
  rw [← Matrix.mul_assoc, hV, Matrix.one_mul]

/-- PCA data maps: `transform ∘ inverse = id` on PC-space data -/
theorem model_pca_transform_inverse (V : Mat p k 𝕜) (hV : (V.toMatrix)ᴴ * V.toMatrix = 1) (Z : Mat m k 𝕜) :
    (pcaTransform V (pcaInverseData V Z)).toMatrix = Z.toMatrix := by
  simp only [pcaTransform, pcaInverseData, toMatrix_mul, toMatrix_conjT]
  rw [Matrix.mul_assoc, hV, Matrix.mul_one]

end XP.WhitenM
