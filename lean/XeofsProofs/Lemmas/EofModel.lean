import XeofsProofs.Bridge
import XeofsProofs.Lemmas.SVDSpec
/-! What the executable EOF model computes, in Mathlib's matrix language (helper lemmas, no property statements). -/
open XM Matrix

variable {𝕜 : Type} [RCLike 𝕜] {n p k ru rv rs m : ℕ}

namespace XP.EofM

/-- real diagonal as a 𝕜-matrix -/
noncomputable def rdiag (d : Fin k → ℝ) : Matrix (Fin k) (Fin k) 𝕜 := diagonal fun j => (d j : 𝕜)

theorem rdiag_mul (a b : Fin k → ℝ) : (rdiag a : Matrix (Fin k) (Fin k) 𝕜) * rdiag b = rdiag (fun j => a j * b j) := by
  simp [rdiag, diagonal_mul_diagonal]

theorem rdiag_conjTranspose (a : Fin k → ℝ) : (rdiag a : Matrix (Fin k) (Fin k) 𝕜)ᴴ = rdiag a := by
  simp [rdiag, diagonal_conjTranspose]

theorem rdiag_one_of_sq (sgn : Fin k → ℝ) (h : ∀ j, sgn j * sgn j = 1) :
    (rdiag sgn : Matrix (Fin k) (Fin k) 𝕜) * rdiag sgn = 1 := by
  rw [rdiag_mul]; simp [rdiag, h]

theorem comps_toMatrix (hu : k ≤ ru) (hv : k ≤ rv) (hs : k ≤ rs) (U : Mat n ru 𝕜) (s : Fin rs → ℝ) (V : Mat p rv 𝕜)
    (sgn : Fin k → ℝ) :
    (eofFit hu hv hs U s V sgn).comps.toMatrix = V.toMatrix.submatrix id (Fin.castLE hv) * rdiag sgn := by
  ext i j; simp [eofFit, rdiag, Matrix.mul_diagonal]

theorem scores_toMatrix (hu : k ≤ ru) (hv : k ≤ rv) (hs : k ≤ rs) (U : Mat n ru 𝕜) (s : Fin rs → ℝ) (V : Mat p rv 𝕜)
    (sgn : Fin k → ℝ) :
    (eofFit hu hv hs U s V sgn).scores.toMatrix
      = U.toMatrix.submatrix id (Fin.castLE hu) * rdiag sgn * rdiag (fun j => s (Fin.castLE hs j)) := by
  ext i j; simp [eofFit, rdiag, Matrix.mul_diagonal]

theorem mul_submatrix_cols {a b c d : ℕ} (A : Matrix (Fin a) (Fin b) 𝕜) (B : Matrix (Fin b) (Fin c) 𝕜) (e : Fin d → Fin c) :
    (A * B).submatrix id e = A * B.submatrix id e := by
  ext i j; simp [Matrix.mul_apply]

theorem mul_diagonal_submatrix_cols {a c d : ℕ} (A : Matrix (Fin a) (Fin c) 𝕜) (w : Fin c → 𝕜) (e : Fin d → Fin c) :
    (A * diagonal w).submatrix id e = A.submatrix id e * diagonal (fun j => w (e j)) := by
  ext i j; simp [Matrix.mul_diagonal]

/-- `X V_k = U_k Σ_k` for the leading `k` columns of an SVD -/
theorem proj_leading {r : ℕ} {X : Matrix (Fin n) (Fin p) 𝕜} {U : Matrix (Fin n) (Fin r) 𝕜} {s : Fin r → ℝ}
    {V : Matrix (Fin p) (Fin r) 𝕜} (h : XP.SVD.IsSVD X U s V) (e : Fin k → Fin r) :
    X * V.submatrix id e = U.submatrix id e * rdiag (fun j => s (e j)) := by
  rw [← mul_submatrix_cols, XP.SVD.transform_eq_scores h, mul_diagonal_submatrix_cols]; rfl

end XP.EofM
