import XeofsProofs.Bridge
import XeofsModel.Pop
/-! The executable POP model in Mathlib's matrix language. -/
open XM Matrix

variable {𝕜 : Type} [RCLike 𝕜] {n p k : ℕ}

namespace XP.PopM

/-- **the feedback matrix solves the normal equations of the lag-1 regression**: with `Cinv` the inverse of `X0ᴴX0` (oracle
specification), `A · (X0ᴴ X0) = X1ᴴ X0` — on the executable model -/
theorem feedback_normal_equations (X : Mat n p 𝕜) (Cinv : Mat p p 𝕜) (hC : Cinv.toMatrix * (lagZeroGram X).toMatrix = 1) :
    (popFeedback X Cinv).toMatrix * (lagZeroGram X).toMatrix = (lagOneGram X).toMatrix := by
  simp only [popFeedback, toMatrix_mul]
  rw [Matrix.mul_assoc, hC, Matrix.mul_one]

/-- hence every eigen-pair of the model's feedback matrix satisfies `X1ᴴX0 · (X0ᴴX0)⁻¹ p = λ p`, the POP equation -/
theorem eigenpair_is_pop (X : Mat n p 𝕜) (Cinv : Mat p p 𝕜) (v : Fin p → 𝕜) (lam : 𝕜)
    (h : (popFeedback X Cinv).toMatrix.mulVec v = lam • v) :
    ((lagOneGram X).toMatrix * Cinv.toMatrix).mulVec v = lam • v := by
  simpa [popFeedback] using h

/-- the zero-lag Gram matrix of the model is Hermitian -/
theorem lagZeroGram_hermitian (X : Mat n p 𝕜) : ((lagZeroGram X).toMatrix)ᴴ = (lagZeroGram X).toMatrix := by
  ext a b
  simp only [conjTranspose_apply, lagZeroGram, toMatrix_apply, Mat.get_ofFn, sumFin_eq, star_sum]
  refine Finset.sum_congr rfl fun t _ => ?_
  by_cases h : t.val + 1 < n
  · simp [h, mul_comm]
  · simp only [h, if_false]
    show (starRingEnd 𝕜) (0 : 𝕜) = 0
    simp

/-- damping time and period of the model are the generated formulas of `|λ|` and `arg λ` -/
theorem damping_eq (X : Mat n p 𝕜) (lam : Fin k → 𝕜) (argLam : Fin k → ℝ) (twoPi : ℝ) (P : Mat p k 𝕜) (Minv : Fin k → ℝ × ℝ × ℝ × ℝ)
    (perm : Fin k → Fin k) (j : Fin k) :
    (popFit X lam argLam twoPi P Minv perm).damping j = -1 / Real.log ‖lam (perm j)‖ := by
  simp only [popFit, Gen.popDampingTime, Num.sqrt, Entry.normSq_eq, Num.ofNat_real, Nat.cast_one]
  show (-(1 : ℝ)) / Real.log (Real.sqrt (RCLike.normSq (lam (perm j)))) = _
  rw [RCLike.sqrt_normSq_eq_norm]

theorem period_eq (X : Mat n p 𝕜) (lam : Fin k → 𝕜) (argLam : Fin k → ℝ) (twoPi : ℝ) (P : Mat p k 𝕜) (Minv : Fin k → ℝ × ℝ × ℝ × ℝ)
    (perm : Fin k → Fin k) (j : Fin k) :
    (popFit X lam argLam twoPi P Minv perm).periods j = twoPi / argLam (perm j) := by
  simp [popFit, Gen.popPeriod]

end XP.PopM
