import Mathlib.Analysis.InnerProductSpace.PiL2
import Mathlib.LinearAlgebra.Matrix.ConjTranspose
import Mathlib.LinearAlgebra.Matrix.DotProduct
import Mathlib.Analysis.RCLike.Basic

namespace XP.Corr
open Matrix Finset

variable {𝕜 : Type*} [RCLike 𝕜] {n p : ℕ}

/-- C09: a Pearson-type coefficient with consistent normalisation is a genuine correlation -/
theorem correlation_genuine (x y : Fin n → 𝕜) :
    ‖∑ t, star (x t) * y t‖ ≤ Real.sqrt (∑ t, ‖x t‖ ^ 2) * Real.sqrt (∑ t, ‖y t‖ ^ 2) := by
  have h := norm_inner_le_norm (𝕜 := 𝕜) (WithLp.toLp 2 x : EuclideanSpace 𝕜 (Fin n)) (WithLp.toLp 2 y)
  rw [EuclideanSpace.norm_eq, EuclideanSpace.norm_eq] at h
  simpa [PiLp.inner_apply, RCLike.inner_apply, mul_comm] using h

/-- self-correlation is exactly one (for a non-constant-zero series) -/
theorem self_correlation_one (x : Fin n → 𝕜) (hx : 0 < ∑ t, ‖x t‖ ^ 2) :
    (∑ t, star (x t) * x t) / ((Real.sqrt (∑ t, ‖x t‖ ^ 2) * Real.sqrt (∑ t, ‖x t‖ ^ 2) : ℝ) : 𝕜) = 1 := by
  have h1 : ∀ t, star (x t) * x t = ((‖x t‖ ^ 2 : ℝ) : 𝕜) := by
    intro t; rw [RCLike.star_def, RCLike.conj_mul]; push_cast; rfl
  simp_rw [h1]
  rw [Real.mul_self_sqrt hx.le, ← RCLike.ofReal_sum]
  exact div_self (by exact_mod_cast hx.ne')

/-- C19 (first mode optimal): Rayleigh bound for a unitarily diagonalised Hermitian matrix with
descending real diagonal: no vector has a larger quotient than the first eigenvalue. -/
theorem rayleigh_le_first (A W : Matrix (Fin (p+1)) (Fin (p+1)) 𝕜) (d : Fin (p+1) → ℝ) (hd : Antitone d)
    (hW : W * Wᴴ = 1) (hA : A = W * diagonal (fun i => (d i : 𝕜)) * Wᴴ) (x : Fin (p+1) → 𝕜) :
    RCLike.re (star x ⬝ᵥ (A *ᵥ x)) ≤ d 0 * RCLike.re (star x ⬝ᵥ x) := by
  set y := Wᴴ *ᵥ x with hy
  have e1 : star x ⬝ᵥ (A *ᵥ x) = ∑ i, (d i : 𝕜) * (star (y i) * y i) := by
    have : star x ⬝ᵥ (A *ᵥ x) = star y ⬝ᵥ (diagonal (fun i => (d i : 𝕜)) *ᵥ y) := by
      rw [hA, hy, star_mulVec, conjTranspose_conjTranspose, ← dotProduct_mulVec, mulVec_mulVec, mulVec_mulVec,
        Matrix.mul_assoc]
    rw [this]
    simp only [dotProduct, mulVec_diagonal, Pi.star_apply]
    apply sum_congr rfl; intro i _; ring
  have e2 : star x ⬝ᵥ x = ∑ i, star (y i) * y i := by
    have : star y ⬝ᵥ y = star x ⬝ᵥ x := by
      rw [hy, star_mulVec, conjTranspose_conjTranspose, dotProduct_mulVec, vecMul_vecMul, hW, vecMul_one]
    rw [← this]; rfl
  rw [e1, e2, map_sum, map_sum, mul_sum]
  apply sum_le_sum; intro i _
  have hnn : star (y i) * y i = ((‖y i‖ ^ 2 : ℝ) : 𝕜) := by
    rw [RCLike.star_def, RCLike.conj_mul]; push_cast; rfl
  rw [hnn, ← RCLike.ofReal_mul, RCLike.ofReal_re, RCLike.ofReal_re]
  exact mul_le_mul_of_nonneg_right (hd (Fin.zero_le i)) (by positivity)

end XP.Corr
