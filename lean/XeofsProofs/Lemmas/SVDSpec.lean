import Mathlib.LinearAlgebra.Matrix.ConjTranspose
import Mathlib.LinearAlgebra.Matrix.Hermitian
import Mathlib.Analysis.RCLike.Basic
import Mathlib.LinearAlgebra.Matrix.Trace

namespace XP.SVD
open Matrix

variable {𝕜 : Type*} [RCLike 𝕜] {n p r : ℕ}

structure IsSVD (X : Matrix (Fin n) (Fin p) 𝕜) (U : Matrix (Fin n) (Fin r) 𝕜) (s : Fin r → ℝ)
    (V : Matrix (Fin p) (Fin r) 𝕜) : Prop where
  hU : Uᴴ * U = 1
  hV : Vᴴ * V = 1
  hX : X = U * diagonal (fun i => (s i : 𝕜)) * Vᴴ
  nonneg : ∀ i, 0 ≤ s i
  anti : Antitone s

variable {X : Matrix (Fin n) (Fin p) 𝕜} {U : Matrix (Fin n) (Fin r) 𝕜} {s : Fin r → ℝ}
  {V : Matrix (Fin p) (Fin r) 𝕜}

theorem transform_eq_scores (h : IsSVD X U s V) :
    X * V = U * diagonal (fun i => (s i : 𝕜)) := by
  rw [h.hX, Matrix.mul_assoc, h.hV, Matrix.mul_one]

theorem scores_gram (h : IsSVD X U s V) :
    (U * diagonal (fun i => (s i : 𝕜)))ᴴ * (U * diagonal (fun i => (s i : 𝕜)))
      = diagonal (fun i => ((s i : 𝕜)^2)) := by
  rw [conjTranspose_mul, Matrix.mul_assoc, ← Matrix.mul_assoc _ U, h.hU, Matrix.one_mul,
    diagonal_conjTranspose, diagonal_mul_diagonal]
  congr 1; ext i; simp [pow_two]

theorem cov_eigen (h : IsSVD X U s V) :
    (Xᴴ * X) * V = V * diagonal (fun i => ((s i : 𝕜)^2)) := by
  have h1 := transform_eq_scores h
  rw [Matrix.mul_assoc, h1, h.hX]
  simp only [conjTranspose_mul, conjTranspose_conjTranspose, diagonal_conjTranspose]
  rw [Matrix.mul_assoc, Matrix.mul_assoc, ← Matrix.mul_assoc Uᴴ, h.hU, Matrix.one_mul, diagonal_mul_diagonal]
  congr 2; ext i; simp [pow_two]

end XP.SVD
