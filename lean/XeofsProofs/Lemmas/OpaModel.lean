import XeofsProofs.Bridge
import XeofsModel.Opa
/-! The executable OPA model in Mathlib's matrix language (real data, as the source asserts). -/
open XM Matrix

variable {n p q k : ℕ}

namespace XP.OpaM

/-- the zero-lag covariance of the model is `SᵀS / (n − 1)` -/
theorem lagCov_zero (S : Mat n q ℝ) :
    (lagCov (ρ := ℝ) S 0).toMatrix = (((n - 1 : ℕ) : ℝ))⁻¹ • ((S.toMatrix)ᵀ * S.toMatrix) := by
  ext a b
  simp only [lagCov, toMatrix_apply, Mat.get_ofFn, Entry.divReal_eq, Matrix.smul_apply, smul_eq_mul, sumFin_eq, Matrix.mul_apply,
    Matrix.transpose_apply, Num.ofNat_real, Gen.opaLagDenominator, Nat.sub_zero, add_zero]
  have : ∀ t : Fin n, (if h : t.val < n then S.get t a * S.get ⟨t.val, h⟩ b else (Zero.zero : ℝ)) = S.get t a * S.get t b := by
    intro t; simp [t.isLt]
  simp only [this]
  rw [div_eq_inv_mul]
  rfl

theorem transposeM_toMatrix {a b : ℕ} (A : Mat a b ℝ) : (transposeM A).toMatrix = (A.toMatrix)ᵀ := by
  ext i j; simp [transposeM]

/-- the time series of the optimally persistent patterns are the PCs times the filter patterns in PC space, `V = Cinvᵀ Ue` -/
theorem scores_toMatrix (S : Mat n q ℝ) (C : Mat p q ℝ) (tauMax : ℕ) (Cinv : Mat q q ℝ) (Ue : Mat q k ℝ) (lam : Fin k → ℝ) :
    (opaFit S C tauMax Cinv Ue lam).scores.toMatrix = S.toMatrix * ((Cinv.toMatrix)ᵀ * Ue.toMatrix) := by
  simp [opaFit, transposeM_toMatrix]

/-- the oracle specification of the inverse square root: if `L Lᵀ = C0` (`L = U √s` from the decomposition of `C0`) and
`Cinv L = 1` (numpy's inverse), then `Cinv` whitens `C0` from the left and its transpose from the right -/
theorem whitens_of_factor (C0 L Cinv : Matrix (Fin q) (Fin q) ℝ) (hL : L * Lᵀ = C0) (hI : Cinv * L = 1) :
    Cinv * C0 * Cinvᵀ = 1 := by
  rw [← hL]
  calc Cinv * (L * Lᵀ) * Cinvᵀ = (Cinv * L) * (Cinv * L)ᵀ := by
        simp only [Matrix.transpose_mul, Matrix.mul_assoc]
    _ = 1 := by rw [hI]; simp

/-- **the score series are mutually uncorrelated with equal norm** on the executable model: if `Cinv` whitens the zero-lag
covariance (`Cinv C0 Cinvᵀ = 1`, see `whitens_of_factor`; NO symmetry of `Cinv` is needed — with two PCs of equal variance the
decomposition of `C0` is an arbitrary rotation inside the pair and `Cinv` is not symmetric) and the eigenvectors are orthonormal,
then `PᵀP = (n − 1) · 1` -/
theorem model_scores_gram (S : Mat n q ℝ) (C : Mat p q ℝ) (tauMax : ℕ) (Cinv : Mat q q ℝ) (Ue : Mat q k ℝ) (lam : Fin k → ℝ)
    (hn : 1 < n) (hW : Cinv.toMatrix * (lagCov (ρ := ℝ) S 0).toMatrix * (Cinv.toMatrix)ᵀ = 1) (hU : (Ue.toMatrix)ᵀ * Ue.toMatrix = 1) :
    ((opaFit S C tauMax Cinv Ue lam).scores.toMatrix)ᵀ * (opaFit S C tauMax Cinv Ue lam).scores.toMatrix
      = (((n - 1 : ℕ) : ℝ)) • (1 : Matrix (Fin k) (Fin k) ℝ) := by
  have hne : (((n - 1 : ℕ) : ℝ)) ≠ 0 := by
    have : 0 < n - 1 := Nat.sub_pos_of_lt hn
    exact_mod_cast this.ne'
  rw [scores_toMatrix]
  have hSS : (S.toMatrix)ᵀ * S.toMatrix = (((n - 1 : ℕ) : ℝ)) • (lagCov (ρ := ℝ) S 0).toMatrix := by
    rw [lagCov_zero, smul_smul, mul_inv_cancel₀ hne, one_smul]
  calc (S.toMatrix * ((Cinv.toMatrix)ᵀ * Ue.toMatrix))ᵀ * (S.toMatrix * ((Cinv.toMatrix)ᵀ * Ue.toMatrix))
      = (Ue.toMatrix)ᵀ * (Cinv.toMatrix * ((S.toMatrix)ᵀ * S.toMatrix) * (Cinv.toMatrix)ᵀ) * Ue.toMatrix := by
        simp only [Matrix.transpose_mul, Matrix.transpose_transpose, Matrix.mul_assoc]
    _ = (((n - 1 : ℕ) : ℝ)) • ((Ue.toMatrix)ᵀ * (Cinv.toMatrix * (lagCov (ρ := ℝ) S 0).toMatrix * (Cinv.toMatrix)ᵀ) * Ue.toMatrix) := by
        rw [hSS]; simp only [Matrix.mul_smul, Matrix.smul_mul]
    _ = _ := by rw [hW, Matrix.mul_one, hU]

/-- the matrix handed to the symmetric eigen-solver IS symmetric, for EVERY `Cinv` (before the repair 5ec1b91 this needed `Cinv`
itself to be symmetric, which fails when two retained PCs have equal variance) -/
theorem model_target_symmetric (Cinv M : Mat q q ℝ) :
    ((opaTarget (ρ := ℝ) Cinv M).toMatrix)ᵀ = (opaTarget (ρ := ℝ) Cinv M).toMatrix := by
  have hform : (opaTarget (ρ := ℝ) Cinv M).toMatrix
      = (Cinv.toMatrix * (M.toMatrix + (M.toMatrix)ᵀ) * (Cinv.toMatrix)ᵀ) * diagonal (fun _ : Fin q => ((1 : ℝ) / 2)) := by
    simp only [opaTarget, toMatrix_scaleCols, toMatrix_mul, toMatrix_add, transposeM_toMatrix, Entry.ofReal_eq, Num.ofNat_real]
    norm_num
  have hd : diagonal (fun _ : Fin q => ((1 : ℝ) / 2)) = ((1 : ℝ) / 2) • (1 : Matrix (Fin q) (Fin q) ℝ) := by
    ext i j; by_cases h : i = j <;> simp [h, Matrix.one_apply]
  rw [hform, hd, Matrix.mul_smul, Matrix.mul_one, Matrix.transpose_smul]
  congr 1
  simp only [Matrix.transpose_mul, Matrix.transpose_add, Matrix.transpose_transpose, Matrix.mul_assoc]
  rw [add_comm]

end XP.OpaM
