import XeofsProofs.Bridge
import XeofsProofs.Lemmas.EofModel
import XeofsModel.Boot
/-! The executable bootstrap-member model in Mathlib's matrix language. -/
open XM Matrix XP.EofM

variable {𝕜 : Type} [RCLike 𝕜] {n p k r : ℕ}

namespace XP.BootM

theorem comps_toMatrix (hk : k ≤ r) (D : Mat n p 𝕜) (idx : Fin n → Fin n) (U : Mat n r 𝕜) (s : Fin r → ℝ) (V : Mat p r 𝕜)
    (sd sa : Fin k → ℝ) :
    (bootMember hk D idx U s V sd sa).comps.toMatrix
      = V.toMatrix.submatrix id (Fin.castLE hk) * rdiag sd * rdiag sa := by
  simp only [bootMember, toMatrix_scaleCols]
  rw [XP.EofM.comps_toMatrix]; rfl

/-- member components are orthonormal whatever the two sign choices -/
theorem member_components_orthonormal (hk : k ≤ r) (D : Mat n p 𝕜) (idx : Fin n → Fin n) (U : Mat n r 𝕜) (s : Fin r → ℝ)
    (V : Mat p r 𝕜) (sd sa : Fin k → ℝ) (hV : V.toMatrixᴴ * V.toMatrix = 1) (hsd : ∀ j, sd j * sd j = 1) (hsa : ∀ j, sa j * sa j = 1) :
    (bootMember hk D idx U s V sd sa).comps.toMatrixᴴ * (bootMember hk D idx U s V sd sa).comps.toMatrix = 1 := by
  rw [comps_toMatrix]
  have h1 := submatrix_cols_orthonormal V.toMatrix _ (Fin.castLE_injective hk) hV
  set A := V.toMatrix.submatrix id (Fin.castLE hk)
  set Sd : Matrix (Fin k) (Fin k) 𝕜 := rdiag sd with hSd
  set Sa : Matrix (Fin k) (Fin k) 𝕜 := rdiag sa with hSa
  have hsdM : Sd * Sd = 1 := rdiag_one_of_sq sd hsd
  have hsaM : Sa * Sa = 1 := rdiag_one_of_sq sa hsa
  have hSdH : Sdᴴ = Sd := rdiag_conjTranspose sd
  have hSaH : Saᴴ = Sa := rdiag_conjTranspose sa
  calc (A * Sd * Sa)ᴴ * (A * Sd * Sa)
      = Sa * (Sd * (Aᴴ * A) * Sd) * Sa := by
        simp only [conjTranspose_mul, hSdH, hSaH, Matrix.mul_assoc]
    _ = 1 := by rw [h1, Matrix.mul_one, hsdM, Matrix.mul_one, hsaM]

/-- **member scores are the projection of the ORIGINAL samples** (centred with the resample's mean) on the member's components -/
theorem member_scores_are_projection (hk : k ≤ r) (D : Mat n p 𝕜) (idx : Fin n → Fin n) (U : Mat n r 𝕜) (s : Fin r → ℝ)
    (V : Mat p r 𝕜) (sd sa : Fin k → ℝ) :
    (bootMember hk D idx U s V sd sa).scores.toMatrix
      = (centreWith D (colMeans (ρ := ℝ) (resample D idx))).toMatrix * (bootMember hk D idx U s V sd sa).comps.toMatrix := by
  simp only [bootMember, toMatrix_scaleCols, toMatrix_mul, Matrix.mul_assoc]

/-- the resampled matrix consists of rows of the original one -/
theorem resample_rows (D : Mat n p 𝕜) (idx : Fin n → Fin n) (i : Fin n) (j : Fin p) :
    (resample D idx).toMatrix i j = D.toMatrix (idx i) j := by
  simp [resample]

/-- the centred resample has zero column means: its decomposition is an eigen-analysis of a covariance -/
theorem decomposed_centred (D : Mat n p 𝕜) (idx : Fin n → Fin n) (hn : 0 < n) (j : Fin p) :
    ∑ i, (bootDecomposed (ρ := ℝ) D idx).toMatrix i j = 0 := by
  have hne : ((n : ℝ) : 𝕜) ≠ 0 := by exact_mod_cast (Nat.pos_iff_ne_zero.mp hn)
  simp only [bootDecomposed, centreWith, toMatrix_apply, Mat.get_ofFn, colMeans, Entry.divReal_eq, sumFin_eq, Num.ofNat_real]
  rw [Finset.sum_sub_distrib, Finset.sum_const, Finset.card_univ, Fintype.card_fin, nsmul_eq_mul]
  have hcast : ((n : ℕ) : 𝕜) = (((n : ℝ)) : 𝕜) := by push_cast; rfl
  rw [hcast, mul_div_cancel₀ _ hne, sub_self]

end XP.BootM
