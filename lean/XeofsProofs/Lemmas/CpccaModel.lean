import XeofsProofs.Bridge
import XeofsProofs.Lemmas.EofModel
import XeofsModel.Cpcca
/-! What the executable CPCCA core computes, in Mathlib's matrix language, and the facts the properties need about it. -/
open XM Matrix XP.EofM

variable {𝕜 : Type} [RCLike 𝕜] {n p q r k m : ℕ}

namespace XP.CpccaM

theorem crossCov_toMatrix (X : Mat n p 𝕜) (Y : Mat n q 𝕜) :
    (crossCov (ρ := ℝ) X Y).toMatrix
      = ((Gen.crossCovDenominator (n : ℝ) : ℝ) : 𝕜)⁻¹ • ((X.toMatrix)ᴴ * Y.toMatrix) := by
  ext i j
  simp only [crossCov, toMatrix_apply, Mat.get_ofFn, Entry.divReal_eq, Matrix.smul_apply, smul_eq_mul]
  have : (X.conjT.mul Y).get i j = ((X.toMatrix)ᴴ * Y.toMatrix) i j := by
    rw [← toMatrix_apply, toMatrix_mul, toMatrix_conjT]
  rw [this, div_eq_mul_inv, mul_comm]
  rfl

theorem comps1_toMatrix (hk : k ≤ r) (X : Mat n p 𝕜) (Y : Mat n q 𝕜) (Q1 : Mat p r 𝕜) (s : Fin r → ℝ) (Q2 : Mat q r 𝕜)
    (sgn : Fin k → ℝ) :
    (cpccaFit hk X Y Q1 s Q2 sgn).comps1.toMatrix = Q1.toMatrix.submatrix id (Fin.castLE hk) * rdiag sgn := by
  ext i j; simp [cpccaFit, rdiag, Matrix.mul_diagonal]

theorem comps2_toMatrix (hk : k ≤ r) (X : Mat n p 𝕜) (Y : Mat n q 𝕜) (Q1 : Mat p r 𝕜) (s : Fin r → ℝ) (Q2 : Mat q r 𝕜)
    (sgn : Fin k → ℝ) :
    (cpccaFit hk X Y Q1 s Q2 sgn).comps2.toMatrix = Q2.toMatrix.submatrix id (Fin.castLE hk) * rdiag sgn := by
  ext i j; simp [cpccaFit, rdiag, Matrix.mul_diagonal]

theorem scores1_toMatrix (hk : k ≤ r) (X : Mat n p 𝕜) (Y : Mat n q 𝕜) (Q1 : Mat p r 𝕜) (s : Fin r → ℝ) (Q2 : Mat q r 𝕜)
    (sgn : Fin k → ℝ) :
    (cpccaFit hk X Y Q1 s Q2 sgn).scores1.toMatrix = X.toMatrix * (Q1.toMatrix.submatrix id (Fin.castLE hk) * rdiag sgn) := by
  rw [← comps1_toMatrix hk X Y Q1 s Q2 sgn]; simp [cpccaFit]

theorem scores2_toMatrix (hk : k ≤ r) (X : Mat n p 𝕜) (Y : Mat n q 𝕜) (Q1 : Mat p r 𝕜) (s : Fin r → ℝ) (Q2 : Mat q r 𝕜)
    (sgn : Fin k → ℝ) :
    (cpccaFit hk X Y Q1 s Q2 sgn).scores2.toMatrix = Y.toMatrix * (Q2.toMatrix.submatrix id (Fin.castLE hk) * rdiag sgn) := by
  rw [← comps2_toMatrix hk X Y Q1 s Q2 sgn]; simp [cpccaFit]

/-- leading block of `Q1ᴴ C Q2` for an SVD `C = Q1 Σ Q2ᴴ` -/
theorem leading_block {C : Matrix (Fin p) (Fin q) 𝕜} {Q1 : Matrix (Fin p) (Fin r) 𝕜} {s : Fin r → ℝ}
    {Q2 : Matrix (Fin q) (Fin r) 𝕜} (h : XP.SVD.IsSVD C Q1 s Q2) (e : Fin k → Fin r) (he : Function.Injective e) :
    (Q1.submatrix id e)ᴴ * C * Q2.submatrix id e = rdiag (fun j => s (e j)) := by
  have h1 : C * Q2.submatrix id e = Q1.submatrix id e * rdiag (fun j => s (e j)) := proj_leading h e
  rw [Matrix.mul_assoc, h1, ← Matrix.mul_assoc, submatrix_cols_orthonormal Q1 e he h.hU, Matrix.one_mul]

/-- **the two score sets have the diagonal cross-covariance `diag s`** — on the executable model -/
theorem model_scores_cross_cov_diag (hk : k ≤ r) (X : Mat n p 𝕜) (Y : Mat n q 𝕜) (Q1 : Mat p r 𝕜) (s : Fin r → ℝ)
    (Q2 : Mat q r 𝕜) (sgn : Fin k → ℝ) (hsgn : ∀ j, sgn j * sgn j = 1)
    (h : XP.SVD.IsSVD (crossCov (ρ := ℝ) X Y).toMatrix Q1.toMatrix s Q2.toMatrix) :
    ((Gen.crossCovDenominator (n : ℝ) : ℝ) : 𝕜)⁻¹ •
        (((cpccaFit hk X Y Q1 s Q2 sgn).scores1.toMatrix)ᴴ * (cpccaFit hk X Y Q1 s Q2 sgn).scores2.toMatrix)
      = rdiag (fun j => s (Fin.castLE hk j)) := by
  rw [scores1_toMatrix, scores2_toMatrix]
  set A := Q1.toMatrix.submatrix id (Fin.castLE hk)
  set B := Q2.toMatrix.submatrix id (Fin.castLE hk)
  set D : Matrix (Fin k) (Fin k) 𝕜 := rdiag sgn
  have hlead := leading_block h (Fin.castLE hk) (Fin.castLE_injective hk)
  rw [crossCov_toMatrix] at hlead
  have hD : Dᴴ = D := rdiag_conjTranspose sgn
  calc ((Gen.crossCovDenominator (n : ℝ) : ℝ) : 𝕜)⁻¹ • ((X.toMatrix * (A * D))ᴴ * (Y.toMatrix * (B * D)))
      = D * (Aᴴ * (((Gen.crossCovDenominator (n : ℝ) : ℝ) : 𝕜)⁻¹ • ((X.toMatrix)ᴴ * Y.toMatrix)) * B) * D := by
        simp only [conjTranspose_mul, hD, Matrix.mul_assoc, Matrix.mul_smul, Matrix.smul_mul]
    _ = D * rdiag (fun j => s (Fin.castLE hk j)) * D := by rw [hlead]
    _ = rdiag (fun j => s (Fin.castLE hk j)) := by
        simp only [D, rdiag_mul]
        congr 1; funext j
        have := hsgn j
        calc sgn j * s (Fin.castLE hk j) * sgn j = (sgn j * sgn j) * s (Fin.castLE hk j) := by ring
          _ = s (Fin.castLE hk j) := by rw [this, one_mul]

/-- transform of the training data reproduces the scores (definitionally the same projection) -/
theorem model_transform_training (F : CpccaFit n p q k ℝ 𝕜) (X : Mat n p 𝕜) (h : F.scores1 = X.mul F.comps1) (nz : Bool) :
    cpccaTransform1 F X nz = cpccaScores1 F nz := by
  cases nz <;> simp [cpccaTransform1, cpccaScores1, h]

theorem fit_scores1_def (hk : k ≤ r) (X : Mat n p 𝕜) (Y : Mat n q 𝕜) (Q1 : Mat p r 𝕜) (s : Fin r → ℝ) (Q2 : Mat q r 𝕜)
    (sgn : Fin k → ℝ) :
    (cpccaFit hk X Y Q1 s Q2 sgn).scores1 = X.mul (cpccaFit hk X Y Q1 s Q2 sgn).comps1 := rfl

/-- full reconstruction of a field whose feature count equals the number of modes: `X Q Qᴴ = X` -/
theorem model_full_reconstruction (X : Mat n p 𝕜) (Y : Mat n q 𝕜) (Q1 : Mat p p 𝕜) (s : Fin p → ℝ) (Q2 : Mat q p 𝕜)
    (sgn : Fin p → ℝ) (hsgn : ∀ j, sgn j * sgn j = 1) (hQ : Q1.toMatrix * (Q1.toMatrix)ᴴ = 1) :
    (cpccaInverse1 (cpccaFit (le_refl p) X Y Q1 s Q2 sgn) (cpccaFit (le_refl p) X Y Q1 s Q2 sgn).scores1).toMatrix
      = X.toMatrix := by
  simp only [cpccaInverse1, toMatrix_mul, toMatrix_conjT, scores1_toMatrix, comps1_toMatrix]
  have hid : Q1.toMatrix.submatrix id (Fin.castLE (le_refl p)) = Q1.toMatrix := by ext i j; simp
  rw [hid, conjTranspose_mul, rdiag_conjTranspose]
  calc X.toMatrix * (Q1.toMatrix * rdiag sgn) * (rdiag sgn * (Q1.toMatrix)ᴴ)
      = X.toMatrix * (Q1.toMatrix * (rdiag sgn * rdiag sgn) * (Q1.toMatrix)ᴴ) := by simp only [Matrix.mul_assoc]
    _ = X.toMatrix := by rw [rdiag_one_of_sq sgn hsgn, Matrix.mul_one, hQ, Matrix.mul_one]

end XP.CpccaM
