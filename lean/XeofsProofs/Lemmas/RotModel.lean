import XeofsProofs.Bridge
import XeofsProofs.Lemmas.EofModel
import XeofsModel.Rot
/-! What the executable rotator model computes, in Mathlib's matrix language, and the two facts C04 / C11 need. -/
open XM Matrix XP.EofM

variable {𝕜 : Type} [RCLike 𝕜] {n p k m : ℕ}

namespace XP.RotM

/-- **transform of the training data reproduces the rotated scores** — on the executable model, by construction of the two
definitions (same projection, same rotation, same reorder / scale / sign) -/
theorem model_transform_training (comps0 : Mat p k 𝕜) (expvar0 : Fin k → ℝ) (scores0 : Mat n k 𝕜) (svals0 : Fin k → ℝ)
    (R RinvT : Mat k k 𝕜) (sgn : Fin k → ℝ) (perm : Fin k → Fin k) (X : Mat n p 𝕜) (h : scores0 = X.mul comps0) :
    rotTransform (rotFit comps0 expvar0 scores0 svals0 R RinvT sgn perm) comps0 svals0 RinvT perm X
      = (rotFit comps0 expvar0 scores0 svals0 R RinvT sgn perm).scores := by
  subst h
  simp only [rotTransform, rotFit, rotScoresUnsorted, Mat.scaleCols, Mat.get_ofFn]

theorem colSqSums_eq (L : Mat p k 𝕜) (j : Fin k) : colSqSums (ρ := ℝ) L j = ∑ i, RCLike.normSq (L.get i j) := by
  unfold colSqSums
  have : ∀ (q : ℕ) (f : Fin q → ℝ), Fin.foldl q (fun acc i => acc + f i) (Num.ofNat 0 : ℝ) = ∑ i, f i := by
    intro q f
    induction q with
    | zero => simp [Fin.foldl_zero]
    | succ q ih => rw [Fin.foldl_succ_last, Fin.sum_univ_castSucc, ih]
  simpa using this p (fun i => RCLike.normSq (L.get i j))

theorem rotExpvar_nonneg (L : Mat p k 𝕜) (j : Fin k) : 0 ≤ rotExpvar (ρ := ℝ) L j := by
  rw [rotExpvar, colSqSums_eq]; exact Finset.sum_nonneg fun i _ => RCLike.normSq_nonneg _

/-- reindexing both factors with the same permutation does not change `M Nᴴ` -/
theorem submatrix_perm_mul_conjTranspose (M : Matrix (Fin n) (Fin k) 𝕜) (N : Matrix (Fin p) (Fin k) 𝕜) (σ : Fin k ≃ Fin k) :
    M.submatrix id σ * (N.submatrix id σ)ᴴ = M * Nᴴ := by
  rw [conjTranspose_submatrix, Matrix.submatrix_mul_equiv]; simp

theorem comps_toMatrix (comps0 : Mat p k 𝕜) (expvar0 : Fin k → ℝ) (scores0 : Mat n k 𝕜) (svals0 : Fin k → ℝ)
    (R RinvT : Mat k k 𝕜) (sgn : Fin k → ℝ) (σ : Fin k ≃ Fin k) :
    (rotFit comps0 expvar0 scores0 svals0 R RinvT sgn σ).comps.toMatrix
      = ((rotComps (ρ := ℝ) (rotLoadings comps0 expvar0 R)).toMatrix * rdiag sgn).submatrix id σ := by
  ext i j; simp [rotFit, rdiag, Matrix.mul_diagonal]

theorem scores_toMatrix (comps0 : Mat p k 𝕜) (expvar0 : Fin k → ℝ) (scores0 : Mat n k 𝕜) (svals0 : Fin k → ℝ)
    (R RinvT : Mat k k 𝕜) (sgn : Fin k → ℝ) (σ : Fin k ≃ Fin k) :
    (rotFit comps0 expvar0 scores0 svals0 R RinvT sgn σ).scores.toMatrix
      = ((rotScoresUnsorted scores0 svals0 RinvT (rotNorms (ρ := ℝ) n (rotLoadings comps0 expvar0 R))).toMatrix * rdiag sgn).submatrix id σ := by
  ext i j; simp [rotFit, rdiag, Matrix.mul_diagonal]

/-- **rotation re-expresses the retained subspace**: on the executable model, the reconstruction from the rotated, signed and
sorted scores/components equals `scores0 · comps0ᴴ`, the reconstruction from the same number of unrotated modes. Hypotheses:
`RinvT` really is `(R⁻¹)ᴴ` (oracle specification), signs are ±1, the order is a permutation, no rotated mode is null, and the
unrotated explained variances are the generated `s²/(n−1)` of positive singular values. -/
theorem model_rot_reconstruction (comps0 : Mat p k 𝕜) (expvar0 : Fin k → ℝ) (scores0 : Mat n k 𝕜) (svals0 : Fin k → ℝ)
    (R RinvT : Mat k k 𝕜) (sgn : Fin k → ℝ) (σ : Fin k ≃ Fin k)
    (hR : (RinvT.toMatrix)ᴴ * R.toMatrix = 1) (hsgn : ∀ j, sgn j * sgn j = 1)
    (hev : ∀ j, rotExpvar (ρ := ℝ) (rotLoadings comps0 expvar0 R) j ≠ 0)
    (hn : 1 < n) (hsv : ∀ j, 0 < svals0 j) (hexp : ∀ j, expvar0 j = Gen.eofExpVar (svals0 j) (n : ℝ)) :
    (rotInverse (rotFit comps0 expvar0 scores0 svals0 R RinvT sgn σ)
        (rotFit comps0 expvar0 scores0 svals0 R RinvT sgn σ).scores).toMatrix
      = scores0.toMatrix * (comps0.toMatrix)ᴴ := by
  set L := rotLoadings comps0 expvar0 R with hL
  have hn1 : (0 : ℝ) < (n : ℝ) - 1 := by
    have : (1 : ℝ) < (n : ℝ) := by exact_mod_cast hn
    linarith
  simp only [rotInverse, toMatrix_mul, toMatrix_conjT]
  rw [comps_toMatrix, scores_toMatrix, submatrix_perm_mul_conjTranspose]
  -- the sign matrix cancels
  have hD : (rdiag sgn : Matrix (Fin k) (Fin k) 𝕜) * (rdiag sgn)ᴴ = 1 := by
    rw [rdiag_conjTranspose]; exact rdiag_one_of_sq sgn hsgn
  rw [conjTranspose_mul, Matrix.mul_assoc, ← Matrix.mul_assoc (rdiag sgn), hD, Matrix.one_mul]
  -- unfold the two unsorted factors
  have hsc : (rotScoresUnsorted scores0 svals0 RinvT (rotNorms (ρ := ℝ) n L)).toMatrix
      = scores0.toMatrix * diagonal (fun j => ((svals0 j : 𝕜))⁻¹) * RinvT.toMatrix
          * diagonal (fun j => ((rotNorms (ρ := ℝ) n L j : ℝ) : 𝕜)) := by
    simp [rotScoresUnsorted]
  have hrc : (rotComps (ρ := ℝ) L).toMatrix
      = comps0.toMatrix * diagonal (fun j => ((Gen.rotatorLoadingScale (expvar0 j) : ℝ) : 𝕜)) * R.toMatrix
          * diagonal (fun j => (((Num.sqrt (rotExpvar (ρ := ℝ) L j) : ℝ)) : 𝕜)⁻¹) := by
    simp [rotComps, hL, rotLoadings]
  rw [hsc, hrc]
  -- norms / sqrt(expvar) = sqrt(n-1)
  have hdiag : diagonal (fun j => ((rotNorms (ρ := ℝ) n L j : ℝ) : 𝕜))
        * (diagonal (fun j => (((Num.sqrt (rotExpvar (ρ := ℝ) L j) : ℝ)) : 𝕜)⁻¹))ᴴ
      = ((Real.sqrt ((n : ℝ) - 1) : ℝ) : 𝕜) • (1 : Matrix (Fin k) (Fin k) 𝕜) := by
    rw [diagonal_conjTranspose, diagonal_mul_diagonal]
    ext a b
    by_cases hab : a = b
    · subst hab
      have he : 0 ≤ rotExpvar (ρ := ℝ) L a := rotExpvar_nonneg L a
      have hs : Real.sqrt (rotExpvar (ρ := ℝ) L a) ≠ 0 := by
        rw [Real.sqrt_ne_zero he]; exact hev a
      simp only [diagonal_apply_eq, Pi.star_apply, Matrix.smul_apply, Matrix.one_apply_eq, smul_eq_mul, mul_one, star_inv₀,
        RCLike.star_def, RCLike.conj_ofReal]
      have : rotNorms (ρ := ℝ) n L a = Real.sqrt (rotExpvar (ρ := ℝ) L a) * Real.sqrt ((n : ℝ) - 1) := by
        simp only [rotNorms, Gen.rotatorNorm, Num.sqrt, Num.ofNat_real]
        show Real.sqrt (rotExpvar (ρ := ℝ) L a * ((n : ℝ) - ((1 : ℕ) : ℝ))) = _
        rw [Nat.cast_one, Real.sqrt_mul he]
      rw [this]
      show ((Real.sqrt (rotExpvar L a) * Real.sqrt ((n : ℝ) - 1) : ℝ) : 𝕜) * ((Real.sqrt (rotExpvar (ρ := ℝ) L a) : ℝ) : 𝕜)⁻¹ = _
      have hs' : ((Real.sqrt (rotExpvar (ρ := ℝ) L a) : ℝ) : 𝕜) ≠ 0 := by exact_mod_cast hs
      push_cast
      rw [← div_eq_mul_inv]
      exact mul_div_cancel_left₀ _ hs'
    · simp [hab, Matrix.one_apply_ne hab]
  -- loading scale * sqrt(n-1) / sval = 1
  have hscale : ∀ j, ((svals0 j : 𝕜))⁻¹ * ((Real.sqrt ((n : ℝ) - 1) : ℝ) : 𝕜) * ((Gen.rotatorLoadingScale (expvar0 j) : ℝ) : 𝕜) = 1 := by
    intro j
    have hs := hsv j
    have : Gen.rotatorLoadingScale (expvar0 j) = svals0 j / Real.sqrt ((n : ℝ) - 1) := by
      simp only [Gen.rotatorLoadingScale, Num.sqrt, hexp j, Gen.eofExpVar, Num.ofNat_real, Nat.cast_one]
      show Real.sqrt (svals0 j * svals0 j / ((n : ℝ) - 1)) = _
      rw [Real.sqrt_div (mul_self_nonneg _), Real.sqrt_mul_self hs.le]
    rw [this]
    have h1 : Real.sqrt ((n : ℝ) - 1) ≠ 0 := (Real.sqrt_pos.mpr hn1).ne'
    have h2 : (svals0 j : 𝕜) ≠ 0 := by exact_mod_cast hs.ne'
    have h3 : ((Real.sqrt ((n : ℝ) - 1) : ℝ) : 𝕜) ≠ 0 := by exact_mod_cast h1
    push_cast
    field_simp
  have hRR : RinvT.toMatrix * (R.toMatrix)ᴴ = 1 := by
    have : (R.toMatrix)ᴴ * RinvT.toMatrix = 1 := by
      have := congrArg conjTranspose hR
      simpa [conjTranspose_mul] using this
    exact mul_eq_one_comm.mp this
  calc scores0.toMatrix * diagonal (fun j => ((svals0 j : 𝕜))⁻¹) * RinvT.toMatrix
          * diagonal (fun j => ((rotNorms (ρ := ℝ) n L j : ℝ) : 𝕜))
        * (comps0.toMatrix * diagonal (fun j => ((Gen.rotatorLoadingScale (expvar0 j) : ℝ) : 𝕜)) * R.toMatrix
          * diagonal (fun j => (((Num.sqrt (rotExpvar (ρ := ℝ) L j) : ℝ)) : 𝕜)⁻¹))ᴴ
      = scores0.toMatrix * diagonal (fun j => ((svals0 j : 𝕜))⁻¹) * RinvT.toMatrix
          * (diagonal (fun j => ((rotNorms (ρ := ℝ) n L j : ℝ) : 𝕜))
              * (diagonal (fun j => (((Num.sqrt (rotExpvar (ρ := ℝ) L j) : ℝ)) : 𝕜)⁻¹))ᴴ)
          * (R.toMatrix)ᴴ * (diagonal (fun j => ((Gen.rotatorLoadingScale (expvar0 j) : ℝ) : 𝕜)))ᴴ * (comps0.toMatrix)ᴴ := by
        simp only [conjTranspose_mul, Matrix.mul_assoc]
    _ = scores0.toMatrix * (diagonal (fun j => ((svals0 j : 𝕜))⁻¹) * (((Real.sqrt ((n : ℝ) - 1) : ℝ) : 𝕜) •
          (diagonal (fun j => ((Gen.rotatorLoadingScale (expvar0 j) : ℝ) : 𝕜))))) * (comps0.toMatrix)ᴴ := by
        rw [hdiag, diagonal_conjTranspose]
        have hstar : (star fun j => ((Gen.rotatorLoadingScale (expvar0 j) : ℝ) : 𝕜)) = fun j => ((Gen.rotatorLoadingScale (expvar0 j) : ℝ) : 𝕜) := by
          funext j; simp
        rw [hstar]
        simp only [Matrix.mul_smul, Matrix.smul_mul, Matrix.mul_one, Matrix.mul_assoc]
        rw [← Matrix.mul_assoc RinvT.toMatrix, hRR, Matrix.one_mul]
    _ = scores0.toMatrix * (comps0.toMatrix)ᴴ := by
        have : diagonal (fun j => ((svals0 j : 𝕜))⁻¹) * (((Real.sqrt ((n : ℝ) - 1) : ℝ) : 𝕜) •
            (diagonal (fun j => ((Gen.rotatorLoadingScale (expvar0 j) : ℝ) : 𝕜)))) = 1 := by
          rw [Matrix.mul_smul, diagonal_mul_diagonal, ← diagonal_smul, ← diagonal_one]
          congr 1; funext j
          have := hscale j
          simp only [Pi.smul_apply, smul_eq_mul]
          rw [← this]; ring
        rw [this, Matrix.mul_one]

end XP.RotM
