import Mathlib.LinearAlgebra.Matrix.NonsingularInverse
import Mathlib.LinearAlgebra.Matrix.ConjTranspose
import Mathlib.Analysis.RCLike.Basic
import Mathlib.Data.Matrix.ColumnRowPartitioned
import Mathlib.Data.Complex.Basic
import Mathlib.Analysis.Complex.Basic
import Mathlib.LinearAlgebra.UnitaryGroup

namespace XP.M13
open Matrix

variable {𝕜 : Type*} [RCLike 𝕜] {n n' p k : ℕ}

/-! ### C05: transform is a per-sample map -/
theorem transform_rows (A : Matrix (Fin n) (Fin p) 𝕜) (B : Matrix (Fin n') (Fin p) 𝕜) (V : Matrix (Fin p) (Fin k) 𝕜) :
    Matrix.fromRows A B * V = Matrix.fromRows (A * V) (B * V) := by
  exact Matrix.fromRows_mul A B V

/-! ### C11: every Varimax iterate `U * Vᴴ` is unitary -/
theorem polar_factor_unitary (U V : Matrix (Fin k) (Fin k) 𝕜) (hU : Uᴴ * U = 1) (hV : V * Vᴴ = 1) :
    (U * Vᴴ)ᴴ * (U * Vᴴ) = 1 := by
  rw [conjTranspose_mul, conjTranspose_conjTranspose, Matrix.mul_assoc, ← Matrix.mul_assoc Uᴴ, hU,
    Matrix.one_mul, hV]

/-- abstract Varimax loop: whatever the update computes from the current rotation, as long as each
update returns `U * Vᴴ` of unitary factors, every iterate (and the result after any number of steps) is unitary -/
theorem varimax_iter_unitary (step : Matrix (Fin k) (Fin k) 𝕜 → Matrix (Fin k) (Fin k) 𝕜)
    (hstep : ∀ R, (step R)ᴴ * step R = 1) (m : ℕ) :
    ((step^[m]) (1 : Matrix (Fin k) (Fin k) 𝕜))ᴴ * (step^[m]) 1 = 1 := by
  induction m with
  | zero => simp
  | succ m _ => rw [Function.iterate_succ_apply']; exact hstep _

/-! ### C11: Promax with power 1 is Varimax: the Procrustes regression returns the column scaling itself -/
theorem promax_power_one (X : Matrix (Fin p) (Fin k) 𝕜) (D : Matrix (Fin k) (Fin k) 𝕜)
    (G : Matrix (Fin k) (Fin k) 𝕜) (hG : G * (Xᴴ * X) = 1) :
    G * Xᴴ * (X * D) = D := by
  rw [Matrix.mul_assoc, ← Matrix.mul_assoc Xᴴ, ← Matrix.mul_assoc G, hG, Matrix.one_mul]

/-! ### C18: conjugate pairs and noise-free recovery -/
theorem pop_conjugate_pair (A : Matrix (Fin p) (Fin p) ℂ) (hA : A.map (starRingEnd ℂ) = A)
    (v : Fin p → ℂ) (lam : ℂ) (h : A *ᵥ v = lam • v) :
    A *ᵥ (fun i => starRingEnd ℂ (v i)) = (starRingEnd ℂ lam) • (fun i => starRingEnd ℂ (v i)) := by
  funext i
  have hi := congrFun h i
  simp only [mulVec, dotProduct, Pi.smul_apply, smul_eq_mul] at hi ⊢
  have hA' : ∀ i j, starRingEnd ℂ (A i j) = A i j := fun i j => by
    have := congrFun (congrFun hA i) j; simpa using this
  calc ∑ j, A i j * starRingEnd ℂ (v j) = ∑ j, starRingEnd ℂ (A i j * v j) := by
        apply Finset.sum_congr rfl; intro j _; rw [map_mul, hA']
    _ = starRingEnd ℂ (∑ j, A i j * v j) := by rw [map_sum]
    _ = starRingEnd ℂ lam * starRingEnd ℂ (v i) := by rw [hi, map_mul]

/-- feedback matrix estimate `X₁ᴴ X₀ (X₀ᴴ X₀)⁻¹` recovers `A` exactly when `X₁ = X₀ Aᴴ` (noise-free) -/
theorem noise_free_recovery (X0 X1 : Matrix (Fin n) (Fin p) 𝕜) (A G : Matrix (Fin p) (Fin p) 𝕜)
    (hG : (X0ᴴ * X0) * G = 1) (hdyn : X1 = X0 * Aᴴ) :
    X1ᴴ * X0 * G = A := by
  rw [hdyn, conjTranspose_mul, conjTranspose_conjTranspose, Matrix.mul_assoc A, Matrix.mul_assoc A, hG, Matrix.mul_one]

end XP.M13
