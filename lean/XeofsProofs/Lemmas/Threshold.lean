import XeofsModel.Generated.Threshold
/-! theorem about the GENERATED threshold definitions (core only) -/
namespace Thr

theorem countP_sorted (cum : List Int) (f : Int) (h : cum.Pairwise (· ≤ ·)) :
    ∀ m, m + cum.countP (fun c => decide (f ≤ c)) = cum.length →
      (∀ i (hi : i < cum.length), i < m → cum[i] < f) ∧ (∀ i (hi : i < cum.length), m ≤ i → f ≤ cum[i]) := by
  induction cum with
  | nil => intro m _; simp
  | cons a t ih =>
    intro m hm
    rw [List.pairwise_cons] at h
    by_cases ha : f ≤ a
    · have hall : ∀ c ∈ (a :: t), f ≤ c := by
        intro c hc; rcases List.mem_cons.mp hc with rfl | hc
        · exact ha
        · exact Int.le_trans ha (h.1 c hc)
      have : (a :: t).countP (fun c => decide (f ≤ c)) = (a :: t).length := by
        rw [List.countP_eq_length]; intro c hc; simpa using hall c hc
      have hm0 : m = 0 := by omega
      subst hm0
      refine ⟨by intro i _ hi; omega, ?_⟩
      intro i hi _; exact hall _ (List.getElem_mem hi)
    · have hc : (a :: t).countP (fun c => decide (f ≤ c)) = t.countP (fun c => decide (f ≤ c)) := by
        simp [ha]
      rw [hc] at hm
      have hmpos : 0 < m := by simp at hm; have := List.countP_le_length (p := fun c => decide (f ≤ c)) (l := t); omega
      obtain ⟨m', rfl⟩ : ∃ m', m = m' + 1 := ⟨m - 1, by omega⟩
      have := ih h.2 m' (by simp at hm; omega)
      constructor
      · intro i hi him
        cases i with
        | zero => simp; omega
        | succ j => simp; exact this.1 j (by simpa using hi) (by omega)
      · intro i hi hmi
        cases i with
        | zero => omega
        | succ j => simp; exact this.2 j (by simpa using hi) (by omega)

/-- **C15 threshold_minimal** for the code as it is written now: if the cumulative fractions are
non-decreasing, the number of modes kept is the least `m` such that `cum[m-1] ≥ f`
(and the precomputed `k` with a warning when no prefix reaches `f`). -/
theorem threshold_minimal (cum : List Int) (f : Int) (h : cum.Pairwise (· ≤ ·)) :
    let r := Gen.nModesRequiredDecomposer cum.length cum f
    (r.2 = true → r.1 = cum.length ∧ ∀ i (hi : i < cum.length), cum[i] < f) ∧
    (r.2 = false → ∃ m : Nat, r.1 = m ∧ 1 ≤ m ∧ m ≤ cum.length ∧
        (∀ i (hi : i < cum.length), i + 1 < m → cum[i] < f) ∧ (∀ hm : m - 1 < cum.length, f ≤ cum[m - 1])) := by
  intro r
  have hcnt := List.countP_le_length (p := fun c => decide (f ≤ c)) (l := cum)
  have key := countP_sorted cum f h (cum.length - cum.countP (fun c => decide (f ≤ c))) (by omega)
  have hcanon : Gen.nModesRequiredRawDecomposer cum.length cum f
      = (cum.length : Int) - ((cum.countP (fun c => decide (f ≤ c)) : Nat) : Int) + 1 := by
    simp only [Gen.nModesRequiredRawDecomposer, ge_iff_le] <;> omega
  simp only [r, Gen.nModesRequiredDecomposer, hcanon]
  by_cases hz : cum.countP (fun c => decide (f ≤ c)) = 0
  · -- nothing reaches f
    have : ((cum.length : Int) - ((cum.countP (fun c => decide (f ≤ c)) : Nat) : Int) + 1 > (cum.length : Int)) := by
      rw [hz]; omega
    simp only [this, if_true]
    refine ⟨fun _ => ⟨by simp, ?_⟩, fun hc => by simp at hc⟩
    intro i hi; exact key.1 i hi (by rw [hz]; omega)
  · have : ¬ ((cum.length : Int) - ((cum.countP (fun c => decide (f ≤ c)) : Nat) : Int) + 1 > (cum.length : Int)) := by omega
    simp only [this, if_false]
    refine ⟨fun hc => by simp at hc, fun _ => ?_⟩
    refine ⟨cum.length - cum.countP (fun c => decide (f ≤ c)) + 1, by omega, by omega, by omega, ?_, ?_⟩
    · intro i hi him; exact key.1 i hi (by omega)
    · intro hm; exact key.2 _ hm (by omega)

/-- both copies of the block in the source agree -/
theorem copies_agree (k : Int) (cum : List Int) (f : Int) :
    Gen.nModesRequiredDecomposer k cum f = Gen.nModesRequiredSVD k cum f := by
  have : Gen.nModesRequiredRawDecomposer k cum f = Gen.nModesRequiredRawSVD k cum f := by
    simp only [Gen.nModesRequiredRawDecomposer, Gen.nModesRequiredRawSVD, ge_iff_le] <;> omega
  simp only [Gen.nModesRequiredDecomposer, Gen.nModesRequiredSVD, this]
end Thr
