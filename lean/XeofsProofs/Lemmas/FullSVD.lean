import Mathlib.Analysis.Matrix.Spectrum

namespace XP.Full
open Matrix Polynomial Finset

variable {𝕜 : Type*} [RCLike 𝕜] {n p : ℕ}

/-- rectangular diagonal matrix Σ(s) of a full SVD; `s : Fin p → ℝ` is the singular-value vector padded
with zeros beyond `min n p` (hypothesis `hpad`) -/
def rectDiag (n : ℕ) (s : Fin p → ℝ) : Matrix (Fin n) (Fin p) 𝕜 :=
  fun i j => if (i : ℕ) = (j : ℕ) then (s j : 𝕜) else 0

theorem rectDiag_gram (s : Fin p → ℝ) (hpad : ∀ j : Fin p, n ≤ (j : ℕ) → s j = 0) :
    (rectDiag n s : Matrix (Fin n) (Fin p) 𝕜)ᴴ * rectDiag n s = diagonal (fun j => ((s j ^ 2 : ℝ) : 𝕜)) := by
  ext j j'
  simp only [mul_apply, conjTranspose_apply, rectDiag, diagonal_apply]
  by_cases hjj : j = j'
  · subst hjj
    simp only [if_true]
    by_cases hj : (j : ℕ) < n
    · rw [Finset.sum_eq_single ⟨j, hj⟩]
      · simp [pow_two]
      · intro b _ hb
        have : (b : ℕ) ≠ (j : ℕ) := fun h => hb (Fin.ext h)
        simp [this]
      · simp
    · have hz := hpad j (not_lt.mp hj)
      have : ∀ i : Fin n, (i : ℕ) ≠ (j : ℕ) := fun i h => hj (h ▸ i.isLt)
      simp [this, hz]
  · simp only [hjj, if_false]
    apply Finset.sum_eq_zero
    intro i _
    by_cases h1 : (i : ℕ) = (j : ℕ)
    · have : (i : ℕ) ≠ (j' : ℕ) := fun h => hjj (Fin.ext (h1.symm.trans h))
      simp [this]
    · simp [h1]

/-- full SVD (numpy `np.linalg.svd(X)`, `full_matrices=True`) -/
structure IsFullSVD (X : Matrix (Fin n) (Fin p) 𝕜) (U : Matrix (Fin n) (Fin n) 𝕜) (s : Fin p → ℝ)
    (V : Matrix (Fin p) (Fin p) 𝕜) : Prop where
  hU : Uᴴ * U = 1
  hV : V * Vᴴ = 1
  hX : X = U * rectDiag n s * Vᴴ
  nonneg : ∀ i, 0 ≤ s i
  anti : Antitone s
  pad : ∀ j : Fin p, n ≤ (j : ℕ) → s j = 0

theorem gram_of_fullSVD {X : Matrix (Fin n) (Fin p) 𝕜} {U s V} (h : IsFullSVD X U s V) :
    Xᴴ * X = V * diagonal (fun j => ((s j ^ 2 : ℝ) : 𝕜)) * Vᴴ := by
  rw [h.hX]
  simp only [conjTranspose_mul, conjTranspose_conjTranspose, Matrix.mul_assoc]
  rw [← Matrix.mul_assoc Uᴴ, h.hU, Matrix.one_mul, ← Matrix.mul_assoc (rectDiag n s)ᴴ, rectDiag_gram s h.pad]

-- (A.4)
theorem eigenvalues₀_eq_of_diag {A : Matrix (Fin p) (Fin p) 𝕜} (hA : A.IsHermitian)
    (W : Matrix (Fin p) (Fin p) 𝕜) (hW : W * Wᴴ = 1) (d : Fin p → ℝ) (hd : Antitone d)
    (h : A = W * diagonal (fun i => (d i : 𝕜)) * Wᴴ) :
    List.ofFn hA.eigenvalues₀ = List.ofFn d := by
  have hW' : Wᴴ * W = 1 := mul_eq_one_comm.mp hW
  have hcp : A.charpoly = ∏ i, (X - C ((d i : 𝕜))) := by
    rw [h, Matrix.mul_assoc, charpoly_mul_comm, Matrix.mul_assoc, hW', Matrix.mul_one, charpoly_diagonal]
  have hroots : A.charpoly.roots = Multiset.map (fun i => (d i : 𝕜)) Finset.univ.val := by
    rw [hcp, Polynomial.roots_prod]
    · simp
    · simp [Finset.prod_ne_zero_iff, Polynomial.X_sub_C_ne_zero]
  rw [← hA.sort_roots_charpoly_eq_eigenvalues₀, hroots]
  simp_rw [Fin.univ_val_map, Multiset.map_coe, List.map_ofFn, Function.comp_def, RCLike.ofReal_re,
    Multiset.coe_sort]
  apply List.mergeSort_of_pairwise
  simp_rw [decide_eq_true_eq, ← List.sortedGE_iff_pairwise]
  exact hd.sortedGE_ofFn

/-- **C01**: the explained variances `s_i²/(n-1)` reported by the EOF model are, in descending order,
the eigenvalues (Mathlib's canonical descending enumeration) of the sample covariance `XᴴX/(n-1)`. -/
theorem expvar_are_eigenvalues {X : Matrix (Fin n) (Fin p) 𝕜} {U s V} (h : IsFullSVD X U s V) (hn : 2 ≤ n)
    (hC : (((n : ℝ) - 1)⁻¹ : 𝕜) • (Xᴴ * X) |>.IsHermitian) :
    List.ofFn hC.eigenvalues₀ = List.ofFn (fun j => s j ^ 2 / ((n : ℝ) - 1)) := by
  have hpos : 0 < (n : ℝ) - 1 := by
    have : (2 : ℝ) ≤ n := by exact_mod_cast hn
    linarith
  apply eigenvalues₀_eq_of_diag hC V h.hV
  · intro i j hij
    have hs := h.anti hij
    have := h.nonneg j
    apply div_le_div_of_nonneg_right _ hpos.le
    exact pow_le_pow_left₀ this hs 2
  · rw [gram_of_fullSVD h, ← Matrix.smul_mul, ← Matrix.mul_smul]
    congr 2
    ext i j
    by_cases hij : i = j
    · subst hij; simp [div_eq_inv_mul]
    · simp [hij]

end XP.Full
