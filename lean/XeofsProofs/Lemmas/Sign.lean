import Mathlib.Analysis.RCLike.Basic
import Mathlib.LinearAlgebra.Matrix.Trace
import Mathlib.LinearAlgebra.Matrix.ConjTranspose
import Mathlib.Tactic.Linarith

namespace XP.Sign
open Matrix Finset

variable {𝕜 : Type*} [RCLike 𝕜] {n p : ℕ}

/-- C15/C07 sign rule on the two numbers the code looks at (`max` and `min` of a real mode):
after multiplying by `ε = if |M| ≥ |m| then 1 else -1`, the largest-magnitude loading is positive:
new max ≥ |new min|. -/
theorem sign_rule_max_abs_positive (M m : ℝ) (hmM : m ≤ M) (hx : 0 ≤ M ∨ m < M) :
    let ε : ℝ := if |M| ≥ |m| then 1 else -1
    let M' := if |M| ≥ |m| then M else -m       -- max of ε • v
    let m' := if |M| ≥ |m| then m else -M       -- min of ε • v
    |m'| ≤ M' ∧ ε * ε = 1 := by
  intro ε M' m'
  by_cases h : |M| ≥ |m|
  · simp only [ε, M', m', h, if_true]
    refine ⟨?_, by norm_num⟩
    -- M ≥ m and |M| ≥ |m| force M ≥ 0 and hence M = |M| ≥ |m|
    have hM0 : 0 ≤ M := by
      by_contra hneg
      push Not at hneg
      have hm : m < 0 := lt_of_le_of_lt hmM hneg
      rw [abs_of_neg hneg, abs_of_neg hm] at h
      rcases hx with hx | hx <;> linarith
    rwa [abs_of_nonneg hM0] at h
  · simp only [ε, M', m', h, if_false]
    refine ⟨?_, by norm_num⟩
    push Not at h
    have hm0 : m < 0 := by
      by_contra hnn
      push Not at hnn
      have hM0 : 0 ≤ M := le_trans hnn hmM
      rw [abs_of_nonneg hM0, abs_of_nonneg hnn] at h
      linarith
    rw [abs_neg, abs_of_neg hm0] at *
    exact h.le

/-- C01: for a column-centred matrix the `var(ddof=1).sum()` total variance equals the trace of the
sample covariance (here: the un-centred second-moment form the code's formula reduces to when means are 0) -/
theorem total_variance_eq_trace (X : Matrix (Fin n) (Fin p) 𝕜) :
    ∑ j, ∑ t, (‖X t j‖ ^ 2) = RCLike.re (trace (Xᴴ * X)) := by
  simp only [trace, diag_apply, mul_apply, conjTranspose_apply, map_sum]
  apply sum_congr rfl; intro j _
  apply sum_congr rfl; intro t _
  rw [RCLike.star_def, RCLike.conj_mul]; norm_cast

/-- the excluded point is real: an all-equal negative mode is NOT flipped by the rule as coded
(`|max| ≥ |min|` holds with max = min = -1) -/
example : (if |(-1 : ℝ)| ≥ |(-1 : ℝ)| then (1 : ℝ) else -1) = 1 := by norm_num

end XP.Sign
