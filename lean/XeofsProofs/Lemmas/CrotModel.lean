import XeofsProofs.Bridge
import XeofsProofs.Lemmas.EofModel
import XeofsProofs.Lemmas.RotModel
import XeofsModel.Crot
import Mathlib.Algebra.BigOperators.Field
/-! What the executable CPCCARotator model computes, in Mathlib's matrix language, and the facts C04 / C11 need. -/
open XM Matrix XP.EofM

variable {𝕜 : Type} [RCLike 𝕜] {n p q p' q' k m : ℕ}

namespace XP.CrotM

/-- **transform of the training data reproduces the rotated scores** (first field; the second is the same definition) -/
theorem model_transform_training (A1 : Mat p p' 𝕜) (A2 : Mat q q' 𝕜) (B1 : Mat p' p 𝕜) (B2 : Mat q' q 𝕜) (Q1 : Mat p' k 𝕜)
    (Q2 : Mat q' k 𝕜) (s : Fin k → ℝ) (S1 S2 : Mat n k 𝕜) (R RinvT : Mat k k 𝕜) (sgn : Fin k → ℝ) (perm : Fin k → Fin k)
    (X : Mat n p' 𝕜) (h : S1 = X.mul Q1) :
    (crotTransform (crotFit A1 A2 B1 B2 Q1 Q2 s S1 S2 R RinvT sgn perm).norm1 (crotFit A1 A2 B1 B2 Q1 Q2 s S1 S2 R RinvT sgn perm).sgn
        Q1 s RinvT perm X false).toMatrix
      = (crotFit A1 A2 B1 B2 Q1 Q2 s S1 S2 R RinvT sgn perm).scores1.toMatrix := by
  subst h
  ext i j
  simp only [crotTransform, crotFit, crotScoresUnsorted, Mat.scaleCols, Mat.get_ofFn, toMatrix_apply, Bool.false_eq_true, if_false]
  ring

/-- … and with `normalized=True` the per-mode norm is simply left out -/
theorem model_transform_normalized (norms sgnS : Fin k → ℝ) (Q : Mat p' k 𝕜) (s : Fin k → ℝ) (RinvT : Mat k k 𝕜) (perm : Fin k → Fin k)
    (X : Mat m p' 𝕜) (i : Fin m) (j : Fin k) :
    (crotTransform norms sgnS Q s RinvT perm X false).get i j
      = (crotTransform norms sgnS Q s RinvT perm X true).get i j * ((norms j : ℝ) : 𝕜) := by
  simp [crotTransform]

omit [RCLike 𝕜] in
theorem topRows_vstack (A : Mat p k 𝕜) (B : Mat q k 𝕜) : (topRows (vstack A B)).toMatrix = A.toMatrix := by
  ext i j; simp [topRows, vstack]

omit [RCLike 𝕜] in
theorem bottomRows_vstack (A : Mat p k 𝕜) (B : Mat q k 𝕜) : (bottomRows (vstack A B)).toMatrix = B.toMatrix := by
  ext i j; simp [bottomRows, vstack]

/-- the top block of a product is the product of the top block -/
theorem topRows_mul (L : Mat (p + q) k 𝕜) (R : Mat k m 𝕜) : (topRows (L.mul R)).toMatrix = (topRows L).toMatrix * R.toMatrix := by
  ext i j; simp [topRows, Mat.mul, sumFin_eq, Matrix.mul_apply]

theorem topRows_scaleCols (L : Mat (p + q) k 𝕜) (d : Fin k → 𝕜) :
    (topRows (L.scaleCols d)).toMatrix = (topRows L).toMatrix * diagonal d := by
  ext i j; simp [topRows, Mat.scaleCols, Matrix.mul_diagonal]

/-- the first field's block of the rotated loadings: `A₁ Q₁ · diag(√s) · R` -/
theorem topRows_crotLoadings (A1 : Mat p p' 𝕜) (A2 : Mat q q' 𝕜) (Q1 : Mat p' k 𝕜) (Q2 : Mat q' k 𝕜) (s : Fin k → ℝ) (R : Mat k k 𝕜) :
    (topRows (crotLoadings A1 A2 Q1 Q2 s R)).toMatrix
      = A1.toMatrix * Q1.toMatrix * diagonal (fun j => ((Real.sqrt (s j) : ℝ) : 𝕜)) * R.toMatrix := by
  rw [crotLoadings, topRows_mul, topRows_scaleCols, topRows_vstack, toMatrix_mul]
  rfl

theorem crotNorms_nonneg (X : Mat p k 𝕜) (j : Fin k) : 0 ≤ crotNorms (ρ := ℝ) X j := Real.sqrt_nonneg _

/-- **the rotated vectors are unit vectors** in the whitened PC space (whenever the rotated pattern is not null) -/
theorem comps_unit_norm (X : Mat p k 𝕜) (j : Fin k) (h : crotNorms (ρ := ℝ) X j ≠ 0) :
    ∑ i, RCLike.normSq ((X.divCols (crotNorms (ρ := ℝ) X)).get i j) = 1 := by
  have hs : colSqSums (ρ := ℝ) X j = ∑ i, RCLike.normSq (X.get i j) := XP.RotM.colSqSums_eq X j
  have hpos : 0 ≤ colSqSums (ρ := ℝ) X j := by rw [hs]; exact Finset.sum_nonneg fun i _ => RCLike.normSq_nonneg _
  have hc : crotNorms (ρ := ℝ) X j * crotNorms (ρ := ℝ) X j = colSqSums (ρ := ℝ) X j := Real.mul_self_sqrt hpos
  have hn : ∀ r : ℝ, RCLike.normSq ((r : ℝ) : 𝕜) = r * r := by
    intro r; rw [RCLike.normSq_eq_def', RCLike.norm_ofReal, sq_abs, sq]
  simp only [Mat.divCols, Mat.get_ofFn, Entry.divReal_eq, RCLike.normSq_div, hn]
  rw [← Finset.sum_div, ← hs, ← hc]
  exact div_self (mul_ne_zero h h)

theorem diag_mul_inv_conj (d : Fin k → ℝ) (h : ∀ j, d j ≠ 0) :
    (diagonal (fun j => ((d j : ℝ) : 𝕜)) : Matrix (Fin k) (Fin k) 𝕜) * (diagonal (fun j => ((d j : ℝ) : 𝕜)⁻¹))ᴴ = 1 := by
  rw [diagonal_conjTranspose, diagonal_mul_diagonal, ← diagonal_one]
  congr 1; funext j
  have : ((d j : ℝ) : 𝕜) ≠ 0 := by exact_mod_cast h j
  simp [this]

theorem diag_inv_mul_conj (d : Fin k → ℝ) (h : ∀ j, d j ≠ 0) :
    (diagonal (fun j => ((d j : ℝ) : 𝕜)⁻¹) : Matrix (Fin k) (Fin k) 𝕜) * (diagonal (fun j => ((d j : ℝ) : 𝕜)))ᴴ = 1 := by
  rw [diagonal_conjTranspose, diagonal_mul_diagonal, ← diagonal_one]
  congr 1; funext j
  have : ((d j : ℝ) : 𝕜) ≠ 0 := by exact_mod_cast h j
  simp [this]

theorem comps1_toMatrix (A1 : Mat p p' 𝕜) (A2 : Mat q q' 𝕜) (B1 : Mat p' p 𝕜) (B2 : Mat q' q 𝕜) (Q1 : Mat p' k 𝕜)
    (Q2 : Mat q' k 𝕜) (s : Fin k → ℝ) (S1 S2 : Mat n k 𝕜) (R RinvT : Mat k k 𝕜) (sgn : Fin k → ℝ) (σ : Fin k ≃ Fin k) :
    (crotFit A1 A2 B1 B2 Q1 Q2 s S1 S2 R RinvT sgn σ).comps1.toMatrix
      = (((B1.mul (topRows (crotLoadings A1 A2 Q1 Q2 s R))).divCols
            (crotNorms (ρ := ℝ) (B1.mul (topRows (crotLoadings A1 A2 Q1 Q2 s R))))).toMatrix * rdiag sgn).submatrix id σ := by
  ext i j
  simp only [crotFit, Mat.get_ofFn, rdiag, Matrix.mul_diagonal, Matrix.submatrix_apply, toMatrix_apply, id_eq, Entry.ofReal_eq]

theorem scores1_toMatrix (A1 : Mat p p' 𝕜) (A2 : Mat q q' 𝕜) (B1 : Mat p' p 𝕜) (B2 : Mat q' q 𝕜) (Q1 : Mat p' k 𝕜)
    (Q2 : Mat q' k 𝕜) (s : Fin k → ℝ) (S1 S2 : Mat n k 𝕜) (R RinvT : Mat k k 𝕜) (sgn : Fin k → ℝ) (σ : Fin k ≃ Fin k) :
    (crotFit A1 A2 B1 B2 Q1 Q2 s S1 S2 R RinvT sgn σ).scores1.toMatrix
      = ((crotScoresUnsorted S1 s RinvT
            (crotNorms (ρ := ℝ) (B1.mul (topRows (crotLoadings A1 A2 Q1 Q2 s R))))).toMatrix * rdiag sgn).submatrix id σ := by
  ext i j
  simp only [crotFit, Mat.get_ofFn, rdiag, Matrix.mul_diagonal, Matrix.submatrix_apply, toMatrix_apply, id_eq, Entry.ofReal_eq]

/-- **rotation re-expresses the retained subspace** (first field of a rotated cross-set model, in whitened PC space): the
reconstruction from the rotated, signed and sorted scores / vectors equals `S₁ Q₁ᴴ`, the one from the same number of unrotated modes.
Hypotheses: going to physical space and back is the identity (`B₁ A₁ = 1`: PCA keeps all modes, whitening invertible), `RinvT`
really is `(R⁻¹)ᴴ` (oracle specification), signs are ±1, the order is a permutation, no rotated pattern is null, singular values
are positive. -/
theorem model_crot_reconstruction (A1 : Mat p p' 𝕜) (A2 : Mat q q' 𝕜) (B1 : Mat p' p 𝕜) (B2 : Mat q' q 𝕜) (Q1 : Mat p' k 𝕜)
    (Q2 : Mat q' k 𝕜) (s : Fin k → ℝ) (S1 S2 : Mat n k 𝕜) (R RinvT : Mat k k 𝕜) (sgn : Fin k → ℝ) (σ : Fin k ≃ Fin k)
    (hBA : B1.toMatrix * A1.toMatrix = 1) (hR : (RinvT.toMatrix)ᴴ * R.toMatrix = 1) (hsgn : ∀ j, sgn j * sgn j = 1)
    (hnz : ∀ j, crotNorms (ρ := ℝ) (B1.mul (topRows (crotLoadings A1 A2 Q1 Q2 s R))) j ≠ 0) (hs : ∀ j, 0 < s j) :
    (crotFit A1 A2 B1 B2 Q1 Q2 s S1 S2 R RinvT sgn σ).scores1.toMatrix
        * ((crotFit A1 A2 B1 B2 Q1 Q2 s S1 S2 R RinvT sgn σ).comps1.toMatrix)ᴴ
      = S1.toMatrix * (Q1.toMatrix)ᴴ := by
  set X1 := B1.mul (topRows (crotLoadings A1 A2 Q1 Q2 s R)) with hX1def
  set N : Fin k → ℝ := crotNorms (ρ := ℝ) X1 with hN
  set D : Fin k → ℝ := fun j => Real.sqrt (s j) with hD
  have hDnz : ∀ j, D j ≠ 0 := fun j => (Real.sqrt_pos.mpr (hs j)).ne'
  have hX1 : X1.toMatrix = Q1.toMatrix * diagonal (fun j => ((D j : ℝ) : 𝕜)) * R.toMatrix := by
    rw [hX1def, toMatrix_mul, topRows_crotLoadings, ← Matrix.mul_assoc, ← Matrix.mul_assoc, ← Matrix.mul_assoc, hBA, Matrix.one_mul]
  rw [comps1_toMatrix, scores1_toMatrix, XP.RotM.submatrix_perm_mul_conjTranspose]
  have hSg : (rdiag sgn : Matrix (Fin k) (Fin k) 𝕜) * (rdiag sgn)ᴴ = 1 := by
    rw [rdiag_conjTranspose]; exact rdiag_one_of_sq sgn hsgn
  rw [conjTranspose_mul, Matrix.mul_assoc, ← Matrix.mul_assoc (rdiag sgn), hSg, Matrix.one_mul]
  have hsc : (crotScoresUnsorted S1 s RinvT N).toMatrix
      = S1.toMatrix * diagonal (fun j => ((D j : ℝ) : 𝕜)⁻¹) * RinvT.toMatrix * diagonal (fun j => ((N j : ℝ) : 𝕜)) := by
    simp [crotScoresUnsorted, hD]
    rfl
  have hrc : (X1.divCols N).toMatrix = X1.toMatrix * diagonal (fun j => ((N j : ℝ) : 𝕜)⁻¹) := by simp
  have hRR : RinvT.toMatrix * (R.toMatrix)ᴴ = 1 := by
    have : (R.toMatrix)ᴴ * RinvT.toMatrix = 1 := by
      have := congrArg conjTranspose hR
      simpa [conjTranspose_mul] using this
    exact mul_eq_one_comm.mp this
  rw [hsc, hrc, hX1]
  calc S1.toMatrix * diagonal (fun j => ((D j : ℝ) : 𝕜)⁻¹) * RinvT.toMatrix * diagonal (fun j => ((N j : ℝ) : 𝕜))
          * (Q1.toMatrix * diagonal (fun j => ((D j : ℝ) : 𝕜)) * R.toMatrix * diagonal (fun j => ((N j : ℝ) : 𝕜)⁻¹))ᴴ
      = S1.toMatrix * (diagonal (fun j => ((D j : ℝ) : 𝕜)⁻¹) * (RinvT.toMatrix * ((diagonal (fun j => ((N j : ℝ) : 𝕜))
          * (diagonal (fun j => ((N j : ℝ) : 𝕜)⁻¹))ᴴ) * (R.toMatrix)ᴴ)) * (diagonal (fun j => ((D j : ℝ) : 𝕜)))ᴴ) * (Q1.toMatrix)ᴴ := by
        simp only [conjTranspose_mul, Matrix.mul_assoc]
    _ = S1.toMatrix * (Q1.toMatrix)ᴴ := by
        rw [diag_mul_inv_conj N hnz, Matrix.one_mul, hRR, Matrix.mul_one, diag_inv_mul_conj D hDnz, Matrix.mul_one]

end XP.CrotM
