import Mathlib.Data.Fintype.Card
import Mathlib.Data.Finset.Card

namespace XP.Mask
open Finset

variable {n m : ℕ}

def colValid (mask : Fin n → Fin m → Bool) (j : Fin m) : Bool := decide (∃ i, mask i j = true)
def rowValid (mask : Fin n → Fin m → Bool) (i : Fin n) : Bool := decide (∃ j, mask i j = true)
def rowCount (mask : Fin n → Fin m → Bool) (i : Fin n) : ℕ := (univ.filter fun j => mask i j = true).card
def nValidCols (mask : Fin n → Fin m → Bool) : ℕ := (univ.filter fun j => colValid mask j = true).card

/-- the Sanitizer's test: every sample has either no valid feature or as many as there are valid features -/
def noIsolated (mask : Fin n → Fin m → Bool) : Prop := ∀ i, rowCount mask i = 0 ∨ rowCount mask i = nValidCols mask

theorem rectangular_mask (mask : Fin n → Fin m → Bool) :
    noIsolated mask ↔ ∀ i j, mask i j = (rowValid mask i && colValid mask j) := by
  constructor
  · intro h i j
    have hsub : (univ.filter fun j => mask i j = true) ⊆ (univ.filter fun j => colValid mask j = true) := by
      intro j hj; simp only [mem_filter, mem_univ, true_and] at hj ⊢
      simp only [colValid, decide_eq_true_eq]; exact ⟨i, hj⟩
    rcases h i with h0 | hN
    · -- empty row
      have hemp : (univ.filter fun j => mask i j = true) = ∅ := card_eq_zero.mp h0
      have hall : ∀ j, mask i j = false := by
        intro j; by_contra hc
        have : j ∈ (univ.filter fun j => mask i j = true) := by simp; simpa using hc
        rw [hemp] at this; simp at this
      have hr : rowValid mask i = false := by
        simp only [rowValid, decide_eq_false_iff_not, not_exists]; intro j; simp [hall j]
      simp [hall j, hr]
    · have heq : (univ.filter fun j => mask i j = true) = (univ.filter fun j => colValid mask j = true) :=
        eq_of_subset_of_card_le hsub (by unfold rowCount nValidCols at hN; omega)
      have hij : mask i j = colValid mask j := by
        have := Finset.ext_iff.mp heq j
        simp only [mem_filter, mem_univ, true_and] at this
        cases hm : mask i j <;> cases hc : colValid mask j <;> simp_all
      by_cases hr : rowValid mask i = true
      · simp [hr, hij]
      · have hr' : rowValid mask i = false := by simpa using hr
        have : mask i j = false := by
          simp only [rowValid, decide_eq_false_iff_not, not_exists] at hr'
          simpa using hr' j
        simp [this, hr']
  · intro h i
    by_cases hr : rowValid mask i = true
    · right
      unfold rowCount nValidCols
      congr 1; ext j; simp [h i j, hr]
    · left
      have hr' : rowValid mask i = false := by simpa using hr
      unfold rowCount
      rw [card_eq_zero]; ext j; simp [h i j, hr']

end XP.Mask
