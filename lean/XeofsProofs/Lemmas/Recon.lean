import Mathlib.Analysis.Matrix.Spectrum
import Mathlib.LinearAlgebra.Matrix.Rank

namespace XP.Recon
open Matrix Finset

variable {𝕜 : Type*} [RCLike 𝕜] {n p : ℕ}

noncomputable def frob2 (A : Matrix (Fin n) (Fin p) 𝕜) : ℝ := RCLike.re (trace (Aᴴ * A))

def rectDiag (𝕜 : Type*) [RCLike 𝕜] (n : ℕ) {p : ℕ} (s : Fin p → ℝ) : Matrix (Fin n) (Fin p) 𝕜 :=
  fun i j => if (i : ℕ) = (j : ℕ) then (s j : 𝕜) else 0

theorem rectDiag_gram (s : Fin p → ℝ) (hpad : ∀ j : Fin p, n ≤ (j : ℕ) → s j = 0) :
    (rectDiag 𝕜 n s)ᴴ * rectDiag 𝕜 n s = diagonal (fun j => ((s j ^ 2 : ℝ) : 𝕜)) := by
  ext j j'
  simp only [mul_apply, conjTranspose_apply, rectDiag, diagonal_apply]
  by_cases hjj : j = j'
  · subst hjj
    simp only [if_true]
    by_cases hj : (j : ℕ) < n
    · rw [Finset.sum_eq_single ⟨j, hj⟩]
      · simp [pow_two]
      · intro b _ hb
        have : (b : ℕ) ≠ (j : ℕ) := fun h => hb (Fin.ext h)
        simp [this]
      · simp
    · have hz := hpad j (not_lt.mp hj)
      have : ∀ i : Fin n, (i : ℕ) ≠ (j : ℕ) := fun i h => hj (h ▸ i.isLt)
      simp [this, hz]
  · simp only [hjj, if_false]
    apply Finset.sum_eq_zero
    intro i _
    by_cases h1 : (i : ℕ) = (j : ℕ)
    · have : (i : ℕ) ≠ (j' : ℕ) := fun h => hjj (Fin.ext (h1.symm.trans h))
      simp [this]
    · simp [h1]

/-- truncation of the singular values to the first `k` (what `U[:, :k], s[:k], VT[:k]` keeps) -/
def truncS (k : ℕ) (s : Fin p → ℝ) : Fin p → ℝ := fun j => if (j : ℕ) < k then s j else 0
def tailS (k : ℕ) (s : Fin p → ℝ) : Fin p → ℝ := fun j => if (j : ℕ) < k then 0 else s j

theorem rectDiag_sub (k : ℕ) (s : Fin p → ℝ) :
    rectDiag 𝕜 n s - rectDiag 𝕜 n (truncS k s) = rectDiag 𝕜 n (tailS k s) := by
  ext i j
  rw [Matrix.sub_apply]
  by_cases h : (i : ℕ) = (j : ℕ) <;> by_cases hk : (j : ℕ) < k <;> simp [rectDiag, truncS, tailS, h, hk]

/-- **C01 recon_error**: the rank-`k` truncation `X_k = U Σ_k Vᴴ` misses exactly the tail `Σ_{i ≥ k} s_i²`. -/
theorem recon_error (U : Matrix (Fin n) (Fin n) 𝕜) (V : Matrix (Fin p) (Fin p) 𝕜) (s : Fin p → ℝ) (k : ℕ)
    (hU : Uᴴ * U = 1) (hV : Vᴴ * V = 1) (hpad : ∀ j : Fin p, n ≤ (j : ℕ) → s j = 0) :
    frob2 (𝕜 := 𝕜) (U * rectDiag 𝕜 n s * Vᴴ - U * rectDiag 𝕜 n (truncS k s) * Vᴴ)
      = ∑ i ∈ univ.filter (fun i : Fin p => ¬ i.val < k), s i ^ 2 := by
  have hpad' : ∀ j : Fin p, n ≤ (j : ℕ) → tailS k s j = 0 := by
    intro j hj; simp only [tailS]; split
    · rfl
    · exact hpad j hj
  have hdiff : U * rectDiag 𝕜 n s * Vᴴ - U * rectDiag 𝕜 n (truncS k s) * Vᴴ = U * rectDiag 𝕜 n (tailS k s) * Vᴴ := by
    rw [← Matrix.sub_mul, ← Matrix.mul_sub, rectDiag_sub]
  rw [hdiff]
  unfold frob2
  have : (U * rectDiag 𝕜 n (tailS k s) * Vᴴ)ᴴ * (U * rectDiag 𝕜 n (tailS k s) * Vᴴ)
      = V * (diagonal (fun j => ((tailS k s j ^ 2 : ℝ) : 𝕜))) * Vᴴ := by
    simp only [conjTranspose_mul, conjTranspose_conjTranspose, Matrix.mul_assoc]
    rw [← Matrix.mul_assoc Uᴴ, hU, Matrix.one_mul, ← Matrix.mul_assoc (rectDiag 𝕜 n (tailS k s))ᴴ, rectDiag_gram _ hpad']
  rw [this, Matrix.mul_assoc, trace_mul_comm, Matrix.mul_assoc, hV, Matrix.mul_one, trace_diagonal, map_sum]
  rw [Finset.sum_filter]
  apply Finset.sum_congr rfl; intro i _
  simp only [tailS, RCLike.ofReal_re]
  by_cases h : (i : ℕ) < k <;> simp [h]

/-- … and the truncation has rank at most `k` -/
theorem trunc_rank_le (U : Matrix (Fin n) (Fin n) 𝕜) (V : Matrix (Fin p) (Fin p) 𝕜) (s : Fin p → ℝ) (k : ℕ) :
    (U * rectDiag 𝕜 n (truncS k s) * Vᴴ).rank ≤ k := by
  -- factor Σ_k through the k retained columns
  classical
  have hfac : rectDiag 𝕜 n (truncS k s)
      = rectDiag 𝕜 n (truncS k s) * diagonal (fun j : Fin p => if (j : ℕ) < k then (1 : 𝕜) else 0) := by
    ext i j
    simp only [mul_diagonal, rectDiag, truncS]
    by_cases hk : (j : ℕ) < k <;> simp [hk]
  calc (U * rectDiag 𝕜 n (truncS k s) * Vᴴ).rank ≤ (U * rectDiag 𝕜 n (truncS k s)).rank := rank_mul_le_left _ _
    _ ≤ (rectDiag 𝕜 n (truncS k s)).rank := rank_mul_le_right _ _
    _ ≤ (diagonal (fun j : Fin p => if (j : ℕ) < k then (1 : 𝕜) else 0)).rank := by
        rw [hfac]; exact rank_mul_le_right _ _
    _ ≤ k := by
        rw [rank_diagonal]
        have : Fintype.card {i : Fin p // (if (i : ℕ) < k then (1 : 𝕜) else 0) ≠ 0} ≤ k := by
          have h1 : Fintype.card {i : Fin p // (if (i : ℕ) < k then (1 : 𝕜) else 0) ≠ 0}
              = (univ.filter (fun i : Fin p => (i : ℕ) < k)).card := by
            rw [Fintype.card_subtype]; congr 1; ext i; by_cases h : (i : ℕ) < k <;> simp [h]
          rw [h1, Fin.card_filter_val_lt]; exact min_le_right _ _
        exact this

end XP.Recon
