import Mathlib.Analysis.SpecialFunctions.Pow.Real
import Mathlib.LinearAlgebra.Matrix.ConjTranspose
import Mathlib.LinearAlgebra.Matrix.Hermitian
import Mathlib.Analysis.RCLike.Basic

namespace XP.Whiten
open Matrix

variable {𝕜 : Type*} [RCLike 𝕜] {p : ℕ}

noncomputable def specPow (V : Matrix (Fin p) (Fin p) 𝕜) (s : Fin p → ℝ) (q : ℝ) : Matrix (Fin p) (Fin p) 𝕜 :=
  V * diagonal (fun i => ((s i ^ q : ℝ) : 𝕜)) * Vᴴ

theorem specPow_hermitian (V : Matrix (Fin p) (Fin p) 𝕜) (s : Fin p → ℝ) (q : ℝ) :
    (specPow V s q)ᴴ = specPow V s q := by
  unfold specPow
  have hd : (diagonal (fun i => ((s i ^ q : ℝ) : 𝕜)))ᴴ = diagonal (fun i => ((s i ^ q : ℝ) : 𝕜)) := by
    rw [diagonal_conjTranspose]; congr 1; funext i; simp
  simp only [conjTranspose_mul, conjTranspose_conjTranspose, hd, Matrix.mul_assoc]

theorem specPow_mul (V : Matrix (Fin p) (Fin p) 𝕜) (hV : Vᴴ * V = 1) (s : Fin p → ℝ) (hs : ∀ i, 0 < s i)
    (a b : ℝ) : specPow V s a * specPow V s b = specPow V s (a + b) := by
  unfold specPow
  have hd : diagonal (fun i => ((s i ^ a : ℝ) : 𝕜)) * diagonal (fun i => ((s i ^ b : ℝ) : 𝕜))
      = diagonal (fun i => ((s i ^ (a + b) : ℝ) : 𝕜)) := by
    rw [diagonal_mul_diagonal]; congr 1; funext i
    rw [Real.rpow_add (hs i)]; push_cast; rfl
  calc V * diagonal (fun i => ((s i ^ a : ℝ) : 𝕜)) * Vᴴ * (V * diagonal (fun i => ((s i ^ b : ℝ) : 𝕜)) * Vᴴ)
      = V * (diagonal (fun i => ((s i ^ a : ℝ) : 𝕜)) * (Vᴴ * V) * diagonal (fun i => ((s i ^ b : ℝ) : 𝕜))) * Vᴴ := by
        simp only [Matrix.mul_assoc]
    _ = _ := by rw [hV, Matrix.mul_one, hd]

theorem whitened_cov (V : Matrix (Fin p) (Fin p) 𝕜) (hV : Vᴴ * V = 1) (s : Fin p → ℝ) (hs : ∀ i, 0 < s i) (α : ℝ) :
    (specPow V s ((α - 1) / 2))ᴴ * specPow V s 1 * specPow V s ((α - 1) / 2) = specPow V s α := by
  rw [specPow_hermitian, specPow_mul V hV s hs, specPow_mul V hV s hs]
  congr 1; ring

theorem specPow_zero (V : Matrix (Fin p) (Fin p) 𝕜) (hV' : V * Vᴴ = 1) (s : Fin p → ℝ) : specPow V s 0 = 1 := by
  unfold specPow; simp [hV']

theorem T_Tinv (V : Matrix (Fin p) (Fin p) 𝕜) (hV : Vᴴ * V = 1) (hV' : V * Vᴴ = 1) (s : Fin p → ℝ)
    (hs : ∀ i, 0 < s i) (q : ℝ) : specPow V s q * specPow V s (-q) = 1 := by
  rw [specPow_mul V hV s hs, add_neg_cancel, specPow_zero V hV']

end XP.Whiten
