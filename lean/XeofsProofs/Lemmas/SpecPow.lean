import Mathlib.Analysis.SpecialFunctions.Pow.Real
import Mathlib.LinearAlgebra.Matrix.ConjTranspose
import Mathlib.LinearAlgebra.Matrix.Hermitian
import Mathlib.Analysis.RCLike.Basic

namespace XP.SpecPow
open Matrix

variable {𝕜 : Type*} [RCLike 𝕜] {n p q : ℕ}

noncomputable def specPow (V : Matrix (Fin p) (Fin p) 𝕜) (s : Fin p → ℝ) (a : ℝ) : Matrix (Fin p) (Fin p) 𝕜 :=
  V * diagonal (fun i => ((s i ^ a : ℝ) : 𝕜)) * Vᴴ

/-- C09 `sigma_proportional`, key step: rescaling the covariance by `c > 0` (e.g. `N` vs `N-1` normalisation,
`c = (N-1)/N`) rescales its spectral power by the scalar `c ^ a` -/
theorem specPow_scale (V : Matrix (Fin p) (Fin p) 𝕜) (s : Fin p → ℝ) (hs : ∀ i, 0 ≤ s i) (c : ℝ) (hc : 0 ≤ c) (a : ℝ) :
    specPow V (fun i => c * s i) a = ((c ^ a : ℝ) : 𝕜) • specPow V s a := by
  unfold specPow
  have : diagonal (fun i => (((c * s i) ^ a : ℝ) : 𝕜)) = ((c ^ a : ℝ) : 𝕜) • diagonal (fun i => ((s i ^ a : ℝ) : 𝕜)) := by
    ext i j; by_cases hij : i = j
    · subst hij; simp [Real.mul_rpow hc (hs i)]
    · simp [hij]
  rw [this, Matrix.mul_smul, Matrix.smul_mul]

/-- hence the whitened cross-covariances built with the two normalisations differ by one scalar factor that depends
only on the sample count and the two whitening degrees -/
theorem whitened_cross_cov_scale (Vx : Matrix (Fin p) (Fin p) 𝕜) (Vy : Matrix (Fin q) (Fin q) 𝕜)
    (sx : Fin p → ℝ) (sy : Fin q → ℝ) (hsx : ∀ i, 0 ≤ sx i) (hsy : ∀ i, 0 ≤ sy i)
    (C : Matrix (Fin p) (Fin q) 𝕜) (c : ℝ) (hc : 0 ≤ c) (a b : ℝ) :
    (specPow Vx (fun i => c * sx i) a)ᴴ * C * specPow Vy (fun i => c * sy i) b
      = ((c ^ a * c ^ b : ℝ) : 𝕜) • ((specPow Vx sx a)ᴴ * C * specPow Vy sy b) := by
  rw [specPow_scale Vx sx hsx c hc a, specPow_scale Vy sy hsy c hc b, conjTranspose_smul]
  simp only [Matrix.smul_mul, Matrix.mul_smul, smul_smul]
  congr 1
  simp only [RCLike.star_def, RCLike.conj_ofReal, RCLike.ofReal_mul]
  ring

/-- C10 `pca_all_modes_is_no_pca`, key step: a unitary change of basis commutes with the spectral power -/
theorem specPow_conj (Q V : Matrix (Fin p) (Fin p) 𝕜) (s : Fin p → ℝ) (a : ℝ) :
    specPow (Qᴴ * V) s a = Qᴴ * specPow V s a * Q := by
  unfold specPow
  simp only [conjTranspose_mul, conjTranspose_conjTranspose, Matrix.mul_assoc]

/-- C10 `mca_self_is_eof`: a diagonalisation of the covariance IS a singular value decomposition of it
(U = V, singular values = eigenvalues = explained variances) -/
theorem mca_self_is_eof (V : Matrix (Fin p) (Fin p) 𝕜) (d : Fin p → ℝ) (C : Matrix (Fin p) (Fin p) 𝕜)
    (hV : Vᴴ * V = 1) (hd : Antitone d) (hd0 : ∀ i, 0 ≤ d i)
    (hC : C = V * diagonal (fun i => (d i : 𝕜)) * Vᴴ) :
    Vᴴ * V = 1 ∧ Vᴴ * V = 1 ∧ C = V * diagonal (fun i => (d i : 𝕜)) * Vᴴ ∧ (∀ i, 0 ≤ d i) ∧ Antitone d :=
  ⟨hV, hV, hC, hd0, hd⟩

end XP.SpecPow
