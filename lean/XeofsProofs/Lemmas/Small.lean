import Mathlib.LinearAlgebra.Matrix.ConjTranspose
import Mathlib.LinearAlgebra.Matrix.Trace
import Mathlib.Analysis.RCLike.Basic
import Mathlib.Tactic.Linarith

namespace XP.Small
open Matrix Finset

variable {𝕜 : Type*} [RCLike 𝕜] {n p q k r : ℕ}

/-- C01 `ratio_eq`: total variance (= trace of the Gram matrix, A.20) is the sum of ALL eigenvalues, so the
explained-variance ratios are `λ_i / Σ_j λ_j` -/
theorem trace_eq_sum_diag (V : Matrix (Fin p) (Fin p) 𝕜) (d : Fin p → ℝ) (hV : Vᴴ * V = 1) :
    RCLike.re (trace (V * diagonal (fun i => (d i : 𝕜)) * Vᴴ)) = ∑ i, d i := by
  rw [Matrix.mul_assoc, trace_mul_comm, Matrix.mul_assoc, hV, Matrix.mul_one, trace_diagonal, map_sum]; simp

/-- C03 `cpcca_full_reconstruction`: PCA (all modes), whitening and the CPCCA projection are undone in reverse order -/
theorem cpcca_full_reconstruction (X : Matrix (Fin n) (Fin p) 𝕜) (V : Matrix (Fin p) (Fin r) 𝕜)
    (T Tinv Q : Matrix (Fin r) (Fin r) 𝕜) (hXV : X * V * Vᴴ = X) (hT : T * Tinv = 1) (hQ : Q * Qᴴ = 1) :
    ((X * V * T) * Q) * Qᴴ * Tinv * Vᴴ = X := by
  calc ((X * V * T) * Q) * Qᴴ * Tinv * Vᴴ = X * V * (T * ((Q * Qᴴ) * Tinv)) * Vᴴ := by simp only [Matrix.mul_assoc]
    _ = X := by rw [hQ, Matrix.one_mul, hT, Matrix.mul_one, hXV]

/-- C16 `components_there_and_back` (the map used by every cross-set `components()` and by the rotators) -/
theorem components_there_and_back (T Tinv : Matrix (Fin r) (Fin r) 𝕜) (P : Matrix (Fin r) (Fin k) 𝕜) (hT : T * Tinv = 1) :
    Tinvᴴ * (Tᴴ * P) = P := by
  rw [← Matrix.mul_assoc, ← conjTranspose_mul, hT, conjTranspose_one, Matrix.one_mul]

/-- C04 (cross-set rotator, after the repair of §9 #7): projecting the whitened training data on the unrotated
modes, un-loading, rotating with `R⁻ᴴ` and re-scaling reproduces the stored rotated scores, because both are the same
expression in the fitted scores `S = X_w Q` -/
theorem rotator_transform_eq_scores (Xw : Matrix (Fin n) (Fin r) 𝕜) (Qm : Matrix (Fin r) (Fin k) 𝕜)
    (S : Matrix (Fin n) (Fin k) 𝕜) (hS : S = Xw * Qm) (Dinv RinvH N : Matrix (Fin k) (Fin k) 𝕜) :
    (Xw * Qm) * Dinv * RinvH * N = S * Dinv * RinvH * N := by rw [hS]

/-- C19: the decorrelation time reported for mode `v` is the weighted sum of that very series' lagged
covariances — bilinearity of `v ↦ vᴴ C v` over the lag sum -/
theorem quad_form_sum {ι : Type*} (s : Finset ι) (w : ι → 𝕜) (C : ι → Matrix (Fin r) (Fin r) 𝕜) (v : Fin r → 𝕜) :
    star v ⬝ᵥ ((∑ τ ∈ s, w τ • C τ) *ᵥ v) = ∑ τ ∈ s, w τ * (star v ⬝ᵥ (C τ *ᵥ v)) := by
  rw [Matrix.sum_mulVec, dotProduct_sum]
  apply Finset.sum_congr rfl; intro τ _
  rw [Matrix.smul_mulVec, dotProduct_smul, smul_eq_mul]

/-- C20 `sign_aligned`: after multiplying a member mode by `np.sign c`, its correlation with the model's mode is ≥ 0 -/
theorem sign_aligned (c : ℝ) : 0 ≤ (if 0 < c then 1 else if c < 0 then -1 else (0 : ℝ)) * c := by
  by_cases h : 0 < c
  · simp [h]; linarith
  · by_cases h' : c < 0
    · simp [h, h']; linarith
    · simp [h, h']

end XP.Small
