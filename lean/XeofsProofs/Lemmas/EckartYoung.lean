import Mathlib.LinearAlgebra.Matrix.PosDef
import Mathlib.Analysis.Matrix.Order
import Mathlib.Analysis.RCLike.Basic
import Mathlib.LinearAlgebra.Matrix.Trace
import Mathlib.Algebra.Order.BigOperators.Group.Finset
import Mathlib.Data.Fintype.Fin
import Mathlib.Tactic.Linarith
import Mathlib.Analysis.InnerProductSpace.PiL2
import Mathlib.LinearAlgebra.Matrix.Rank
import Mathlib.LinearAlgebra.Matrix.ConjTranspose

namespace XP.EY
section S16
open Matrix Finset
open scoped ComplexOrder

variable {𝕜 : Type*} [RCLike 𝕜] {n p k : ℕ}

-- (A.6) assumed from the other prototype file
theorem kyfan_weights {p : ℕ} (a c : Fin p → ℝ) (k : ℕ) (ha : Antitone a) (ha0 : ∀ i, 0 ≤ a i)
    (hc0 : ∀ i, 0 ≤ c i) (hc1 : ∀ i, c i ≤ 1) (hsum : ∑ i, c i ≤ k) :
    ∑ i, a i * c i ≤ ∑ i ∈ univ.filter (fun i : Fin p => i.val < k), a i := by
  classical
  let t : ℝ := if h : k < p then a ⟨k, h⟩ else 0
  have ht0 : 0 ≤ t := by
    simp only [t]; split
    · exact ha0 _
    · exact le_refl _
  have hlt : ∀ i : Fin p, i.val < k → t ≤ a i := by
    intro i hi
    simp only [t]; split
    · rename_i h; exact ha (by simp [Fin.le_def]; omega)
    · exact ha0 i
  have hge : ∀ i : Fin p, ¬ i.val < k → a i ≤ t := by
    intro i hi
    have hk : k < p := lt_of_le_of_lt (not_lt.mp hi) i.isLt
    simp only [t, dif_pos hk]
    exact ha (by simp [Fin.le_def]; omega)
  have key : ∀ i : Fin p, a i * c i ≤ (if i.val < k then a i else 0) + t * (c i - (if i.val < k then 1 else 0)) := by
    intro i
    by_cases hi : i.val < k
    · simp only [hi, if_true]
      have h1 := hlt i hi
      have h2 := hc1 i
      nlinarith [hc0 i]
    · simp only [hi, if_false]
      have h1 := hge i hi
      nlinarith [hc0 i]
  have hcard : ((univ.filter (fun i : Fin p => i.val < k)).card : ℝ) = min k p := by
    have : (univ.filter (fun i : Fin p => i.val < k)).card = min k p := by
      rw [Fin.card_filter_val_lt, min_comm]
    exact_mod_cast this
  have hfin : t * (∑ i, c i - (univ.filter (fun i : Fin p => i.val < k)).card) ≤ 0 := by
    rw [hcard]
    by_cases hk : k < p
    · have : min k p = k := min_eq_left hk.le
      rw [this]; exact mul_nonpos_of_nonneg_of_nonpos ht0 (by linarith)
    · have : t = 0 := by simp only [t, dif_neg hk]
      rw [this]; simp
  calc ∑ i, a i * c i ≤ ∑ i, ((if i.val < k then a i else 0) + t * (c i - (if i.val < k then 1 else 0))) :=
        sum_le_sum (fun i _ => key i)
    _ = (∑ i ∈ univ.filter (fun i : Fin p => i.val < k), a i) + t * (∑ i, c i - (univ.filter (fun i : Fin p => i.val < k)).card) := by
        rw [sum_add_distrib, ← mul_sum, sum_sub_distrib, sum_filter]
        congr 2
        simp
    _ ≤ ∑ i ∈ univ.filter (fun i : Fin p => i.val < k), a i := by linarith

/-- diagonal of `G Gᴴ` for `G` with orthonormal columns lies in [0,1] and sums to the number of columns -/
theorem proj_diag_bounds (G : Matrix (Fin p) (Fin k) 𝕜) (hG : Gᴴ * G = 1) :
    (∀ i, 0 ≤ RCLike.re ((G * Gᴴ) i i)) ∧ (∀ i, RCLike.re ((G * Gᴴ) i i) ≤ 1) ∧
      ∑ i, RCLike.re ((G * Gᴴ) i i) = k := by
  have hP : (G * Gᴴ).PosSemidef := posSemidef_self_mul_conjTranspose G
  have hidem : (1 - G * Gᴴ)ᴴ * (1 - G * Gᴴ) = 1 - G * Gᴴ := by
    have hh : (G * Gᴴ)ᴴ = G * Gᴴ := by simp [conjTranspose_mul]
    rw [conjTranspose_sub, conjTranspose_one, hh, Matrix.sub_mul, Matrix.mul_sub, Matrix.mul_sub,
      Matrix.one_mul, Matrix.mul_one, Matrix.one_mul]
    have : G * Gᴴ * (G * Gᴴ) = G * Gᴴ := by
      rw [Matrix.mul_assoc, ← Matrix.mul_assoc Gᴴ, hG, Matrix.one_mul]
    rw [this]; abel
  have hQ : (1 - G * Gᴴ).PosSemidef := by rw [← hidem]; exact posSemidef_conjTranspose_mul_self _
  refine ⟨fun i => ?_, fun i => ?_, ?_⟩
  · exact (RCLike.nonneg_iff.mp hP.diag_nonneg).1
  · have := (RCLike.nonneg_iff.mp (hQ.diag_nonneg (i := i))).1
    rw [Matrix.sub_apply, Matrix.one_apply_eq, map_sub, RCLike.one_re] at this
    linarith
  · rw [← map_sum]
    have : ∑ i, (G * Gᴴ) i i = trace (G * Gᴴ) := rfl
    rw [this, trace_mul_comm, hG, trace_one]; simp

/-- **Ky Fan maximum principle for a diagonalised PSD matrix**: the variance captured by any orthonormal
`k`-frame `W` is at most the sum of the `k` leading eigenvalues. -/
theorem captured_variance_le (M V : Matrix (Fin p) (Fin p) 𝕜) (d : Fin p → ℝ) (hd : Antitone d) (hd0 : ∀ i, 0 ≤ d i)
    (hV : V * Vᴴ = 1) (hM : M = V * diagonal (fun i => (d i : 𝕜)) * Vᴴ)
    (W : Matrix (Fin p) (Fin k) 𝕜) (hW : Wᴴ * W = 1) :
    RCLike.re (trace (Wᴴ * M * W)) ≤ ∑ i ∈ univ.filter (fun i : Fin p => i.val < k), d i := by
  have hV' : Vᴴ * V = 1 := mul_eq_one_comm.mp hV
  set G := Vᴴ * W with hGdef
  have hG : Gᴴ * G = 1 := by
    rw [hGdef, conjTranspose_mul, conjTranspose_conjTranspose, Matrix.mul_assoc, ← Matrix.mul_assoc V, hV,
      Matrix.one_mul, hW]
  obtain ⟨c0, c1, csum⟩ := proj_diag_bounds G hG
  have htr : trace (Wᴴ * M * W) = ∑ i, (d i : 𝕜) * (G * Gᴴ) i i := by
    have : Wᴴ * M * W = Gᴴ * diagonal (fun i => (d i : 𝕜)) * G := by
      rw [hM, hGdef]; simp only [conjTranspose_mul, conjTranspose_conjTranspose, Matrix.mul_assoc]
    rw [this, Matrix.mul_assoc, trace_mul_comm, Matrix.mul_assoc, trace]
    simp only [diag_apply, Matrix.diagonal_mul]
  rw [htr, map_sum]
  have : ∀ i, RCLike.re ((d i : 𝕜) * (G * Gᴴ) i i) = d i * RCLike.re ((G * Gᴴ) i i) := by
    intro i; rw [RCLike.re_ofReal_mul]
  simp_rw [this]
  exact kyfan_weights d _ k hd hd0 c0 c1 (le_of_eq csum)

end S16
section S17
open Matrix Finset
open scoped ComplexOrder

variable {𝕜 : Type*} [RCLike 𝕜] {n p k : ℕ}

/-- squared Frobenius norm -/
noncomputable def frob2 (A : Matrix (Fin n) (Fin p) 𝕜) : ℝ := RCLike.re (trace (Aᴴ * A))

theorem frob2_nonneg (A : Matrix (Fin n) (Fin p) 𝕜) : 0 ≤ frob2 A := by
  have h := (posSemidef_conjTranspose_mul_self A).trace_nonneg
  exact (RCLike.nonneg_iff.mp h).1

/-- Pythagoras for a projector `P = W Wᴴ`: ‖Z‖² = ‖Z(1-P)‖² + ‖ZP‖² -/
theorem frob2_split (Z : Matrix (Fin n) (Fin p) 𝕜) (P : Matrix (Fin p) (Fin p) 𝕜) (hPh : Pᴴ = P) (hPP : P * P = P) :
    frob2 Z = frob2 (Z * (1 - P)) + frob2 (Z * P) := by
  unfold frob2
  rw [← map_add]
  congr 1
  have hQh : (1 - P)ᴴ = 1 - P := by rw [conjTranspose_sub, conjTranspose_one, hPh]
  have hQQ : (1 - P) * (1 - P) = 1 - P := by
    rw [Matrix.sub_mul, Matrix.mul_sub, Matrix.mul_sub, Matrix.one_mul, Matrix.mul_one, Matrix.one_mul, hPP]; abel
  have e1 : trace ((Z * (1 - P))ᴴ * (Z * (1 - P))) = trace (Zᴴ * Z * (1 - P)) := by
    rw [conjTranspose_mul, hQh, Matrix.mul_assoc, trace_mul_comm]
    simp only [Matrix.mul_assoc, hQQ]
  have e2 : trace ((Z * P)ᴴ * (Z * P)) = trace (Zᴴ * Z * P) := by
    rw [conjTranspose_mul, hPh, Matrix.mul_assoc, trace_mul_comm]
    simp only [Matrix.mul_assoc, hPP]
  rw [e1, e2, ← trace_add, ← Matrix.mul_add]
  simp

/-- the part of the error that no matrix with rows in `span W` can remove -/
theorem frob2_outside (X : Matrix (Fin n) (Fin p) 𝕜) (W : Matrix (Fin p) (Fin k) 𝕜) (hW : Wᴴ * W = 1) :
    frob2 (X * (1 - W * Wᴴ)) = RCLike.re (trace (Xᴴ * X)) - RCLike.re (trace (Wᴴ * (Xᴴ * X) * W)) := by
  unfold frob2
  have hPh : (W * Wᴴ)ᴴ = W * Wᴴ := by simp [conjTranspose_mul]
  have hPP : (W * Wᴴ) * (W * Wᴴ) = W * Wᴴ := by
    rw [Matrix.mul_assoc, ← Matrix.mul_assoc Wᴴ, hW, Matrix.one_mul]
  have hQh : (1 - W * Wᴴ)ᴴ = 1 - W * Wᴴ := by rw [conjTranspose_sub, conjTranspose_one, hPh]
  have hQQ : (1 - W * Wᴴ) * (1 - W * Wᴴ) = 1 - W * Wᴴ := by
    rw [Matrix.sub_mul, Matrix.mul_sub, Matrix.mul_sub, Matrix.one_mul, Matrix.mul_one, Matrix.one_mul, hPP]; abel
  rw [conjTranspose_mul, hQh, Matrix.mul_assoc, trace_mul_comm, Matrix.mul_assoc, Matrix.mul_assoc, hQQ,
    ← Matrix.mul_assoc, Matrix.mul_sub, Matrix.mul_one, trace_sub, map_sub]
  congr 1
  rw [← Matrix.mul_assoc, trace_mul_comm, ← Matrix.mul_assoc]

/-- **Eckart–Young, frame form**: no matrix `A * Wᴴ` whose rows lie in the span of an orthonormal
`k`-frame `W` approximates `X` better (in Frobenius norm) than allowed by the captured variance. -/
theorem eckart_young_frame (X : Matrix (Fin n) (Fin p) 𝕜) (A : Matrix (Fin n) (Fin k) 𝕜)
    (W : Matrix (Fin p) (Fin k) 𝕜) (hW : Wᴴ * W = 1) :
    RCLike.re (trace (Xᴴ * X)) - RCLike.re (trace (Wᴴ * (Xᴴ * X) * W)) ≤ frob2 (X - A * Wᴴ) := by
  have hPh : (W * Wᴴ)ᴴ = W * Wᴴ := by simp [conjTranspose_mul]
  have hPP : (W * Wᴴ) * (W * Wᴴ) = W * Wᴴ := by
    rw [Matrix.mul_assoc, ← Matrix.mul_assoc Wᴴ, hW, Matrix.one_mul]
  rw [frob2_split (X - A * Wᴴ) (W * Wᴴ) hPh hPP]
  have hkill : (X - A * Wᴴ) * (1 - W * Wᴴ) = X * (1 - W * Wᴴ) := by
    rw [Matrix.sub_mul]
    have : A * Wᴴ * (1 - W * Wᴴ) = 0 := by
      rw [Matrix.mul_sub, Matrix.mul_one, Matrix.mul_assoc, ← Matrix.mul_assoc Wᴴ, hW, Matrix.one_mul, sub_self]
    rw [this, sub_zero]
  rw [hkill, frob2_outside X W hW]
  linarith [frob2_nonneg ((X - A * Wᴴ) * (W * Wᴴ))]

end S17
section S27
open Matrix Module WithLp
open scoped ComplexOrder

variable {𝕜 : Type*} [RCLike 𝕜] {n p k : ℕ}

/-- every matrix of rank ≤ k can be written `A * Wᴴ` with `W` an orthonormal frame of `r ≤ k` columns -/
theorem exists_frame_of_rank_le (B : Matrix (Fin n) (Fin p) 𝕜) (hk : B.rank ≤ k) :
    ∃ (r : ℕ) (_ : r ≤ k) (A : Matrix (Fin n) (Fin r) 𝕜) (W : Matrix (Fin p) (Fin r) 𝕜),
      Wᴴ * W = 1 ∧ B = A * Wᴴ := by
  classical
  -- the span (in Euclidean space) of the conjugated rows of B
  let e := (WithLp.linearEquiv 2 𝕜 (Fin p → 𝕜)).symm
  let S' : Submodule 𝕜 (Fin p → 𝕜) := Submodule.span 𝕜 (Set.range Bᴴ.col)
  let S : Submodule 𝕜 (EuclideanSpace 𝕜 (Fin p)) := S'.map e.toLinearMap
  have hfin : finrank 𝕜 S = B.rank := by
    rw [← rank_conjTranspose B, rank_eq_finrank_span_cols]
    exact LinearEquiv.finrank_map_eq e S'
  let b := stdOrthonormalBasis 𝕜 S
  let W : Matrix (Fin p) (Fin (finrank 𝕜 S)) 𝕜 := fun i j => ofLp (b j : EuclideanSpace 𝕜 (Fin p)) i
  have hW : Wᴴ * W = 1 := by
    ext j j'
    have h := b.orthonormal
    rw [orthonormal_iff_ite] at h
    have := h j j'
    rw [Submodule.coe_inner, EuclideanSpace.inner_eq_star_dotProduct] at this
    simp only [mul_apply, conjTranspose_apply, one_apply]
    rw [← this]
    simp only [dotProduct, Pi.star_apply, W]
    apply Finset.sum_congr rfl; intro i _; ring
  refine ⟨finrank 𝕜 S, by rw [hfin]; exact hk, B * W, W, hW, ?_⟩
  -- each conjugated row lies in S, hence equals its expansion in the basis b
  ext i j
  have hmem : e (Bᴴ.col i) ∈ S := Submodule.mem_map_of_mem (Submodule.subset_span ⟨i, rfl⟩)
  have hexp := b.sum_repr' ⟨e (Bᴴ.col i), hmem⟩
  have hj := congrArg (fun v : S => ofLp (v : EuclideanSpace 𝕜 (Fin p)) j) hexp
  simp only [Submodule.coe_sum, Submodule.coe_smul, WithLp.ofLp_sum, WithLp.ofLp_smul, Finset.sum_apply,
    Pi.smul_apply, smul_eq_mul] at hj
  -- hj : Σ_l ⟪b l, v⟫ * (b l) j = v j   with v = conj row i
  have hv : ofLp (e (Bᴴ.col i)) j = star (B i j) := rfl
  rw [hv] at hj
  have : B i j = star (star (B i j)) := (star_star _).symm
  rw [this, ← hj, star_sum]
  simp only [mul_apply, conjTranspose_apply, Finset.sum_mul]
  apply Finset.sum_congr rfl; intro l _
  rw [star_mul', Submodule.coe_inner, EuclideanSpace.inner_eq_star_dotProduct]
  simp only [dotProduct, star_sum, star_mul', star_star, Pi.star_apply, Finset.sum_mul, W]
  apply Finset.sum_congr rfl; intro m _
  have : ofLp (e (Bᴴ.col i)) m = star (B i m) := rfl
  rw [this, star_star]

end S27
section S28
open Matrix Finset
open scoped ComplexOrder
variable {𝕜 : Type*} [RCLike 𝕜] {n p k : ℕ}
/-- **Eckart–Young–Mirsky (Frobenius norm)**, from a unitary diagonalisation `XᴴX = V diag(d) Vᴴ` with
descending non-negative `d` (what a full SVD of `X` provides, `d i = s i ^ 2`): every matrix `B` of rank at most `k`
satisfies `‖X - B‖_F² ≥ Σ_{i ≥ k} d i`. -/
theorem eckart_young (X : Matrix (Fin n) (Fin p) 𝕜) (V : Matrix (Fin p) (Fin p) 𝕜) (d : Fin p → ℝ)
    (hd : Antitone d) (hd0 : ∀ i, 0 ≤ d i) (hV : V * Vᴴ = 1)
    (hM : Xᴴ * X = V * diagonal (fun i => (d i : 𝕜)) * Vᴴ)
    (B : Matrix (Fin n) (Fin p) 𝕜) (hB : B.rank ≤ k) :
    ∑ i ∈ univ.filter (fun i : Fin p => ¬ i.val < k), d i ≤ frob2 (X - B) := by
  obtain ⟨r, hr, A, W, hW, rfl⟩ := exists_frame_of_rank_le B hB
  have h1 := eckart_young_frame X A W hW
  have h2 := captured_variance_le (Xᴴ * X) V d hd hd0 hV hM W hW
  have hV' : Vᴴ * V = 1 := mul_eq_one_comm.mp hV
  -- total variance = sum of all d
  have htr : RCLike.re (trace (Xᴴ * X)) = ∑ i, d i := by
    rw [hM, Matrix.mul_assoc, trace_mul_comm, Matrix.mul_assoc, hV', Matrix.mul_one, trace_diagonal, map_sum]
    simp
  -- monotonicity of the leading partial sums in the number of terms
  have hmono : ∑ i ∈ univ.filter (fun i : Fin p => i.val < r), d i ≤ ∑ i ∈ univ.filter (fun i : Fin p => i.val < k), d i := by
    apply Finset.sum_le_sum_of_subset_of_nonneg
    · intro i hi; simp only [mem_filter, mem_univ, true_and] at hi ⊢; omega
    · intro i _ _; exact hd0 i
  have hsplit : ∑ i, d i = ∑ i ∈ univ.filter (fun i : Fin p => i.val < k), d i
      + ∑ i ∈ univ.filter (fun i : Fin p => ¬ i.val < k), d i := (Finset.sum_filter_add_sum_filter_not univ _ _).symm
  linarith

end S28
end XP.EY
