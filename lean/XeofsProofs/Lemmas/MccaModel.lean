import XeofsProofs.Bridge
import XeofsModel.Mcca
import Mathlib.Tactic.FieldSimp
import Mathlib.Tactic.Ring
import Mathlib.Tactic.Linarith
import Mathlib.Algebra.BigOperators.Field
/-! The executable multi-set CCA model (`XM.mccaC`, `mccaD`, `mccaFit`, `mccaTransform`) in Mathlib's language (real data, as the
source asserts with `assert_not_complex`). -/
open XM Matrix

variable {n m P Q k : ℕ}

namespace XP.MccaM

/-- the sample covariance of the concatenated views as the model computes it -/
noncomputable def cov (X : Mat n P ℝ) : Matrix (Fin P) (Fin P) ℝ := (npCov (ρ := ℝ) X).toMatrix

/-- `np.cov` is symmetric -/
theorem cov_symm (X : Mat n P ℝ) (a b : Fin P) : cov X a b = cov X b a := by
  simp only [cov, npCov, toMatrix_apply, Mat.get_ofFn, Entry.divReal_eq, sumFin_eq]
  congr 1
  exact Finset.sum_congr rfl fun t _ => mul_comm _ _

/-- inside a view the matrix `_C` vanishes, across views it is the cross-covariance over the number of views -/
theorem mccaC_apply (X : Mat n P ℝ) (blk : Fin P → ℕ) (nv : ℕ) (a b : Fin P) :
    (mccaC (ρ := ℝ) X blk nv).toMatrix a b = if blk a = blk b then 0 else cov X a b / (nv : ℝ) := by
  simp only [mccaC, toMatrix_apply, Mat.get_ofFn, Entry.divReal_eq, Num.ofNat_real, cov]
  split
  · simp
  · simp only [RCLike.ofReal_real_eq_id, id]
    congr 1
    show (npCov (ρ := ℝ) X).get a b - (Zero.zero : ℝ) = (npCov (ρ := ℝ) X).get a b
    show (npCov (ρ := ℝ) X).get a b - (0 : ℝ) = _
    ring

/-- `_D` without ridge terms (`c = 0`): the diagonal blocks of the covariance, shifted, over the number of views -/
theorem mccaD_apply (X : Mat n P ℝ) (blk : Fin P → ℕ) (nv : ℕ) (lmin eps : ℝ) (a b : Fin P) :
    (mccaD (ρ := ℝ) X blk nv (fun _ => 0) lmin eps).toMatrix a b
      = ((if blk a = blk b then cov X a b else 0) - (if a = b then lmin - eps else 0)) / (nv : ℝ) := by
  simp only [mccaD, toMatrix_apply, Mat.get_ofFn, Num.ofNat_real, cov, Gen.mccaRidge, Gen.mccaShift]
  congr 1
  by_cases h : blk a = blk b <;> by_cases h' : a = b <;> simp [h, h']

/-- **the generalised eigen-equation row by row**: an eigen-pair `(λ, w)` of `(C, D)` (no ridge) couples every view to the OTHER
views: the cross-covariances with the other views applied to their weights equal `λ` times the view's own covariance (shifted)
applied to its own weights -/
theorem gevp_rows (X : Mat n P ℝ) (blk : Fin P → ℕ) (nv : ℕ) (hnv : nv ≠ 0) (lmin eps lam : ℝ) (w : Fin P → ℝ)
    (h : (mccaC (ρ := ℝ) X blk nv).toMatrix.mulVec w = lam • (mccaD (ρ := ℝ) X blk nv (fun _ => 0) lmin eps).toMatrix.mulVec w)
    (a : Fin P) :
    (∑ b, (if blk a = blk b then 0 else cov X a b * w b))
      = lam * ((∑ b, (if blk a = blk b then cov X a b * w b else 0)) - (lmin - eps) * w a) := by
  have hnv' : (nv : ℝ) ≠ 0 := by exact_mod_cast hnv
  have ha := congrFun h a
  simp only [Matrix.mulVec, dotProduct, Pi.smul_apply, smul_eq_mul, mccaC_apply, mccaD_apply] at ha
  have e1 : (∑ b, (if blk a = blk b then 0 else cov X a b / (nv : ℝ)) * w b)
      = (∑ b, (if blk a = blk b then 0 else cov X a b * w b)) / (nv : ℝ) := by
    rw [Finset.sum_div]; refine Finset.sum_congr rfl fun b _ => ?_
    by_cases hb : blk a = blk b
    · simp [hb]
    · simp only [hb, if_false]; ring
  have e2 : (∑ b, ((if blk a = blk b then cov X a b else 0) - (if a = b then lmin - eps else 0)) / (nv : ℝ) * w b)
      = ((∑ b, (if blk a = blk b then cov X a b * w b else 0)) - (lmin - eps) * w a) / (nv : ℝ) := by
    have : (∑ b, (if a = b then lmin - eps else 0) * w b) = (lmin - eps) * w a := by simp
    rw [← this, ← Finset.sum_sub_distrib, Finset.sum_div]
    refine Finset.sum_congr rfl fun b _ => ?_
    by_cases hb : blk a = blk b <;> by_cases hab : a = b <;> simp [hb, hab] <;> ring
  rw [e1, e2] at ha
  field_simp at ha
  linarith

/-- `transform` of the stored input data reproduces the stored variates, view by view -/
theorem transform_training (Xphys : Mat n Q ℝ) (blkQ : Fin Q → ℕ) (B : Mat Q P ℝ) (E : Mat P k ℝ) (lam0 : Fin k → ℝ)
    (perm : Fin k → Fin k) (v : ℕ) :
    mccaTransform (mccaFit Xphys blkQ B E lam0 perm) blkQ Xphys v = (mccaFit Xphys blkQ B E lam0 perm).variates v := rfl

/-- `transform` is a row-local linear map: row `i` of the output only reads row `i` of the new data -/
theorem transform_row (F : MccaFit n Q k ℝ ℝ) (blkQ : Fin Q → ℕ) (X Y : Mat m Q ℝ) (v : ℕ) (i : Fin m)
    (h : ∀ a, X.get i a = Y.get i a) (j : Fin k) :
    (mccaTransform F blkQ X v).get i j = (mccaTransform F blkQ Y v).get i j := by
  simp only [mccaTransform, Mat.mul, Mat.get_ofFn, h]

/-- the weights of a view only see that view's columns of the data -/
theorem transform_reads_own_view (F : MccaFit n Q k ℝ ℝ) (blkQ : Fin Q → ℕ) (X Y : Mat m Q ℝ) (v : ℕ)
    (h : ∀ i a, blkQ a = v → X.get i a = Y.get i a) :
    mccaTransform F blkQ X v = mccaTransform F blkQ Y v := by
  have : ∀ i j, (mccaTransform F blkQ X v).get i j = (mccaTransform F blkQ Y v).get i j := by
    intro i j
    simp only [mccaTransform, Mat.mul, Mat.get_ofFn, viewPart, sumFin_eq]
    refine Finset.sum_congr rfl fun a _ => ?_
    by_cases ha : blkQ a = v
    · simp [ha, h i a ha]
    · simp only [ha, if_false]
      show X.get i a * (0 : ℝ) = Y.get i a * (0 : ℝ)
      simp
  have hX : ∀ A : Mat m k ℝ, A = Mat.ofFn fun i j => A.get i j := by
    intro A; rcases A with ⟨d⟩
    simp only [Mat.ofFn, Mat.get, Mat.mk.injEq]
    ext i hi j hj
    simp
  rw [hX (mccaTransform F blkQ X v), hX (mccaTransform F blkQ Y v)]
  congr 1; funext i j; exact this i j

/-- unit-norm weights per view, for ANY weight matrix (what `mccaFit` stores as loadings) -/
theorem unit_of_weights (W : Mat Q k ℝ) (blkQ : Fin Q → ℕ) (v : ℕ) (j : Fin k)
    (hpos : 0 < ∑ a, (if blkQ a = v then (W.get a j) ^ 2 else 0)) :
    ∑ a, (((viewPart (ρ := ℝ) W blkQ v).divCols (viewNorm (ρ := ℝ) W blkQ v)).get a j) ^ 2 = 1 := by
  set S := ∑ a, (if blkQ a = v then (W.get a j) ^ 2 else 0) with hS
  have hnorm : viewNorm (ρ := ℝ) W blkQ v j = Real.sqrt S := by
    simp only [viewNorm, hS]
    congr 1
    have := sumFin_eq (α := ℝ) Q (fun a => if blkQ a = v then (Entry.normSq (W.get a j) : ℝ) else Num.ofNat 0)
    simp only [Mat.sumFin] at this
    rw [show (Num.ofNat 0 : ℝ) = (0 : ℝ) by simp] at *
    rw [this]
    refine Finset.sum_congr rfl fun a _ => ?_
    split
    · simp [RCLike.normSq_apply, pow_two]
    · rfl
  have hl : ∀ a, ((viewPart (ρ := ℝ) W blkQ v).divCols (viewNorm (ρ := ℝ) W blkQ v)).get a j
      = (if blkQ a = v then W.get a j else 0) / Real.sqrt S := by
    intro a
    simp only [Mat.divCols, Mat.get_ofFn, Entry.divReal_eq, viewPart, hnorm, RCLike.ofReal_real_eq_id, id]
    rfl
  simp only [hl, div_pow, Real.sq_sqrt hpos.le]
  rw [← Finset.sum_div]
  have : (∑ a, (if blkQ a = v then W.get a j else 0) ^ 2) = S := by
    rw [hS]; refine Finset.sum_congr rfl fun a _ => ?_
    split <;> simp
  rw [this, div_self hpos.ne']

/-- the loadings of a view have unit norm over that view's features (whenever its weights do not vanish) -/
theorem loadings_unit (Xphys : Mat n Q ℝ) (blkQ : Fin Q → ℕ) (B : Mat Q P ℝ) (E : Mat P k ℝ) (lam0 : Fin k → ℝ)
    (perm : Fin k → Fin k) (v : ℕ) (j : Fin k)
    (hpos : 0 < ∑ a, (if blkQ a = v then ((mccaFit Xphys blkQ B E lam0 perm).weights.get a j) ^ 2 else 0)) :
    ∑ a, (((mccaFit Xphys blkQ B E lam0 perm).loadings v).get a j) ^ 2 = 1 :=
  unit_of_weights (mccaFit Xphys blkQ B E lam0 perm).weights blkQ v j hpos

end XP.MccaM

namespace XP.Mcca2

variable {p q : ℕ}

/-- **two views: the eigenvalue is the canonical correlation.** If `(wx, wy, λ)` solve the coupled equations MCCA's eigen-problem
reduces to for two views (`Sxy wy = λ Sxx wx`, `Sxyᵀ wx = λ Syy wy`; see `gevp_rows`) with `λ ≠ 0` and positive variance of the
first variate, then both variates have the same variance and their covariance over the geometric mean of their variances — the
correlation of `X wx` and `Y wy`, what cross-set CCA reports — is `λ` -/
theorem eigenvalue_is_canonical_correlation (Sxx : Matrix (Fin p) (Fin p) ℝ) (Syy : Matrix (Fin q) (Fin q) ℝ)
    (Sxy : Matrix (Fin p) (Fin q) ℝ) (wx : Fin p → ℝ) (wy : Fin q → ℝ) (lam : ℝ) (hl : lam ≠ 0)
    (h1 : Sxy.mulVec wy = lam • Sxx.mulVec wx) (h2 : Sxyᵀ.mulVec wx = lam • Syy.mulVec wy)
    (hv : 0 < wx ⬝ᵥ Sxx.mulVec wx) :
    wy ⬝ᵥ Syy.mulVec wy = wx ⬝ᵥ Sxx.mulVec wx ∧
    (wx ⬝ᵥ Sxy.mulVec wy) / (Real.sqrt (wx ⬝ᵥ Sxx.mulVec wx) * Real.sqrt (wy ⬝ᵥ Syy.mulVec wy)) = lam := by
  have e1 : wx ⬝ᵥ Sxy.mulVec wy = lam * (wx ⬝ᵥ Sxx.mulVec wx) := by rw [h1, dotProduct_smul, smul_eq_mul]
  have e2 : wx ⬝ᵥ Sxy.mulVec wy = lam * (wy ⬝ᵥ Syy.mulVec wy) := by
    have : wx ⬝ᵥ Sxy.mulVec wy = wy ⬝ᵥ Sxyᵀ.mulVec wx := by
      rw [Matrix.dotProduct_mulVec, Matrix.mulVec_transpose, dotProduct_comm]
    rw [this, h2, dotProduct_smul, smul_eq_mul]
  have hvar : wy ⬝ᵥ Syy.mulVec wy = wx ⬝ᵥ Sxx.mulVec wx := by
    have := e1.symm.trans e2
    exact (mul_left_cancel₀ hl this).symm
  refine ⟨hvar, ?_⟩
  rw [hvar, Real.mul_self_sqrt hv.le, e1]
  field_simp

end XP.Mcca2
