import Mathlib.Analysis.RCLike.Basic
import Mathlib.Analysis.SpecialFunctions.Pow.Real
import Mathlib.Algebra.BigOperators.Field
import Mathlib.Analysis.InnerProductSpace.PiL2

namespace XP.Scaler
open Finset

variable {𝕜 : Type*} [RCLike 𝕜] {n : ℕ}

/-- column mean, population variance (ddof = 0, as `xarray.std`), as the Scaler computes them -/
noncomputable def cmean (x : Fin n → 𝕜) : 𝕜 := (∑ t, x t) / n
noncomputable def cvar0 (x : Fin n → 𝕜) : ℝ := (∑ t, RCLike.normSq (x t - cmean x)) / n
noncomputable def cstd0 (x : Fin n → 𝕜) : ℝ := Real.sqrt (cvar0 x)

theorem cmean_shift (hn : 0 < n) (x : Fin n → 𝕜) (c : 𝕜) : cmean (fun t => x t + c) = cmean x + c := by
  have hn' : (n : 𝕜) ≠ 0 := by exact_mod_cast hn.ne'
  unfold cmean; rw [sum_add_distrib]; simp; field_simp

/-- C08: with centring on, adding a constant to a feature changes nothing -/
theorem center_shift_invariant (hn : 0 < n) (x : Fin n → 𝕜) (c : 𝕜) (t : Fin n) :
    (x t + c) - cmean (fun t => x t + c) = x t - cmean x := by
  rw [cmean_shift hn]; ring

/-- the Scaler's centred output has zero column mean (needed for `total variance = trace of covariance`) -/
theorem centred_mean_zero (hn : 0 < n) (x : Fin n → 𝕜) : ∑ t, (x t - cmean x) = 0 := by
  have hn' : (n : 𝕜) ≠ 0 := by exact_mod_cast hn.ne'
  rw [sum_sub_distrib]; simp [cmean]; field_simp; ring

theorem cmean_affine (hn : 0 < n) (x : Fin n → 𝕜) (a : ℝ) (b : 𝕜) :
    cmean (fun t => (a : 𝕜) * x t + b) = (a : 𝕜) * cmean x + b := by
  have hn' : (n : 𝕜) ≠ 0 := by exact_mod_cast hn.ne'
  unfold cmean; rw [sum_add_distrib, ← mul_sum]; simp; field_simp

theorem cstd0_affine (hn : 0 < n) (x : Fin n → 𝕜) (a : ℝ) (ha : 0 < a) (b : 𝕜) :
    cstd0 (fun t => (a : 𝕜) * x t + b) = a * cstd0 x := by
  unfold cstd0 cvar0
  rw [cmean_affine hn]
  have : ∀ t, RCLike.normSq ((a : 𝕜) * x t + b - ((a : 𝕜) * cmean x + b)) = a ^ 2 * RCLike.normSq (x t - cmean x) := by
    intro t
    have : (a : 𝕜) * x t + b - ((a : 𝕜) * cmean x + b) = (a : 𝕜) * (x t - cmean x) := by ring
    rw [this, map_mul, RCLike.normSq_apply (a : 𝕜)]; simp [pow_two]
  simp_rw [this]
  rw [← mul_sum, mul_div_assoc, Real.sqrt_mul (by positivity), Real.sqrt_sq ha.le]

/-- C08: with standardisation on, a positive affine rescaling of a feature changes nothing
(both standard deviations above the clip floor, so the clip is inactive) -/
theorem standardize_affine_invariant (hn : 0 < n) (x : Fin n → 𝕜) (a : ℝ) (ha : 0 < a) (b : 𝕜)
    (hs : cstd0 x ≠ 0) (t : Fin n) :
    (((a : 𝕜) * x t + b) - cmean (fun t => (a : 𝕜) * x t + b)) / ((cstd0 (fun t => (a : 𝕜) * x t + b) : ℝ) : 𝕜)
      = (x t - cmean x) / ((cstd0 x : ℝ) : 𝕜) := by
  rw [cmean_affine hn, cstd0_affine hn x a ha b]
  have ha' : (a : 𝕜) ≠ 0 := by exact_mod_cast ha.ne'
  have hs' : ((cstd0 x : ℝ) : 𝕜) ≠ 0 := by exact_mod_cast hs
  push_cast
  field_simp
  ring

/-- C03: the Scaler's inverse chain undoes its forward chain (field identity) -/
theorem scaler_inverse_left (x μ σ c w : 𝕜) (hσ : σ ≠ 0) (hc : c ≠ 0) (hw : w ≠ 0) :
    (((x - μ) / σ * c * w) / w / c * σ + μ) = x := by
  field_simp; ring
theorem scaler_inverse_right (y μ σ c w : 𝕜) (hσ : σ ≠ 0) (hc : c ≠ 0) (hw : w ≠ 0) :
    ((y / w / c * σ + μ) - μ) / σ * c * w = y := by
  field_simp; ring

/-- C08: user weights ≡ fitting the pre-multiplied data (centring on or off, standardisation off) -/
theorem weights_eq_premultiplied (hn : 0 < n) (x : Fin n → 𝕜) (w : 𝕜) (t : Fin n) :
    (x t - cmean x) * w = (x t * w) - cmean (fun t => x t * w) := by
  have hn' : (n : 𝕜) ≠ 0 := by exact_mod_cast hn.ne'
  unfold cmean; rw [← sum_mul]; field_simp

end XP.Scaler
