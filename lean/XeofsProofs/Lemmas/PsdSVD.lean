import Mathlib.LinearAlgebra.Matrix.PosDef
import Mathlib.Analysis.RCLike.Basic
import Mathlib.Analysis.Matrix.Order

namespace XP.Psd
open Matrix
open scoped ComplexOrder

variable {𝕜 : Type*} [RCLike 𝕜] {p : ℕ}

/-- For a PSD matrix, any SVD with positive singular values has equal left and right factors. -/
theorem svd_of_psd {C U V : Matrix (Fin p) (Fin p) 𝕜} {s : Fin p → ℝ}
    (hC : C.PosSemidef) (hU : Uᴴ * U = 1) (hV : Vᴴ * V = 1) (hs : ∀ i, 0 < s i)
    (h : C = U * diagonal (fun i => (s i : 𝕜)) * Vᴴ) : U = V := by
  set S : Matrix (Fin p) (Fin p) 𝕜 := diagonal (fun i => (s i : 𝕜)) with hS
  have hSh : Sᴴ = S := by rw [hS, diagonal_conjTranspose]; congr 1; funext i; simp
  have h1 : C * V = U * S := by rw [h, Matrix.mul_assoc, hV, Matrix.mul_one]
  have h2 : C * U = V * S := by
    have : C = V * S * Uᴴ := by
      have := hC.1.eq  -- Cᴴ = C
      rw [← this, h]; simp [conjTranspose_mul, hSh, Matrix.mul_assoc]
    rw [this, Matrix.mul_assoc, hU, Matrix.mul_one]
  set W := U - V with hW
  have h3 : C * W = -(W * S) := by
    rw [hW, Matrix.mul_sub, h1, h2, Matrix.sub_mul]; abel
  -- diagonal of Wᴴ C W is ≥ 0, and equals -(WᴴW)_jj * s_j
  have hpsd : (Wᴴ * C * W).PosSemidef := hC.conjTranspose_mul_mul_same W
  have hWW : (Wᴴ * W).PosSemidef := posSemidef_conjTranspose_mul_self W
  have hcol : ∀ j, (Wᴴ * W) j j = 0 := by
    intro j
    have a1 : 0 ≤ (Wᴴ * C * W) j j := hpsd.diag_nonneg
    have a2 : 0 ≤ (Wᴴ * W) j j := hWW.diag_nonneg
    have e : (Wᴴ * C * W) j j = -((Wᴴ * W) j j * (s j : 𝕜)) := by
      rw [Matrix.mul_assoc, h3, Matrix.mul_neg, ← Matrix.mul_assoc, Matrix.neg_apply, hS,
        Matrix.mul_diagonal]
    rw [e] at a1
    have hsj : (0 : 𝕜) < (s j : 𝕜) := by exact_mod_cast hs j
    have : (Wᴴ * W) j j * (s j : 𝕜) ≤ 0 := by simpa using neg_nonneg.mp a1
    have h0 : (Wᴴ * W) j j ≤ 0 := by
      by_contra hcon
      have hpos : 0 < (Wᴴ * W) j j := lt_of_le_of_ne a2 (fun h => hcon (h ▸ le_refl _))
      exact absurd (lt_of_lt_of_le (mul_pos hpos hsj) this) (lt_irrefl _)
    exact le_antisymm h0 a2
  -- hence W = 0
  have hW0 : W = 0 := by
    ext i j
    have := hcol j
    rw [Matrix.mul_apply] at this
    simp only [conjTranspose_apply] at this
    have hnn : ∀ i ∈ Finset.univ, 0 ≤ star (W i j) * W i j := fun i _ => star_mul_self_nonneg _
    have := (Finset.sum_eq_zero_iff_of_nonneg hnn).mp this i (Finset.mem_univ _)
    simpa using this
  exact sub_eq_zero.mp hW0

end XP.Psd
