import Mathlib.LinearAlgebra.Matrix.ConjTranspose
import Mathlib.LinearAlgebra.Matrix.Hermitian
import Mathlib.LinearAlgebra.Matrix.Trace
import Mathlib.Analysis.RCLike.Basic

namespace XP.Scale
open Matrix

variable {𝕜 : Type*} [RCLike 𝕜] {n p q r k : ℕ}

structure IsSVD (X : Matrix (Fin n) (Fin p) 𝕜) (U : Matrix (Fin n) (Fin r) 𝕜) (s : Fin r → ℝ)
    (V : Matrix (Fin p) (Fin r) 𝕜) : Prop where
  hU : Uᴴ * U = 1
  hV : Vᴴ * V = 1
  hX : X = U * diagonal (fun i => (s i : 𝕜)) * Vᴴ
  nonneg : ∀ i, 0 ≤ s i
  anti : Antitone s

/-- C08 global scale: an SVD of `c • X` is obtained by moving the phase into `U` and `‖c‖` into `s` -/
theorem svd_global_scale {X : Matrix (Fin n) (Fin p) 𝕜} {U : Matrix (Fin n) (Fin r) 𝕜} {s : Fin r → ℝ}
    {V : Matrix (Fin p) (Fin r) 𝕜} (h : IsSVD X U s V) (c : 𝕜) (hc : c ≠ 0) :
    IsSVD (c • X) ((c / (‖c‖ : 𝕜)) • U) (fun i => ‖c‖ * s i) V := by
  have hn : (‖c‖ : 𝕜) ≠ 0 := by exact_mod_cast (norm_ne_zero_iff.mpr hc)
  refine ⟨?_, h.hV, ?_, fun i => mul_nonneg (norm_nonneg c) (h.nonneg i), fun i j hij =>
    mul_le_mul_of_nonneg_left (h.anti hij) (norm_nonneg c)⟩
  · rw [conjTranspose_smul, Matrix.smul_mul, Matrix.mul_smul, smul_smul, h.hU]
    have : star (c / (‖c‖ : 𝕜)) * (c / (‖c‖ : 𝕜)) = 1 := by
      rw [star_div₀, RCLike.star_def, RCLike.conj_ofReal, div_mul_div_comm, RCLike.conj_mul]
      have : ((‖c‖ : 𝕜)) ^ 2 = (‖c‖ : 𝕜) * (‖c‖ : 𝕜) := pow_two _
      rw [this]; exact div_self (mul_ne_zero hn hn)
    rw [this, one_smul]
  · have hd : diagonal (fun i => ((‖c‖ * s i : ℝ) : 𝕜)) = (‖c‖ : 𝕜) • diagonal (fun i => (s i : 𝕜)) := by
      ext i j; by_cases hij : i = j
      · subst hij; simp
      · simp [hij]
    rw [h.hX, hd, Matrix.smul_mul, Matrix.mul_smul, Matrix.smul_mul, Matrix.smul_mul, smul_smul]
    congr 1; field_simp

/-- C09: the cross-covariance of the two score sets is `diag σ` -/
theorem scores_cross_cov_diag (Xw : Matrix (Fin n) (Fin p) 𝕜) (Yw : Matrix (Fin n) (Fin q) 𝕜)
    (Q1 : Matrix (Fin p) (Fin r) 𝕜) (Q2 : Matrix (Fin q) (Fin r) 𝕜) (σ : Fin r → ℝ) (c : 𝕜)
    (h : IsSVD (c • (Xwᴴ * Yw)) Q1 σ Q2) :
    c • ((Xw * Q1)ᴴ * (Yw * Q2)) = diagonal (fun i => (σ i : 𝕜)) := by
  have : c • ((Xw * Q1)ᴴ * (Yw * Q2)) = Q1ᴴ * (c • (Xwᴴ * Yw)) * Q2 := by
    rw [conjTranspose_mul, Matrix.mul_smul, Matrix.smul_mul]; simp only [Matrix.mul_assoc]
  rw [this, h.hX]
  calc Q1ᴴ * (Q1 * diagonal (fun i => (σ i : 𝕜)) * Q2ᴴ) * Q2
      = (Q1ᴴ * Q1) * diagonal (fun i => (σ i : 𝕜)) * (Q2ᴴ * Q2) := by simp only [Matrix.mul_assoc]
    _ = _ := by rw [h.hU, h.hV, Matrix.one_mul, Matrix.mul_one]

/-- C09 (MCA): removing mode `i` from both fields removes exactly `σ_i u vᴴ` from the cross-covariance
    (the squared-covariance-fraction identity follows by taking Frobenius norms) -/
theorem mca_residual (C : Matrix (Fin p) (Fin q) 𝕜) (u : Matrix (Fin p) (Fin 1) 𝕜) (v : Matrix (Fin q) (Fin 1) 𝕜)
    (σ : 𝕜) (hu : uᴴ * u = 1) (hv : vᴴ * v = 1) (h1 : C * v = σ • u) (h2 : uᴴ * C = σ • vᴴ) :
    (1 - u * uᴴ) * C * (1 - v * vᴴ) = C - σ • (u * vᴴ) := by
  have e1 : u * uᴴ * C = σ • (u * vᴴ) := by rw [Matrix.mul_assoc, h2, Matrix.mul_smul]
  have e2 : C * (v * vᴴ) = σ • (u * vᴴ) := by rw [← Matrix.mul_assoc, h1, Matrix.smul_mul]
  have e3 : u * uᴴ * C * (v * vᴴ) = σ • (u * vᴴ) := by
    rw [e1, Matrix.smul_mul, Matrix.mul_assoc, ← Matrix.mul_assoc vᴴ, hv, Matrix.one_mul]
  rw [Matrix.sub_mul, Matrix.one_mul, Matrix.mul_sub, Matrix.mul_one, Matrix.sub_mul, e1, e2, ← e1, e3, e1]
  abel

end XP.Scale
