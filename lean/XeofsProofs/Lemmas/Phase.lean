import Mathlib.LinearAlgebra.Matrix.ConjTranspose
import Mathlib.LinearAlgebra.Matrix.Hermitian
import Mathlib.Analysis.RCLike.Basic

namespace XP.Phase
open Matrix

variable {𝕜 : Type*} [RCLike 𝕜] {n p : ℕ}

/-- **gauge freedom of the eigenvectors is exactly one unit scalar per mode** when the spectrum is simple:
two unitary diagonalisations of the same matrix with the same strictly descending diagonal differ by a
diagonal matrix of unit-modulus entries (±1 in the real case). -/
theorem eigvec_unique_up_to_phase (V V' : Matrix (Fin p) (Fin p) 𝕜) (d : Fin p → ℝ) (hd : StrictAnti d)
    (hV : V * Vᴴ = 1) (hV' : V'ᴴ * V' = 1)
    (h : V * diagonal (fun i => (d i : 𝕜)) * Vᴴ = V' * diagonal (fun i => (d i : 𝕜)) * V'ᴴ) :
    ∃ θ : Fin p → 𝕜, (∀ j, star (θ j) * θ j = 1) ∧ V' = V * diagonal θ := by
  have hVl : Vᴴ * V = 1 := mul_eq_one_comm.mp hV
  have hVr' : V' * V'ᴴ = 1 := mul_eq_one_comm.mp hV'
  set G := Vᴴ * V' with hG
  set D : Matrix (Fin p) (Fin p) 𝕜 := diagonal (fun i => (d i : 𝕜)) with hD
  have hcomm : D * G = G * D := by
    have h1 : Vᴴ * (V * D * Vᴴ) * V' = D * G := by
      simp only [Matrix.mul_assoc]; rw [← Matrix.mul_assoc Vᴴ V, hVl, Matrix.one_mul]
    have h2 : Vᴴ * (V' * D * V'ᴴ) * V' = G * D := by
      simp only [Matrix.mul_assoc]; rw [hV', Matrix.mul_one, hG, Matrix.mul_assoc]
    rw [← h1, h, h2]
  have hoff : ∀ i j, i ≠ j → G i j = 0 := by
    intro i j hij
    have := congrFun (congrFun hcomm i) j
    rw [hD, diagonal_mul, mul_diagonal] at this
    have hne : (d i : 𝕜) - (d j : 𝕜) ≠ 0 := by
      rw [sub_ne_zero]; exact_mod_cast (hd.injective.ne hij)
    have : ((d i : 𝕜) - (d j : 𝕜)) * G i j = 0 := by rw [sub_mul, this]; ring
    exact (mul_eq_zero.mp this).resolve_left hne
  have hGdiag : G = diagonal (fun j => G j j) := by
    ext i j; by_cases hij : i = j
    · subst hij; simp
    · simp [hij, hoff i j hij]
  have hGu : Gᴴ * G = 1 := by
    rw [hG, conjTranspose_mul, conjTranspose_conjTranspose, Matrix.mul_assoc, ← Matrix.mul_assoc V, hV,
      Matrix.one_mul, hV']
  refine ⟨fun j => G j j, ?_, ?_⟩
  · intro j
    have := congrFun (congrFun hGu j) j
    rw [hGdiag, diagonal_conjTranspose, diagonal_mul_diagonal, diagonal_apply_eq, one_apply_eq] at this
    simpa using this
  · rw [← hGdiag, hG, ← Matrix.mul_assoc, hV, Matrix.one_mul]

/-- real case: the unit scalars are signs -/
theorem real_phase_is_sign (θ : ℝ) (h : star θ * θ = 1) : θ = 1 ∨ θ = -1 := by
  have : θ * θ = 1 := by simpa using h
  exact mul_self_eq_one_iff.mp this

end XP.Phase
