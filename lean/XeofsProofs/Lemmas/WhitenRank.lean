import XeofsProofs.Lemmas.Whiten

/-! Rank-deficient covariance: `_fractional_matrix_power` keeps the directions `m i = true` (singular value above the
relative cut-off) and drops the others. `T` and `Tinv` (the opposite exponent on the SAME retained directions) multiply to
the orthogonal projector onto the retained directions, and data without component in the dropped directions is restored. -/
namespace XP.Whiten
open Matrix

variable {𝕜 : Type*} [RCLike 𝕜] {n p : ℕ}

/-- `V[:, m] diag(s[m]^q) V[:, m]ᴴ` written with a 0/1 mask -/
noncomputable def specPowM (V : Matrix (Fin p) (Fin p) 𝕜) (s : Fin p → ℝ) (m : Fin p → Bool) (q : ℝ) :
    Matrix (Fin p) (Fin p) 𝕜 :=
  V * diagonal (fun i => if m i then ((s i ^ q : ℝ) : 𝕜) else 0) * Vᴴ

/-- projector onto the retained directions -/
noncomputable def retained (V : Matrix (Fin p) (Fin p) 𝕜) (m : Fin p → Bool) : Matrix (Fin p) (Fin p) 𝕜 :=
  V * diagonal (fun i => if m i then (1 : 𝕜) else 0) * Vᴴ

theorem specPowM_all (V : Matrix (Fin p) (Fin p) 𝕜) (s : Fin p → ℝ) (q : ℝ) :
    specPowM V s (fun _ => true) q = specPow V s q := by
  simp [specPowM, specPow]

theorem T_Tinv_projector (V : Matrix (Fin p) (Fin p) 𝕜) (hV : Vᴴ * V = 1) (s : Fin p → ℝ) (m : Fin p → Bool)
    (hs : ∀ i, m i = true → 0 < s i) (q : ℝ) :
    specPowM V s m q * specPowM V s m (-q) = retained V m := by
  unfold specPowM retained
  have hd : diagonal (fun i => if m i then ((s i ^ q : ℝ) : 𝕜) else 0) * diagonal (fun i => if m i then ((s i ^ (-q) : ℝ) : 𝕜) else 0)
      = diagonal (fun i => if m i then (1 : 𝕜) else 0) := by
    rw [diagonal_mul_diagonal]; congr 1; funext i
    by_cases hm : m i = true
    · have h0 : (s i ^ q : ℝ) ≠ 0 := (Real.rpow_pos_of_pos (hs i hm) q).ne'
      simp only [hm, if_true]
      rw [Real.rpow_neg (hs i hm).le]
      push_cast
      exact mul_inv_cancel₀ (by exact_mod_cast h0)
    · simp [hm]
  calc V * diagonal (fun i => if m i then ((s i ^ q : ℝ) : 𝕜) else 0) * Vᴴ
        * (V * diagonal (fun i => if m i then ((s i ^ (-q) : ℝ) : 𝕜) else 0) * Vᴴ)
      = V * (diagonal (fun i => if m i then ((s i ^ q : ℝ) : 𝕜) else 0) * (Vᴴ * V)
          * diagonal (fun i => if m i then ((s i ^ (-q) : ℝ) : 𝕜) else 0)) * Vᴴ := by
        simp only [Matrix.mul_assoc]
    _ = _ := by rw [hV, Matrix.mul_one, hd]

/-- data with no component along the dropped directions is left unchanged by the projector -/
theorem retained_fixes (V : Matrix (Fin p) (Fin p) 𝕜) (hV' : V * Vᴴ = 1) (m : Fin p → Bool)
    (X : Matrix (Fin n) (Fin p) 𝕜)
    (hX : X * V * diagonal (fun i => if m i then (0 : 𝕜) else 1) = 0) :
    X * retained V m = X := by
  unfold retained
  have hsplit : diagonal (fun i => if m i then (1 : 𝕜) else 0) = 1 - diagonal (fun i => if m i then (0 : 𝕜) else 1) := by
    ext i j
    by_cases hij : i = j
    · subst hij; by_cases hm : m i = true <;> simp [hm]
    · simp [hij, Matrix.one_apply_ne hij]
  calc X * (V * diagonal (fun i => if m i then (1 : 𝕜) else 0) * Vᴴ)
      = (X * V * diagonal (fun i => if m i then (1 : 𝕜) else 0)) * Vᴴ := by simp only [Matrix.mul_assoc]
    _ = (X * V - X * V * diagonal (fun i => if m i then (0 : 𝕜) else 1)) * Vᴴ := by
        rw [hsplit, Matrix.mul_sub, Matrix.mul_one]
    _ = X * V * Vᴴ := by rw [hX, sub_zero]
    _ = X := by rw [Matrix.mul_assoc, hV', Matrix.mul_one]

/-- **un-whitening with a rank-deficient covariance** -/
theorem unwhiten_rank_deficient (V : Matrix (Fin p) (Fin p) 𝕜) (hV : Vᴴ * V = 1) (hV' : V * Vᴴ = 1) (s : Fin p → ℝ)
    (m : Fin p → Bool) (hs : ∀ i, m i = true → 0 < s i) (q : ℝ) (X : Matrix (Fin n) (Fin p) 𝕜)
    (hX : X * V * diagonal (fun i => if m i then (0 : 𝕜) else 1) = 0) :
    X * specPowM V s m q * specPowM V s m (-q) = X := by
  rw [Matrix.mul_assoc, T_Tinv_projector V hV s m hs q, retained_fixes V hV' m X hX]

end XP.Whiten

namespace XP.Whiten
open Matrix
variable {𝕜 : Type*} [RCLike 𝕜] {n p : ℕ}

/-- a column whose squared norm (diagonal Gram entry) vanishes is zero -/
theorem col_zero_of_gram_zero (A : Matrix (Fin n) (Fin p) 𝕜) (i : Fin p) (h : (Aᴴ * A) i i = 0) : ∀ k, A k i = 0 := by
  have hsum : ∑ k, ‖A k i‖ ^ 2 = 0 := by
    have := congrArg RCLike.re h
    simp only [Matrix.mul_apply, conjTranspose_apply, map_sum, map_zero] at this
    rw [← this]
    refine Finset.sum_congr rfl fun k _ => ?_
    rw [RCLike.star_def, RCLike.conj_mul]
    norm_cast
  intro k
  have hk := (Finset.sum_eq_zero_iff_of_nonneg (fun k _ => by positivity)).1 hsum k (Finset.mem_univ k)
  simpa using hk

/-- **the dropped directions carry no data**: if `XᴴX = V diag(c·s) Vᴴ` (the covariance, up to its normaliser `c`) and the
dropped directions are those with `s i = 0`, the hypothesis of `unwhiten_rank_deficient` holds -/
theorem dropped_directions_carry_no_data (X : Matrix (Fin n) (Fin p) 𝕜) (V : Matrix (Fin p) (Fin p) 𝕜) (hV : Vᴴ * V = 1)
    (s : Fin p → ℝ) (c : ℝ) (m : Fin p → Bool) (hm : ∀ i, m i = false → s i = 0)
    (hC : Xᴴ * X = V * diagonal (fun i => ((c * s i : ℝ) : 𝕜)) * Vᴴ) :
    X * V * diagonal (fun i => if m i then (0 : 𝕜) else 1) = 0 := by
  have hG : (X * V)ᴴ * (X * V) = diagonal (fun i => ((c * s i : ℝ) : 𝕜)) := by
    rw [conjTranspose_mul, Matrix.mul_assoc, ← Matrix.mul_assoc Xᴴ, hC]
    calc Vᴴ * (V * diagonal (fun i => ((c * s i : ℝ) : 𝕜)) * Vᴴ * V)
        = (Vᴴ * V) * diagonal (fun i => ((c * s i : ℝ) : 𝕜)) * (Vᴴ * V) := by simp only [Matrix.mul_assoc]
      _ = _ := by rw [hV, Matrix.one_mul, Matrix.mul_one]
  ext k i
  rw [Matrix.mul_diagonal]
  by_cases hmi : m i = true
  · simp [hmi]
  · have hmi' : m i = false := by simpa using hmi
    have h0 : ((X * V)ᴴ * (X * V)) i i = 0 := by rw [hG]; simp [hm i hmi']
    simp [hmi', col_zero_of_gram_zero (X * V) i h0 k]

end XP.Whiten
