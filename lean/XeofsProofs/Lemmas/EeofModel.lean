import XeofsModel.Eeof
import Mathlib.Tactic.Linarith
/-! The delay-embedding model: every kept row reads only existing samples, and column `e·p + f` of row `t` is `X[t + e·tau, f]`. -/
open XM

namespace XP.EeofM

variable {α : Type} [Zero α] {n p : ℕ}

theorem kept_rows_in_range (tau emb : ℕ) (t : Fin (Gen.eeofSamplesKept n emb tau)) (e : Fin emb) :
    t.val + Gen.eeofShift e.val tau < n := by
  have ht := t.isLt
  have he : e.val ≤ emb - 1 := Nat.le_sub_one_of_lt e.isLt
  have hmul : e.val * tau ≤ (emb - 1) * tau := Nat.mul_le_mul_right tau he
  simp only [Gen.eeofSamplesKept] at ht
  simp only [Gen.eeofShift]
  omega

/-- **the embedded matrix is the delay embedding**: no padding value ever enters -/
theorem embed_entry (X : Mat n p α) (tau emb : ℕ) (t : Fin (Gen.eeofSamplesKept n emb tau)) (e : Fin emb) (f : Fin p)
    (hc : e.val * p + f.val < emb * p) :
    (embedMatrix X tau emb).get t ⟨e.val * p + f.val, hc⟩
      = X.get ⟨t.val + Gen.eeofShift e.val tau, kept_rows_in_range tau emb t e⟩ f := by
  have hp : 0 < p := Nat.lt_of_le_of_lt (Nat.zero_le _) f.isLt
  have hdiv : (e.val * p + f.val) / p = e.val := by
    rw [Nat.add_comm, Nat.add_mul_div_right _ _ hp, Nat.div_eq_of_lt f.isLt, Nat.zero_add]
  have hmod : (e.val * p + f.val) % p = f.val := by
    rw [Nat.add_comm, Nat.add_mul_mod_self_right, Nat.mod_eq_of_lt f.isLt]
  simp only [embedMatrix, Mat.get_ofFn]
  have hrange : t.val + Gen.eeofShift ((e.val * p + f.val) / p) tau < n ∧ (e.val * p + f.val) % p < p := by
    rw [hdiv, hmod]; exact ⟨kept_rows_in_range tau emb t e, f.isLt⟩
  rw [dif_pos hrange]
  congr 1
  · ext; simp [hdiv]
  · ext; simp [hmod]

end XP.EeofM
