import Mathlib.LinearAlgebra.Matrix.NonsingularInverse
import Mathlib.LinearAlgebra.Matrix.ConjTranspose
import Mathlib.Analysis.RCLike.Basic

namespace XP.Rot
open Matrix

variable {𝕜 : Type*} [RCLike 𝕜] {n p k : ℕ}

/-- reconstruction from rotated scores/components equals reconstruction from the unrotated ones,
for ANY invertible rotation matrix `R`, any nonzero column scaling `ν` (pseudo-norms), any permutation
matrix / sign matrix `Q` with `Q Qᴴ = 1`. -/
theorem rot_reconstruction (U : Matrix (Fin n) (Fin k) 𝕜) (L : Matrix (Fin p) (Fin k) 𝕜)
    (R Rinv Q : Matrix (Fin k) (Fin k) 𝕜) (ν : Fin k → 𝕜) (hν : ∀ j, ν j ≠ 0)
    (hR : Rinv * R = 1) (hQ : Q * Qᴴ = 1) (hνreal : ∀ j, star (ν j) = ν j) :
    let comps  := L * R * diagonal (fun j => (ν j)⁻¹) * Q       -- normalised rotated loadings, sorted/signed
    let scores := U * Rinvᴴ * diagonal ν * Q                    -- rotated scores, sorted/signed
    scores * compsᴴ = U * Lᴴ := by
  intro comps scores
  have hd : diagonal ν * (diagonal (fun j => (ν j)⁻¹))ᴴ = (1 : Matrix (Fin k) (Fin k) 𝕜) := by
    rw [diagonal_conjTranspose, diagonal_mul_diagonal, ← diagonal_one]
    congr 1; funext j
    simp only [Pi.star_apply, star_inv₀, hνreal j]
    exact mul_inv_cancel₀ (hν j)
  have hR' : Rinvᴴ * Rᴴ = 1 := by rw [← conjTranspose_mul, mul_eq_one_comm.mp hR, conjTranspose_one]
  calc scores * compsᴴ
      = U * Rinvᴴ * (diagonal ν * (Q * Qᴴ) * (diagonal (fun j => (ν j)⁻¹))ᴴ) * Rᴴ * Lᴴ := by
        simp only [scores, comps, conjTranspose_mul, Matrix.mul_assoc]
    _ = U * (Rinvᴴ * Rᴴ) * Lᴴ := by rw [hQ, Matrix.mul_one, hd]; simp only [Matrix.mul_assoc, Matrix.one_mul]
    _ = U * Lᴴ := by rw [hR', Matrix.mul_one]

end XP.Rot
