import XeofsProofs.Bridge
import XeofsModel.Hilbert
/-! The executable Hilbert-transform model: what HilbertEOF decomposes has the input as its real part and an imaginary part with
zero mean per feature. -/
open XM Matrix

variable {𝕜 : Type} [RCLike 𝕜] {n p : ℕ}

namespace XP.HilbertM

/-- the middle third of the padded series is the input itself (the anomaly put back on the fitted line) -/
theorem padExp_middle (y : Mat n p ℝ) (c0 c1 : Fin p → ℝ) (decay : ℝ) (hn : 0 < n) (t : Fin n) (f : Fin p) :
    (padExp y c0 c1 decay hn).get ⟨n + t.val, by omega⟩ f = y.get t f := by
  have h1 : ¬ (n + t.val < n) := by omega
  have h2 : n + t.val < 2 * n := by omega
  simp only [padExp, Mat.get_ofFn, h1, h2, dif_neg, dif_pos, not_false_eq_true]
  have : (⟨n + t.val - n, by omega⟩ : Fin n) = t := by ext; simp
  rw [this]
  ring

/-- **real part restored**: if the analytic signal `H` of the padded series has the padded series as its real part (specification of
`scipy.signal.hilbert`), the returned signal has the INPUT as its real part -/
theorem cut_real_part (y : Mat n p ℝ) (c0 c1 : Fin p → ℝ) (decay : ℝ) (hn : 0 < n) (H : Mat (3 * n) p 𝕜)
    (hH : ∀ i f, RCLike.re (H.get i f) = (padExp y c0 c1 decay hn).get i f) (t : Fin n) (f : Fin p) :
    RCLike.re ((hilbertCutRecentre (ρ := ℝ) H).get t f) = y.get t f := by
  simp only [hilbertCutRecentre, Mat.get_ofFn]
  rw [re_ofParts, Entry.re_eq, hH, padExp_middle y c0 c1 decay hn t f]

/-- **imaginary part centred**: the imaginary part of the returned signal has zero mean over the samples, per feature -/
theorem cut_imag_centred (H : Mat (3 * n) p 𝕜) (hn : 0 < n) (f : Fin p) :
    ∑ t : Fin n, RCLike.im ((hilbertCutRecentre (ρ := ℝ) H).get t f) = 0 := by
  have hne : (n : ℝ) ≠ 0 := by exact_mod_cast (Nat.pos_iff_ne_zero.mp hn)
  have hfold : ∀ (q : ℕ) (g : Fin q → ℝ), Fin.foldl q (fun acc i => acc + g i) (Num.ofNat 0 : ℝ) = ∑ i, g i := by
    intro q g
    induction q with
    | zero => simp [Fin.foldl_zero]
    | succ q ih => rw [Fin.foldl_succ_last, Fin.sum_univ_castSucc, ih]
  simp only [hilbertCutRecentre, Mat.get_ofFn, im_ofParts, Entry.im_eq, hfold]
  simp only [Num.ofNat_real]
  rw [← Finset.sum_mul, Finset.sum_sub_distrib, Finset.sum_const, Finset.card_univ, Fintype.card_fin, nsmul_eq_mul,
    mul_div_cancel₀ _ hne, sub_self, zero_mul]

end XP.HilbertM
