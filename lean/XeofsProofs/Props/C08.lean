import XeofsProofs.Bridge
import XeofsProofs.Lemmas.ScalerAlg
import XeofsProofs.Lemmas.Scale
import XeofsModel.Scaler
import XeofsModel.Generated.Facts
import Mathlib.Analysis.SpecialFunctions.Trigonometric.Basic
/-!
# C08 — centring, standardisation, weights, coslat and global scale mean exactly what the options say
-/
open XM Matrix
namespace C08

variable {𝕜 : Type} [RCLike 𝕜] {n p r : ℕ}

/-- **center_shift_invariant**: with centring on, adding a constant to a feature does not change its anomalies -/
theorem center_shift_invariant (hn : 0 < n) (x : Fin n → 𝕜) (c : 𝕜) (t : Fin n) :
    (x t + c) - XP.Scaler.cmean (fun t => x t + c) = x t - XP.Scaler.cmean x :=
  XP.Scaler.center_shift_invariant hn x c t

/-- **standardize_affine_invariant**: with standardisation on, a positive affine rescaling of a feature changes nothing
(standard deviation above the clip floor on both sides, i.e. non-zero) -/
theorem standardize_affine_invariant (hn : 0 < n) (x : Fin n → 𝕜) (a : ℝ) (ha : 0 < a) (b : 𝕜)
    (hs : XP.Scaler.cstd0 x ≠ 0) (t : Fin n) :
    (((a : 𝕜) * x t + b) - XP.Scaler.cmean (fun t => (a : 𝕜) * x t + b))
        / ((XP.Scaler.cstd0 (fun t => (a : 𝕜) * x t + b) : ℝ) : 𝕜)
      = (x t - XP.Scaler.cmean x) / ((XP.Scaler.cstd0 x : ℝ) : 𝕜) :=
  XP.Scaler.standardize_affine_invariant hn x a ha b hs t

/-- **weights_eq_premultiplied** (standardisation off): weighting the anomalies = anomalies of the pre-multiplied data -/
theorem weights_eq_premultiplied (hn : 0 < n) (x : Fin n → 𝕜) (w : 𝕜) (t : Fin n) :
    (x t - XP.Scaler.cmean x) * w = (x t * w) - XP.Scaler.cmean (fun t => x t * w) :=
  XP.Scaler.weights_eq_premultiplied hn x w t

/-- in the model (generated operation chain), the weights multiply the centred value -/
theorem model_weights_after_centring (P : ScalerParams 𝕜) (x : 𝕜) :
    scalerTransform ⟨true, false, false⟩ P x = (x - P.mean) * P.weights := by
  simp [scalerTransform, runChain, Gen.scalerForward, ScalerFlags.get, ScalerParams.get, applyOp]

/-- **coslat_eq_weights**: `use_coslat` is the same operation as user weights, with the coslat field as operand -/
theorem coslat_eq_weights (P : ScalerParams 𝕜) (x : 𝕜) (c : 𝕜) :
    scalerTransform ⟨true, false, true⟩ { P with coslat := c, weights := 1 } x
      = scalerTransform ⟨true, false, false⟩ { P with weights := c } x := by
  simp [scalerTransform, runChain, Gen.scalerForward, ScalerFlags.get, ScalerParams.get, applyOp]

/-- **global_scale**: an SVD of `c • X` is obtained from one of `X` by scaling `U` with the unit scalar `c/|c|` and the
singular values with `|c|`; `V` (the components) is unchanged — hence scores × c, singular values × |c|, explained
variance × |c|², all fractions unchanged -/
theorem global_scale {X : Matrix (Fin n) (Fin p) 𝕜} {U : Matrix (Fin n) (Fin r) 𝕜} {s : Fin r → ℝ}
    {V : Matrix (Fin p) (Fin r) 𝕜} (h : XP.Scale.IsSVD X U s V) (c : 𝕜) (hc : c ≠ 0) :
    XP.Scale.IsSVD (c • X) ((c / (‖c‖ : 𝕜)) • U) (fun i => ‖c‖ * s i) V :=
  XP.Scale.svd_global_scale h c hc

/-- the explained variance formula is homogeneous of degree two in the singular value -/
theorem expvar_scale (s c nn : ℝ) : Gen.eofExpVar (c * s) nn = c ^ 2 * Gen.eofExpVar s nn := by
  simp [Gen.eofExpVar]; ring

/-- … and the ratio is invariant -/
theorem ratio_scale (e t c : ℝ) (hc : c ≠ 0) : Gen.eofExpVarRatio (c * e) (c * t) = Gen.eofExpVarRatio e t := by
  simp [Gen.eofExpVarRatio]; field_simp

/-- source obligations: each cross-set field gets ITS OWN preprocessing options -/
theorem src_cross_fields_get_own_options :
    (Gen.crossPreprocessor1.lookup "with_std" = some "standardize[0]" ∧ Gen.crossPreprocessor2.lookup "with_std" = some "standardize[1]") ∧
    (Gen.crossPreprocessor1.lookup "with_center" = some "center[0]" ∧ Gen.crossPreprocessor2.lookup "with_center" = some "center[1]") ∧
    (Gen.crossPreprocessor1.lookup "with_coslat" = some "use_coslat[0]" ∧ Gen.crossPreprocessor2.lookup "with_coslat" = some "use_coslat[1]") := by
  decide

/-- the standard deviation is the population one (ddof 0) and is stored clipped, so forward and inverse use one value -/
theorem src_std_clip_stored : Gen.scalerStdDdof = 0 ∧ Gen.scalerStdClipIsStored = true := by decide

/-- **standardize_unit_invariant_above_floor**: re-expressing a feature in other units (`x ↦ c·x`, `c > 0`) leaves the
standardised value unchanged as long as the deviation stays above the (absolute, source) floor `f` in both units — the
restriction the property itself makes. Below the floor the feature is treated as constant and the invariance is NOT claimed. -/
theorem standardize_unit_invariant_above_floor (x μ σ f c : ℝ) (hc : 0 < c) (h1 : f ≤ σ) (h2 : f ≤ c * σ) :
    (c * x - c * μ) / max (c * σ) f = (x - μ) / max σ f := by
  rw [max_eq_left h2, max_eq_left h1, ← mul_sub, mul_div_mul_left _ _ hc.ne']

/-- the hypotheses are satisfiable and the conclusion is not trivial -/
example : ((2 : ℝ) * 3 - 2 * 1) / max (2 * 4) (1 / 8) = (3 - 1) / max 4 (1 / 8) :=
  standardize_unit_invariant_above_floor 3 1 4 (1 / 8) 2 (by norm_num) (by norm_num) (by norm_num)

theorem src_std_floor_absolute : Gen.scalerStdFloorIsAbsolute = true := by decide

/-- **latitude weights are strictly positive away from the poles and never negative**: `sqrt(clip(cos φ, 0, 1))` with the source's
formula; at the poles the exact value is 0 and the floating-point value a tiny positive number, so weighting stays invertible
exactly where `cos φ > 0` -/
theorem coslat_weight_pos (φ : ℝ) (h : φ ∈ Set.Ioo (-(Real.pi / 2)) (Real.pi / 2)) :
    0 < Gen.coslatWeightOfCos (Real.cos φ) (max 0 (min (Real.cos φ) 1)) := by
  have hc : 0 < Real.cos φ := Real.cos_pos_of_mem_Ioo h
  have : 0 < max 0 (min (Real.cos φ) 1) := lt_max_of_lt_right (lt_min hc one_pos)
  simpa [Gen.coslatWeightOfCos, Num.sqrt] using Real.sqrt_pos.mpr this

theorem coslat_weight_nonneg (c : ℝ) : 0 ≤ Gen.coslatWeightOfCos c (max 0 (min c 1)) := by
  simp [Gen.coslatWeightOfCos, Num.sqrt, Real.sqrt_nonneg]

theorem src_coslat_formula : Gen.coslatWeightIsSqrtOfClippedCos = true ∧ Gen.coslatClipBounds = (0, 1) := by decide

/-- source obligation: user weights enter exactly as given (no clipping, no normalisation) -/
theorem src_weights_used_as_given : Gen.scalerWeightsUsedAsGiven = true := by decide

end C08
