import XeofsProofs.Bridge
import XeofsProofs.Lemmas.Small
import XeofsProofs.Props.C01
import XeofsProofs.Props.C04
import XeofsModel.Generated.Facts
import XeofsProofs.Lemmas.BootModel
/-!
# C20 — bootstrap members are sign-aligned, reproducible EOF analyses of resamples

A member is `eofFit` of the SVD of a resampled (and re-centred) matrix; the resampling indices are the answer of numpy's
seeded generator (an oracle: a function of the seed), so reproducibility holds by construction in the model.
PARTIAL: "to solver accuracy" for members computed with the randomised solver is a runtime matter.
-/
open XM Matrix
namespace C20

variable {𝕜 : Type} [RCLike 𝕜] {n p k r : ℕ}

/-- resampling with replacement: row `t` of the member's data is row `idx t` of the model's preprocessed matrix -/
def resample {n p : ℕ} (X : Matrix (Fin n) (Fin p) 𝕜) (idx : Fin n → Fin n) : Matrix (Fin n) (Fin p) 𝕜 :=
  X.submatrix idx id

/-- **member = EOF of the resample**: every C01 statement holds for the member (orthonormal components, …) because a
member is the same algorithm run on another matrix -/
theorem member_components_orthonormal (hk : k ≤ r) (U : Mat n r 𝕜) (s : Fin r → ℝ) (V : Mat p r 𝕜) (sgn : Fin k → ℝ)
    (hV : V.toMatrixᴴ * V.toMatrix = 1) (hsgn : ∀ j, sgn j * sgn j = 1) :
    (eofFit hk hk hk U s V sgn).comps.toMatrixᴴ * (eofFit hk hk hk U s V sgn).comps.toMatrix = 1 :=
  C01.components_orthonormal hk U s V sgn hV hsgn

/-- variances are non-negative and descending (from the SVD specification) -/
theorem member_variances (hk : k ≤ r) (U : Mat n r 𝕜) (s : Fin r → ℝ) (V : Mat p r 𝕜) (sgn : Fin k → ℝ)
    (hs0 : ∀ i, 0 ≤ s i) (hanti : Antitone s) (hn : 2 ≤ n) :
    (∀ j, 0 ≤ (eofFit hk hk hk U s V sgn).expvar j) ∧
    (∀ i j, i ≤ j → (eofFit hk hk hk U s V sgn).expvar j ≤ (eofFit hk hk hk U s V sgn).expvar i) := by
  have hpos : (0 : ℝ) < (n : ℝ) - 1 := by
    have : (2 : ℝ) ≤ n := by exact_mod_cast hn
    linarith
  constructor
  · intro j; rw [C01.expvar_formula]; positivity
  · intro i j hij
    rw [C01.expvar_formula, C01.expvar_formula]
    have h1 : s (Fin.castLE hk j) ≤ s (Fin.castLE hk i) := hanti (by rw [Fin.le_def] at hij ⊢; exact hij)
    have h2 := hs0 (Fin.castLE hk j)
    have : s (Fin.castLE hk j) ^ 2 ≤ s (Fin.castLE hk i) ^ 2 := by nlinarith
    exact div_le_div_of_nonneg_right this hpos.le

/-- **member_scores_are_projection**: the member's scores are the projection of the ORIGINAL samples on its components -/
theorem member_scores_are_projection (hk : k ≤ r) (U : Mat n r 𝕜) (s : Fin r → ℝ) (V : Mat p r 𝕜) (sgn : Fin k → ℝ)
    (Xorig : Mat n p 𝕜) :
    (eofTransform (eofFit hk hk hk U s V sgn) Xorig).toMatrix
      = Xorig.toMatrix * (eofFit hk hk hk U s V sgn).comps.toMatrix := by
  simp [eofTransform]

/-- **sign_aligned**: multiplying a member mode by the sign of its correlation with the model's mode makes that
correlation non-negative -/
theorem sign_aligned (c : ℝ) : 0 ≤ (if 0 < c then 1 else if c < 0 then -1 else (0 : ℝ)) * c :=
  XP.Small.sign_aligned c

/-- source obligations: the per-member EOF is built WITHOUT a second standardisation / coslat weighting and with the
model's own dimension names; the generator is seeded with the seed parameter itself (0 is a seed like any other) -/
theorem src_member_model :
    Gen.bootstrapMemberEOF.lookup "standardize" = some "False" ∧ Gen.bootstrapMemberEOF.lookup "use_coslat" = some "False" ∧
    Gen.bootstrapMemberEOF.lookup "sample_name" = some "sample_name" ∧
    Gen.bootstrapMemberEOF.lookup "feature_name" = some "model.feature_name" ∧
    Gen.bootstrapSeedExpr = "self._params['seed']" := by decide

theorem src_no_literal_dimension_names : Gen.literalDimUses = [] := by decide

/-- source obligation: a member's scores are the projection of the ORIGINAL preprocessed samples on the member's components -/
theorem src_member_scores_project_originals :
    Gen.bootstrapMemberScoresExpr = ["bst_model.transform(input_data, normalized=False)"] := by decide

/-! ### on the executable member model `XM.bootMember` (run by the driver next to `EOFBootstrapper.fit`) -/

/-- member components are orthonormal, whatever sign the decomposer chose and whatever the alignment with the model decided -/
theorem model_member_components_orthonormal {n p k r : ℕ} (hk : k ≤ r) (D : XM.Mat n p 𝕜) (idx : Fin n → Fin n) (U : XM.Mat n r 𝕜)
    (s : Fin r → ℝ) (V : XM.Mat p r 𝕜) (sd sa : Fin k → ℝ) (hV : V.toMatrixᴴ * V.toMatrix = 1) (hsd : ∀ j, sd j * sd j = 1)
    (hsa : ∀ j, sa j * sa j = 1) :
    (XM.bootMember hk D idx U s V sd sa).comps.toMatrixᴴ * (XM.bootMember hk D idx U s V sd sa).comps.toMatrix = 1 :=
  XP.BootM.member_components_orthonormal hk D idx U s V sd sa hV hsd hsa

/-- member scores are the projection of the ORIGINAL samples (centred with the resample's mean) on the member's components -/
theorem model_member_scores_are_projection {n p k r : ℕ} (hk : k ≤ r) (D : XM.Mat n p 𝕜) (idx : Fin n → Fin n) (U : XM.Mat n r 𝕜)
    (s : Fin r → ℝ) (V : XM.Mat p r 𝕜) (sd sa : Fin k → ℝ) :
    (XM.bootMember hk D idx U s V sd sa).scores.toMatrix
      = (XM.centreWith D (XM.colMeans (ρ := ℝ) (XM.resample D idx))).toMatrix * (XM.bootMember hk D idx U s V sd sa).comps.toMatrix :=
  XP.BootM.member_scores_are_projection hk D idx U s V sd sa

/-- what is decomposed is a with-replacement resample of the model's own samples (every row is one of its rows), centred -/
theorem model_member_decomposes_centred_resample {n p : ℕ} (D : XM.Mat n p 𝕜) (idx : Fin n → Fin n) (hn : 0 < n) :
    (∀ i j, (XM.resample D idx).toMatrix i j = D.toMatrix (idx i) j) ∧
    (∀ j, ∑ i, (XM.bootDecomposed (ρ := ℝ) D idx).toMatrix i j = 0) :=
  ⟨XP.BootM.resample_rows D idx, XP.BootM.decomposed_centred D idx hn⟩

end C20
