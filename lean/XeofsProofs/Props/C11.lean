import XeofsProofs.Bridge
import XeofsProofs.Lemmas.Rot
import XeofsProofs.Lemmas.Misc13
import XeofsProofs.Props.C15
import XeofsModel.Generated.Facts
import XeofsProofs.Lemmas.RotModel
import XeofsProofs.Lemmas.CrotModel
/-!
# C11 — rotation re-expresses the retained subspace without changing what it represents

The converged rotation matrix is an ORACLE (`R`, with `Rinv * R = 1`); everything xeofs does with it is modelled.
-/
open Matrix
namespace C11

variable {𝕜 : Type} [RCLike 𝕜] {n p k : ℕ}

/-- **rot_reconstruction**: for ANY invertible `R` (Varimax or Promax), any real non-zero re-scaling `ν` (the pseudo-norms),
any re-ordering and sign pattern `Q` (a unitary permutation/sign matrix): rotated scores times rotated components
reconstruct exactly what the `k` unrotated modes reconstruct. The scores MUST be rotated with `(R⁻¹)ᴴ`. -/
theorem rot_reconstruction (U : Matrix (Fin n) (Fin k) 𝕜) (L : Matrix (Fin p) (Fin k) 𝕜)
    (R Rinv Q : Matrix (Fin k) (Fin k) 𝕜) (ν : Fin k → 𝕜) (hν : ∀ j, ν j ≠ 0)
    (hR : Rinv * R = 1) (hQ : Q * Qᴴ = 1) (hνreal : ∀ j, star (ν j) = ν j) :
    let comps  := L * R * diagonal (fun j => (ν j)⁻¹) * Q
    let scores := U * Rinvᴴ * diagonal ν * Q
    scores * compsᴴ = U * Lᴴ :=
  XP.Rot.rot_reconstruction U L R Rinv Q ν hν hR hQ hνreal

/-- for a unitary rotation (Varimax) `(R⁻¹)ᴴ = R`, which is why the source may skip the inversion when `power = 1` -/
theorem unitary_inverse_conjTranspose (R : Matrix (Fin k) (Fin k) 𝕜) (hR : Rᴴ * R = 1) : (Rᴴ)ᴴ = R ∧ Rᴴ * R = 1 :=
  ⟨conjTranspose_conjTranspose R, hR⟩

/-- **varimax_R_unitary**: every iterate `U Vᴴ` (polar factor of the gradient) is unitary, by induction over the loop -/
theorem varimax_iter_unitary (step : Matrix (Fin k) (Fin k) 𝕜 → Matrix (Fin k) (Fin k) 𝕜)
    (hstep : ∀ R, (step R)ᴴ * step R = 1) (m : ℕ) :
    ((step^[m]) (1 : Matrix (Fin k) (Fin k) 𝕜))ᴴ * (step^[m]) 1 = 1 :=
  XP.M13.varimax_iter_unitary step hstep m

theorem polar_factor_unitary (U V : Matrix (Fin k) (Fin k) 𝕜) (hU : Uᴴ * U = 1) (hV : V * Vᴴ = 1) :
    (U * Vᴴ)ᴴ * (U * Vᴴ) = 1 :=
  XP.M13.polar_factor_unitary U V hU hV

/-- **promax_power_one_is_varimax**: with power 1 the Procrustes target is the Varimax solution itself -/
theorem promax_power_one (X : Matrix (Fin p) (Fin k) 𝕜) (D : Matrix (Fin k) (Fin k) 𝕜)
    (G : Matrix (Fin k) (Fin k) 𝕜) (hG : G * (Xᴴ * X) = 1) :
    G * Xᴴ * (X * D) = D :=
  XP.M13.promax_power_one X D G hG

/-- **rot_scores_orthonormal** (power 1): normalised scores `U R` stay orthonormal under a unitary rotation -/
theorem rot_scores_orthonormal (U : Matrix (Fin n) (Fin k) 𝕜) (R : Matrix (Fin k) (Fin k) 𝕜)
    (hU : Uᴴ * U = 1) (hR : Rᴴ * R = 1) : (U * R)ᴴ * (U * R) = 1 := by
  rw [conjTranspose_mul, Matrix.mul_assoc, ← Matrix.mul_assoc Uᴴ, hU, Matrix.one_mul, hR]

/-- **rot_expvar_sum**: a unitary rotation preserves the summed explained variance `tr(LᴴL)` of the loadings -/
theorem rot_expvar_sum (L : Matrix (Fin p) (Fin k) 𝕜) (R : Matrix (Fin k) (Fin k) 𝕜) (hR : R * Rᴴ = 1) :
    trace ((L * R)ᴴ * (L * R)) = trace (Lᴴ * L) := by
  rw [conjTranspose_mul, Matrix.mul_assoc, trace_mul_comm, Matrix.mul_assoc, Matrix.mul_assoc, hR, Matrix.mul_one,
    trace_mul_comm]

/-- **rot_sorted**: sorting by descending explained variance (a merge sort of the values) gives a descending list that
is a permutation of the input -/
theorem rot_sorted (ev : List ℝ) :
    (ev.mergeSort (fun a b => decide (b ≤ a))).Pairwise (fun a b => b ≤ a) ∧
    (ev.mergeSort (fun a b => decide (b ≤ a))).Perm ev := by
  constructor
  · have := List.pairwise_mergeSort (le := fun a b : ℝ => decide (b ≤ a))
      (by intro a b c hab hbc; simp only [decide_eq_true_eq] at *; exact le_trans hbc hab)
      (by intro a b; simp only [Bool.or_eq_true, decide_eq_true_eq]; exact le_total b a) ev
    exact this.imp (by intro a b h; simpa using h)
  · exact List.mergeSort_perm ev _

/-- **rot_sign_rule**: the rotated modes get the same deterministic sign convention (C15) -/
theorem rot_sign_rule (mx mn : Int) (h : mn ≤ mx) :
    0 ≤ Gen.signRuleXarray mx mn * C15.bigEntry mx mn := (C15.sign_rule_xarray mx mn h).1

/-- source obligations: the scores are rotated with the inverse CONJUGATE transpose exactly when `power > 1`
(for `power = 1` the rotation is unitary), in both rotator families; the rotated norms use `n − 1` -/
theorem src_inverse_transpose_guard (power : Int) :
    (Gen.rotatorSingleUsesInverse power = decide (power > 1)) ∧ (Gen.rotatorCrossUsesInverse power = decide (power > 1)) ∧
    Gen.rotatorSingleInverseIsConjTranspose = true ∧ Gen.rotatorCrossInverseIsConjTranspose = true := by
  refine ⟨rfl, rfl, ?_, ?_⟩ <;> decide

theorem src_rotator_norm (ev nn : ℝ) : Gen.rotatorNorm ev nn = Real.sqrt (ev * (nn - 1)) := by
  simp [Gen.rotatorNorm, Num.sqrt]

/-- source obligation for `rot_sorted` after a refit: every rotator fit clears the flag that guards the re-sorting -/
theorem src_rotator_fit_resets_sorted : Gen.eofRotatorFitResetsSorted = true ∧ Gen.cpccaRotatorFitResetsSorted = true := by decide

/-- **rot_reconstruction on the executable model** (`XM.rotFit`, the definition the driver runs next to
`EOFRotator._fit_algorithm`): for every rotation matrix `R` with `RinvT = (R⁻¹)ᴴ`, every ±1 sign choice and every ordering `σ`
of the modes, reconstructing from the rotated scores and components gives `scores₀ · comps₀ᴴ`, the reconstruction from the same
number of unrotated modes. The generated formulas enter through `Gen.rotatorLoadingScale`, `Gen.rotatorNorm`, `Gen.eofExpVar`. -/
theorem model_rot_reconstruction {n p k : ℕ} (comps0 : XM.Mat p k 𝕜) (expvar0 : Fin k → ℝ) (scores0 : XM.Mat n k 𝕜)
    (svals0 : Fin k → ℝ) (R RinvT : XM.Mat k k 𝕜) (sgn : Fin k → ℝ) (σ : Fin k ≃ Fin k)
    (hR : (RinvT.toMatrix)ᴴ * R.toMatrix = 1) (hsgn : ∀ j, sgn j * sgn j = 1)
    (hev : ∀ j, XM.rotExpvar (ρ := ℝ) (XM.rotLoadings comps0 expvar0 R) j ≠ 0)
    (hn : 1 < n) (hsv : ∀ j, 0 < svals0 j) (hexp : ∀ j, expvar0 j = Gen.eofExpVar (svals0 j) (n : ℝ)) :
    (XM.rotInverse (XM.rotFit comps0 expvar0 scores0 svals0 R RinvT sgn σ)
        (XM.rotFit comps0 expvar0 scores0 svals0 R RinvT sgn σ).scores).toMatrix
      = scores0.toMatrix * (comps0.toMatrix)ᴴ :=
  XP.RotM.model_rot_reconstruction comps0 expvar0 scores0 svals0 R RinvT sgn σ hR hsgn hev hn hsv hexp

/-- the rotated explained variances of the model are non-negative (sums of squared moduli) -/
theorem model_rot_expvar_nonneg {p k : ℕ} (L : XM.Mat p k 𝕜) (j : Fin k) : 0 ≤ XM.rotExpvar (ρ := ℝ) L j :=
  XP.RotM.rotExpvar_nonneg L j

/-- source obligation: rotated cross-set modes are ordered by their squared covariance `(norm1 · norm2)²` -/
theorem src_cross_rotator_sort_key :
    Gen.cpccaRotatorSortKey = ["argsort_dask(squared_covariance, 'mode')[::-1]", "explained_covariance ** 2", "norm1_rot * norm2_rot"] := by decide

/-- **rotated cross-set models (CPCCARotator, MCARotator, complex variants) on the executable model `XM.crotFit`** — tied by the
`crot` correspondence. The reconstruction of the first field from the rotated, signed and sorted scores and vectors equals
`S₁ Q₁ᴴ`, the one from the same number of unrotated modes, for Varimax and Promax alike. Hypotheses: going to physical space and
back is the identity (`B₁ A₁ = 1`), `RinvT` is `(R⁻¹)ᴴ` (oracle specification), signs ±1, the order a permutation, no rotated
pattern null, singular values positive. -/
theorem model_crot_reconstruction {n p q p' q' k : ℕ} (A1 : XM.Mat p p' 𝕜) (A2 : XM.Mat q q' 𝕜) (B1 : XM.Mat p' p 𝕜)
    (B2 : XM.Mat q' q 𝕜) (Q1 : XM.Mat p' k 𝕜) (Q2 : XM.Mat q' k 𝕜) (s : Fin k → ℝ) (S1 S2 : XM.Mat n k 𝕜) (R RinvT : XM.Mat k k 𝕜)
    (sgn : Fin k → ℝ) (σ : Fin k ≃ Fin k)
    (hBA : B1.toMatrix * A1.toMatrix = 1) (hR : (RinvT.toMatrix)ᴴ * R.toMatrix = 1) (hsgn : ∀ j, sgn j * sgn j = 1)
    (hnz : ∀ j, XM.crotNorms (ρ := ℝ) (B1.mul (XM.topRows (XM.crotLoadings A1 A2 Q1 Q2 s R))) j ≠ 0) (hs : ∀ j, 0 < s j) :
    (XM.crotFit A1 A2 B1 B2 Q1 Q2 s S1 S2 R RinvT sgn σ).scores1.toMatrix
        * ((XM.crotFit A1 A2 B1 B2 Q1 Q2 s S1 S2 R RinvT sgn σ).comps1.toMatrix)ᴴ
      = S1.toMatrix * (Q1.toMatrix)ᴴ :=
  XP.CrotM.model_crot_reconstruction A1 A2 B1 B2 Q1 Q2 s S1 S2 R RinvT sgn σ hBA hR hsgn hnz hs

/-- the rotated vectors of a cross-set model are unit vectors in the whitened PC space -/
theorem model_crot_unit_vectors {p k : ℕ} (X : XM.Mat p k 𝕜) (j : Fin k) (h : XM.crotNorms (ρ := ℝ) X j ≠ 0) :
    ∑ i, RCLike.normSq ((X.divCols (XM.crotNorms (ρ := ℝ) X)).get i j) = 1 :=
  XP.CrotM.comps_unit_norm X j h

/-- non-vacuity of the hypotheses: the 1×1 identity rotation on one positive singular value satisfies all of them -/
example : ((1 : Matrix (Fin 1) (Fin 1) ℝ))ᴴ * (1 : Matrix (Fin 1) (Fin 1) ℝ) = 1 ∧ (1 : ℝ) * 1 = 1 ∧ (0 : ℝ) < 2 := by
  simp

end C11
