import XeofsModel.Frame
import XeofsModel.Generated.Facts
import Mathlib.Data.List.ProdSigma
import Mathlib.Data.List.Nodup
import Mathlib.Data.List.Perm.Basic
import XeofsModel.Generated.Formulas
/-!
# C02 — outputs keep the input's structure and attach every value to its own label

`S.Frame` is the labelled 2-D frame (row keys = stacked sample labels, column keys = stacked feature labels); the
positional matrix `toMat` is what the numerical core sees; results are re-labelled by `readBack`.
The semantics of the xarray operations xeofs delegates to (`stack`, `to_stacked_array`, `unstack`, `reindex`, `concat`)
are idealised here and validated only through the real pipeline by the correspondence runs.
-/
namespace C02
open S

/-- **roundtrip_data**: reading the positional matrix back by labels returns the input value at every label -/
theorem roundtrip_data {α} (F : Frame α) (d : α) (s f : Key) (hs : s ∈ F.rows) (hf : f ∈ F.cols) :
    readBack F.rows F.cols F.toMat d s f = F.val s f :=
  S.roundtrip F d s f hs hf

/-- **frame_shape**: the matrix has one row per sample key and one column per feature key -/
theorem frame_shape {α} (F : Frame α) : F.toMat.length = F.rows.length ∧ ∀ r ∈ F.toMat, r.length = F.cols.length := by
  constructor
  · simp [Frame.toMat]
  · intro r hr; simp only [Frame.toMat, List.mem_map] at hr; obtain ⟨_, _, rfl⟩ := hr; simp

/-- **frame_bijective**: stacking several dimensions (row-major product of their label lists) yields distinct keys when
the labels of each dimension are distinct, and as many keys as the product of the sizes — cells ↔ matrix entries is a
bijection keyed by labels -/
theorem stack_keys_nodup (a b : List Label) (ha : a.Nodup) (hb : b.Nodup) :
    (a.product b).Nodup ∧ (a.product b).length = a.length * b.length :=
  ⟨List.Nodup.product ha hb, List.length_product a b⟩

/-- **split_concat**: the concatenated feature axis is split back at the recorded sizes -/
theorem split_concat {α} (x y : List α) : (x ++ y).take x.length = x ∧ (x ++ y).drop x.length = y := by simp

theorem split_concat_three {α} (x y z : List α) :
    (x ++ y ++ z).take x.length = x ∧ ((x ++ y ++ z).drop x.length).take y.length = y ∧
    (x ++ y ++ z).drop (x.length + y.length) = z := by
  refine ⟨by simp [List.append_assoc], by simp [List.append_assoc], ?_⟩
  rw [← List.drop_drop]; simp [List.append_assoc]

/-- **unstack_sorted**: un-stacking returns the labels of a dimension sorted — the same SET of labels, which is the permitted
re-ordering -/
theorem unstack_sorted (labels : List String) :
    (labels.mergeSort (fun a b => decide (a ≤ b))).Perm labels := List.mergeSort_perm labels _

/-- … and the re-ordering of labels does not move any value: reading by label ignores positions -/
theorem relabel_order_irrelevant {α} (F : Frame α) (rows' cols' : List Key) (d : α) (s f : Key)
    (hs : s ∈ rows') (hf : f ∈ cols') :
    readBack rows' cols' ({ F with rows := rows', cols := cols' } : Frame α).toMat d s f = F.val s f :=
  S.roundtrip { F with rows := rows', cols := cols' } d s f hs hf

/-- **components_structure / scores_structure**: a result that keeps only one side's keys (components: feature keys +
mode, scores: sample keys + mode) is re-labelled with exactly those keys -/
theorem one_sided_structure {α} (keys : List Key) (modes : List Key) (val : Key → Key → α) (d : α) (kf m : Key)
    (hk : kf ∈ keys) (hm : m ∈ modes) :
    readBack keys modes ({ rows := keys, cols := modes, val := val } : Frame α).toMat d kf m = val kf m :=
  S.roundtrip ({ rows := keys, cols := modes, val := val } : Frame α) d kf m hk hm

/-- source obligations: list elements are aligned by sample LABEL when concatenated (no positional override), and the
generic dimension names are assigned to the sample dimensions first, in the order the user gave -/
theorem src_concat_aligns_by_label : Gen.concatenatorConcatKwargs = [("dim", "self.feature_name")] := by decide

theorem src_renamer_names_sample_dims_first :
    Gen.renamerOrderedDims = "[*sample_dims, *[d for d in X.dims if d not in sample_dims]]" := by decide

-- non-vacuity: a 2×2 frame
example : readBack [["t0"], ["t1"]] [["a"], ["b"]]
    ({ rows := [["t0"], ["t1"]], cols := [["a"], ["b"]], val := fun s f => s ++ f } : Frame Key).toMat [] ["t1"] ["a"] = ["t1", "a"] := by
  decide

/-- source obligation: the latitude weight is `sqrt(clip(cos φ, 0, 1))`, with nothing snapped to zero — weighting and un-weighting
are inverse to each other at every latitude whose cosine is representable as a positive number -/
theorem src_coslat_formula : Gen.coslatWeightIsSqrtOfClippedCos = true := by decide

/-- source obligations: the sample coordinates remembered at fit time and those of later transforms are kept apart, and the way
back for fitted results reads the fit-time record — a later `transform` cannot re-label `scores()` -/
theorem src_fit_labels_kept_apart :
    Gen.multiIndexDictsSeparate = true ∧ Gen.multiIndexInverseReadsChosenReference = true := by decide

/-- source obligations: results of the fit (scores, data, components) are brought back with the record written at FIT time, only
unseen data with the record of the last transform; and a reconstruction for Dataset input gets every squeezed non-feature
dimension back (not only `mode`) -/
theorem src_inverse_paths_read_the_fit_record :
    Gen.multiIndexInverseReferences.lookup "inverse_transform_scores" = some "self._inverse_transform(X, reference='fit')" ∧
    Gen.multiIndexInverseReferences.lookup "inverse_transform_data" = some "self._inverse_transform(X, reference='fit')" ∧
    Gen.multiIndexInverseReferences.lookup "inverse_transform_components" = some "self._inverse_transform(X, reference='fit')" ∧
    Gen.multiIndexInverseReferences.lookup "inverse_transform_scores_unseen" = some "self._inverse_transform(X, reference='transform')" := by decide

theorem src_every_squeezed_dimension_restored :
    Gen.stackerRestoreSqueezedBody.head? =
      some "for dim in X.dims:     if dim != self.feature_name and dim not in ds.dims:         ds = ds.expand_dims({dim: X.coords[dim].values})" := by
  decide +kernel

end C02
