import XeofsProofs.Bridge
import XeofsProofs.Lemmas.Small
import XeofsProofs.Lemmas.Corr
import Mathlib.Algebra.BigOperators.Intervals
import XeofsModel.Generated.Facts
import XeofsProofs.Lemmas.OpaModel
/-!
# C19 — OPA returns uncorrelated series ordered by their own decorrelation time
-/
open Matrix Finset
namespace C19

variable {𝕜 : Type} [RCLike 𝕜] {n r : ℕ}

/-- the trapezoidal weights (generated): ½ at lag 0 and at `τmax`, 1 in between -/
theorem lag_weights (tau tauMax : ℕ) (h0 : 0 < tauMax) :
    Gen.opaLagWeightTimesTwo 0 tauMax = 1 ∧ Gen.opaLagWeightTimesTwo tauMax tauMax = 1 ∧
    (0 < tau → tau < tauMax → Gen.opaLagWeightTimesTwo tau tauMax = 2) := by
  refine ⟨by simp [Gen.opaLagWeightTimesTwo], ?_, ?_⟩
  · simp [Gen.opaLagWeightTimesTwo]
  · intro h1 h2
    have a : tau ≠ 0 := by omega
    have b : tau ≠ tauMax := by omega
    simp [Gen.opaLagWeightTimesTwo, a, b]

/-- the weight of a lag does not depend on how the integer `tau_max` is represented: it is decided by VALUE -/
theorem lag_weight_by_value (tau tauMax tauMax' : ℕ) (h : tauMax = tauMax') :
    Gen.opaLagWeightTimesTwo tau tauMax = Gen.opaLagWeightTimesTwo tau tauMax' := by rw [h]

/-- lag covariances are normalised with the number of overlapping samples minus one -/
theorem lag_denominator (nn tau : ℕ) : Gen.opaLagDenominator nn tau = nn - tau - 1 := rfl

/-- **opa_T_is_trapezoid**: the quadratic form of the weighted lag sum is the weighted sum of the quadratic forms — the
eigenvalue attached to a filter pattern `v` is the trapezoidal sum of the lag covariances of ITS OWN series -/
theorem opa_T_is_trapezoid {ι : Type*} (s : Finset ι) (w : ι → 𝕜) (C : ι → Matrix (Fin r) (Fin r) 𝕜) (v : Fin r → 𝕜) :
    star v ⬝ᵥ ((∑ τ ∈ s, w τ • C τ) *ᵥ v) = ∑ τ ∈ s, w τ * (star v ⬝ᵥ (C τ *ᵥ v)) :=
  XP.Small.quad_form_sum s w C v

/-- **opa_scores_uncorrelated_equal_norm**: the score series are `P = Z F` with `Fᴴ C₀ F = 1` where `C₀ = ZᴴZ/(n−1)`;
hence `PᴴP = (n−1)·1` -/
theorem opa_scores_uncorrelated_equal_norm (Z : Matrix (Fin n) (Fin r) 𝕜) (F : Matrix (Fin r) (Fin r) 𝕜) (c : 𝕜)
    (h : Fᴴ * (c • (Zᴴ * Z)) * F = 1) (hc : c ≠ 0) :
    (Z * F)ᴴ * (Z * F) = c⁻¹ • (1 : Matrix (Fin r) (Fin r) 𝕜) := by
  have : Fᴴ * (Zᴴ * Z) * F = c⁻¹ • (1 : Matrix (Fin r) (Fin r) 𝕜) := by
    rw [Matrix.mul_smul, Matrix.smul_mul] at h
    rw [← h, smul_smul, inv_mul_cancel₀ hc, one_smul]
  rw [conjTranspose_mul, Matrix.mul_assoc, ← Matrix.mul_assoc Zᴴ, ← Matrix.mul_assoc, this]

/-- **opa_biorthogonal**: filter patterns `F` and optimally persistent patterns `W = C₀ F` satisfy `Fᴴ W = 1` -/
theorem opa_biorthogonal (C0 F : Matrix (Fin r) (Fin r) 𝕜) (h : Fᴴ * C0 * F = 1) : Fᴴ * (C0 * F) = 1 := by
  rw [← Matrix.mul_assoc]; exact h

/-- **opa_first_optimal**: for a Hermitian target matrix with descending eigenvalues `d`, no direction has a larger
Rayleigh quotient than the first eigenvalue — no linear combination of the retained PCs is more persistent than mode 1.
Needs SIGNED eigenvalues in descending order (source obligation below); an SVD would return |λ|. -/
theorem opa_first_optimal {q : ℕ} (A W : Matrix (Fin (q+1)) (Fin (q+1)) 𝕜) (d : Fin (q+1) → ℝ) (hd : Antitone d)
    (hW : W * Wᴴ = 1) (hA : A = W * diagonal (fun i => (d i : 𝕜)) * Wᴴ) (x : Fin (q+1) → 𝕜) :
    RCLike.re (star x ⬝ᵥ (A *ᵥ x)) ≤ d 0 * RCLike.re (star x ⬝ᵥ x) :=
  XP.Corr.rayleigh_le_first A W d hd hW hA x

theorem src_symmetric_descending_solver : Gen.opaUsesSymmetricDescendingSolver = true := by decide

/-- **opa_sorted** is the order the symmetric solver returns (descending), cf. `C11.rot_sorted` for the sort itself -/
example : Gen.opaLagWeightTimesTwo 3 3 = 1 ∧ Gen.opaLagWeightTimesTwo 2 3 = 2 ∧ Gen.opaLagWeightTimesTwo 300 300 = 1 := by decide

/-- source obligation: the inner EOF that pre-reduces the data keeps its default centring (the PCs must have zero mean for the
lag covariances to be covariances) -/
theorem src_opa_inner_eof_centres : Gen.opaInnerEOF.lookup "center" = none := by decide

/-! ### on the executable model `XM.opaFit` (run by the driver next to `OPA._fit_algorithm`) -/

/-- the model's zero-lag covariance is `SᵀS/(n − 1)` (generated denominator) -/
theorem model_lag0 {n q : ℕ} (S : XM.Mat n q ℝ) :
    (XM.lagCov (ρ := ℝ) S 0).toMatrix = (((n - 1 : ℕ) : ℝ))⁻¹ • ((S.toMatrix)ᵀ * S.toMatrix) :=
  XP.OpaM.lagCov_zero S

/-- **opa_scores_uncorrelated_equal_norm on the executable model**: whatever decomposition of `C0` the solver returned (also an
arbitrary rotation inside a pair of PCs with equal variance), `Cinv = (U√s)⁻¹` whitens `C0` as `Cinv C0 Cinvᵀ = 1`
(`model_inverse_factor_whitens`) and the returned series are uncorrelated with equal norm -/
theorem model_scores_uncorrelated_equal_norm {n p q k : ℕ} (S : XM.Mat n q ℝ) (C : XM.Mat p q ℝ) (tauMax : ℕ) (Cinv : XM.Mat q q ℝ)
    (Ue : XM.Mat q k ℝ) (lam : Fin k → ℝ) (hn : 1 < n)
    (hW : Cinv.toMatrix * (XM.lagCov (ρ := ℝ) S 0).toMatrix * (Cinv.toMatrix)ᵀ = 1) (hU : (Ue.toMatrix)ᵀ * Ue.toMatrix = 1) :
    ((XM.opaFit S C tauMax Cinv Ue lam).scores.toMatrix)ᵀ * (XM.opaFit S C tauMax Cinv Ue lam).scores.toMatrix
      = (((n - 1 : ℕ) : ℝ)) • (1 : Matrix (Fin k) (Fin k) ℝ) :=
  XP.OpaM.model_scores_gram S C tauMax Cinv Ue lam hn hW hU

/-- the hypothesis of the previous theorem follows from the oracle specifications alone: `L Lᵀ = C0` and `Cinv L = 1` -/
theorem model_inverse_factor_whitens {q : ℕ} (C0 L Cinv : Matrix (Fin q) (Fin q) ℝ) (hL : L * Lᵀ = C0) (hI : Cinv * L = 1) :
    Cinv * C0 * Cinvᵀ = 1 :=
  XP.OpaM.whitens_of_factor C0 L Cinv hL hI

/-- non-vacuity with a NON-symmetric inverse factor: `C0 = 1`, `L` a rotation by 90°, `Cinv = Lᵀ` -/
example : (!![0, -1; 1, 0] : Matrix (Fin 2) (Fin 2) ℝ) * (!![0, -1; 1, 0] : Matrix (Fin 2) (Fin 2) ℝ)ᵀ = 1
    ∧ (!![0, 1; -1, 0] : Matrix (Fin 2) (Fin 2) ℝ) * (!![0, -1; 1, 0] : Matrix (Fin 2) (Fin 2) ℝ) = 1 := by
  constructor <;> · ext i j; fin_cases i <;> fin_cases j <;> simp [Matrix.mul_apply, Fin.sum_univ_two]

/-- the matrix the model hands to the symmetric eigen-solver is symmetric for EVERY inverse factor `Cinv`, so `eigh` applies (the
code before the repair 5ec1b91 contracted `Cinv` over the wrong index, which is symmetric only for a symmetric `Cinv`) -/
theorem model_target_symmetric {q : ℕ} (Cinv M : XM.Mat q q ℝ) :
    ((XM.opaTarget (ρ := ℝ) Cinv M).toMatrix)ᵀ = (XM.opaTarget (ρ := ℝ) Cinv M).toMatrix :=
  XP.OpaM.model_target_symmetric Cinv M

end C19
