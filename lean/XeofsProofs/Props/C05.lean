import XeofsProofs.Lemmas.EofModel
import XeofsProofs.Lemmas.Misc13
import XeofsProofs.Props.C04
import XeofsProofs.Lemmas.MccaModel
import XeofsModel.Scaler
import Mathlib.Data.Matrix.ColumnRowPartitioned
import XeofsModel.Generated.Facts
/-!
# C05 — out-of-sample transform is a per-sample map labelled by the new data
-/
open XM Matrix XP.EofM
namespace C05

variable {𝕜 : Type} [RCLike 𝕜] {n n' p k r m : ℕ}

/-- **transform_rows**: the projection of a concatenation is the concatenation of the projections — for any two blocks
of samples and any fitted components -/
theorem transform_rows (A : Matrix (Fin n) (Fin p) 𝕜) (B : Matrix (Fin n') (Fin p) 𝕜) (C : Matrix (Fin p) (Fin k) 𝕜) :
    Matrix.fromRows A B * C = Matrix.fromRows (A * C) (B * C) :=
  XP.M13.transform_rows A B C

/-- row `t` of the model's transform depends on row `t` of the data only -/
theorem transform_row_local (hk : k ≤ r) (U : Mat n r 𝕜) (s : Fin r → ℝ) (V : Mat p r 𝕜) (sgn : Fin k → ℝ)
    (X Y : Mat m p 𝕜) (t : Fin m) (hrow : ∀ j, X.get t j = Y.get t j) (j : Fin k) :
    (eofTransform (eofFit hk hk hk U s V sgn) X).toMatrix t j = (eofTransform (eofFit hk hk hk U s V sgn) Y).toMatrix t j := by
  unfold eofTransform
  rw [toMatrix_mul, toMatrix_mul, Matrix.mul_apply, Matrix.mul_apply]
  simp only [toMatrix_apply, hrow]

/-- the scaler is applied entry by entry with the FITTED parameters, hence also per sample -/
theorem scaler_entrywise (f : ScalerFlags) (P : ScalerParams 𝕜) (x y : 𝕜) (h : x = y) :
    scalerTransform f P x = scalerTransform f P y := by rw [h]

/-- **transform_subset_of_training**: a training sample is mapped to its own row of the scores -/
theorem transform_subset_of_training (hk : k ≤ r) (X : Mat n p 𝕜) (U : Mat n r 𝕜) (s : Fin r → ℝ) (V : Mat p r 𝕜)
    (sgn : Fin k → ℝ) (h : XP.SVD.IsSVD X.toMatrix U.toMatrix s V.toMatrix) (Y : Mat m p 𝕜) (t : Fin m) (t0 : Fin n)
    (hrow : ∀ j, Y.get t j = X.get t0 j) (j : Fin k) :
    (eofTransform (eofFit hk hk hk U s V sgn) Y).toMatrix t j = (eofFit hk hk hk U s V sgn).scores.toMatrix t0 j := by
  rw [← C04.eof_transform_training_eq_scores hk X U s V sgn h]
  unfold eofTransform
  rw [toMatrix_mul, toMatrix_mul, Matrix.mul_apply, Matrix.mul_apply]
  simp only [toMatrix_apply, hrow]

/-- source obligations (sample MultiIndex): every `transform` records the coordinates of the data it was given, and the inverse used
for unseen data reads exactly that record — never the coordinates remembered from `fit` -/
theorem src_transform_records_new_coords :
    Gen.multiIndexTransformAlwaysRecords = true ∧ Gen.multiIndexInverseReadsChosenReference = true ∧
    Gen.multiIndexDictsSeparate = true := by decide

/-- source obligation (cross-set models): in `transform` and `inverse_transform` the first field only ever touches
`preprocessor1 / pca1 / whitener1` and the second only the `…2` objects, so each field is labelled by its own data -/
theorem src_fields_use_their_own_objects :
    Gen.crossTransformObjectsX = ["pca1", "preprocessor1", "whitener1"] ∧ Gen.crossTransformObjectsY = ["pca2", "preprocessor2", "whitener2"] ∧
    Gen.crossInverseObjectsX = ["pca1", "preprocessor1", "whitener1"] ∧ Gen.crossInverseObjectsY = ["pca2", "preprocessor2", "whitener2"] := by
  decide

/-- source obligation: `PCA.transform` is the bare projection `X · V` — no mean, scale or any other statistic of the data being
transformed enters, which is what makes the transform a per-sample map -/
theorem src_pca_transform_is_projection :
    Gen.pcaTransformBody = ["transformed = xr.dot(X, self.V, dims=self.feature_name)", "transformed.name = X.name",
      "return transformed.rename({'mode': self.feature_name})"] := by decide

/-- source obligation: normalised out-of-sample scores are divided by the norms stored at fit, not by a statistic of the data being
transformed -/
theorem src_normalized_uses_fitted_norms :
    Gen.singleTransformNormalizedBody.head? = some "data2D = data2D / self.data['norms']" := by decide

/-- **multi-set CCA on the executable model**: `transform` is a per-sample map — row `i` of the answer reads row `i` of the new
data only -/
theorem model_mcca_transform_row_local {n m Q k : ℕ} (F : XM.MccaFit n Q k ℝ ℝ) (blkQ : Fin Q → ℕ) (X Y : XM.Mat m Q ℝ) (v : ℕ)
    (i : Fin m) (h : ∀ a, X.get i a = Y.get i a) (j : Fin k) :
    (XM.mccaTransform F blkQ X v).get i j = (XM.mccaTransform F blkQ Y v).get i j :=
  XP.MccaM.transform_row F blkQ X Y v i h j

/-- … and the answer for view `v` depends on that view's own columns only (no view is projected with another view's weights) -/
theorem model_mcca_transform_reads_own_view {n m Q k : ℕ} (F : XM.MccaFit n Q k ℝ ℝ) (blkQ : Fin Q → ℕ) (X Y : XM.Mat m Q ℝ) (v : ℕ)
    (h : ∀ i a, blkQ a = v → X.get i a = Y.get i a) :
    XM.mccaTransform F blkQ X v = XM.mccaTransform F blkQ Y v :=
  XP.MccaM.transform_reads_own_view F blkQ X Y v h

end C05
