import XeofsProofs.Bridge
import XeofsProofs.Lemmas.Whiten
import XeofsProofs.Lemmas.PsdSVD
import XeofsProofs.Lemmas.Small
import XeofsProofs.Props.C01
/-!
# C16 — fractional whitening and PCA reduction are exact, invertible changes of basis

`C = XᴴX/n` is Hermitian positive semi-definite; any SVD `C = U diag(s) Vᴴ` with positive singular values has `U = V`
(`svd_of_psd`), which is why `_fractional_matrix_power` may build `T = V diag(s^p) Vᴴ` from `V` alone. The exponent
`p = Gen.whitenerPower α` is regenerated from the source.
-/
open Matrix XP.Whiten
open scoped ComplexOrder
namespace C16

variable {𝕜 : Type} [RCLike 𝕜] {n p k : ℕ}

/-- the generated exponent is `(α − 1)/2` -/
theorem whitener_power (α : ℝ) : Gen.whitenerPower α = (α - 1) / 2 := by
  simp [Gen.whitenerPower]

/-- **svd_of_psd** -/
theorem svd_of_psd {C U V : Matrix (Fin p) (Fin p) 𝕜} {s : Fin p → ℝ}
    (hC : C.PosSemidef) (hU : Uᴴ * U = 1) (hV : Vᴴ * V = 1) (hs : ∀ i, 0 < s i)
    (h : C = U * diagonal (fun i => (s i : 𝕜)) * Vᴴ) : U = V :=
  XP.Psd.svd_of_psd hC hU hV hs h

/-- **T_hermitian** (also `Tinv = specPow V s (−q)`) -/
theorem T_hermitian (V : Matrix (Fin p) (Fin p) 𝕜) (s : Fin p → ℝ) (α : ℝ) :
    (specPow V s (Gen.whitenerPower α))ᴴ = specPow V s (Gen.whitenerPower α) :=
  specPow_hermitian V s _

/-- **whitened_cov**: `Tᴴ C T = C^α` — identity for `α = 0`, `C` itself for `α = 1` -/
theorem whitened_cov (V : Matrix (Fin p) (Fin p) 𝕜) (hV : Vᴴ * V = 1) (s : Fin p → ℝ) (hs : ∀ i, 0 < s i) (α : ℝ) :
    (specPow V s (Gen.whitenerPower α))ᴴ * specPow V s 1 * specPow V s (Gen.whitenerPower α) = specPow V s α := by
  rw [whitener_power]; exact XP.Whiten.whitened_cov V hV s hs α

theorem whitened_cov_zero (V : Matrix (Fin p) (Fin p) 𝕜) (hV : Vᴴ * V = 1) (hV' : V * Vᴴ = 1) (s : Fin p → ℝ)
    (hs : ∀ i, 0 < s i) :
    (specPow V s (Gen.whitenerPower 0))ᴴ * specPow V s 1 * specPow V s (Gen.whitenerPower 0) = 1 := by
  rw [whitened_cov V hV s hs 0, specPow_zero V hV' s]

/-- **T_Tinv**: the whitening matrix and the matrix with the opposite exponent are mutually inverse -/
theorem T_Tinv (V : Matrix (Fin p) (Fin p) 𝕜) (hV : Vᴴ * V = 1) (hV' : V * Vᴴ = 1) (s : Fin p → ℝ)
    (hs : ∀ i, 0 < s i) (α : ℝ) :
    specPow V s (Gen.whitenerPower α) * specPow V s (-(Gen.whitenerPower α)) = 1 :=
  XP.Whiten.T_Tinv V hV hV' s hs _

/-- **unwhiten**: `X T Tinv = X` -/
theorem unwhiten (X : Matrix (Fin n) (Fin p) 𝕜) (T Tinv : Matrix (Fin p) (Fin p) 𝕜) (h : T * Tinv = 1) :
    X * T * Tinv = X := by rw [Matrix.mul_assoc, h, Matrix.mul_one]

/-- **components_there_and_back**: patterns mapped into (`Tᴴ P`) and out of (`Tinvᴴ ·`) the whitened space come back -/
theorem components_there_and_back (T Tinv : Matrix (Fin p) (Fin p) 𝕜) (P : Matrix (Fin p) (Fin k) 𝕜) (hT : T * Tinv = 1) :
    Tinvᴴ * (Tᴴ * P) = P :=
  XP.Small.components_there_and_back T Tinv P hT

/-- the PCA analogue inside the retained subspace: `V (Vᴴ (V Q)) = V Q` -/
theorem pca_components_there_and_back (V : Matrix (Fin p) (Fin k) 𝕜) (hV : Vᴴ * V = 1) (Q : Matrix (Fin k) (Fin n) 𝕜) :
    V * (Vᴴ * (V * Q)) = V * Q := by
  rw [← Matrix.mul_assoc Vᴴ, hV, Matrix.one_mul]

/-- source obligations: relative cut-off; pattern maps use the conjugate transpose; the data map uses `Tinv` itself -/
theorem src_whitener_maps :
    Gen.fracPowerCutoffIsRelative = true ∧ Gen.whitenerTransformComponentsUsesConjTranspose = true ∧
    Gen.whitenerInverseTransformComponentsUsesConjTranspose = true ∧ Gen.whitenerInverseDataUsesTinv = true := by decide

/-- the covariance that is whitened is normalised with the number of samples -/
theorem src_cov_denominator (nn : ℝ) : Gen.whitenerCovDenominator nn = nn := rfl

end C16
