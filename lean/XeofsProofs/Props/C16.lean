import XeofsProofs.Bridge
import XeofsProofs.Lemmas.Whiten
import XeofsProofs.Lemmas.WhitenRank
import XeofsProofs.Lemmas.PsdSVD
import XeofsProofs.Lemmas.Small
import XeofsProofs.Props.C01
import XeofsProofs.Lemmas.WhitenModel
/-!
# C16 — fractional whitening and PCA reduction are exact, invertible changes of basis

`C = XᴴX/n` is Hermitian positive semi-definite; any SVD `C = U diag(s) Vᴴ` with positive singular values has `U = V`
(`svd_of_psd`), which is why `_fractional_matrix_power` may build `T = V diag(s^p) Vᴴ` from `V` alone. The exponent
`p = Gen.whitenerPower α` is regenerated from the source.
-/
open Matrix XP.Whiten
open scoped ComplexOrder
namespace C16

variable {𝕜 : Type} [RCLike 𝕜] {n p k : ℕ}

/-- the generated exponent is `(α − 1)/2` -/
theorem whitener_power (α : ℝ) : Gen.whitenerPower α = (α - 1) / 2 := by
  simp [Gen.whitenerPower]

/-- **svd_of_psd** -/
theorem svd_of_psd {C U V : Matrix (Fin p) (Fin p) 𝕜} {s : Fin p → ℝ}
    (hC : C.PosSemidef) (hU : Uᴴ * U = 1) (hV : Vᴴ * V = 1) (hs : ∀ i, 0 < s i)
    (h : C = U * diagonal (fun i => (s i : 𝕜)) * Vᴴ) : U = V :=
  XP.Psd.svd_of_psd hC hU hV hs h

/-- **T_hermitian** (also `Tinv = specPow V s (−q)`) -/
theorem T_hermitian (V : Matrix (Fin p) (Fin p) 𝕜) (s : Fin p → ℝ) (α : ℝ) :
    (specPow V s (Gen.whitenerPower α))ᴴ = specPow V s (Gen.whitenerPower α) :=
  specPow_hermitian V s _

/-- **whitened_cov**: `Tᴴ C T = C^α` — identity for `α = 0`, `C` itself for `α = 1` -/
theorem whitened_cov (V : Matrix (Fin p) (Fin p) 𝕜) (hV : Vᴴ * V = 1) (s : Fin p → ℝ) (hs : ∀ i, 0 < s i) (α : ℝ) :
    (specPow V s (Gen.whitenerPower α))ᴴ * specPow V s 1 * specPow V s (Gen.whitenerPower α) = specPow V s α := by
  rw [whitener_power]; exact XP.Whiten.whitened_cov V hV s hs α

theorem whitened_cov_zero (V : Matrix (Fin p) (Fin p) 𝕜) (hV : Vᴴ * V = 1) (hV' : V * Vᴴ = 1) (s : Fin p → ℝ)
    (hs : ∀ i, 0 < s i) :
    (specPow V s (Gen.whitenerPower 0))ᴴ * specPow V s 1 * specPow V s (Gen.whitenerPower 0) = 1 := by
  rw [whitened_cov V hV s hs 0, specPow_zero V hV' s]

/-- the exponent of `Tinv` written in the source is the opposite of the exponent of `T` -/
theorem whitener_inverse_power (α : ℝ) : Gen.whitenerInversePower α = -(Gen.whitenerPower α) := by
  simp [Gen.whitenerInversePower]

/-- **T_Tinv**: the whitening matrix and the matrix the source computes as `Tinv` are mutually inverse (full rank) -/
theorem T_Tinv (V : Matrix (Fin p) (Fin p) 𝕜) (hV : Vᴴ * V = 1) (hV' : V * Vᴴ = 1) (s : Fin p → ℝ)
    (hs : ∀ i, 0 < s i) (α : ℝ) :
    specPow V s (Gen.whitenerPower α) * specPow V s (Gen.whitenerInversePower α) = 1 := by
  rw [whitener_inverse_power]; exact XP.Whiten.T_Tinv V hV hV' s hs _

/-- **unwhiten_rank_deficient**: with a rank-deficient covariance (collinear features) the fractional power keeps the
directions `m` above the cut-off; `T` and `Tinv` are then NOT inverse to each other, yet un-whitening still restores the
data, because the dropped directions (`s i = 0`) carry no data -/
theorem unwhiten_rank_deficient (X : Matrix (Fin n) (Fin p) 𝕜) (V : Matrix (Fin p) (Fin p) 𝕜) (hV : Vᴴ * V = 1)
    (hV' : V * Vᴴ = 1) (s : Fin p → ℝ) (c : ℝ) (m : Fin p → Bool) (hs : ∀ i, m i = true → 0 < s i)
    (hm : ∀ i, m i = false → s i = 0) (hC : Xᴴ * X = V * diagonal (fun i => ((c * s i : ℝ) : 𝕜)) * Vᴴ) (α : ℝ) :
    X * specPowM V s m (Gen.whitenerPower α) * specPowM V s m (Gen.whitenerInversePower α) = X := by
  rw [whitener_inverse_power]
  exact XP.Whiten.unwhiten_rank_deficient V hV hV' s m hs _ X
    (XP.Whiten.dropped_directions_carry_no_data X V hV s c m hm hC)

/-- with every direction retained the masked power is the plain one -/
theorem specPowM_full (V : Matrix (Fin p) (Fin p) 𝕜) (s : Fin p → ℝ) (q : ℝ) :
    specPowM V s (fun _ => true) q = specPow V s q := XP.Whiten.specPowM_all V s q

/-- **unwhiten**: `X T Tinv = X` -/
theorem unwhiten (X : Matrix (Fin n) (Fin p) 𝕜) (T Tinv : Matrix (Fin p) (Fin p) 𝕜) (h : T * Tinv = 1) :
    X * T * Tinv = X := by rw [Matrix.mul_assoc, h, Matrix.mul_one]

/-- **components_there_and_back**: patterns mapped into (`Tᴴ P`) and out of (`Tinvᴴ ·`) the whitened space come back -/
theorem components_there_and_back (T Tinv : Matrix (Fin p) (Fin p) 𝕜) (P : Matrix (Fin p) (Fin k) 𝕜) (hT : T * Tinv = 1) :
    Tinvᴴ * (Tᴴ * P) = P :=
  XP.Small.components_there_and_back T Tinv P hT

/-- the PCA analogue inside the retained subspace: `V (Vᴴ (V Q)) = V Q` -/
theorem pca_components_there_and_back (V : Matrix (Fin p) (Fin k) 𝕜) (hV : Vᴴ * V = 1) (Q : Matrix (Fin k) (Fin n) 𝕜) :
    V * (Vᴴ * (V * Q)) = V * Q := by
  rw [← Matrix.mul_assoc Vᴴ, hV, Matrix.one_mul]

/-- source obligations: relative cut-off; pattern maps use the conjugate transpose; the data map uses `Tinv` itself -/
theorem src_whitener_maps :
    Gen.fracPowerCutoffIsRelative = true ∧ Gen.whitenerTransformComponentsUsesConjTranspose = true ∧
    Gen.whitenerInverseTransformComponentsUsesConjTranspose = true ∧ Gen.whitenerInverseDataUsesTinv = true := by decide

/-- the covariance that is whitened is normalised with the number of samples -/
theorem src_cov_denominator (nn : ℝ) : Gen.whitenerCovDenominator nn = nn := rfl

/-! ### the same statements on the executable model (`XM.whitenFit`, `XM.pcaTransform`, … — run by the driver next to the real
`Whitener` / `PCA` objects) -/

/-- **un-whitening restores the data** for every centred matrix, including a rank-deficient covariance -/
theorem model_unwhiten {n p : ℕ} (X : XM.Mat n p 𝕜) (V : XM.Mat p p 𝕜) (hV : (V.toMatrix)ᴴ * V.toMatrix = 1)
    (hV' : V.toMatrix * (V.toMatrix)ᴴ = 1) (s : Fin p → ℝ) (c : ℝ) (keep : Fin p → Bool) (hs : ∀ i, keep i = true → 0 < s i)
    (hm : ∀ i, keep i = false → s i = 0)
    (hC : (X.toMatrix)ᴴ * X.toMatrix = V.toMatrix * diagonal (fun i => ((c * s i : ℝ) : 𝕜)) * (V.toMatrix)ᴴ) (alpha : ℝ) :
    (XM.whitenInverseData (XM.whitenFit V s keep alpha) (XM.whitenTransform (XM.whitenFit V s keep alpha) X)).toMatrix = X.toMatrix :=
  XP.WhitenM.model_unwhiten X V hV hV' s c keep hs hm hC alpha

theorem model_T_Tinv {p : ℕ} (V : XM.Mat p p 𝕜) (hV : (V.toMatrix)ᴴ * V.toMatrix = 1) (hV' : V.toMatrix * (V.toMatrix)ᴴ = 1)
    (s : Fin p → ℝ) (hs : ∀ i, 0 < s i) (alpha : ℝ) :
    (XM.whitenFit V s (fun _ => true) alpha).T.toMatrix * (XM.whitenFit V s (fun _ => true) alpha).Tinv.toMatrix = 1 :=
  XP.WhitenM.model_T_Tinv V hV hV' s hs alpha

theorem model_whitened_cov {p : ℕ} (V : XM.Mat p p 𝕜) (hV : (V.toMatrix)ᴴ * V.toMatrix = 1) (s : Fin p → ℝ) (hs : ∀ i, 0 < s i)
    (alpha : ℝ) :
    ((XM.whitenFit V s (fun _ => true) alpha).T.toMatrix)ᴴ * specPow V.toMatrix s 1 * (XM.whitenFit V s (fun _ => true) alpha).T.toMatrix
      = specPow V.toMatrix s alpha :=
  XP.WhitenM.model_whitened_cov V hV s hs alpha

theorem model_components_there_and_back {p k : ℕ} (V : XM.Mat p p 𝕜) (hV : (V.toMatrix)ᴴ * V.toMatrix = 1)
    (hV' : V.toMatrix * (V.toMatrix)ᴴ = 1) (s : Fin p → ℝ) (hs : ∀ i, 0 < s i) (alpha : ℝ) (P : XM.Mat p k 𝕜) :
    (XM.whitenInverseComps (XM.whitenFit V s (fun _ => true) alpha)
        (XM.whitenTransformComps (XM.whitenFit V s (fun _ => true) alpha) P)).toMatrix = P.toMatrix :=
  XP.WhitenM.model_components_there_and_back V hV hV' s hs alpha P

theorem model_pca_there_and_back {p k r : ℕ} (V : XM.Mat p k 𝕜) (hV : (V.toMatrix)ᴴ * V.toMatrix = 1) (Q : XM.Mat k r 𝕜) :
    (XM.pcaTransformComps V (XM.pcaInverseComps V Q)).toMatrix = Q.toMatrix :=
  XP.WhitenM.model_pca_there_and_back V hV Q

theorem model_pca_transform_inverse {p k m : ℕ} (V : XM.Mat p k 𝕜) (hV : (V.toMatrix)ᴴ * V.toMatrix = 1) (Z : XM.Mat m k 𝕜) :
    (XM.pcaTransform V (XM.pcaInverseData V Z)).toMatrix = Z.toMatrix :=
  XP.WhitenM.model_pca_transform_inverse V hV Z

end C16
