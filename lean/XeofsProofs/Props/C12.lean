import XeofsModel.Lazy2
/-!
# C12 — dask-backed and deferred fits stay lazy until asked

The list of forcing sites (`.values`, `.item()`, `.compute()`, `dask.compute(...)`, `bool()`/`if` on arrays) on the fit
paths, each with the option guarding it, is REGENERATED from the source (`Gen.forcingSites`).
PARTIAL (runtime, not carried by a theorem): equality of results under every chunking/scheduler, and computations hidden
inside xarray/dask/numpy calls — exercised by the correspondence runs only.
-/
namespace C12
open Lazy2

/-- **no_force_when_deferred**: with `compute=False`, `check_nans=False` and an integer `n_modes`, a fit triggers no
computation — for ANY site list whose guards are all among the three options -/
theorem no_force_when_deferred (sites : List (String × String)) (h : guarded sites = true) (c : Cfg)
    (hc : c.compute = false) (hn : c.checkNans = false) (hv : c.varianceThreshold = false) :
    forceLog sites c = [] := by
  unfold forceLog
  split
  · rw [List.map_eq_nil_iff, List.filter_eq_nil_iff]
    intro s hs
    have hg := List.all_eq_true.mp h s hs
    simp only [Bool.or_eq_true, beq_iff_eq] at hg
    rcases hg with (hg | hg) | hg <;> simp [fires, hg, hc, hn, hv]
  · rfl

/-- source obligation: every forcing site on the current fit paths sits under one of the three options -/
theorem src_sites_guarded : guarded Gen.forcingSites = true := by decide

/-- hence: the current tree forces nothing in a deferred fit -/
theorem no_force_when_deferred_current (c : Cfg)
    (hc : c.compute = false) (hn : c.checkNans = false) (hv : c.varianceThreshold = false) :
    forceLog Gen.forcingSites c = [] :=
  no_force_when_deferred Gen.forcingSites src_sites_guarded c hc hn hv

/-- with numpy input nothing is ever forced -/
theorem numpy_never_forces (sites : List (String × String)) (c : Cfg) (h : c.isDask = false) : forceLog sites c = [] := by
  simp [forceLog, h]

/-- **input_never_loaded**: `compute()` skips every entry stored with `allow_compute = False` -/
theorem input_never_loaded (entries : List (String × Bool)) (name : String) (h : (name, false) ∈ entries)
    (huniq : ∀ b, (name, b) ∈ entries → b = false) : name ∉ computeLoads entries := by
  simp only [computeLoads, List.mem_map, List.mem_filter, not_exists, not_and]
  intro e he hname
  have := huniq e.2 (by rw [← hname]; exact he.1)
  simp [this] at he

/-- source obligations: the `compute` option is forwarded to every inner model / helper that could force -/
theorem src_compute_forwarded :
    Gen.eeofPcaEOF.lookup "compute" = some "self._params['compute']" ∧
    Gen.eeofInnerEOF.lookup "compute" = some "self._params['compute']" ∧
    Gen.opaInnerEOF.lookup "compute" = some "self._params['compute']" ∧
    Gen.crossPreprocessor1.lookup "compute" = some "compute" ∧ Gen.crossPreprocessor2.lookup "compute" = some "compute" ∧
    Gen.popPCA.lookup "compute_eagerly" = some "compute" := by decide

-- an unguarded `.values` on a fit path breaks the obligation, and the model then predicts a forced computation
example : guarded (("single/eof.py:EOF._fit_algorithm:.values", "always") :: Gen.forcingSites) = false := by decide
example : forceLog [("x:.values", "always")] ⟨false, false, false, true⟩ = ["x:.values"] := by decide
example : forceLog Gen.forcingSites ⟨true, true, false, true⟩ ≠ [] := by decide

/-- source obligation: every model stores its input data excluded from `compute()` (`allow_compute=False`), rotators included -/
theorem src_input_data_never_computed :
    Gen.inputDataRegistrations.all (·.2) = true ∧
    Gen.inputDataRegistrations.map (·.1) = ["cross/cpcca.py:input_data1", "cross/cpcca.py:input_data2", "cross/cpcca_rotator.py:input_data1",
      "cross/cpcca_rotator.py:input_data2", "single/eeof.py:input_data", "single/eof.py:input_data", "single/eof_rotator.py:input_data",
      "single/opa.py:input_data", "single/pop.py:input_data", "single/sparse_pca.py:input_data"] := by decide

end C12
