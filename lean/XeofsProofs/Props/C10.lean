import XeofsProofs.Bridge
import XeofsProofs.Lemmas.Whiten
import XeofsProofs.Lemmas.SpecPow
import XeofsModel.Generated.Facts
import XeofsProofs.Lemmas.EeofModel
/-!
# C10 — named methods coincide with the general method at their special parameter values
-/
open Matrix
namespace C10

variable {𝕜 : Type} [RCLike 𝕜] {n p k : ℕ}

/-- **mca_is_cpcca_one**: `alpha = 1` gives the exponent 0 and `C^0 = 1` on a full-rank covariance — the whitener is the
identity, matching the short-circuit for alpha = 1 -/
theorem whitener_identity_at_one (V : Matrix (Fin p) (Fin p) 𝕜) (hV' : V * Vᴴ = 1) (s : Fin p → ℝ) :
    XP.Whiten.specPow V s (Gen.whitenerPower (1 : ℝ)) = 1 := by
  have : Gen.whitenerPower (1 : ℝ) = 0 := by simp [Gen.whitenerPower]
  rw [this]; exact XP.Whiten.specPow_zero V hV' s

/-- **cca_is_cpcca_zero**: `alpha = 0` gives the exponent −1/2 (full whitening) -/
theorem whitener_power_at_zero : Gen.whitenerPower (0 : ℝ) = -(1 / 2) := by
  simp [Gen.whitenerPower]; ring

/-- **mca_self_is_eof**: `(V, d, V)` with `d_i = s_i²/(n−1)` is an SVD of the covariance `XᴴX/(n−1) = V diag(d) Vᴴ`:
MCA of a field with itself has the EOFs as patterns and the explained variances as singular values -/
theorem mca_self_is_eof (V : Matrix (Fin p) (Fin p) 𝕜) (d : Fin p → ℝ) (C : Matrix (Fin p) (Fin p) 𝕜)
    (hV : Vᴴ * V = 1) (hd : Antitone d) (hd0 : ∀ i, 0 ≤ d i)
    (hC : C = V * diagonal (fun i => (d i : 𝕜)) * Vᴴ) :
    Vᴴ * V = 1 ∧ Vᴴ * V = 1 ∧ C = V * diagonal (fun i => (d i : 𝕜)) * Vᴴ ∧ (∀ i, 0 ≤ d i) ∧ Antitone d :=
  XP.SpecPow.mca_self_is_eof V d C hV hd hd0 hC

/-- **complex_on_real**: embedding real data into ℂ commutes with the matrix products of every model -/
theorem complex_on_real (A : Matrix (Fin n) (Fin p) ℝ) (B : Matrix (Fin p) (Fin k) ℝ) :
    (A * B).map (fun x => (x : ℂ)) = A.map (fun x => (x : ℂ)) * B.map (fun x => (x : ℂ)) := by
  ext i j; simp [Matrix.mul_apply]

/-- **pca_all_modes_is_no_pca**: a unitary change of basis `Q` (all PCs kept) commutes with the spectral power:
whitening the PCs = whitening the features and rotating -/
theorem pca_all_modes_is_no_pca (Q V : Matrix (Fin p) (Fin p) 𝕜) (s : Fin p → ℝ) (a : ℝ) :
    XP.SpecPow.specPow (Qᴴ * V) s a = Qᴴ * XP.SpecPow.specPow V s a * Q :=
  XP.SpecPow.specPow_conj Q V s a

/-- **eeof_single_embedding_is_eof** — the embedding arithmetic (generated): one copy keeps every sample, unshifted -/
theorem eeof_single_embedding (nn tau : ℕ) : Gen.eeofSamplesKept nn 1 tau = nn ∧ Gen.eeofShift 0 tau = 0 := by
  simp [Gen.eeofSamplesKept, Gen.eeofShift]

/-- … and the inner EOF runs with the outer centring flag, WITHOUT a second standardisation or weighting, and with the
outer seed, solver options and compute flag (source obligations) -/
theorem src_eeof_inner_flags :
    Gen.eeofInnerEOF.lookup "center" = some "self._params['center']" ∧
    Gen.eeofInnerEOF.lookup "standardize" = some "False" ∧ Gen.eeofInnerEOF.lookup "use_coslat" = some "False" ∧
    Gen.eeofInnerEOF.lookup "random_state" = some "self._params['random_state']" ∧
    Gen.eeofInnerEOF.lookup "compute" = some "self._params['compute']" ∧
    Gen.eeofPcaEOF.lookup "compute" = some "self._params['compute']" ∧
    Gen.eeofPcaEOF.lookup "random_state" = some "self._params['random_state']" ∧
    Gen.eeofPcaEOF.lookup "standardize" = some "False" := by decide

/-- **sparse_no_penalty_is_eof_partial**: with `alpha = beta = 0` the pair `(V_k, V_k)` is a fixed point of the variable
projection step: the loading update `B = V_k` reproduces `A = V_k` as the polar factor of `XᴴX B = V_k D²`
(PARTIAL: assumes the SVD oracle returns `V_k` as that polar factor; checked numerically by the correspondence) -/
theorem sparse_no_penalty_is_eof_partial (Vk : Matrix (Fin p) (Fin k) 𝕜) (D2 : Matrix (Fin k) (Fin k) 𝕜)
    (G : Matrix (Fin p) (Fin p) 𝕜) (hG : G * Vk = Vk * D2) (hV : Vkᴴ * Vk = 1) :
    Vkᴴ * (G * Vk) = D2 := by
  rw [hG, ← Matrix.mul_assoc, hV, Matrix.one_mul]

/-- source obligation for `pca_all_modes_is_no_pca` on complex data: the PCA maps are `V` in and `Vᴴ` out -/
theorem src_pca_maps_adjoint : Gen.pcaTransformUsesV = true ∧ Gen.pcaInverseDataUsesConjTranspose = true := by decide

/-- source obligation: patterns leave PC space through `V` itself (`V · q`), the exact inverse of entering through `Vᴴ` -/
theorem src_pca_component_maps :
    Gen.pcaInverseCompsBody.contains "V = self.V" = true ∧ Gen.pcaTransformCompsBody.contains "Tinv = self.V.conj().T" = true := by decide

/-- source obligation: `n_pca_modes = "all"` resolves to the full rank bound `min(shape)` -/
theorem src_pca_all_is_full_rank : Gen.pcaAllModesResolution.contains "min(X.shape)" = true ∧ Gen.pcaAllModesResolution.length = 2 := by decide

/-! ### ExtendedEOF: the delay-embedded matrix, on the executable model `XM.embedMatrix` (generated `eeofSamplesKept`, `eeofShift`) -/

/-- every kept row reads existing samples only, and column `e·p + f` of row `t` is `X[t + e·tau, f]` -/
theorem model_embed_entry {α : Type} [Zero α] {n p : ℕ} (X : XM.Mat n p α) (tau emb : ℕ) (t : Fin (Gen.eeofSamplesKept n emb tau))
    (e : Fin emb) (f : Fin p) (hc : e.val * p + f.val < emb * p) :
    (XM.embedMatrix X tau emb).get t ⟨e.val * p + f.val, hc⟩
      = X.get ⟨t.val + Gen.eeofShift e.val tau, XP.EeofM.kept_rows_in_range tau emb t e⟩ f :=
  XP.EeofM.embed_entry X tau emb t e f hc

/-- **eeof_single_embedding on the model**: with one copy nothing is shifted and every sample is kept -/
theorem model_single_embedding_keeps_everything (n tau : ℕ) :
    Gen.eeofSamplesKept n 1 tau = n ∧ Gen.eeofShift 0 tau = 0 := by
  simp [Gen.eeofSamplesKept, Gen.eeofShift]

end C10
