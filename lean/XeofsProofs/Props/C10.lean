import XeofsProofs.Bridge
import XeofsProofs.Lemmas.Whiten
import XeofsProofs.Lemmas.SpecPow
import XeofsModel.Generated.Facts
import XeofsProofs.Lemmas.EeofModel
import XeofsProofs.Lemmas.MccaModel
/-!
# C10 — named methods coincide with the general method at their special parameter values
-/
open Matrix
namespace C10

variable {𝕜 : Type} [RCLike 𝕜] {n p k : ℕ}

/-- **mca_is_cpcca_one**: `alpha = 1` gives the exponent 0 and `C^0 = 1` on a full-rank covariance — the whitener is the
identity, matching the short-circuit for alpha = 1 -/
theorem whitener_identity_at_one (V : Matrix (Fin p) (Fin p) 𝕜) (hV' : V * Vᴴ = 1) (s : Fin p → ℝ) :
    XP.Whiten.specPow V s (Gen.whitenerPower (1 : ℝ)) = 1 := by
  have : Gen.whitenerPower (1 : ℝ) = 0 := by simp [Gen.whitenerPower]
  rw [this]; exact XP.Whiten.specPow_zero V hV' s

/-- **cca_is_cpcca_zero**: `alpha = 0` gives the exponent −1/2 (full whitening) -/
theorem whitener_power_at_zero : Gen.whitenerPower (0 : ℝ) = -(1 / 2) := by
  simp [Gen.whitenerPower]; ring

/-- **mca_self_is_eof**: `(V, d, V)` with `d_i = s_i²/(n−1)` is an SVD of the covariance `XᴴX/(n−1) = V diag(d) Vᴴ`:
MCA of a field with itself has the EOFs as patterns and the explained variances as singular values -/
theorem mca_self_is_eof (V : Matrix (Fin p) (Fin p) 𝕜) (d : Fin p → ℝ) (C : Matrix (Fin p) (Fin p) 𝕜)
    (hV : Vᴴ * V = 1) (hd : Antitone d) (hd0 : ∀ i, 0 ≤ d i)
    (hC : C = V * diagonal (fun i => (d i : 𝕜)) * Vᴴ) :
    Vᴴ * V = 1 ∧ Vᴴ * V = 1 ∧ C = V * diagonal (fun i => (d i : 𝕜)) * Vᴴ ∧ (∀ i, 0 ≤ d i) ∧ Antitone d :=
  XP.SpecPow.mca_self_is_eof V d C hV hd hd0 hC

/-- **complex_on_real**: embedding real data into ℂ commutes with the matrix products of every model -/
theorem complex_on_real (A : Matrix (Fin n) (Fin p) ℝ) (B : Matrix (Fin p) (Fin k) ℝ) :
    (A * B).map (fun x => (x : ℂ)) = A.map (fun x => (x : ℂ)) * B.map (fun x => (x : ℂ)) := by
  ext i j; simp [Matrix.mul_apply]

/-- **pca_all_modes_is_no_pca**: a unitary change of basis `Q` (all PCs kept) commutes with the spectral power:
whitening the PCs = whitening the features and rotating -/
theorem pca_all_modes_is_no_pca (Q V : Matrix (Fin p) (Fin p) 𝕜) (s : Fin p → ℝ) (a : ℝ) :
    XP.SpecPow.specPow (Qᴴ * V) s a = Qᴴ * XP.SpecPow.specPow V s a * Q :=
  XP.SpecPow.specPow_conj Q V s a

/-- **eeof_single_embedding_is_eof** — the embedding arithmetic (generated): one copy keeps every sample, unshifted -/
theorem eeof_single_embedding (nn tau : ℕ) : Gen.eeofSamplesKept nn 1 tau = nn ∧ Gen.eeofShift 0 tau = 0 := by
  simp [Gen.eeofSamplesKept, Gen.eeofShift]

/-- … and the inner EOF runs with the outer centring flag, WITHOUT a second standardisation or weighting, and with the
outer seed, solver options and compute flag (source obligations) -/
theorem src_eeof_inner_flags :
    Gen.eeofInnerEOF.lookup "center" = some "self._params['center']" ∧
    Gen.eeofInnerEOF.lookup "standardize" = some "False" ∧ Gen.eeofInnerEOF.lookup "use_coslat" = some "False" ∧
    Gen.eeofInnerEOF.lookup "random_state" = some "self._params['random_state']" ∧
    Gen.eeofInnerEOF.lookup "compute" = some "self._params['compute']" ∧
    Gen.eeofPcaEOF.lookup "compute" = some "self._params['compute']" ∧
    Gen.eeofPcaEOF.lookup "random_state" = some "self._params['random_state']" ∧
    Gen.eeofPcaEOF.lookup "standardize" = some "False" := by decide

/-- **sparse_no_penalty_is_eof_partial**: with `alpha = beta = 0` the pair `(V_k, V_k)` is a fixed point of the variable
projection step: the loading update `B = V_k` reproduces `A = V_k` as the polar factor of `XᴴX B = V_k D²`
(PARTIAL: assumes the SVD oracle returns `V_k` as that polar factor; checked numerically by the correspondence) -/
theorem sparse_no_penalty_is_eof_partial (Vk : Matrix (Fin p) (Fin k) 𝕜) (D2 : Matrix (Fin k) (Fin k) 𝕜)
    (G : Matrix (Fin p) (Fin p) 𝕜) (hG : G * Vk = Vk * D2) (hV : Vkᴴ * Vk = 1) :
    Vkᴴ * (G * Vk) = D2 := by
  rw [hG, ← Matrix.mul_assoc, hV, Matrix.one_mul]

/-- source obligation for `pca_all_modes_is_no_pca` on complex data: the PCA maps are `V` in and `Vᴴ` out -/
theorem src_pca_maps_adjoint : Gen.pcaTransformUsesV = true ∧ Gen.pcaInverseDataUsesConjTranspose = true := by decide

/-- source obligation: patterns leave PC space through `V` itself (`V · q`), the exact inverse of entering through `Vᴴ` -/
theorem src_pca_component_maps :
    Gen.pcaInverseCompsBody.contains "V = self.V" = true ∧ Gen.pcaTransformCompsBody.contains "Tinv = self.V.conj().T" = true := by decide

/-- source obligation: `n_pca_modes = "all"` resolves to the full rank bound `min(shape)` -/
theorem src_pca_all_is_full_rank : Gen.pcaAllModesResolution.contains "min(X.shape)" = true ∧ Gen.pcaAllModesResolution.length = 2 := by decide

/-! ### ExtendedEOF: the delay-embedded matrix, on the executable model `XM.embedMatrix` (generated `eeofSamplesKept`, `eeofShift`) -/

/-- every kept row reads existing samples only, and column `e·p + f` of row `t` is `X[t + e·tau, f]` -/
theorem model_embed_entry {α : Type} [Zero α] {n p : ℕ} (X : XM.Mat n p α) (tau emb : ℕ) (t : Fin (Gen.eeofSamplesKept n emb tau))
    (e : Fin emb) (f : Fin p) (hc : e.val * p + f.val < emb * p) :
    (XM.embedMatrix X tau emb).get t ⟨e.val * p + f.val, hc⟩
      = X.get ⟨t.val + Gen.eeofShift e.val tau, XP.EeofM.kept_rows_in_range tau emb t e⟩ f :=
  XP.EeofM.embed_entry X tau emb t e f hc

/-- **eeof_single_embedding on the model**: with one copy nothing is shifted and every sample is kept -/
theorem model_single_embedding_keeps_everything (n tau : ℕ) :
    Gen.eeofSamplesKept n 1 tau = n ∧ Gen.eeofShift 0 tau = 0 := by
  simp [Gen.eeofSamplesKept, Gen.eeofShift]

/-! ### two-view multi-set CCA and cross-set CCA: on the executable model `XM.mccaC` / `XM.mccaD` (tied by the `mcca` correspondence) -/

/-- the matrix `_C` handed to `eigh` couples DIFFERENT views only: zero inside a view, cross-covariance over the number of views
across views -/
theorem model_mcca_C_blocks {n P : ℕ} (X : XM.Mat n P ℝ) (blk : Fin P → ℕ) (nv : ℕ) (a b : Fin P) :
    (XM.mccaC (ρ := ℝ) X blk nv).toMatrix a b = if blk a = blk b then 0 else XP.MccaM.cov X a b / (nv : ℝ) :=
  XP.MccaM.mccaC_apply X blk nv a b

/-- the matrix `_D` (no ridge term) keeps each view's OWN covariance block (shifted on the diagonal), over the number of views -/
theorem model_mcca_D_blocks {n P : ℕ} (X : XM.Mat n P ℝ) (blk : Fin P → ℕ) (nv : ℕ) (lmin eps : ℝ) (a b : Fin P) :
    (XM.mccaD (ρ := ℝ) X blk nv (fun _ => 0) lmin eps).toMatrix a b
      = ((if blk a = blk b then XP.MccaM.cov X a b else 0) - (if a = b then lmin - eps else 0)) / (nv : ℝ) :=
  XP.MccaM.mccaD_apply X blk nv lmin eps a b

/-- **two_view_mcca_is_cca, step 1** — an eigen-pair of the model's `(C, D)` satisfies, for every feature `a`, the coupled
equations of CCA: (cross-covariances with the other views) · weights = λ · (own covariance, shifted) · own weights -/
theorem model_mcca_coupled_equations {n P : ℕ} (X : XM.Mat n P ℝ) (blk : Fin P → ℕ) (nv : ℕ) (hnv : nv ≠ 0) (lmin eps lam : ℝ)
    (w : Fin P → ℝ)
    (h : (XM.mccaC (ρ := ℝ) X blk nv).toMatrix.mulVec w
          = lam • (XM.mccaD (ρ := ℝ) X blk nv (fun _ => 0) lmin eps).toMatrix.mulVec w) (a : Fin P) :
    (∑ b, (if blk a = blk b then 0 else XP.MccaM.cov X a b * w b))
      = lam * ((∑ b, (if blk a = blk b then XP.MccaM.cov X a b * w b else 0)) - (lmin - eps) * w a) :=
  XP.MccaM.gevp_rows X blk nv hnv lmin eps lam w h a

/-- source obligations (regenerated from `xeofs/multi/cca.py`): both matrices are divided by the number of views, the solver is asked
for the largest eigenvalues which are put in descending order, `transform` contracts view `i` with `weights[i]`, the stored variates
are `_transform` of the stored input data -/
theorem src_mcca_shape (p k : ℕ) :
    Gen.mccaDividesByViews = true ∧ Gen.mccaOrderDescending = true ∧ Gen.mccaSubsetHigh p = p - 1 ∧
    Gen.mccaSubsetLow p k = p - k ∧ Gen.mccaTransformUsesOwnWeights = true ∧ Gen.mccaVariatesAreTransformOfInput = true ∧
    Gen.mccaExpvarDdof = 0 := by
  simp [Gen.mccaDividesByViews, Gen.mccaOrderDescending, Gen.mccaSubsetHigh, Gen.mccaSubsetLow, Gen.mccaTransformUsesOwnWeights,
    Gen.mccaVariatesAreTransformOfInput, Gen.mccaExpvarDdof]

/-- the generated ridge block: without ridge (`c = 0`) it is the view's own covariance, with `c = 1` the identity -/
theorem mcca_ridge_endpoints (cov eye : ℝ) : Gen.mccaRidge (0 : ℝ) cov eye = cov ∧ Gen.mccaRidge (1 : ℝ) cov eye = eye := by
  simp [Gen.mccaRidge]

/-- **two_view_mcca_is_cca, step 2** — for two views the coupled equations make the eigenvalue the canonical correlation: the
variates `X wx`, `Y wy` have equal variance and correlation `λ` (what `xeofs.cross.CCA` reports as its canonical correlation) -/
theorem mcca_two_view_eigenvalue_is_canonical_correlation {p q : ℕ} (Sxx : Matrix (Fin p) (Fin p) ℝ)
    (Syy : Matrix (Fin q) (Fin q) ℝ) (Sxy : Matrix (Fin p) (Fin q) ℝ) (wx : Fin p → ℝ) (wy : Fin q → ℝ) (lam : ℝ) (hl : lam ≠ 0)
    (h1 : Sxy.mulVec wy = lam • Sxx.mulVec wx) (h2 : Sxyᵀ.mulVec wx = lam • Syy.mulVec wy)
    (hv : 0 < wx ⬝ᵥ Sxx.mulVec wx) :
    wy ⬝ᵥ Syy.mulVec wy = wx ⬝ᵥ Sxx.mulVec wx ∧
    (wx ⬝ᵥ Sxy.mulVec wy) / (Real.sqrt (wx ⬝ᵥ Sxx.mulVec wx) * Real.sqrt (wy ⬝ᵥ Syy.mulVec wy)) = lam :=
  XP.Mcca2.eigenvalue_is_canonical_correlation Sxx Syy Sxy wx wy lam hl h1 h2 hv

/-- non-vacuity: unit variances, cross-covariance 1/2, unit weights: the hypotheses hold with `λ = 1/2` -/
example : ((!![(1 / 2 : ℝ)] : Matrix (Fin 1) (Fin 1) ℝ).mulVec ![1] = (1 / 2 : ℝ) • (!![(1 : ℝ)] : Matrix (Fin 1) (Fin 1) ℝ).mulVec ![1])
    ∧ (0 : ℝ) < ![(1 : ℝ)] ⬝ᵥ (!![(1 : ℝ)] : Matrix (Fin 1) (Fin 1) ℝ).mulVec ![1] := by
  constructor
  · ext i; fin_cases i; simp [Matrix.mulVec, dotProduct]
  · simp [Matrix.mulVec, dotProduct]

/-- source obligation (regenerated): the named cross-set classes hand EVERY constructor argument on to the general class — a named
method and the general method given identical arguments are configured identically (only `alpha` is fixed by the class) -/
theorem src_named_classes_forward_every_argument : Gen.namedClassArgsNotForwarded = [] := by decide

end C10
