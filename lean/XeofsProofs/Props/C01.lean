import XeofsProofs.Lemmas.EofModel
import XeofsProofs.Lemmas.FullSVD
import XeofsProofs.Lemmas.Recon
import XeofsProofs.Lemmas.EckartYoung
import XeofsProofs.Lemmas.Sign
import XeofsModel.Generated.Facts
import XeofsProofs.Lemmas.HilbertModel
/-!
# C01 — EOF-type modes are the exact eigen-decomposition of the preprocessed data

`XM.eofFit` is the executable model of `EOF._fit_algorithm` (truncate, sign rule, `scores = U * s`,
`explained variance = Gen.eofExpVar s n`, the latter REGENERATED from the source on each run).  The SVD is an oracle:
any `(U, s, V)` satisfying the specification `XP.SVD.IsSVD` / `XP.Full.IsFullSVD` — for ANY matrix `X` over ℝ or ℂ of ANY
shape (`n < p`, `p = 1`, repeated and zero singular values included), any `k`, any sign pattern the sign rule may choose.
ComplexEOF, HilbertEOF and ExtendedEOF run the same algorithm on the complex / analytic / delay-embedded matrix, so `X`
is "whatever matrix was decomposed" (`model.data['input_data']`).
-/
open XM Matrix XP.EofM
namespace C01

variable {𝕜 : Type} [RCLike 𝕜] {n p k r : ℕ}

/-- components are orthonormal -/
theorem components_orthonormal (hk : k ≤ r) (U : Mat n r 𝕜) (s : Fin r → ℝ) (V : Mat p r 𝕜) (sgn : Fin k → ℝ)
    (hV : V.toMatrixᴴ * V.toMatrix = 1) (hsgn : ∀ j, sgn j * sgn j = 1) :
    (eofFit hk hk hk U s V sgn).comps.toMatrixᴴ * (eofFit hk hk hk U s V sgn).comps.toMatrix = 1 := by
  rw [comps_toMatrix, conjTranspose_mul, rdiag_conjTranspose, Matrix.mul_assoc, ← Matrix.mul_assoc _ _ (rdiag sgn),
    submatrix_cols_orthonormal _ _ (Fin.castLE_injective hk) hV, Matrix.one_mul, rdiag_one_of_sq sgn hsgn]

/-- scores are mutually orthogonal and the norm of the `j`-th score series is the `j`-th singular value:
`SᴴS = diag(s_j²)` -/
theorem scores_gram (hk : k ≤ r) (U : Mat n r 𝕜) (s : Fin r → ℝ) (V : Mat p r 𝕜) (sgn : Fin k → ℝ)
    (hU : U.toMatrixᴴ * U.toMatrix = 1) (hsgn : ∀ j, sgn j * sgn j = 1) :
    (eofFit hk hk hk U s V sgn).scores.toMatrixᴴ * (eofFit hk hk hk U s V sgn).scores.toMatrix
      = rdiag (fun j => s (Fin.castLE hk j) * s (Fin.castLE hk j)) := by
  rw [scores_toMatrix, conjTranspose_mul, conjTranspose_mul, rdiag_conjTranspose, rdiag_conjTranspose]
  have h1 := submatrix_cols_orthonormal U.toMatrix _ (Fin.castLE_injective hk) hU
  set A := U.toMatrix.submatrix id (Fin.castLE hk) with hA
  set D : Matrix (Fin k) (Fin k) 𝕜 := rdiag sgn with hD
  set S : Matrix (Fin k) (Fin k) 𝕜 := rdiag (fun j => s (Fin.castLE hk j)) with hS
  have e : S * (D * Aᴴ) * (A * D * S) = S * (D * (Aᴴ * A) * D) * S := by simp only [Matrix.mul_assoc]
  rw [e, h1, Matrix.mul_one, hD, rdiag_one_of_sq sgn hsgn, Matrix.mul_one, hS, rdiag_mul]

/-- the explained variances are `s_j² / (n − 1)` (the formula is the generated one) -/
theorem expvar_formula (hk : k ≤ r) (U : Mat n r 𝕜) (s : Fin r → ℝ) (V : Mat p r 𝕜) (sgn : Fin k → ℝ) (j : Fin k) :
    (eofFit hk hk hk U s V sgn).expvar j = s (Fin.castLE hk j) ^ 2 / ((n : ℝ) - 1) := by
  simp [eofFit, Gen.eofExpVar, pow_two]

/-- each component is an eigenvector of the sample covariance matrix `XᴴX/(n−1)` with its explained variance as
eigenvalue -/
theorem expvar_eigen (hk : k ≤ r) (X : Mat n p 𝕜) (U : Mat n r 𝕜) (s : Fin r → ℝ) (V : Mat p r 𝕜) (sgn : Fin k → ℝ)
    (h : XP.SVD.IsSVD X.toMatrix U.toMatrix s V.toMatrix) :
    ((((n : ℝ) - 1)⁻¹ : ℝ) : 𝕜) • (X.toMatrixᴴ * X.toMatrix) * (eofFit hk hk hk U s V sgn).comps.toMatrix
      = (eofFit hk hk hk U s V sgn).comps.toMatrix * rdiag (eofFit hk hk hk U s V sgn).expvar := by
  have hcov := XP.SVD.cov_eigen h
  rw [comps_toMatrix]
  have e1 : X.toMatrixᴴ * X.toMatrix * V.toMatrix.submatrix id (Fin.castLE hk)
      = V.toMatrix.submatrix id (Fin.castLE hk) * rdiag (fun j => s (Fin.castLE hk j) * s (Fin.castLE hk j)) := by
    rw [← mul_submatrix_cols, hcov, mul_diagonal_submatrix_cols]
    congr 1; unfold rdiag; congr 1; funext j; push_cast; ring
  rw [Matrix.smul_mul, ← Matrix.mul_assoc, e1, Matrix.mul_assoc, Matrix.mul_assoc]
  rw [← Matrix.mul_smul]
  congr 1
  unfold rdiag
  rw [diagonal_mul_diagonal, diagonal_mul_diagonal, ← diagonal_smul]
  congr 1; funext j
  simp only [eofFit, Gen.eofExpVar, Num.ofNat_real, Pi.smul_apply, smul_eq_mul]
  push_cast; ring

/-- **the explained variances are, in descending order, the eigenvalues of the sample covariance matrix**
(`Matrix.IsHermitian.eigenvalues₀` is Mathlib's descending enumeration of ALL eigenvalues), stated with the generated
formula `Gen.eofExpVar`. -/
theorem expvar_are_eigenvalues {X : Matrix (Fin n) (Fin p) 𝕜} {U s V} (h : XP.Full.IsFullSVD X U s V) (hn : 2 ≤ n)
    (hC : (((n : ℝ) - 1)⁻¹ : 𝕜) • (Xᴴ * X) |>.IsHermitian) :
    List.ofFn hC.eigenvalues₀ = List.ofFn (fun j => Gen.eofExpVar (s j) (Num.ofNat n : ℝ)) := by
  rw [XP.Full.expvar_are_eigenvalues h hn hC]
  congr 1; funext j; simp [Gen.eofExpVar, pow_two]

/-- total variance (`Σ_j var_ddof1`, for column-centred data `Σ_j Σ_t |x_tj|²/(n−1)`) is the trace of the covariance
matrix, i.e. the sum of ALL its eigenvalues: the ratios are taken against that matrix's total variance -/
theorem total_variance_eq_trace (X : Matrix (Fin n) (Fin p) 𝕜) :
    (∑ j, ∑ t, (‖X t j‖ ^ 2)) / ((n : ℝ) - 1) = RCLike.re (trace ((((n : ℝ) - 1)⁻¹ : 𝕜) • (Xᴴ * X))) := by
  rw [XP.Sign.total_variance_eq_trace, trace_smul, smul_eq_mul]
  have : ((((n : ℝ) - 1)⁻¹ : 𝕜)) = (((((n : ℝ) - 1)⁻¹ : ℝ)) : 𝕜) := by push_cast; rfl
  rw [this, RCLike.re_ofReal_mul]; ring

theorem ratio_formula (hk : k ≤ r) (U : Mat n r 𝕜) (s : Fin r → ℝ) (V : Mat p r 𝕜) (sgn : Fin k → ℝ) (total : ℝ) (j : Fin k) :
    eofRatio (eofFit hk hk hk U s V sgn) total j = (eofFit hk hk hk U s V sgn).expvar j / total := by
  simp [eofRatio, Gen.eofExpVarRatio]

/-- the truncated reconstruction attains the tail sum `Σ_{i ≥ k} s_i²` … -/
theorem recon_error (U : Matrix (Fin n) (Fin n) 𝕜) (V : Matrix (Fin p) (Fin p) 𝕜) (s : Fin p → ℝ) (k : ℕ)
    (hU : Uᴴ * U = 1) (hV : Vᴴ * V = 1) (hpad : ∀ j : Fin p, n ≤ (j : ℕ) → s j = 0) :
    XP.Recon.frob2 (𝕜 := 𝕜) (U * XP.Recon.rectDiag 𝕜 n s * Vᴴ - U * XP.Recon.rectDiag 𝕜 n (XP.Recon.truncS k s) * Vᴴ)
      = ∑ i ∈ Finset.univ.filter (fun i : Fin p => ¬ i.val < k), s i ^ 2 :=
  XP.Recon.recon_error U V s k hU hV hpad

/-- … has rank at most `k` … -/
theorem recon_rank_le (U : Matrix (Fin n) (Fin n) 𝕜) (V : Matrix (Fin p) (Fin p) 𝕜) (s : Fin p → ℝ) (k : ℕ) :
    (U * XP.Recon.rectDiag 𝕜 n (XP.Recon.truncS k s) * Vᴴ).rank ≤ k :=
  XP.Recon.trunc_rank_le U V s k

/-- … and **no matrix of rank ≤ k does better** (Eckart–Young–Mirsky, proved from scratch) -/
theorem eckart_young (X : Matrix (Fin n) (Fin p) 𝕜) (V : Matrix (Fin p) (Fin p) 𝕜) (d : Fin p → ℝ)
    (hd : Antitone d) (hd0 : ∀ i, 0 ≤ d i) (hV : V * Vᴴ = 1)
    (hM : Xᴴ * X = V * diagonal (fun i => (d i : 𝕜)) * Vᴴ)
    (B : Matrix (Fin n) (Fin p) 𝕜) (hB : B.rank ≤ k) :
    ∑ i ∈ Finset.univ.filter (fun i : Fin p => ¬ i.val < k), d i ≤ XP.EY.frob2 (X - B) :=
  XP.EY.eckart_young X V d hd hd0 hV hM B hB

/-- the model's own reconstruction `S Cᴴ` is `U_k Σ_k V_kᴴ` — the signs cancel -/
theorem model_reconstruction (hk : k ≤ r) (U : Mat n r 𝕜) (s : Fin r → ℝ) (V : Mat p r 𝕜) (sgn : Fin k → ℝ)
    (hsgn : ∀ j, sgn j * sgn j = 1) :
    (eofInverse (eofFit hk hk hk U s V sgn) (eofFit hk hk hk U s V sgn).scores).toMatrix
      = U.toMatrix.submatrix id (Fin.castLE hk) * rdiag (fun j => s (Fin.castLE hk j))
          * (V.toMatrix.submatrix id (Fin.castLE hk))ᴴ := by
  simp only [eofInverse, toMatrix_mul, toMatrix_conjT, comps_toMatrix, scores_toMatrix, conjTranspose_mul,
    rdiag_conjTranspose]
  have hc : (rdiag sgn : Matrix (Fin k) (Fin k) 𝕜) * rdiag (fun j => s (Fin.castLE hk j)) * rdiag sgn
      = rdiag (fun j => s (Fin.castLE hk j)) := by
    rw [rdiag_mul, rdiag_mul]; congr 1; funext j
    have := hsgn j; calc sgn j * s (Fin.castLE hk j) * sgn j = (sgn j * sgn j) * s (Fin.castLE hk j) := by ring
      _ = _ := by rw [this, one_mul]
  calc _ = U.toMatrix.submatrix id (Fin.castLE hk) * (rdiag sgn * rdiag (fun j => s (Fin.castLE hk j)) * rdiag sgn)
          * (V.toMatrix.submatrix id (Fin.castLE hk))ᴴ := by simp only [Matrix.mul_assoc]
    _ = _ := by rw [hc]

-- non-vacuity: a 3×2 real matrix with an explicit SVD
example : XP.SVD.IsSVD (!![2, 0; 0, 1; 0, 0] : Matrix (Fin 3) (Fin 2) ℝ) !![1, 0; 0, 1; 0, 0] ![2, 1] !![1, 0; 0, 1] where
  hU := by ext i j; fin_cases i <;> fin_cases j <;> simp [Matrix.mul_apply, Fin.sum_univ_three]
  hV := by ext i j; fin_cases i <;> fin_cases j <;> simp [Matrix.mul_apply]
  hX := by ext i j; fin_cases i <;> fin_cases j <;> simp [Matrix.mul_apply, Fin.sum_univ_two, Matrix.diagonal, Matrix.of_apply, Matrix.vecHead, Matrix.vecTail]
  nonneg := by intro i; fin_cases i <;> simp
  anti := by intro a b hab; fin_cases a <;> fin_cases b <;> simp_all

/-- source obligation (HilbertEOF): the spurious mean that padding introduces in the imaginary part is removed per feature
(along the sample axis), so every column of the analytic signal keeps the mean of the real data -/
theorem src_hilbert_recentres_per_feature :
    Gen.hilbertRecentreMeanArgs = "axis=0" ∧ Gen.hilbertRecentreAfterCutUnconditional = true := by decide

/-- source obligation (ExtendedEOF): the analysis of the delay-embedded matrix centres it (the option is forwarded, not
hard-wired off), so the explained variances are eigenvalues of its covariance -/
theorem src_eeof_inner_centres : Gen.eeofInnerEOF.lookup "center" = some "self._params['center']" := by decide

/-- source obligation: the decomposition the theorems take as an oracle with specification `IsSVD` is numpy's SVD of the matrix itself -/
theorem src_exact_solver_is_svd : Gen.decomposerSolverFunctions.head? = some "np.linalg.svd" := by decide

/-! ### HilbertEOF: what is decomposed — on the executable model `XM.padExp` / `XM.hilbertCutRecentre` -/

/-- the Hilbert-augmented data have the (preprocessed) input as their real part, whatever the padding did at the ends: the
analytic signal of the padded series is cut back to the rows of the input (oracle specification: its real part is its argument) -/
theorem model_hilbert_real_part {n p : ℕ} (y : XM.Mat n p ℝ) (c0 c1 : Fin p → ℝ) (decay : ℝ) (hn : 0 < n) (H : XM.Mat (3 * n) p 𝕜)
    (hH : ∀ i f, RCLike.re (H.get i f) = (XM.padExp y c0 c1 decay hn).get i f) (t : Fin n) (f : Fin p) :
    RCLike.re ((XM.hilbertCutRecentre (ρ := ℝ) H).get t f) = y.get t f :=
  XP.HilbertM.cut_real_part y c0 c1 decay hn H hH t f

/-- … and an imaginary part with zero mean per feature, so the decomposed matrix is centred whenever the input is -/
theorem model_hilbert_imag_centred {n p : ℕ} (H : XM.Mat (3 * n) p 𝕜) (hn : 0 < n) (f : Fin p) :
    ∑ t : Fin n, RCLike.im ((XM.hilbertCutRecentre (ρ := ℝ) H).get t f) = 0 :=
  XP.HilbertM.cut_imag_centred H hn f

end C01
