import XeofsModel.Frame
import XeofsModel.Sanitize
import XeofsModel.Generated.Facts
import XeofsProofs.Lemmas.Mask
/-!
# C06 — fully missing features/samples are ignored exactly; isolated NaNs are refused
-/
namespace C06
open S

/-- **rectangular_mask**: the Sanitizer's count test (every sample has no valid cell, or as many as there are valid
features) holds iff the validity mask is a product `rowValid ⊗ colValid` — i.e. iff there is NO isolated NaN -/
theorem rectangular_mask {n m : ℕ} (mask : Fin n → Fin m → Bool) :
    XP.Mask.noIsolated mask ↔ ∀ i j, mask i j = (XP.Mask.rowValid mask i && XP.Mask.colValid mask j) :=
  XP.Mask.rectangular_mask mask

/-- **transform_mask_mismatch_refused** -/
theorem transform_mask_mismatch_refused (fitValid newValid : List Bool) (perSample : List Nat) (h : newValid ≠ fitValid) :
    sanitizerAccepts fitValid newValid perSample = false := by
  simp [sanitizerAccepts, h]

/-- **isolated_nan_refused**: one sample with some, but not all, valid features present is enough -/
theorem isolated_nan_refused (fitValid newValid : List Bool) (perSample : List Nat) (c : Nat) (hc : c ∈ perSample)
    (h0 : c ≠ 0) (h1 : c ≠ (newValid.filter id).length) : sanitizerAccepts fitValid newValid perSample = false := by
  simp only [sanitizerAccepts, Bool.and_eq_false_iff]
  right
  rw [List.all_eq_false]
  exact ⟨c, hc, by simp [h0, h1]⟩

/-- a "staggered" mask — every sample misses the same NUMBER of cells, at different places — is refused as well: the
count is compared with the number of valid FEATURES, not with the other samples -/
example : sanitizerAccepts [true, true, true] [true, true, true] [2, 2, 2] = false := by decide
example : sanitizerAccepts [true, false, true] [true, false, true] [2, 0, 2] = true := by decide

/-- **nan_exactly_at_deleted**: after dropping the invalid samples/features and re-inserting, the fill value appears at
every label that was dropped … -/
theorem nan_at_deleted {α} (F : Frame α) (okS okF : Key → Bool) (d : α) (s f : Key)
    (h : okS s = false ∨ okF f = false) :
    readBack (F.sanitize okS okF).rows (F.sanitize okS okF).cols (F.sanitize okS okF).toMat d s f = d :=
  S.reinsertion_dropped F okS okF d s f h

/-- … and the original value at every label that was kept (**no_value_from_nan**: a kept cell is read from its own cell) -/
theorem value_at_kept {α} (F : Frame α) (okS okF : Key → Bool) (d : α) (s f : Key)
    (hs : s ∈ F.rows) (hf : f ∈ F.cols) (hos : okS s = true) (hof : okF f = true) :
    readBack (F.sanitize okS okF).rows (F.sanitize okS okF).cols (F.sanitize okS okF).toMat d s f = F.val s f := by
  have := S.roundtrip (F.sanitize okS okF) d s f (by simp [Frame.sanitize, hs, hos]) (by simp [Frame.sanitize, hf, hof])
  simpa [Frame.sanitize] using this

/-- **fit_masked_eq_fit_deleted**: the matrix handed to the decomposition after sanitising IS the matrix of the data with
those samples/features deleted beforehand — identical input, hence identical model -/
theorem fit_masked_eq_fit_deleted {α} (F : Frame α) (okS okF : Key → Bool) :
    (F.sanitize okS okF).toMat = ({ rows := F.rows.filter okS, cols := F.cols.filter okF, val := F.val } : Frame α).toMat := rfl

/-- source obligations: the isolated-NaN test counts against the number of valid FEATURES, masks are compared with the
fitted mask, and the joint compute() assigns every result back to the name it was computed from -/
theorem src_sanitizer :
    Gen.sanitizerIsolatedTestCountsAgainstValidFeatures = true ∧ Gen.sanitizerComparesMaskWithFit = true ∧
    Gen.sanitizerComputeAssignsInOrder = true := by decide

/-- source obligation (cross-set models): fields whose entirely missing samples sit at different positions are refused whenever
the retained-sample masks differ anywhere — not merely when their counts differ -/
theorem src_dropped_samples_compared_by_position :
    Gen.crossDroppedSamplesCondition = ["kept[0].shape == kept[1].shape and (kept[0] != kept[1]).any()"] := by decide

end C06
