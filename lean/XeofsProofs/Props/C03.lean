import XeofsModel.Frame
import XeofsModel.Scaler
import XeofsProofs.Lemmas.EofModel
import XeofsProofs.Lemmas.ScalerAlg
import XeofsProofs.Lemmas.Small
import XeofsProofs.Props.C01
import XeofsModel.Generated.Facts
import XeofsModel.Generated.Formulas
import XeofsProofs.Lemmas.CpccaModel
/-!
# C03 — full-mode inverse_transform restores the data; transform ∘ inverse_transform = id; `normalized`
-/
open XM Matrix XP.EofM
namespace C03

variable {𝕜 : Type} [RCLike 𝕜] {n p k r m : ℕ}

/-- **scaler_inverse_left**: undoing the scaling restores the physical value, for every flag combination, whenever the
divisors (clipped std, coslat weight, user weight) are non-zero. The operation chains are the GENERATED ones. -/
theorem scaler_inverse_left (f : ScalerFlags) (P : ScalerParams 𝕜) (x : 𝕜)
    (hσ : P.std ≠ 0) (hc : P.coslat ≠ 0) (hw : P.weights ≠ 0) :
    scalerInverse f P (scalerTransform f P x) = x := by
  obtain ⟨a, b, c⟩ := f
  cases a <;> cases b <;> cases c <;>
    simp [scalerInverse, scalerTransform, runChain, Gen.scalerForward, Gen.scalerInverse, ScalerFlags.get,
      ScalerParams.get, applyOp] <;> (try field_simp) <;> (try ring)

/-- **scaler_inverse_right**: scaling the un-scaled value gives the scaled value back -/
theorem scaler_inverse_right (f : ScalerFlags) (P : ScalerParams 𝕜) (y : 𝕜)
    (hσ : P.std ≠ 0) (hc : P.coslat ≠ 0) (hw : P.weights ≠ 0) :
    scalerTransform f P (scalerInverse f P y) = y := by
  obtain ⟨a, b, c⟩ := f
  cases a <;> cases b <;> cases c <;>
    simp [scalerInverse, scalerTransform, runChain, Gen.scalerForward, Gen.scalerInverse, ScalerFlags.get,
      ScalerParams.get, applyOp] <;> (try field_simp) <;> (try ring)

/-- **eof_full_reconstruction**: with all modes kept the reconstruction from the model's own scores is the decomposed
matrix -/
theorem eof_full_reconstruction (X : Mat n p 𝕜) (U : Mat n r 𝕜) (s : Fin r → ℝ) (V : Mat p r 𝕜) (sgn : Fin r → ℝ)
    (h : XP.SVD.IsSVD X.toMatrix U.toMatrix s V.toMatrix) (hsgn : ∀ j, sgn j * sgn j = 1) :
    (eofInverse (eofFit (le_refl r) (le_refl r) (le_refl r) U s V sgn)
        (eofFit (le_refl r) (le_refl r) (le_refl r) U s V sgn).scores).toMatrix = X.toMatrix := by
  rw [C01.model_reconstruction (le_refl r) U s V sgn hsgn, h.hX]
  have : (Fin.castLE (le_refl r)) = id := by funext j; simp
  simp [this, rdiag]

/-- **transform_inverse_id**: for ARBITRARY score arrays `S` (any number of rows = any sample labels),
`transform (inverse_transform S) = S` -/
theorem transform_inverse_id (hk : k ≤ r) (U : Mat n r 𝕜) (s : Fin r → ℝ) (V : Mat p r 𝕜) (sgn : Fin k → ℝ)
    (hV : V.toMatrixᴴ * V.toMatrix = 1) (hsgn : ∀ j, sgn j * sgn j = 1) (S : Mat m k 𝕜) :
    (eofTransform (eofFit hk hk hk U s V sgn) (eofInverse (eofFit hk hk hk U s V sgn) S)).toMatrix = S.toMatrix := by
  simp only [eofTransform, eofInverse, toMatrix_mul, toMatrix_conjT]
  rw [Matrix.mul_assoc, C01.components_orthonormal hk U s V sgn hV hsgn, Matrix.mul_one]

/-- **normalized_switch**: dividing the scores by the norms and multiplying them back is the identity (norms are the
singular values, non-zero for the retained modes) -/
theorem normalized_switch (S : Mat m k 𝕜) (c : Fin k → ℝ) (hc : ∀ j, c j ≠ 0) :
    (scaleModes (scaleModes S (fun j => (c j)⁻¹)) c).toMatrix = S.toMatrix := by
  ext i j
  simp [scaleModes, Mat.scaleCols, Mat.toMatrix, mul_assoc, hc j]

/-- … and a normalised reconstruction equals the plain one: `(S / norms) * norms` projected back -/
theorem normalized_inverse (hk : k ≤ r) (U : Mat n r 𝕜) (s : Fin r → ℝ) (V : Mat p r 𝕜) (sgn : Fin k → ℝ)
    (S : Mat m k 𝕜) (c : Fin k → ℝ) (hc : ∀ j, c j ≠ 0) :
    (eofInverse (eofFit hk hk hk U s V sgn) (scaleModes (scaleModes S (fun j => (c j)⁻¹)) c)).toMatrix
      = (eofInverse (eofFit hk hk hk U s V sgn) S).toMatrix := by
  simp only [eofInverse, toMatrix_mul]
  rw [normalized_switch S c hc]

/-- **cpcca_full_reconstruction**: un-whitening, un-PCA and re-projection restore a field whose feature count does
not exceed the number of modes (`Q Qᴴ = 1`) -/
theorem cpcca_full_reconstruction (X : Matrix (Fin n) (Fin p) 𝕜) (V : Matrix (Fin p) (Fin r) 𝕜)
    (T Tinv Q : Matrix (Fin r) (Fin r) 𝕜) (hXV : X * V * Vᴴ = X) (hT : T * Tinv = 1) (hQ : Q * Qᴴ = 1) :
    ((X * V * T) * Q) * Qᴴ * Tinv * Vᴴ = X :=
  XP.Small.cpcca_full_reconstruction X V T Tinv Q hXV hT hQ

-- the source applies the operations in this order (a swapped pair of multiplications would be harmless, a misplaced
-- mean would break `scaler_inverse_left` above)
example : Gen.scalerForward.map (·.1) = ["sub", "div", "mul", "mul"] ∧ Gen.scalerInverse.map (·.1) = ["div", "div", "mul", "add"] := by
  decide

-- non-vacuity
example : scalerInverse ⟨true, true, true⟩ (⟨3, 2, 5, 7⟩ : ScalerParams ℝ) (scalerTransform ⟨true, true, true⟩ ⟨3, 2, 5, 7⟩ 11) = 11 :=
  scaler_inverse_left _ _ _ (by norm_num) (by norm_num) (by norm_num)

/-- source obligations for the cross-set reconstruction: data leave the whitened space through `Tinv` itself (no conjugate), and
the PC space through `Vᴴ`, the adjoint of the map `V` that took them in -/
theorem src_unwhiten_uses_Tinv : Gen.whitenerInverseDataUsesTinv = true := by decide
theorem src_pca_inverse_is_adjoint : Gen.pcaTransformUsesV = true ∧ Gen.pcaInverseDataUsesConjTranspose = true := by decide

/-- **cpcca_full_reconstruction on the executable model**: a field whose feature count equals the number of modes (square,
unitary `Q1`) is restored exactly by `inverse ∘ scores`, whatever the signs -/
theorem model_cpcca_full_reconstruction {n p q : ℕ} (X : XM.Mat n p 𝕜) (Y : XM.Mat n q 𝕜) (Q1 : XM.Mat p p 𝕜) (s : Fin p → ℝ)
    (Q2 : XM.Mat q p 𝕜) (sgn : Fin p → ℝ) (hsgn : ∀ j, sgn j * sgn j = 1) (hQ : Q1.toMatrix * (Q1.toMatrix)ᴴ = 1) :
    (XM.cpccaInverse1 (XM.cpccaFit (le_refl p) X Y Q1 s Q2 sgn) (XM.cpccaFit (le_refl p) X Y Q1 s Q2 sgn).scores1).toMatrix
      = X.toMatrix :=
  XP.CpccaM.model_full_reconstruction X Y Q1 s Q2 sgn hsgn hQ

/-- source obligations: the two score arrays given to a cross-set `inverse_transform` are never aligned with each other, and the
`normalized` switch of `transform` divides by the norms stored at fit -/
theorem src_fields_not_aligned_and_fitted_norms :
    Gen.crossInverseAlignCalls = [] ∧ Gen.singleTransformNormalizedBody.head? = some "data2D = data2D / self.data['norms']" := by decide

/-- **structure level (S.Frame, tied by the `frame` correspondence)**: the labelled data `inverse_transform` hands back (every value
at its own label, in whatever order the labels come back) is projected by `transform` onto the fitted positional matrix again: the
feature labels are looked up in the FITTED order, so `transform ∘ inverse_transform` is the identity at the structure level for
sorted, descending and unsorted coordinates alike -/
theorem frame_transform_of_reconstruction {α} (F : S.Frame α) (d : α) :
    S.transformBy F.cols F.rows (S.readBack F.rows F.cols F.toMat d) = F.toMat :=
  S.transformBy_readBack F d

/-- … and the order in which the NEW data carries its feature labels is irrelevant: `transformBy` never consults it -/
theorem frame_transform_label_order_irrelevant {α} (F : S.Frame α) (cols' : List S.Key) :
    S.transformBy F.cols F.rows ({ F with cols := cols' } : S.Frame α).val = F.toMat := rfl

/-- source obligations: `Stacker.transform` aligns the feature labels with the fitted ones by label BEFORE comparing them, and a
Dataset is stacked in one dimension order (sample, fitted feature dimensions) whatever order its variables are stored in — the two
facts that make the implementation's `transform` the label-based `S.transformBy` -/
theorem src_transform_is_label_based :
    Gen.stackerTransformSteps = ["self._validate_transform_dimensions", "self._align_feature_coords",
      "self._validate_transform_feature_coords", "self._stack"] ∧
    Gen.stackerAlignSelections = ["X.sel({dim: fitted.values})"] ∧
    Gen.stackerDatasetArm = ["X = X.transpose(sample_name, *feature_dims)",
      "X = X.to_stacked_array(new_dim=feature_name, sample_dims=(self.sample_name,))"] := by decide +kernel

end C03
