import XeofsModel.Generated.Threshold
import XeofsModel.Generated.Decide
import XeofsProofs.Lemmas.Threshold
import XeofsProofs.Lemmas.Sign
import XeofsModel.Generated.Facts
/-!
# C15 — solver choice, variance thresholds, seeds, sign rule

Every definition in namespace `Gen` is REGENERATED from `/repo` on each run (Tie A); these theorems are re-checked
against what the code says now.
-/
namespace C15
open Py

/-- **threshold_minimal** (Decomposer): with non-decreasing cumulative fractions, the number of modes kept is the
least `m` with `cum[m-1] ≥ f`; if no prefix reaches `f`, all `k` pre-computed modes are kept and the warning flag is
set. -/
theorem threshold_minimal_decomposer (cum : List Int) (f : Int) (h : cum.Pairwise (· ≤ ·)) :
    let r := Gen.nModesRequiredDecomposer cum.length cum f
    (r.2 = true → r.1 = cum.length ∧ ∀ i (hi : i < cum.length), cum[i] < f) ∧
    (r.2 = false → ∃ m : Nat, r.1 = m ∧ 1 ≤ m ∧ m ≤ cum.length ∧
        (∀ i (hi : i < cum.length), i + 1 < m → cum[i] < f) ∧ (∀ hm : m - 1 < cum.length, f ≤ cum[m - 1])) :=
  Thr.threshold_minimal cum f h

/-- the second copy of the block (`_SVD.fit_transform`, used by SVD/PCA/POP and the cross-set models) decides identically -/
theorem threshold_copies_agree (k : Int) (cum : List Int) (f : Int) :
    Gen.nModesRequiredDecomposer k cum f = Gen.nModesRequiredSVD k cum f :=
  Thr.copies_agree k cum f

/-- hence **threshold_minimal** for the SVD wrapper as well -/
theorem threshold_minimal_svd (cum : List Int) (f : Int) (h : cum.Pairwise (· ≤ ·)) :
    let r := Gen.nModesRequiredSVD cum.length cum f
    (r.2 = true → r.1 = cum.length ∧ ∀ i (hi : i < cum.length), cum[i] < f) ∧
    (r.2 = false → ∃ m : Nat, r.1 = m ∧ 1 ≤ m ∧ m ≤ cum.length ∧
        (∀ i (hi : i < cum.length), i + 1 < m → cum[i] < f) ∧ (∀ hm : m - 1 < cum.length, f ≤ cum[m - 1])) := by
  rw [← threshold_copies_agree]; exact Thr.threshold_minimal cum f h

example : Gen.nModesRequiredDecomposer 4 [50, 80, 92, 100] 80 = (2, false) := by decide
example : Gen.nModesRequiredDecomposer 3 [50, 80, 92] 95 = (3, true) := by decide

/-- **auto_selects_two**: whatever the data, the policy answers `exact` or `randomised`, and an unknown solver name is
refused (Decomposer). -/
theorem auto_selects_two_decomposer (solver : String) (small dask : Bool) (nPre rank : Int) :
    (solver = "auto" ∨ solver = "full" ∨ solver = "randomized") ∧
        (∃ b, Gen.useExactDecomposer solver small dask nPre rank = .ok b) ∨
    (solver ≠ "auto" ∧ solver ≠ "full" ∧ solver ≠ "randomized") ∧
        Gen.useExactDecomposer solver small dask nPre rank = .error .ValueError := by
  unfold Gen.useExactDecomposer
  by_cases h1 : solver = "auto"
  · left; simp [h1, pure, Except.pure]
  · by_cases h2 : solver = "full"
    · left; simp [h2, pure, Except.pure]
    · by_cases h3 : solver = "randomized"
      · left; simp [h3, pure, Except.pure]
      · right; simp [h1, h2, h3, Py.raise]

theorem auto_selects_two_svd (solver : String) (small dask : Bool) (nPre rank : Int) :
    (solver = "auto" ∨ solver = "full" ∨ solver = "randomized") ∧
        (∃ b, Gen.useExactSVD solver small dask nPre rank = .ok b) ∨
    (solver ≠ "auto" ∧ solver ≠ "full" ∧ solver ≠ "randomized") ∧
        Gen.useExactSVD solver small dask nPre rank = .error .ValueError := by
  unfold Gen.useExactSVD
  by_cases h1 : solver = "auto"
  · left; simp [h1, pure, Except.pure]
  · by_cases h2 : solver = "full"
    · left; simp [h2, pure, Except.pure]
    · by_cases h3 : solver = "randomized"
      · left; simp [h3, pure, Except.pure]
      · right; simp [h1, h2, h3, Py.raise]

/-- `solver="full"` always means the exact solver, `"randomized"` never -/
theorem full_is_exact (small dask : Bool) (nPre rank : Int) :
    Gen.useExactDecomposer "full" small dask nPre rank = .ok true ∧
    Gen.useExactDecomposer "randomized" small dask nPre rank = .ok false ∧
    Gen.useExactSVD "full" small dask nPre rank = .ok true ∧
    Gen.useExactSVD "randomized" small dask nPre rank = .ok false := by
  simp [Gen.useExactDecomposer, Gen.useExactSVD, pure, Except.pure]

/-- the entry of largest magnitude of a column with maximum `mx` and minimum `mn` (a tie goes to the maximum) -/
def bigEntry (mx mn : Int) : Int := if mn.natAbs > mx.natAbs then mn else mx

/-- **sign_rule_max_abs_positive** (numpy copy): after multiplication with the sign multiplier the entry of largest
magnitude is non-negative, and positive unless the column is zero. -/
theorem sign_rule_numpy (mx mn : Int) (h : mn ≤ mx) :
    0 ≤ Gen.signRuleNumpy mx mn * bigEntry mx mn ∧
    (bigEntry mx mn ≠ 0 → 0 < Gen.signRuleNumpy mx mn * bigEntry mx mn) ∧
    (Gen.signRuleNumpy mx mn = 1 ∨ Gen.signRuleNumpy mx mn = -1) := by
  unfold Gen.signRuleNumpy bigEntry
  by_cases h1 : mn.natAbs > mx.natAbs <;> by_cases h2 : mx < 0 <;> simp [h1, h2] <;> omega

/-- … and the xarray copy used by the Decomposer (real data) -/
theorem sign_rule_xarray (mx mn : Int) (h : mn ≤ mx) :
    0 ≤ Gen.signRuleXarray mx mn * bigEntry mx mn ∧
    (bigEntry mx mn ≠ 0 → 0 < Gen.signRuleXarray mx mn * bigEntry mx mn) ∧
    (Gen.signRuleXarray mx mn = 1 ∨ Gen.signRuleXarray mx mn = -1) := by
  unfold Gen.signRuleXarray bigEntry
  by_cases h1 : mn.natAbs > mx.natAbs <;> by_cases h2 : mx ≥ 0 <;> by_cases h3 : mx.natAbs ≥ mn.natAbs <;>
    simp [h1, h2, h3] <;> omega

/-- both copies of the rule agree on every column -/
theorem sign_rules_agree (mx mn : Int) (h : mn ≤ mx) : Gen.signRuleNumpy mx mn = Gen.signRuleXarray mx mn := by
  unfold Gen.signRuleNumpy Gen.signRuleXarray
  by_cases h1 : mn.natAbs > mx.natAbs <;> by_cases h2 : mx < 0 <;> by_cases h3 : mx.natAbs ≥ mn.natAbs <;>
    simp [h1, h2, h3] <;> omega

-- the column whose loadings are all equal and negative (the point the first proof attempt excluded)
example : Gen.signRuleNumpy (-7) (-7) = -1 ∧ Gen.signRuleXarray (-7) (-7) = -1 := by decide
example : Gen.signRuleNumpy 3 (-5) = -1 ∧ Gen.signRuleNumpy 5 (-3) = 1 := by decide

/-- source obligation for seed determinism: every non-exact solver branch of `Decomposer.fit` receives `self.random_state`
unconditionally (a truthiness test would drop the valid seed 0) -/
theorem src_seed_unconditional :
    Gen.decomposerSeedIsConditional = false ∧ Gen.decomposerSeedArgs.all (· == "self.random_state") = true := by decide

/-- source obligation: POP hands its `solver_kwargs` to the PCA step -/
theorem src_pop_forwards_solver_kwargs : Gen.popPCA.lookup "solver_kwargs" = some "solver_kwargs" := by decide

/-- source obligations: the exact branch of both wrappers decomposes with `np.linalg.svd` itself (not with a squared-matrix
shortcut), each non-exact branch with its own solver, and the dask branch keeps four power iterations by default -/
theorem src_solver_functions :
    Gen.decomposerSolverFunctions = ["np.linalg.svd", "randomized_svd", "complex_svd", "dask_svd"] ∧
    Gen.svdSolverFunctions = ["np.linalg.svd", "randomized_svd", "complex_svd", "dask_svd"] ∧
    Gen.decomposerDaskDefaults.contains "solver_kwargs.setdefault('n_power_iter', 4)" = true := by decide

end C15
