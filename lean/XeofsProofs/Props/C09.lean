import XeofsProofs.Bridge
import XeofsProofs.Lemmas.Scale
import XeofsProofs.Lemmas.SpecPow
import XeofsProofs.Lemmas.Corr
import XeofsProofs.Lemmas.CpccaModel
import XeofsModel.Generated.Facts
/-!
# C09 — cross-set models diagonalise the (partially whitened) cross-covariance
-/
open Matrix
namespace C09

variable {𝕜 : Type} [RCLike 𝕜] {n p q r : ℕ}

/-- **scores_cross_cov_diag**: if `(Q1, σ, Q2)` is an SVD of the cross-covariance `c • XwᴴYw` of the whitened fields
(`c = 1/(n−1)`, generated), the two score sets `Xw Q1`, `Yw Q2` have the diagonal cross-covariance `diag σ` -/
theorem scores_cross_cov_diag (Xw : Matrix (Fin n) (Fin p) 𝕜) (Yw : Matrix (Fin n) (Fin q) 𝕜)
    (Q1 : Matrix (Fin p) (Fin r) 𝕜) (Q2 : Matrix (Fin q) (Fin r) 𝕜) (σ : Fin r → ℝ) (c : 𝕜)
    (h : XP.Scale.IsSVD (c • (Xwᴴ * Yw)) Q1 σ Q2) :
    c • ((Xw * Q1)ᴴ * (Yw * Q2)) = diagonal (fun i => (σ i : 𝕜)) :=
  XP.Scale.scores_cross_cov_diag Xw Yw Q1 Q2 σ c h

/-- **sigma_nonneg_antitone** is part of the solver's specification -/
theorem sigma_nonneg_antitone {C : Matrix (Fin p) (Fin q) 𝕜} {Q1 : Matrix (Fin p) (Fin r) 𝕜} {σ : Fin r → ℝ}
    {Q2 : Matrix (Fin q) (Fin r) 𝕜} (h : XP.Scale.IsSVD C Q1 σ Q2) : (∀ i, 0 ≤ σ i) ∧ Antitone σ :=
  ⟨h.nonneg, h.anti⟩

/-- **sigma_proportional**: whitening with covariances normalised by `n` instead of `n − 1` (eigenvalues scaled by
`c = (n−1)/n`) changes the whitened cross-covariance by the scalar `c^a · c^b`, `a = (α_x−1)/2`, `b = (α_y−1)/2` —
a factor that depends on the sample count and alpha only, and is 1 for MCA (`a = b = 0`) -/
theorem sigma_proportional (Vx : Matrix (Fin p) (Fin p) 𝕜) (Vy : Matrix (Fin q) (Fin q) 𝕜)
    (sx : Fin p → ℝ) (sy : Fin q → ℝ) (hsx : ∀ i, 0 ≤ sx i) (hsy : ∀ i, 0 ≤ sy i)
    (C : Matrix (Fin p) (Fin q) 𝕜) (c : ℝ) (hc : 0 ≤ c) (αx αy : ℝ) :
    (XP.SpecPow.specPow Vx (fun i => c * sx i) (Gen.whitenerPower αx))ᴴ * C
        * XP.SpecPow.specPow Vy (fun i => c * sy i) (Gen.whitenerPower αy)
      = ((c ^ (Gen.whitenerPower αx) * c ^ (Gen.whitenerPower αy) : ℝ) : 𝕜)
        • ((XP.SpecPow.specPow Vx sx (Gen.whitenerPower αx))ᴴ * C * XP.SpecPow.specPow Vy sy (Gen.whitenerPower αy)) :=
  XP.SpecPow.whitened_cross_cov_scale Vx Vy sx sy hsx hsy C c hc _ _

theorem sigma_factor_mca (c : ℝ) : c ^ (Gen.whitenerPower (1 : ℝ)) * c ^ (Gen.whitenerPower (1 : ℝ)) = 1 := by
  simp [Gen.whitenerPower]

/-- **mca_scf**: removing one singular triplet from both sides of `C` leaves `C − σ u vᴴ`; hence the squared
covariance explained by mode `i` is `σ_i²` of `‖C‖_F²` -/
theorem mca_residual (C : Matrix (Fin p) (Fin q) 𝕜) (u : Matrix (Fin p) (Fin 1) 𝕜) (v : Matrix (Fin q) (Fin 1) 𝕜)
    (σ : 𝕜) (hu : uᴴ * u = 1) (hv : vᴴ * v = 1) (h1 : C * v = σ • u) (h2 : uᴴ * C = σ • vᴴ) :
    (1 - u * uᴴ) * C * (1 - v * vᴴ) = C - σ • (u * vᴴ) :=
  XP.Scale.mca_residual C u v σ hu hv h1 h2

/-- **correlation_genuine**: a correlation computed with ONE normalisation convention is bounded by one … -/
theorem correlation_genuine (x y : Fin n → 𝕜) :
    ‖∑ t, star (x t) * y t‖ ≤ Real.sqrt (∑ t, ‖x t‖ ^ 2) * Real.sqrt (∑ t, ‖y t‖ ^ 2) :=
  XP.Corr.correlation_genuine x y

/-- … and the self-correlation is exactly one -/
theorem self_correlation_one (x : Fin n → 𝕜) (hx : 0 < ∑ t, ‖x t‖ ^ 2) :
    (∑ t, star (x t) * x t) / ((Real.sqrt (∑ t, ‖x t‖ ^ 2) * Real.sqrt (∑ t, ‖x t‖ ^ 2) : ℝ) : 𝕜) = 1 :=
  XP.Corr.self_correlation_one x hx

/-- source obligations: covariance and standard deviation of the correlation accessors use the SAME (n−1) convention -/
theorem src_consistent_normalisation (nn : ℝ) :
    Gen.crossCovDenominator nn = nn - 1 ∧ Gen.correlationStdDdof = 1 := by
  constructor
  · simp [Gen.crossCovDenominator]
  · decide

/-- **scores_cross_cov_diag on the executable model** (`XM.cpccaFit`, the definition the driver runs next to `CPCCA._fit_algorithm`):
with any SVD of the model's own cross-covariance `XM.crossCov X Y` (normaliser generated from the source) and any sign choice,
the cross-covariance of the two score sets is `diag σ` restricted to the kept modes -/
theorem model_scores_cross_cov_diag {n p q r k : ℕ} (hk : k ≤ r) (X : XM.Mat n p 𝕜) (Y : XM.Mat n q 𝕜) (Q1 : XM.Mat p r 𝕜)
    (s : Fin r → ℝ) (Q2 : XM.Mat q r 𝕜) (sgn : Fin k → ℝ) (hsgn : ∀ j, sgn j * sgn j = 1)
    (h : XP.SVD.IsSVD (XM.crossCov (ρ := ℝ) X Y).toMatrix Q1.toMatrix s Q2.toMatrix) :
    ((Gen.crossCovDenominator (n : ℝ) : ℝ) : 𝕜)⁻¹ •
        (((XM.cpccaFit hk X Y Q1 s Q2 sgn).scores1.toMatrix)ᴴ * (XM.cpccaFit hk X Y Q1 s Q2 sgn).scores2.toMatrix)
      = XP.EofM.rdiag (fun j => s (Fin.castLE hk j)) :=
  XP.CpccaM.model_scores_cross_cov_diag hk X Y Q1 s Q2 sgn hsgn h

/-- the model's cross-covariance is `XᴴY / (n − 1)` -/
theorem model_cross_cov {n p q : ℕ} (X : XM.Mat n p 𝕜) (Y : XM.Mat n q 𝕜) :
    (XM.crossCov (ρ := ℝ) X Y).toMatrix = (((n : ℝ) - 1 : ℝ) : 𝕜)⁻¹ • ((X.toMatrix)ᴴ * Y.toMatrix) := by
  rw [XP.CpccaM.crossCov_toMatrix]; simp [Gen.crossCovDenominator]

/-- source obligation (Hilbert variants): the analytic signal handed to the cross-covariance is centred — the mean of the imaginary
part is removed per feature, for every padding mode, after the padding has been cut away — so "covariance" of the scores is a
genuine covariance -/
theorem src_hilbert_fields_centred :
    Gen.hilbertRecentreMeanArgs = "axis=0" ∧ Gen.hilbertRecentreAfterCutUnconditional = true := by decide

/-- source obligation (homogeneous / heterogeneous patterns): the Pearson kernel divides by the ddof-0 deviations and averages over
`n` — the one combination (besides ddof 1 with `n − 1`) for which a self-correlation is exactly one -/
theorem src_pearson_consistent (nn : ℝ) : Gen.pearsonStdDdof = 0 ∧ Gen.pearsonDenominator nn = nn := ⟨rfl, rfl⟩

/-- with deviations `σ² = (Σ|x|²)/n` the self-correlation `(Σ|x|²/σ²)/n` is one -/
theorem pearson_self_one (ss nn : ℝ) (hn : nn ≠ 0) (hs : ss ≠ 0) : (ss / (ss / nn)) / Gen.pearsonDenominator nn = 1 := by
  simp only [Gen.pearsonDenominator]
  field_simp

/-- source obligation: the stages of a cross-set fit run in the order preprocess → PCA → (Hilbert) augmentation → whitening →
decomposition, so the whitening is fitted on the very (analytic) signal whose cross-covariance is decomposed -/
theorem src_fit_stage_order :
    Gen.crossFitStages = ["preprocess", "check-samples", "pca", "augment", "whiten", "algorithm"] := by decide

end C09
