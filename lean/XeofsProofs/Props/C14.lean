import XeofsModel.History
import XeofsModel.History2
import XeofsModel.Generated.Facts
/-!
# C14 — a model's answers depend only on its last fit, never on call history

`H2.step` is the state machine of one model object; the facts about what `fit` overwrites, what `transform` and
rotators write are REGENERATED from the source (`H2.current`).
-/
namespace C14
open H2

/-- source obligations: every fact the theorems below need holds in the current tree -/
theorem src_facts_good : H2.current = H2.good := by decide

/-- **fit_overwrites**: the fitted part after `fit id n` is a function of that call alone -/
theorem fit_overwrites (s : St) (id n : Nat) : prov (step good s (.fit id n)).1 = freshProv id n ++ s.relabelled := by
  simp [step, good, prov, freshProv]

/-- **queries_frame**: no other call changes what fitted-data answers are computed from -/
theorem queries_frame (s : St) (op : Op) (h : isFit op = false) : prov (step good s op).1 = prov s := by
  cases op <;> simp_all [step, good, prov, isFit]

theorem relabelled_stays_empty (s : St) (op : Op) (h : s.relabelled = []) : (step good s op).1.relabelled = [] := by
  cases op <;> simp_all [step, good]

theorem run_relabelled_empty (s : St) (ops : List Op) (h : s.relabelled = []) : (run good s ops).1.relabelled = [] := by
  induction ops generalizing s with
  | nil => simpa [run]
  | cons op ops ih => simp only [run]; exact ih _ (relabelled_stays_empty s op h)

theorem run_nofit_prov (s : St) (post : List Op) (hpost : noFit post = true) : prov (run good s post).1 = prov s := by
  induction post generalizing s with
  | nil => simp [run]
  | cons op ops ih =>
    simp only [noFit, List.all_cons, Bool.and_eq_true, Bool.not_eq_true'] at hpost
    simp only [run]
    rw [ih _ (by simpa [noFit] using hpost.2), queries_frame s op hpost.1]

/-- answers of non-fit calls: the provenance of the state they were asked in (plus the call's own argument for transform) -/
theorem step_answer (s : St) (op : Op) (h : isFit op = false) :
    (step good s op).2 = [] ∨ (step good s op).2 = prov s ∨ ∃ t, (step good s op).2 = prov s ++ [1000 + t] := by
  cases op <;> simp_all [step, good, isFit]

/-- **last_fit_determines**: for every finite history, every answer given after the last `fit id n` is computed from
exactly what a fresh model fitted with that call would use — whatever was called before or in between
(queries, transforms of other data, inverse transforms, compute, serialize, rotator/bootstrapper fits) -/
theorem last_fit_determines (pre post : List Op) (id n : Nat) (hpost : noFit post = true) :
    ∀ o ∈ (run good (run good init (pre ++ [.fit id n])).1 post).2,
      o = [] ∨ o = freshProv id n ∨ ∃ t, o = freshProv id n ++ [1000 + t] := by
  have hs : ∀ s, s.relabelled = [] → prov (run good s (pre ++ [.fit id n])).1 = freshProv id n := by
    induction pre with
    | nil => intro s h; simp [run, fit_overwrites, h]
    | cons op ops ih =>
      intro s h; simp only [List.cons_append, run]; exact ih _ (relabelled_stays_empty s op h)
  have key : ∀ (post : List Op) (s : St), noFit post = true → prov s = freshProv id n →
      ∀ o ∈ (run good s post).2, o = [] ∨ o = freshProv id n ∨ ∃ t, o = freshProv id n ++ [1000 + t] := by
    intro post
    induction post with
    | nil => intro s _ _ o ho; simp [run] at ho
    | cons op ops ih =>
      intro s hp hprov o ho
      simp only [noFit, List.all_cons, Bool.and_eq_true, Bool.not_eq_true'] at hp
      simp only [run, List.mem_cons] at ho
      rcases ho with rfl | ho
      · rcases step_answer s op hp.1 with h | h | ⟨t, h⟩
        · left; exact h
        · right; left; rw [h, hprov]
        · right; right; exact ⟨t, by rw [h, hprov]⟩
      · exact ih (step good s op).1 (by simpa [noFit] using hp.2) (by rw [queries_frame s op hp.1, hprov]) o ho
  exact key post _ hpost (hs init rfl)

/-- **rotator_bootstrap_read_only**: fitting a rotator or bootstrapper on a model leaves the model's state untouched -/
theorem rotator_bootstrap_read_only (s : St) (id : Nat) :
    (step good s (.rotatorFit id)).1 = s ∧ (step good s (.bootstrapFit id)).1 = s := by
  simp [step, good]

/-- the same statement for the facts of the CURRENT tree -/
theorem last_fit_determines_current (pre post : List Op) (id n : Nat) (hpost : noFit post = true) :
    ∀ o ∈ (run current (run current init (pre ++ [.fit id n])).1 post).2,
      o = [] ∨ o = freshProv id n ∨ ∃ t, o = freshProv id n ++ [1000 + t] := by
  rw [src_facts_good]; exact last_fit_determines pre post id n hpost

-- with the code as it was before the repairs each broken fact refutes the property on a concrete history
example : (run { good with listFitResets := false } init [.fit 1 1, .fit 2 1, .query]).2.getLast? = some [1, 2, 2, 2, 2] := by decide
example : (run { good with miSeparate := false } init [.fit 1 1, .transform 7, .query]).2.getLast? = some [1, 1, 1, 1, 1007] := by decide
example : (run { good with addCopies := false } init [.fit 1 1, .rotatorFit 5, .query]).2.getLast? = some [1, 1, 1, 1, 1, 5] := by decide
example : (run { good with fitResetsSorted := false } init [.fit 1 1, .fit 2 1, .query]).2.getLast? = some [2, 2, 1, 2, 2] := by decide
example : (run good init [.fit 1 1, .transform 7, .rotatorFit 5, .fit 2 2, .serialize, .query]).2.getLast? = some (freshProv 2 2) := by decide

/-- source obligations: `Sanitizer.transform` writes nothing of the fitted state except the (computed) validity mask, and the
rotators never write into (views of) the model's arrays in place -/
theorem src_transform_and_rotators_read_only :
    Gen.sanitizerTransformWrites = ["self.is_valid_feature"] ∧ Gen.rotatorFitInPlaceOps = [] := by decide

/-- source obligation: no public accessor writes an attribute (such as `.name`) of an array it took directly out of the result
container — a query leaves the stored entries as they are -/
theorem src_accessors_do_not_write_stored_arrays : Gen.accessorsWritingStoredArrays = [] := by decide

end C14
