import XeofsProofs.Bridge
import XeofsProofs.Lemmas.Misc13
import XeofsProofs.Props.C11
import XeofsProofs.Lemmas.PopModel
/-!
# C18 — POP modes are eigen-pairs of the lag-1 feedback matrix

`np.linalg.eig` and `np.linalg.inv` are oracles with their specification (`A *ᵥ v = λ • v`, `C₀ * G = 1`).
-/
open Matrix
namespace C18

variable {𝕜 : Type} [RCLike 𝕜] {n p k : ℕ}

/-- **pop_eigenpair** survives the two things xeofs does to an eigenvector afterwards: scaling by the coefficient
norm (`components()` returns `p · norm`) and mapping through the PCA basis (`V`, orthonormal columns): if `A p = λ p` in PC
space then `(V A Vᴴ)(V p c) = λ (V p c)` in feature space -/
theorem pop_eigenpair_back_projected (A : Matrix (Fin k) (Fin k) 𝕜) (V : Matrix (Fin p) (Fin k) 𝕜) (hV : Vᴴ * V = 1)
    (v : Fin k → 𝕜) (lam c : 𝕜) (h : A *ᵥ v = lam • v) :
    (V * A * Vᴴ) *ᵥ (V *ᵥ (c • v)) = lam • (V *ᵥ (c • v)) := by
  rw [Matrix.mulVec_mulVec, Matrix.mul_assoc, Matrix.mul_assoc, hV, Matrix.mul_one, ← Matrix.mulVec_mulVec,
    Matrix.mulVec_smul, h, smul_comm, Matrix.mulVec_smul]

/-- **pop_conjugate_pairs**: for real data (`A` real) the conjugate of an eigen-pair is an eigen-pair -/
theorem pop_conjugate_pairs (A : Matrix (Fin p) (Fin p) ℂ) (hA : A.map (starRingEnd ℂ) = A)
    (v : Fin p → ℂ) (lam : ℂ) (h : A *ᵥ v = lam • v) :
    A *ᵥ (fun i => starRingEnd ℂ (v i)) = (starRingEnd ℂ lam) • (fun i => starRingEnd ℂ (v i)) :=
  XP.M13.pop_conjugate_pair A hA v lam h

/-- **tau_T_formulas** (generated): damping time `−1/log|λ|`, period `2π/arg λ` -/
theorem tau_formula (a : ℝ) : Gen.popDampingTime a = -1 / Real.log a := by
  simp [Gen.popDampingTime, Num.log]

theorem period_formula (twoPi arg : ℝ) : Gen.popPeriod twoPi arg = twoPi / arg := by
  simp [Gen.popPeriod]

/-- a real positive eigenvalue (`arg λ = 0`) has an infinite period: in exact arithmetic the quotient degenerates
(`x / 0 = 0` in Lean, `inf` in IEEE) — the driver reproduces the IEEE value, checked by correspondence -/
theorem period_real_eigenvalue (twoPi : ℝ) : Gen.popPeriod twoPi 0 = 0 := by simp [Gen.popPeriod]

/-- **noise_free_recovery**: if the data follow `x_{t+1} = A x_t` exactly and the lag-0 covariance is invertible, the
estimated feedback matrix IS `A` — hence its eigenvalues, periods and damping times are the true ones -/
theorem noise_free_recovery (X0 X1 : Matrix (Fin n) (Fin p) 𝕜) (A G : Matrix (Fin p) (Fin p) 𝕜)
    (hG : (X0ᴴ * X0) * G = 1) (hdyn : X1 = X0 * Aᴴ) :
    X1ᴴ * X0 * G = A :=
  XP.M13.noise_free_recovery X0 X1 A G hG hdyn

/-- **pop_sorted_by_std**: ordering by descending standard deviation (source obligation + the sort lemma of C11) -/
theorem src_ordered_by_descending_std : Gen.popOrderedByDescendingStd = true ∧ Gen.popFitResetsSorted = true := by decide

theorem sorted_descending (sd : List ℝ) :
    (sd.mergeSort (fun a b => decide (b ≤ a))).Pairwise (fun a b => b ≤ a) := (C11.rot_sorted sd).1

/-! ### on the executable model (`XM.popFeedback`, `XM.popFit` — run by the driver at complex doubles next to `POP.fit`) -/

/-- the model's feedback matrix solves the normal equations of the lag-1 regression: `A (X0ᴴX0) = X1ᴴX0` -/
theorem model_feedback_normal_equations {n p : ℕ} (X : XM.Mat n p 𝕜) (Cinv : XM.Mat p p 𝕜)
    (hC : Cinv.toMatrix * (XM.lagZeroGram X).toMatrix = 1) :
    (XM.popFeedback X Cinv).toMatrix * (XM.lagZeroGram X).toMatrix = (XM.lagOneGram X).toMatrix :=
  XP.PopM.feedback_normal_equations X Cinv hC

/-- every eigen-pair of the model's feedback matrix is an eigen-pair of "lag-1 covariance times inverse lag-0 covariance" -/
theorem model_eigenpair_is_pop {n p : ℕ} (X : XM.Mat n p 𝕜) (Cinv : XM.Mat p p 𝕜) (v : Fin p → 𝕜) (lam : 𝕜)
    (h : (XM.popFeedback X Cinv).toMatrix.mulVec v = lam • v) :
    ((XM.lagOneGram X).toMatrix * Cinv.toMatrix).mulVec v = lam • v :=
  XP.PopM.eigenpair_is_pop X Cinv v lam h

/-- damping times and periods of the model are `-1/log|λ|` and `2π/arg λ` of the mode they are reported for (after sorting) -/
theorem model_damping_and_period {n p k : ℕ} (X : XM.Mat n p 𝕜) (lam : Fin k → 𝕜) (argLam : Fin k → ℝ) (twoPi : ℝ) (P : XM.Mat p k 𝕜)
    (Minv : Fin k → ℝ × ℝ × ℝ × ℝ) (perm : Fin k → Fin k) (j : Fin k) :
    (XM.popFit X lam argLam twoPi P Minv perm).damping j = -1 / Real.log ‖lam (perm j)‖ ∧
    (XM.popFit X lam argLam twoPi P Minv perm).periods j = twoPi / argLam (perm j) ∧
    (XM.popFit X lam argLam twoPi P Minv perm).eigenvalues j = lam (perm j) :=
  ⟨XP.PopM.damping_eq X lam argLam twoPi P Minv perm j, XP.PopM.period_eq X lam argLam twoPi P Minv perm j, rfl⟩

end C18
