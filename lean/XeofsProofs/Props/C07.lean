import XeofsProofs.Bridge
import XeofsModel.Frame
import XeofsModel.Generated.Facts
import XeofsProofs.Lemmas.SVDSpec
import XeofsProofs.Lemmas.Phase
import XeofsProofs.Props.C15
/-!
# C07 — results do not depend on how the same data is laid out or named
-/
open Matrix
namespace C07
open S

variable {𝕜 : Type} [RCLike 𝕜] {n p r : ℕ}

/-- **relayout_frame**: transposing dimensions, permuting the feature order, re-partitioning the features over variables
or list items permutes the COLUMN KEYS of the frame and nothing else; reading by label is unaffected -/
theorem relayout_frame {α} (F : Frame α) (cols' : List Key) (d : α) (s f : Key) (hs : s ∈ F.rows) (hf : f ∈ cols') :
    readBack F.rows cols' ({ F with cols := cols' } : Frame α).toMat d s f = F.val s f :=
  S.roundtrip { F with cols := cols' } d s f hs hf

/-- **svd_spec_equivariant**: a valid decomposition of `X`, re-laid-out, is a valid decomposition of the re-laid-out `X`
(`P`: sample permutation, `Q`: feature permutation — any unitary matrices): same singular values, components moved with
their labels, scores moved with their samples -/
theorem svd_spec_equivariant {X : Matrix (Fin n) (Fin p) 𝕜} {U : Matrix (Fin n) (Fin r) 𝕜} {s : Fin r → ℝ}
    {V : Matrix (Fin p) (Fin r) 𝕜} (h : XP.SVD.IsSVD X U s V)
    (P : Matrix (Fin n) (Fin n) 𝕜) (Q : Matrix (Fin p) (Fin p) 𝕜) (hP : Pᴴ * P = 1) (hQ : Q * Qᴴ = 1) :
    XP.SVD.IsSVD (P * X * Q) (P * U) s (Qᴴ * V) where
  hU := by rw [conjTranspose_mul, Matrix.mul_assoc, ← Matrix.mul_assoc Pᴴ, hP, Matrix.one_mul, h.hU]
  hV := by rw [conjTranspose_mul, conjTranspose_conjTranspose, Matrix.mul_assoc, ← Matrix.mul_assoc Q, hQ, Matrix.one_mul, h.hV]
  hX := by rw [h.hX, conjTranspose_mul, conjTranspose_conjTranspose]; simp only [Matrix.mul_assoc]
  nonneg := h.nonneg
  anti := h.anti

/-- **eigvec_unique_up_to_phase**: with a simple spectrum two decompositions of the same covariance differ by one unit
scalar per mode (a sign for real data) — the freedom the sign rule removes -/
theorem eigvec_unique_up_to_phase (V V' : Matrix (Fin p) (Fin p) 𝕜) (d : Fin p → ℝ) (hd : StrictAnti d)
    (hV : V * Vᴴ = 1) (hV' : V'ᴴ * V' = 1)
    (h : V * diagonal (fun i => (d i : 𝕜)) * Vᴴ = V' * diagonal (fun i => (d i : 𝕜)) * V'ᴴ) :
    ∃ θ : Fin p → 𝕜, (∀ j, star (θ j) * θ j = 1) ∧ V' = V * diagonal θ :=
  XP.Phase.eigvec_unique_up_to_phase V V' d hd hV hV' h

theorem real_phase_is_sign (θ : ℝ) (h : star θ * θ = 1) : θ = 1 ∨ θ = -1 := XP.Phase.real_phase_is_sign θ h

/-- **sign_rule_invariant**: the sign multiplier is a function of the column's maximum and minimum, which do not change
when the loadings are permuted -/
theorem sign_rule_invariant (l₁ l₂ : List Int) (h : l₁.Perm l₂) (a : Int) :
    Gen.signRuleXarray (l₁.foldl max a) (l₁.foldl min a) = Gen.signRuleXarray (l₂.foldl max a) (l₂.foldl min a) := by
  have e1 : l₁.foldl max a = l₂.foldl max a :=
    h.foldl_eq' (fun x _ y _ z => by simp only [max_assoc, max_comm x y]) a
  have e2 : l₁.foldl min a = l₂.foldl min a :=
    h.foldl_eq' (fun x _ y _ z => by simp only [min_assoc, min_comm x y]) a
  rw [e1, e2]

/-- **names_irrelevant**: the model classes never address a dimension by the literal names 'sample' / 'feature'
(source obligation over xeofs/single, xeofs/cross and xeofs/validation, regenerated on every run) -/
theorem src_no_literal_dimension_names : Gen.literalDimUses = [] := by decide

/-- generic names are given to the sample dimensions first, in the user's order — independent of the storage order of
each list element -/
theorem src_renamer_independent_of_storage_order :
    Gen.renamerOrderedDims = "[*sample_dims, *[d for d in X.dims if d not in sample_dims]]" := by decide

/-- source obligation: list items are joined along the feature dimension with xarray's default alignment BY LABEL
(no `join="override"`, which would pair samples by position) -/
theorem src_concat_aligns_by_label : Gen.concatenatorConcatKwargs = [("dim", "self.feature_name")] := by decide

/-- source obligation: the PCA pre-reduction keeps the deterministic sign convention of its basis (it does not switch `flip_signs`
off), so the orientation of an intermediate basis cannot leak into the signs of the final modes -/
theorem src_pca_keeps_sign_convention : Gen.pcaToSVD.lookup "flip_signs" = none ∧ Gen.svdWrapperToSVD.lookup "flip_signs" = some "self.flip_signs" := by
  decide

/-- source obligation: both whiteners of a cross-set model are told the model's sample and feature dimension names -/
theorem src_whiteners_get_dimension_names :
    Gen.crossWhitener1.lookup "sample_name" = some "sample_name" ∧ Gen.crossWhitener2.lookup "sample_name" = some "sample_name" ∧
    Gen.crossWhitener1.lookup "feature_name" = some "feature_name[0]" ∧ Gen.crossWhitener2.lookup "feature_name" = some "feature_name[1]" := by
  decide

/-- source obligation: POP's PCA step is told the model's dimension names -/
theorem src_pop_pca_gets_dimension_names :
    Gen.popPCA.lookup "sample_name" = some "sample_name" ∧ Gen.popPCA.lookup "feature_name" = some "feature_name" := by decide

end C07
