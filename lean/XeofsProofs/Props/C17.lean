import XeofsModel.Generated.Decide
import XeofsModel.Generated.Facts
/-!
# C17 — unusable input is rejected with an error, never answered with numbers

The validators are REGENERATED from the source; each clause of the property is a decidable predicate on the call, and the
theorem says the (generated) validator returns an error for it. `valid_accepted` keeps the model from over-rejecting.
-/
namespace C17
open Py

/-- non-positive integer `n_modes` is refused (also `False`, which Python treats as the integer 0) -/
theorem n_modes_nonpositive_rejected (i : Int) (h : i < 1) : Gen.sanityCheckNModes (.int i) = .error .ValueError := by
  simp [Gen.sanityCheckNModes, PyVal.isInt, PyVal.asInt, h, Py.raise]

theorem n_modes_false_rejected : Gen.sanityCheckNModes (.bool false) = .error .ValueError := by rfl

/-- a float outside `(0, 1]` is refused -/
theorem n_modes_float_out_of_range_rejected (q : Int) (h : q ≤ 0 ∨ micro < q) :
    Gen.sanityCheckNModes (.float q) = .error .ValueError := by
  rcases h with h | h <;>
    simp [Gen.sanityCheckNModes, PyVal.isInt, PyVal.isFloat, Py.raise, micro] at * <;> omega

/-- a string other than "all" is refused -/
theorem n_modes_string_rejected (s : String) (h : s ≠ "all") : Gen.sanityCheckNModes (.str s) = .error .ValueError := by
  simp [Gen.sanityCheckNModes, PyVal.isInt, PyVal.isFloat, PyVal.isStr, Py.raise, h]

/-- anything that is not an int, float or string is refused with a TypeError -/
theorem n_modes_non_numeric_rejected :
    Gen.sanityCheckNModes .none = .error .TypeError ∧ Gen.sanityCheckNModes (.list []) = .error .TypeError ∧
    Gen.sanityCheckNModes (.xarr "DataArray") = .error .TypeError := ⟨rfl, rfl, rfl⟩

/-- **valid_accepted**: positive integers, fractions in (0,1] and "all" pass -/
theorem n_modes_valid_accepted (i : Int) (h : 1 ≤ i) : Gen.sanityCheckNModes (.int i) = .ok () := by
  have : ¬ i < 1 := by omega
  simp [Gen.sanityCheckNModes, PyVal.isInt, PyVal.asInt, this, pure, Except.pure]

theorem n_modes_fraction_accepted (q : Int) (h0 : 0 < q) (h1 : q ≤ micro) : Gen.sanityCheckNModes (.float q) = .ok () := by
  have h2 : ¬ (q ≤ 0 ∨ 1000000 < q) := by simp only [micro] at h1; omega
  simp [Gen.sanityCheckNModes, PyVal.isInt, PyVal.isFloat, pure, Except.pure]
  intro h; exact absurd h h2

theorem n_modes_all_accepted : Gen.sanityCheckNModes (.str "all") = .ok () := by rfl

/-- more modes than the rank are refused -/
theorem modes_gt_rank_rejected (nPre rank : Int) (h : rank < nPre) : Gen.rankCheckDecomposer nPre rank = .error .ValueError := by
  simp [Gen.rankCheckDecomposer, h, Py.raise]

theorem modes_le_rank_accepted (nPre rank : Int) (h : nPre ≤ rank) : Gen.rankCheckDecomposer nPre rank = .ok () := by
  have : ¬ rank < nPre := by omega
  simp [Gen.rankCheckDecomposer, this, pure, Except.pure]

/-- non-xarray input is refused: a value is accepted iff it is an xarray object or a list/tuple of them -/
theorem input_type_rejected (v : PyVal) (h1 : v.isXarray = false)
    (h2 : (v.isList || v.isTuple) = false ∨ (v.items.all (·.isXarray)) = false) :
    Gen.validateInputType v = .error .TypeError := by
  unfold Gen.validateInputType
  rcases h2 with h2 | h2
  · simp only [Bool.or_eq_false_iff] at h2; simp [h1, h2.1, h2.2, Py.raise]
  · by_cases hl : (v.isList || v.isTuple) = true
    · simp only [Bool.or_eq_true] at hl
      rcases hl with hl | hl <;> simp [h1, hl, h2, Py.raise]
    · simp only [Bool.not_eq_true, Bool.or_eq_false_iff] at hl; simp [h1, hl.1, hl.2, Py.raise]

example : Gen.validateInputType (.other "ndarray") = .error .TypeError := by rfl
example : Gen.validateInputType (.list [.xarr "DataArray", .other "ndarray"]) = .error .TypeError := by rfl
example : Gen.validateInputType (.list [.xarr "DataArray", .xarr "Dataset"]) = .ok () := by rfl

/-- the sample-dimension argument must be a string or a sequence of strings -/
theorem dim_type_rejected :
    (Gen.convertToDimType (.int 3)).isError = true ∧ (Gen.convertToDimType (.list [.str "time", .int 1])).isError = true ∧
    (Gen.convertToDimType .none).isError = true := by decide

example : (Gen.convertToDimType (.str "time")).isError = false ∧ (Gen.convertToDimType (.tuple [.str "time", .str "lat"])).isError = false := by
  decide

/-- an unknown solver name is refused by both SVD wrappers -/
theorem unknown_solver_rejected (solver : String) (h : solver ≠ "auto" ∧ solver ≠ "full" ∧ solver ≠ "randomized")
    (small dask : Bool) (nPre rank : Int) :
    Gen.useExactDecomposer solver small dask nPre rank = .error .ValueError ∧
    Gen.useExactSVD solver small dask nPre rank = .error .ValueError := by
  simp [Gen.useExactDecomposer, Gen.useExactSVD, h.1, h.2.1, h.2.2, Py.raise]

/-- negative alpha is refused, alpha ≥ 0 (including alpha > 1) is accepted -/
theorem alpha_negative_rejected (q : Int) (h : q < 0) : Gen.whitenerAlphaGuard q = .error .ValueError := by
  simp [Gen.whitenerAlphaGuard, h, Py.raise]

theorem alpha_nonneg_accepted (q : Int) (h : 0 ≤ q) : Gen.whitenerAlphaGuard q = .ok () := by
  have : ¬ q < 0 := by omega
  simp [Gen.whitenerAlphaGuard, this, pure, Except.pure]

/-- transform data with another number of items than the fitted data is refused — shorter AND longer -/
theorem item_count_rejected (lenX nData : Int) (h : lenX ≠ nData) : Gen.transformLengthGuard lenX nData = .error .ValueError := by
  simp [Gen.transformLengthGuard, h, Py.raise]

theorem item_count_accepted (nData : Int) : Gen.transformLengthGuard nData nData = .ok () := by
  simp [Gen.transformLengthGuard, pure, Except.pure]

/-- source obligation: scores naming unknown modes — the normalised inverse selects the norms BY the scores' mode labels
(label-based selection raises KeyError for an unknown label) before multiplying -/
theorem src_inverse_selects_norms_by_label :
    Gen.singleInverseNormalizedBody = ["norms = self.data['norms'].sel(mode=scores.mode)", "scores = scores * norms"] := by decide

/-- source obligations: the reconstruction selects the components by the scores' mode labels (an unknown label raises), and `alpha`
reaches the Whitener's range check unmodified (converted to float only) -/
theorem src_unknown_modes_and_alpha_reach_their_checks :
    Gen.eofInverseCompsExpr = ["self.data['components'].sel(mode=scores.mode)"] ∧
    Gen.crossAlphaAssignments = ["self._process_parameter('alpha', alpha, 1.0)", "[float(a) for a in alpha]"] ∧
    Gen.crossWhitener1.lookup "alpha" = some "alpha[0]" ∧ Gen.crossWhitener2.lookup "alpha" = some "alpha[1]" := by decide

/-- source obligation: the cross-set reconstruction also selects the components by the scores' mode labels (unknown labels raise) -/
theorem src_cross_unknown_modes_reach_their_check :
    Gen.cpccaInverseCompsExpr = ["self.data['components1'].sel(mode=X.mode)", "self.data['components2'].sel(mode=Y.mode)"] := by decide

/-- a rotator asked for more modes than the model has is refused (single-set and cross-set rotators), before it writes any state;
a request within the model's modes passes (generated from the first statements of both `_fit_algorithm`s) -/
theorem rotator_modes_gt_model_rejected (nModes nModel : Int) (h : nModel < nModes) :
    Gen.rotatorModesGuardSingle nModes nModel = .error .ValueError ∧ Gen.rotatorModesGuardCross nModes nModel = .error .ValueError := by
  simp [Gen.rotatorModesGuardSingle, Gen.rotatorModesGuardCross, h, Py.raise]

theorem rotator_modes_le_model_accepted (nModes nModel : Int) (h : nModes ≤ nModel) :
    Gen.rotatorModesGuardSingle nModes nModel = .ok () ∧ Gen.rotatorModesGuardCross nModes nModel = .ok () := by
  have : ¬ nModel < nModes := by omega
  simp [Gen.rotatorModesGuardSingle, Gen.rotatorModesGuardCross, this, pure, Except.pure]

end C17
