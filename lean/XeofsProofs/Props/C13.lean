import XeofsModel.Codec2
import XeofsModel.Generated.Facts
/-!
# C13 — a model survives serialisation unchanged (attribute codec and tree bookkeeping)

PARTIAL: the file back-ends (zarr / netCDF engines) are not installed; the property names the in-memory codecs, which is
what is modelled. The value-level equality of rebuilt models is established by the correspondence runs.
-/
namespace C13
open Codec2

/-- **nc_codec_never_raises**: decoding never raises, for ANY attribute value and ANY behaviour of `literal_eval` -/
theorem nc_codec_never_raises (litEval : String → Except PyErr Attr) (a : Attr) :
    ∃ v, desanitize litEval a = .ok v := by
  have hk : Gen.desanitizeKeepsNonLiterals = true := by decide
  cases a with
  | str s =>
    have : ∃ b, Gen.shouldDesanitizeStr s = some b := by
      unfold Gen.shouldDesanitizeStr; split <;> simp
    obtain ⟨b, hb⟩ := this
    cases b with
    | false => exact ⟨.str s, by simp [desanitize, shouldDesanitize, hb]⟩
    | true =>
      cases h : litEval s with
      | ok v => exact ⟨v, by simp [desanitize, shouldDesanitize, hb, h]⟩
      | error e => exact ⟨.str s, by simp [desanitize, shouldDesanitize, hb, h, hk]⟩
  | bool b => exact ⟨_, rfl⟩
  | none => exact ⟨_, rfl⟩
  | int i => exact ⟨_, rfl⟩
  | float f => exact ⟨_, rfl⟩
  | list l => exact ⟨_, rfl⟩
  | dict d => exact ⟨_, rfl⟩

/-- **nc_codec_roundtrip_nonstring**: dict / list / bool / None are stringified and come back equal, GIVEN the oracle
specification of `str` / `literal_eval` on that value (re-checked by the harness) and that Python prints it in a form
the look-alike predicate selects -/
theorem nc_codec_roundtrip_sanitized (pyStr : Attr → String) (litEval : String → Except PyErr Attr) (a : Attr)
    (hs : isSanitized a = true) (hsel : Gen.shouldDesanitizeStr (pyStr a) = some true)
    (hspec : litEval (pyStr a) = .ok a) :
    desanitize litEval (sanitize pyStr a) = .ok a := by
  simp [sanitize, hs, desanitize, shouldDesanitize, hsel, hspec]

/-- numbers are not touched by either direction -/
theorem nc_codec_roundtrip_number (pyStr litEval) (i : Int) (f : Nat) :
    desanitize litEval (sanitize pyStr (.int i)) = .ok (.int i) ∧
    desanitize litEval (sanitize pyStr (.float f)) = .ok (.float f) := by
  have h1 : isSanitized (.int i) = false := by simp only [isSanitized, Attr.typeName]; decide
  have h2 : isSanitized (.float f) = false := by simp only [isSanitized, Attr.typeName]; decide
  simp [sanitize, h1, h2, desanitize, shouldDesanitize]

/-- **nc_codec_roundtrip_string_partial**: every string the look-alike predicate does not select survives unchanged, and so
does every selected string that is not a Python literal.
The FULL statement `∀ s, desanitize (sanitize (.str s)) = .ok (.str s)` is false in the current tree for strings that ARE
Python literals ('True', 'None', '[1]' — known finding KF-C13-1): see the witness below. -/
theorem nc_codec_roundtrip_string_partial (pyStr : Attr → String) (litEval : String → Except PyErr Attr) (s : String)
    (h : Gen.shouldDesanitizeStr s = some false ∨ (∃ e, litEval s = .error e)) :
    desanitize litEval (sanitize pyStr (.str s)) = .ok (.str s) := by
  have hns : isSanitized (.str s) = false := by simp only [isSanitized, Attr.typeName]; decide
  have hk : Gen.desanitizeKeepsNonLiterals = true := by decide
  rcases h with h | ⟨e, he⟩
  · simp [sanitize, hns, desanitize, shouldDesanitize, h]
  · simp only [sanitize, hns, Bool.false_eq_true, if_false, desanitize, shouldDesanitize]
    have : ∃ b, Gen.shouldDesanitizeStr s = some b := by
      unfold Gen.shouldDesanitizeStr; split <;> simp
    obtain ⟨b, hb⟩ := this
    cases b <;> simp [hb, he, hk]

/-- witness for the known finding: the STRING "True" is selected, so with Python's `literal_eval` it comes back as a bool -/
example : desanitize (fun s => if s == "True" then .ok (.bool true) else .error .ValueError) (sanitize (fun _ => "") (.str "True"))
    = .ok (.bool true) := by rfl

/-- the empty string and bracketed non-literals are kept (they raised before the repairs) -/
example : desanitize (fun _ => .error .ValueError) (.str "") = .ok (.str "") := by rfl
example : desanitize (fun _ => .error .ValueError) (.str "[m/s]") = .ok (.str "[m/s]") := by rfl

/-- source obligations: encoder and decoder walk the SAME attribute holders (node attrs and the attrs of ALL variables,
coordinates included); the stringified types are dict, list, bool, None; list transformers are rebuilt in the order they
were serialised (insertion order, keyed by their position) -/
theorem src_codec_symmetric : Gen.sanitizeLoops = Gen.desanitizeLoops ∧ Gen.sanitizeLoops.contains "node.variables" = true := by
  decide

theorem src_sanitized_types : Gen.sanitizedTypes = ["dict", "list", "bool", "type(None)"] := by decide

theorem src_list_transformers_rebuilt_in_fit_order :
    Gen.preprocessorDeserializeLoops = ["zip(names, transformers)", "dt[name].transformers.values()"] ∧
    Gen.preprocessorSerializeKeys = ["dt_transformer.transformers[str(i)]"] := by decide

/-- serialising never renames an array of the caller in place -/
theorem src_serialize_pure : Gen.serializeRenamesInPlace = false := by decide

/-- source obligation: a string that is no Python literal is kept whichever way `literal_eval` rejects it — malformed node
(`ValueError`) or not an expression at all (`SyntaxError`, e.g. `[m s-1]`) -/
theorem src_non_literals_kept :
    Gen.desanitizeKeepsNonLiterals = true ∧ Gen.literalEvalCaught.contains "ValueError" = true ∧
    Gen.literalEvalCaught.contains "SyntaxError" = true := by decide

end C13
