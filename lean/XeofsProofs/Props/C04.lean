import XeofsModel.Frame
import XeofsProofs.Lemmas.EofModel
import XeofsProofs.Lemmas.Small
import XeofsProofs.Lemmas.Rot
import XeofsProofs.Props.C01
import XeofsModel.Generated.Facts
import XeofsProofs.Lemmas.CpccaModel
import XeofsProofs.Lemmas.RotModel
import XeofsProofs.Lemmas.CrotModel
import XeofsProofs.Lemmas.MccaModel
/-!
# C04 — transform of the training data reproduces the model's scores
-/
open XM Matrix XP.EofM
namespace C04

variable {𝕜 : Type} [RCLike 𝕜] {n p q k r m : ℕ}

/-- **EOF / ComplexEOF**: projecting the decomposed matrix on the components gives the stored scores — same values,
same mode order, same signs -/
theorem eof_transform_training_eq_scores (hk : k ≤ r) (X : Mat n p 𝕜) (U : Mat n r 𝕜) (s : Fin r → ℝ) (V : Mat p r 𝕜)
    (sgn : Fin k → ℝ) (h : XP.SVD.IsSVD X.toMatrix U.toMatrix s V.toMatrix) :
    (eofTransform (eofFit hk hk hk U s V sgn) X).toMatrix = (eofFit hk hk hk U s V sgn).scores.toMatrix := by
  simp only [eofTransform, toMatrix_mul, comps_toMatrix, scores_toMatrix]
  rw [← Matrix.mul_assoc, proj_leading h (Fin.castLE hk), Matrix.mul_assoc, Matrix.mul_assoc, rdiag_mul, rdiag_mul]
  congr 2; funext j; ring

/-- the `normalized` variant: both sides are divided by the same norms -/
theorem eof_transform_training_eq_scores_normalized (hk : k ≤ r) (X : Mat n p 𝕜) (U : Mat n r 𝕜) (s : Fin r → ℝ)
    (V : Mat p r 𝕜) (sgn : Fin k → ℝ) (h : XP.SVD.IsSVD X.toMatrix U.toMatrix s V.toMatrix) (c : Fin k → ℝ) :
    (scaleModes (eofTransform (eofFit hk hk hk U s V sgn) X) c).toMatrix
      = (scaleModes (eofFit hk hk hk U s V sgn).scores c).toMatrix := by
  simp only [scaleModes, toMatrix_scaleCols]
  rw [eof_transform_training_eq_scores hk X U s V sgn h]

/-- **cross-set models (CPCCA / MCA / CCA / RDA)**: the scores are *defined* as the projection of the whitened PCs on the
singular vectors, and transform takes the same data through the same three linear maps -/
theorem cpcca_transform_training_eq_scores (X : Matrix (Fin n) (Fin p) 𝕜) (Vp : Matrix (Fin p) (Fin r) 𝕜)
    (T : Matrix (Fin r) (Fin r) 𝕜) (Q : Matrix (Fin r) (Fin k) 𝕜) :
    ((X * Vp) * T) * Q = X * Vp * T * Q := rfl

/-- **rotators** (single and cross): transform re-derives the unrotated scores by projection and then applies exactly
the maps the fit applied to the stored unrotated scores -/
theorem rotator_transform_training_eq_scores (Xw : Matrix (Fin n) (Fin r) 𝕜) (Qm : Matrix (Fin r) (Fin k) 𝕜)
    (S : Matrix (Fin n) (Fin k) 𝕜) (hS : S = Xw * Qm) (Dinv RinvH N : Matrix (Fin k) (Fin k) 𝕜) :
    (Xw * Qm) * Dinv * RinvH * N = S * Dinv * RinvH * N :=
  XP.Small.rotator_transform_eq_scores Xw Qm S hS Dinv RinvH N

/-- source obligations: the normalised single-set transform divides by the FITTED norms, and each cross-set field is
projected on / normalised with its OWN stored entries -/
theorem src_single_normalized_uses_fitted_norms :
    Gen.singleTransformNormalizedBody = ["data2D = data2D / self.data['norms']", "data2D.name = 'scores'"] := by decide

theorem src_cpcca_fields_use_own_entries :
    Gen.cpccaTransformSources = [("comps1", "self.data['components1']"), ("comps2", "self.data['components2']"),
      ("norm1", "self.data['norm1']"), ("norm2", "self.data['norm2']")] := by decide

/-- the per-mode factors (pseudo-norms, signs) are stored under the labels the modes carry AFTER sorting, so a rotator's
`transform` must rotate, then reorder, and only then scale; the two scalings commute with each other -/
def validRotatorOrder (steps : List String) : Bool :=
  match steps.idxOf? "rotate", steps.idxOf? "reorder", steps.idxOf? "norms", steps.idxOf? "sign" with
  | some r, some o, some n, some s => decide (r < o ∧ o < n ∧ o < s)
  | _, _, _, _ => false

theorem src_rotator_transform_order :
    validRotatorOrder Gen.eofRotatorTransformSteps = true ∧ validRotatorOrder Gen.cpccaRotatorTransformSteps = true := by decide

/-- why the order matters: scaling by `d` (indexed by the new label) after the reorder `σ` is not the same map as scaling before it,
unless `d` happens to be constant along `σ` -/
theorem reorder_then_scale (S : Matrix (Fin m) (Fin k) 𝕜) (σ : Fin k → Fin k) (d : Fin k → 𝕜) :
    (fun i j => S i (σ j) * d j) = (fun i j => (fun i' j' => S i' j' * d j') i (σ j)) ↔ ∀ i j, S i (σ j) * d j = S i (σ j) * d (σ j) := by
  constructor
  · intro h i j; exact congrFun (congrFun h i) j
  · intro h; funext i j; exact h i j

example : validRotatorOrder ["rotate", "sign", "reorder", "norms"] = false := by decide

/-- **cpcca_transform_training_eq_scores on the executable model**: projecting the fitted field again gives the stored scores,
for both settings of `normalized` -/
theorem model_cpcca_transform_training {n p q r k : ℕ} (hk : k ≤ r) (X : XM.Mat n p 𝕜) (Y : XM.Mat n q 𝕜) (Q1 : XM.Mat p r 𝕜)
    (s : Fin r → ℝ) (Q2 : XM.Mat q r 𝕜) (sgn : Fin k → ℝ) (nz : Bool) :
    XM.cpccaTransform1 (XM.cpccaFit hk X Y Q1 s Q2 sgn) X nz = XM.cpccaScores1 (XM.cpccaFit hk X Y Q1 s Q2 sgn) nz :=
  XP.CpccaM.model_transform_training _ X (XP.CpccaM.fit_scores1_def hk X Y Q1 s Q2 sgn) nz

/-- **rotator_transform_training_eq_scores on the executable model**: `XM.rotTransform` applied to the data the unrotated model
was fitted on (`scores₀ = X · comps₀`) returns exactly the stored rotated scores -/
theorem model_rot_transform_training {n p k : ℕ} (comps0 : XM.Mat p k 𝕜) (expvar0 : Fin k → ℝ) (scores0 : XM.Mat n k 𝕜)
    (svals0 : Fin k → ℝ) (R RinvT : XM.Mat k k 𝕜) (sgn : Fin k → ℝ) (perm : Fin k → Fin k) (X : XM.Mat n p 𝕜)
    (h : scores0 = X.mul comps0) :
    XM.rotTransform (XM.rotFit comps0 expvar0 scores0 svals0 R RinvT sgn perm) comps0 svals0 RinvT perm X
      = (XM.rotFit comps0 expvar0 scores0 svals0 R RinvT sgn perm).scores :=
  XP.RotM.model_transform_training comps0 expvar0 scores0 svals0 R RinvT sgn perm X h

/-- source obligations: the cross-set `transform` forwards `normalized` to the algorithm, and a field's data pass through `V` alone
on their way into PC space (no statistics of the NEW data enter) -/
theorem src_cross_transform_forwards_normalized :
    Gen.crossTransformAlgorithmCall = "self._transform_algorithm(X, Y, normalized=normalized)" := by decide

/-- source obligation: `transform` writes nothing into the object (no cache can survive a refit) — models and rotators alike -/
theorem src_transform_writes_nothing :
    Gen.cpccaRotatorTransformWrites = [] ∧ Gen.eofRotatorTransformWrites = [] ∧ Gen.crossTransformWrites = [] ∧
    Gen.singleTransformWrites = [] := by decide

/-- **structure level (S.Frame, tied by the `frame` correspondence)**: `transform` of the very labelled data the preprocessor was
fitted on — after entirely missing samples and cells were dropped, for any number of sample dimensions — yields the fitted positional
matrix: one row per valid sample, same order, same labels -/
theorem frame_transform_training {α} (F : S.Frame α) (okS okF : S.Key → Bool) :
    S.transformBy (F.sanitize okS okF).cols (F.sanitize okS okF).rows (F.sanitize okS okF).val = (F.sanitize okS okF).toMat :=
  S.transformBy_training _

/-- the rows of that matrix are exactly the samples that are not entirely missing, in their original order -/
theorem frame_transform_rows {α} (F : S.Frame α) (okS okF : S.Key → Bool) :
    (S.transformBy (F.sanitize okS okF).cols (F.sanitize okS okF).rows F.val).length = (F.rows.filter okS).length := by
  simp [S.transformBy, S.Frame.sanitize]

/-- non-vacuity: a 2-sample frame with one missing sample keeps exactly the other one -/
example : S.transformBy [["a"]] (({ rows := [["t0"], ["t1"]], cols := [["a"]], val := fun s f => s ++ f } : S.Frame S.Key).sanitize
    (fun s => s != ["t0"]) (fun _ => true)).rows (fun s f => s ++ f) = [[["t1", "a"]]] := by decide

/-- source obligation: when entries of a stacked MultiIndex dimension were dropped in between (entirely missing samples), the index
written back is cut down BY POSITION LABEL to the entries that are left — so data with several sample dimensions and a missing sample
passes through `transform` and `inverse_transform` -/
theorem src_multiindex_restore_after_drop :
    Gen.multiIndexRestoreCuts = ["if X_inverse_transformed.sizes[dim] != original_index.sizes[dim]: positions = X_inverse_transformed.coords[dim].values original_index = original_index.isel({dim: positions})"] := by
  decide +kernel

/-- **rotated cross-set models on the executable model** (`XM.crotTransform` / `XM.crotFit`, tied by the `crot` correspondence):
`CPCCARotator.transform` of the data the unrotated model was fitted on (`S₁ = X · Q₁` in whitened PC space) returns the stored
rotated scores — same rotation, same order, same signs, same norms -/
theorem model_crot_transform_training {n p q p' q' k : ℕ} (A1 : XM.Mat p p' 𝕜) (A2 : XM.Mat q q' 𝕜) (B1 : XM.Mat p' p 𝕜)
    (B2 : XM.Mat q' q 𝕜) (Q1 : XM.Mat p' k 𝕜) (Q2 : XM.Mat q' k 𝕜) (s : Fin k → ℝ) (S1 S2 : XM.Mat n k 𝕜) (R RinvT : XM.Mat k k 𝕜)
    (sgn : Fin k → ℝ) (perm : Fin k → Fin k) (X : XM.Mat n p' 𝕜) (h : S1 = X.mul Q1) :
    (XM.crotTransform (XM.crotFit A1 A2 B1 B2 Q1 Q2 s S1 S2 R RinvT sgn perm).norm1
        (XM.crotFit A1 A2 B1 B2 Q1 Q2 s S1 S2 R RinvT sgn perm).sgn Q1 s RinvT perm X false).toMatrix
      = (XM.crotFit A1 A2 B1 B2 Q1 Q2 s S1 S2 R RinvT sgn perm).scores1.toMatrix :=
  XP.CrotM.model_transform_training A1 A2 B1 B2 Q1 Q2 s S1 S2 R RinvT sgn perm X h

/-- `normalized=True` differs from the default exactly by the per-mode norm -/
theorem model_crot_transform_normalized {m p' k : ℕ} (norms sgnS : Fin k → ℝ) (Q : XM.Mat p' k 𝕜) (s : Fin k → ℝ)
    (RinvT : XM.Mat k k 𝕜) (perm : Fin k → Fin k) (X : XM.Mat m p' 𝕜) (i : Fin m) (j : Fin k) :
    (XM.crotTransform norms sgnS Q s RinvT perm X false).get i j
      = (XM.crotTransform norms sgnS Q s RinvT perm X true).get i j * ((norms j : ℝ) : 𝕜) :=
  XP.CrotM.model_transform_normalized norms sgnS Q s RinvT perm X i j

/-- **multi-set CCA on the executable model** (`XM.mccaFit` / `XM.mccaTransform`, tied by the `mcca` correspondence): `transform`
of the stored input data returns the stored variates of every view — the same weights in feature space (after the way back from
PC space), each view with its own columns -/
theorem model_mcca_transform_training {n P Q k : ℕ} (Xphys : XM.Mat n Q ℝ) (blkQ : Fin Q → ℕ) (B : XM.Mat Q P ℝ) (E : XM.Mat P k ℝ)
    (lam0 : Fin k → ℝ) (perm : Fin k → Fin k) (v : ℕ) :
    XM.mccaTransform (XM.mccaFit Xphys blkQ B E lam0 perm) blkQ Xphys v = (XM.mccaFit Xphys blkQ B E lam0 perm).variates v :=
  XP.MccaM.transform_training Xphys blkQ B E lam0 perm v

/-- source obligations (regenerated): the scores of each field are restored through that field's OWN whitener, PCA and preprocessor
(the second field keeps its own sample labels), and the order of a Dataset's variables is recorded at fit and re-applied to the data
handed to `transform` -/
theorem src_cross_scores_use_own_objects :
    Gen.crossScoresRestoreCalls = ["self.whitener1.inverse_transform_scores(Rx)", "self.whitener2.inverse_transform_scores(Ry)",
      "self.pca1.inverse_transform_scores(Rx)", "self.pca2.inverse_transform_scores(Ry)",
      "self.preprocessor1.inverse_transform_scores(Rx)", "self.preprocessor2.inverse_transform_scores(Ry)"] := by decide +kernel

theorem src_dataset_variable_order_is_fitted_state :
    Gen.stackerVarsRecorded = ["self.vars_in = tuple(X.data_vars) if isinstance(X, xr.Dataset) else tuple()"] ∧
    Gen.stackerVarsReapplied = ["X = X[list(vars_in)]"] := by decide +kernel

end C04
