import XeofsModel.Mat
import XeofsModel.Eof
import Mathlib.LinearAlgebra.Matrix.ConjTranspose
import Mathlib.Algebra.BigOperators.Fin
import Mathlib.Analysis.RCLike.Basic
import Mathlib.Analysis.SpecialFunctions.Log.Basic
import Mathlib.Analysis.SpecialFunctions.Sqrt
import Mathlib.Analysis.SpecialFunctions.Pow.Real
/-! Bridge between the executable, Mathlib-free model (`XM.Mat`, classes `Num`, `XM.Entry`) and Mathlib:
the proofs instantiate the SAME polymorphic definitions the driver runs on `Float` at `ρ = ℝ`, `α = 𝕜`. -/
open XM Matrix

noncomputable instance : Num ℝ where
  ofNat := fun n => (n : ℝ)
  sqrt := Real.sqrt
  log := Real.log
  abs := fun x => |x|
  pow := fun x y => x ^ y
  exp := Real.exp

variable {𝕜 : Type} [RCLike 𝕜]
noncomputable instance : XM.Entry ℝ 𝕜 :=
  { conj := star, ofReal := fun x => (x : 𝕜), divReal := fun x r => x / (r : 𝕜), normSq := fun x => RCLike.normSq x,
    re := fun x => RCLike.re x, im := fun x => RCLike.im x, ofParts := fun a b => (a : 𝕜) + (b : 𝕜) * RCLike.I }

@[simp] theorem Num.exp_real (x : ℝ) : (Num.exp x : ℝ) = Real.exp x := rfl
@[simp] theorem Num.pow_real (x y : ℝ) : (Num.pow x y : ℝ) = x ^ y := rfl
@[simp] theorem Num.ofNat_real (n : ℕ) : (Num.ofNat n : ℝ) = (n : ℝ) := rfl
@[simp] theorem Entry.ofReal_eq (x : ℝ) : (Entry.ofReal x : 𝕜) = (x : 𝕜) := rfl
@[simp] theorem Entry.divReal_eq (x : 𝕜) (r : ℝ) : (Entry.divReal x r : 𝕜) = x / (r : 𝕜) := rfl
@[simp] theorem Entry.normSq_eq (x : 𝕜) : (Entry.normSq x : ℝ) = RCLike.normSq x := rfl
@[simp] theorem Entry.re_eq (x : 𝕜) : (Entry.re x : ℝ) = RCLike.re x := rfl
@[simp] theorem Entry.im_eq (x : 𝕜) : (Entry.im x : ℝ) = RCLike.im x := rfl
@[simp] theorem Entry.ofParts_eq (a b : ℝ) : (Entry.ofParts a b : 𝕜) = (a : 𝕜) + (b : 𝕜) * RCLike.I := rfl
theorem re_ofParts (a b : ℝ) : RCLike.re (Entry.ofParts a b : 𝕜) = a := by
  simp [Entry.ofParts_eq, map_add, RCLike.mul_re]
theorem im_ofParts (a b : ℝ) : RCLike.im (Entry.ofParts a b : 𝕜) = b * RCLike.im (RCLike.I : 𝕜) := by
  simp [Entry.ofParts_eq, map_add, RCLike.mul_im]
@[simp] theorem Conj.conj_eq (x : 𝕜) : (Conj.conj x : 𝕜) = star x := rfl

def XM.Mat.toMatrix {α} {n m} (A : Mat n m α) : Matrix (Fin n) (Fin m) α := fun i j => A.get i j

@[simp] theorem toMatrix_apply {α} {n m} (A : Mat n m α) (i : Fin n) (j : Fin m) : A.toMatrix i j = A.get i j := rfl

@[simp] theorem toMatrix_ofFn {α} {n m} (f : Fin n → Fin m → α) : (Mat.ofFn f).toMatrix = Matrix.of f := by
  ext i j; simp [Mat.toMatrix]

theorem sumFin_eq {α} [AddCommMonoid α] (n : Nat) (f : Fin n → α) : Mat.sumFin n f = ∑ i, f i := by
  unfold Mat.sumFin
  induction n with
  | zero => simp [Fin.foldl_zero]
  | succ n ih => rw [Fin.foldl_succ_last, Fin.sum_univ_castSucc, ih]

@[simp] theorem toMatrix_mul {α} [NonAssocSemiring α] {n k m} (A : Mat n k α) (B : Mat k m α) :
    (Mat.mul A B).toMatrix = A.toMatrix * B.toMatrix := by
  ext i j; simp [Mat.toMatrix, Mat.mul, sumFin_eq, Matrix.mul_apply]

@[simp] theorem toMatrix_conjT {n m} (A : Mat n m 𝕜) : (Mat.conjT A).toMatrix = (A.toMatrix)ᴴ := by
  ext i j; simp [Mat.toMatrix, Mat.conjT, conjTranspose_apply]

@[simp] theorem toMatrix_scaleCols {n m} (A : Mat n m 𝕜) (s : Fin m → 𝕜) :
    (Mat.scaleCols A s).toMatrix = A.toMatrix * diagonal s := by
  ext i j; simp [Mat.toMatrix, Mat.scaleCols, Matrix.mul_diagonal]

@[simp] theorem toMatrix_divCols {n m} (A : Mat n m 𝕜) (d : Fin m → ℝ) :
    (Mat.divCols A d).toMatrix = A.toMatrix * diagonal (fun j => ((d j : 𝕜))⁻¹) := by
  ext i j; simp [Mat.toMatrix, Mat.divCols, Matrix.mul_diagonal, div_eq_mul_inv]

@[simp] theorem toMatrix_sub {n m} (A B : Mat n m 𝕜) : (Mat.sub A B).toMatrix = A.toMatrix - B.toMatrix := by
  ext i j; simp [Mat.toMatrix, Mat.sub]

@[simp] theorem toMatrix_add {n m} (A B : Mat n m 𝕜) : (Mat.add A B).toMatrix = A.toMatrix + B.toMatrix := by
  ext i j; simp [Mat.toMatrix, Mat.add]

@[simp] theorem toMatrix_firstCols {α} {n m} (A : Mat n m α) (k : Nat) (h : k ≤ m) :
    (Mat.firstCols A k h).toMatrix = A.toMatrix.submatrix id (Fin.castLE h) := by
  ext i j; simp [Mat.toMatrix, Mat.firstCols, Fin.castLE]

/-- selecting columns with an injective map keeps orthonormal columns orthonormal -/
theorem submatrix_cols_orthonormal {p r k : ℕ} (V : Matrix (Fin p) (Fin r) 𝕜) (e : Fin k → Fin r)
    (he : Function.Injective e) (hV : Vᴴ * V = 1) :
    (V.submatrix id e)ᴴ * (V.submatrix id e) = 1 := by
  have : (V.submatrix id e)ᴴ * (V.submatrix id e) = (Vᴴ * V).submatrix e e := by
    ext i j; simp [Matrix.mul_apply, conjTranspose_apply]
  rw [this, hV, Matrix.submatrix_one _ he]
