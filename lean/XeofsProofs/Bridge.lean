import XeofsModel.Mat
import Mathlib.LinearAlgebra.Matrix.ConjTranspose
import Mathlib.Algebra.BigOperators.Fin
import Mathlib.Analysis.RCLike.Basic
open XM Matrix

variable {𝕜 : Type} [RCLike 𝕜]
instance : XM.Conj 𝕜 := ⟨star⟩

def XM.Mat.toMatrix {α} {n m} (A : Mat n m α) : Matrix (Fin n) (Fin m) α := fun i j => A.get i j

theorem sumFin_eq {α} [AddCommMonoid α] (n : Nat) (f : Fin n → α) : Mat.sumFin n f = ∑ i, f i := by
  unfold Mat.sumFin
  induction n with
  | zero => simp [Fin.foldl_zero]
  | succ n ih => rw [Fin.foldl_succ_last, Fin.sum_univ_castSucc, ih]

@[simp] theorem toMatrix_mul {α} [NonAssocSemiring α] {n k m} (A : Mat n k α) (B : Mat k m α) :
    (Mat.mul A B).toMatrix = A.toMatrix * B.toMatrix := by
  ext i j; simp [Mat.toMatrix, Mat.mul, sumFin_eq, Matrix.mul_apply]

@[simp] theorem toMatrix_conjT {n m} (A : Mat n m 𝕜) : (Mat.conjT A).toMatrix = (A.toMatrix)ᴴ := by
  ext i j; simp [Mat.toMatrix, Mat.conjT, Conj.conj, conjTranspose_apply]

@[simp] theorem toMatrix_scaleCols {n m} (A : Mat n m 𝕜) (s : Fin m → 𝕜) :
    (Mat.scaleCols A s).toMatrix = A.toMatrix * diagonal s := by
  ext i j; simp [Mat.toMatrix, Mat.scaleCols, Matrix.mul_diagonal]

/-- transform of the training matrix reproduces the scores, stated on the *executable* definitions -/
theorem eofTransform_eq_scores {n p k} (X : Mat n p 𝕜) (U : Mat n k 𝕜) (s : Fin k → 𝕜) (V : Mat p k 𝕜)
    (hV : V.toMatrixᴴ * V.toMatrix = 1)
    (hX : X.toMatrix = U.toMatrix * diagonal s * V.toMatrixᴴ) :
    (eofTransform X V).toMatrix = (eofScores U s).toMatrix := by
  simp [eofTransform, eofScores, hX, Matrix.mul_assoc, hV]
