import XeofsModel
import Lean.Data.Json
/-! Line-protocol driver (Tie B): one JSON request per line on stdin, one JSON answer per line on stdout.
Floats travel as decimal strings of their 64-bit patterns so both sides see identical numbers.
The driver only evaluates the executable definitions of `XeofsModel` (incl. the regenerated `Gen.*`). -/
open Lean XM

def bitsToFloat (s : String) : Float := Float.ofBits (s.toNat!).toUInt64
def floatToBits (x : Float) : String := toString x.toBits.toNat

def getStrArr (j : Json) (k : String) : Array String := (j.getObjValAs? (Array String) k).toOption.getD #[]
def getNat (j : Json) (k : String) : Nat := (j.getObjValAs? Nat k).toOption.getD 0
def getInt (j : Json) (k : String) : Int := (j.getObjValAs? Int k).toOption.getD 0
def getBool (j : Json) (k : String) : Bool := (j.getObjValAs? Bool k).toOption.getD false
def getStr (j : Json) (k : String) : String := (j.getObjValAs? String k).toOption.getD ""
def getIntArr (j : Json) (k : String) : Array Int := (j.getObjValAs? (Array Int) k).toOption.getD #[]
def getNatArr (j : Json) (k : String) : Array Nat := (j.getObjValAs? (Array Nat) k).toOption.getD #[]
def getBoolArr (j : Json) (k : String) : Array Bool := (j.getObjValAs? (Array Bool) k).toOption.getD #[]

def matOfBits (n m : Nat) (bits : Array String) : Mat n m Float :=
  Mat.ofFn fun i j => bitsToFloat (bits[i.val * m + j.val]!)

def matToBits {n m : Nat} (A : Mat n m Float) : Array String := Id.run do
  let mut out := #[]
  for i in List.finRange n do
    for j in List.finRange m do
      out := out.push (floatToBits (A.get i j))
  return out

def vecToBits {k : Nat} (v : Fin k → Float) : Array String := ((List.finRange k).map fun j => floatToBits (v j)).toArray

/-- Python value from JSON: {"t":"int","v":3} … -/
partial def pyOfJson (j : Json) : Py.PyVal :=
  match getStr j "t" with
  | "none" => .none
  | "bool" => .bool (getBool j "v")
  | "int" => .int (getInt j "v")
  | "float" => .float (getInt j "v")
  | "str" => .str (getStr j "v")
  | "list" => .list (((j.getObjValAs? (Array Json) "v").toOption.getD #[]).toList.map pyOfJson)
  | "tuple" => .tuple (((j.getObjValAs? (Array Json) "v").toOption.getD #[]).toList.map pyOfJson)
  | "xarr" => .xarr (getStr j "v")
  | _ => .other (getStr j "v")

partial def attrOfJson (j : Json) : Codec2.Attr :=
  match getStr j "t" with
  | "str" => .str (getStr j "v")
  | "bool" => .bool (getBool j "v")
  | "none" => .none
  | "int" => .int (getInt j "v")
  | "float" => .float (getNat j "v")
  | "list" => .list (((j.getObjValAs? (Array Json) "v").toOption.getD #[]).toList.map attrOfJson)
  | _ => .dict (((j.getObjValAs? (Array Json) "v").toOption.getD #[]).toList.map fun kv => (getStr kv "k", attrOfJson ((kv.getObjVal? "v").toOption.getD Json.null)))

partial def attrToJson : Codec2.Attr → Json
  | .str s => Json.mkObj [("t", "str"), ("v", s)]
  | .bool b => Json.mkObj [("t", "bool"), ("v", b)]
  | .none => Json.mkObj [("t", "none")]
  | .int i => Json.mkObj [("t", "int"), ("v", toJson i)]
  | .float f => Json.mkObj [("t", "float"), ("v", toJson f)]
  | .list l => Json.mkObj [("t", "list"), ("v", Json.arr (l.map attrToJson).toArray)]
  | .dict d => Json.mkObj [("t", "dict"), ("v", Json.arr (d.map fun kv => Json.mkObj [("k", kv.1), ("v", attrToJson kv.2)]).toArray)]

def opOfJson (j : Json) : H2.Op :=
  match getStr j "op" with
  | "fit" => .fit (getNat j "id") (getNat j "items")
  | "transform" => .transform (getNat j "id")
  | "inverse" => .inverse
  | "compute" => .compute
  | "serialize" => .serialize
  | "rotator" => .rotatorFit (getNat j "id")
  | "bootstrap" => .bootstrapFit (getNat j "id")
  | _ => .query

def colMaxMin {p k : Nat} (V : Mat p k Float) (j : Fin k) : Float × Float :=
  match (List.finRange p).map (fun i => V.get i j) with
  | [] => (0.0, 0.0)
  | x :: xs => (xs.foldl (fun a b => if b > a then b else a) x, xs.foldl (fun a b => if b < a then b else a) x)

/-! ### complex doubles: the SAME polymorphic model definitions instantiated at `XM.CF` -/
def cfOfBits (bits : Array String) (idx : Nat) : CF := ⟨bitsToFloat (bits[2 * idx]!), bitsToFloat (bits[2 * idx + 1]!)⟩

def cmatOfBits (n m : Nat) (bits : Array String) : Mat n m CF := Mat.ofFn fun i j => cfOfBits bits (i.val * m + j.val)

def cmatToBits {n m : Nat} (A : Mat n m CF) : Array String := Id.run do
  let mut out := #[]
  for i in List.finRange n do
    for j in List.finRange m do
      let z := A.get i j
      out := (out.push (floatToBits z.re)).push (floatToBits z.im)
  return out

/-- numpy orders complex numbers lexicographically (real part, then imaginary part) -/
def cfLt (a b : CF) : Bool := a.re < b.re || (a.re == b.re && a.im < b.im)

def cfAbs (z : CF) : Float := Float.sqrt (z.re * z.re + z.im * z.im)

/-- sign of one complex column: generated rule on the moduli of the lexicographic maximum and minimum -/
def csignOfCol {p k : Nat} (V : Mat p k CF) (j : Fin k) : Float :=
  match (List.finRange p).map (fun i => V.get i j) with
  | [] => 1.0
  | x :: xs =>
    let mx := xs.foldl (fun a b => if cfLt a b then b else a) x
    let mn := xs.foldl (fun a b => if cfLt b a then b else a) x
    Gen.signRuleXarrayComplexF (cfAbs mx) (cfAbs mn)

def handleC (j : Json) : Json :=
  match getStr j "fn" with
  | "eof" =>
    let n := getNat j "n"; let p := getNat j "p"; let r := getNat j "r"; let k := getNat j "k"
    if h : k ≤ r then
      let U := cmatOfBits n r (getStrArr j "U")
      let V := cmatOfBits p r (getStrArr j "V")
      let VT := cmatOfBits p r (getStrArr j "VTt")   -- the rows of VT as columns: what the sign rule looks at (before the conjugation)
      let sA := (getStrArr j "s").map bitsToFloat
      let s : Fin r → Float := fun i => sA[i.val]!
      let sgn : Fin k → Float := fun jj => csignOfCol (VT.firstCols k h) jj
      let F : EofFit n p k Float CF := eofFit h h h U s V sgn
      let total := bitsToFloat (getStr j "total")
      let m := getNat j "m"
      let X := cmatOfBits m p (getStrArr j "X")
      let tf := eofTransform F X
      Json.mkObj [("status", "ok"), ("comps", toJson (cmatToBits F.comps)), ("scores", toJson (cmatToBits F.scores)),
        ("expvar", toJson (vecToBits F.expvar)), ("ratio", toJson (vecToBits (eofRatio F total))),
        ("sgn", toJson (vecToBits sgn)), ("transform", toJson (cmatToBits tf)), ("inverse", toJson (cmatToBits (eofInverse F tf)))]
    else Json.mkObj [("status", "ValueError")]
  | "cpcca" =>
    let n := getNat j "n"; let p := getNat j "p"; let q := getNat j "q"; let r := getNat j "r"; let k := getNat j "k"
    if h : k ≤ r then
      let X := cmatOfBits n p (getStrArr j "X"); let Y := cmatOfBits n q (getStrArr j "Y")
      let Q1 := cmatOfBits p r (getStrArr j "Q1"); let Q2 := cmatOfBits q r (getStrArr j "Q2")
      let VT := cmatOfBits q r (getStrArr j "VTt")
      let sA := (getStrArr j "s").map bitsToFloat
      let s : Fin r → Float := fun i => sA[i.val]!
      let sgn : Fin k → Float := fun jj => csignOfCol (VT.firstCols k h) jj
      let F : CpccaFit n p q k Float CF := cpccaFit h X Y Q1 s Q2 sgn
      let m := getNat j "m"
      let Xn := cmatOfBits m p (getStrArr j "Xn")
      let C : Mat p q CF := crossCov (ρ := Float) X Y
      Json.mkObj [("status", "ok"), ("crosscov", toJson (cmatToBits C)),
        ("comps1", toJson (cmatToBits F.comps1)), ("comps2", toJson (cmatToBits F.comps2)),
        ("scores1", toJson (cmatToBits F.scores1)), ("scores2", toJson (cmatToBits F.scores2)),
        ("svals", toJson (vecToBits F.svals)), ("sqcov", toJson (vecToBits F.sqcov)),
        ("norm1", toJson (vecToBits F.norm1)), ("norm2", toJson (vecToBits F.norm2)),
        ("transform1", toJson (cmatToBits (cpccaTransform1 F Xn false))),
        ("transform1n", toJson (cmatToBits (cpccaTransform1 F Xn true))),
        ("inverse1", toJson (cmatToBits (cpccaInverse1 F (cpccaTransform1 F Xn false))))]
    else Json.mkObj [("status", "ValueError")]
  | "whitener" =>
    let n := getNat j "n"; let p := getNat j "p"; let k := getNat j "k"; let m := getNat j "m"
    let X := cmatOfBits n p (getStrArr j "X"); let V := cmatOfBits p p (getStrArr j "V")
    let sA := (getStrArr j "s").map bitsToFloat
    let s : Fin p → Float := fun i => sA[i.val]!
    let alpha := bitsToFloat (getStr j "alpha")
    let smax := (List.finRange p).foldl (fun a i => if s i > a then s i else a) 0.0
    let eps : Float := 2.220446049250313e-16
    let keep : Fin p → Bool := fun i => if Gen.fracPowerCutoffIsRelative then s i > eps * smax else s i > eps
    let F : WhitenFit p CF := whitenFit V s keep alpha
    let P := cmatOfBits p k (getStrArr j "P"); let Xn := cmatOfBits m p (getStrArr j "Xn")
    let Z := whitenTransform F Xn
    let C : Mat p p CF := whitenCov (ρ := Float) X
    Json.mkObj [("status", "ok"), ("cov", toJson (cmatToBits C)), ("T", toJson (cmatToBits F.T)), ("Tinv", toJson (cmatToBits F.Tinv)),
      ("transform", toJson (cmatToBits Z)), ("inverse", toJson (cmatToBits (whitenInverseData F Z))),
      ("tcomps", toJson (cmatToBits (whitenTransformComps F P))), ("icomps", toJson (cmatToBits (whitenInverseComps F P)))]
  | "pca" =>
    let p := getNat j "p"; let k := getNat j "k"; let m := getNat j "m"; let r := getNat j "r"
    let V := cmatOfBits p k (getStrArr j "V"); let Xn := cmatOfBits m p (getStrArr j "Xn"); let P := cmatOfBits p r (getStrArr j "P")
    let Z := pcaTransform V Xn
    let Q := pcaTransformComps V P
    Json.mkObj [("status", "ok"), ("transform", toJson (cmatToBits Z)), ("inverse", toJson (cmatToBits (pcaInverseData V Z))),
      ("tcomps", toJson (cmatToBits Q)), ("icomps", toJson (cmatToBits (pcaInverseComps V Q)))]
  | "rotator" =>
    let n := getNat j "n"; let p := getNat j "p"; let k := getNat j "k"; let m := getNat j "m"
    let comps0 := cmatOfBits p k (getStrArr j "comps0"); let scores0 := cmatOfBits n k (getStrArr j "scores0")
    let evA := (getStrArr j "expvar0").map bitsToFloat; let svA := (getStrArr j "svals0").map bitsToFloat
    let expvar0 : Fin k → Float := fun i => evA[i.val]!
    let svals0 : Fin k → Float := fun i => svA[i.val]!
    let R := cmatOfBits k k (getStrArr j "R"); let RinvT := cmatOfBits k k (getStrArr j "RinvT")
    let L : Mat p k CF := rotLoadings comps0 expvar0 R
    let rc : Mat p k CF := rotComps (ρ := Float) L
    let ev : Fin k → Float := rotExpvar L
    let sgn : Fin k → Float := fun jj => csignOfCol rc jj
    let idx : List (Fin k) := (List.finRange k).mergeSort (fun a b => ev a ≥ ev b)
    let perm : Fin k → Fin k := fun jj => idx.getD jj.val jj
    let F : RotFit n p k Float CF := rotFit comps0 expvar0 scores0 svals0 R RinvT sgn perm
    let X := cmatOfBits m p (getStrArr j "X")
    let tf := rotTransform F comps0 svals0 RinvT perm X
    Json.mkObj [("status", "ok"), ("comps", toJson (cmatToBits F.comps)), ("scores", toJson (cmatToBits F.scores)),
      ("expvar", toJson (vecToBits F.expvar)), ("norms", toJson (vecToBits F.norms)), ("sgn", toJson (vecToBits F.sgn)),
      ("perm", toJson ((List.finRange k).map fun jj => (perm jj).val)),
      ("transform", toJson (cmatToBits tf)), ("inverse", toJson (cmatToBits (rotInverse F tf))),
      ("uses_inverse", Gen.rotatorSingleUsesInverse (getInt j "power"))]
  | "crot" =>
    -- CPCCARotator: fit (rotated vectors, scores, norms, squared covariance, signs, order) and transform of both fields
    let n := getNat j "n"; let p := getNat j "p"; let q := getNat j "q"; let p' := getNat j "pw"; let q' := getNat j "qw"
    let k := getNat j "k"; let m := getNat j "m"
    let A1 := cmatOfBits p p' (getStrArr j "A1"); let A2 := cmatOfBits q q' (getStrArr j "A2")
    let B1 := cmatOfBits p' p (getStrArr j "B1"); let B2 := cmatOfBits q' q (getStrArr j "B2")
    let Q1 := cmatOfBits p' k (getStrArr j "Q1"); let Q2 := cmatOfBits q' k (getStrArr j "Q2")
    let S1 := cmatOfBits n k (getStrArr j "S1"); let S2 := cmatOfBits n k (getStrArr j "S2")
    let sA := (getStrArr j "s").map bitsToFloat
    let s : Fin k → Float := fun i => sA[i.val]!
    let R := cmatOfBits k k (getStrArr j "R"); let RinvT := cmatOfBits k k (getStrArr j "RinvT")
    let RL : Mat (p + q) k CF := crotLoadings A1 A2 Q1 Q2 s R
    let sgn : Fin k → Float := fun jj =>
      if getBool j "realdata" then
        let (mx, mn) := colMaxMin (Mat.ofFn fun i c => (RL.get i c).re) jj
        Gen.signRuleXarrayF mx mn
      else csignOfCol RL jj
    let n1 : Fin k → Float := crotNorms (B1.mul (topRows RL)); let n2 : Fin k → Float := crotNorms (B2.mul (bottomRows RL))
    let sq : Fin k → Float := fun jj => (n1 jj * n2 jj) * (n1 jj * n2 jj)
    let idx : List (Fin k) := (List.finRange k).mergeSort (fun a b => sq a ≥ sq b)
    let perm : Fin k → Fin k := fun jj => idx.getD jj.val jj
    let F : CRotFit n p' q' k Float CF := crotFit A1 A2 B1 B2 Q1 Q2 s S1 S2 R RinvT sgn perm
    let X := cmatOfBits m p' (getStrArr j "X"); let Y := cmatOfBits m q' (getStrArr j "Y")
    Json.mkObj [("status", "ok"), ("comps1", toJson (cmatToBits F.comps1)), ("comps2", toJson (cmatToBits F.comps2)),
      ("scores1", toJson (cmatToBits F.scores1)), ("scores2", toJson (cmatToBits F.scores2)),
      ("norm1", toJson (vecToBits F.norm1)), ("norm2", toJson (vecToBits F.norm2)), ("sqcov", toJson (vecToBits F.sqcov)),
      ("sgn", toJson (vecToBits F.sgn)), ("perm", toJson ((List.finRange k).map fun jj => (perm jj).val)),
      ("tf1", toJson (cmatToBits (crotTransform F.norm1 F.sgn Q1 s RinvT perm X false))),
      ("tf2", toJson (cmatToBits (crotTransform F.norm2 F.sgn Q2 s RinvT perm Y false))),
      ("tf1n", toJson (cmatToBits (crotTransform F.norm1 F.sgn Q1 s RinvT perm X true)))]
  | "hilbert" =>
    -- _hilbert_transform_with_padding: real series y (n×p), polyfit line (c0, c1), decay; oracle analytic signal H of the padded series
    let n := getNat j "n"; let p := getNat j "p"
    if hn : 0 < n then
      let y := matOfBits n p (getStrArr j "y")
      let c0A := (getStrArr j "c0").map bitsToFloat; let c1A := (getStrArr j "c1").map bitsToFloat
      let c0 : Fin p → Float := fun f => c0A[f.val]!
      let c1 : Fin p → Float := fun f => c1A[f.val]!
      let decay := bitsToFloat (getStr j "decay")
      let padded : Mat (3 * n) p Float := padExp y c0 c1 decay hn
      if getBool j "padding" then
        let H := cmatOfBits (3 * n) p (getStrArr j "H")
        let out : Mat n p CF := hilbertCutRecentre (ρ := Float) H
        Json.mkObj [("status", "ok"), ("padded", toJson (matToBits padded)), ("out", toJson (cmatToBits out))]
      else
        let H := cmatOfBits n p (getStrArr j "H")
        let out : Mat n p CF := hilbertRecentre (ρ := Float) H
        Json.mkObj [("status", "ok"), ("padded", toJson (matToBits padded)), ("out", toJson (cmatToBits out))]
    else Json.mkObj [("status", "ValueError")]
  | "pop" =>
    -- POP without PCA: real data X (n×p, as complex with zero imaginary part); oracles Cinv, eigen-pairs (lam, P), 2×2 pinvs, arg(lam)
    let n := getNat j "n"; let p := getNat j "p"; let k := getNat j "k"
    let X := cmatOfBits n p (getStrArr j "X"); let Cinv := cmatOfBits p p (getStrArr j "Cinv")
    let P := cmatOfBits p k (getStrArr j "P")
    let lamB := getStrArr j "lam"
    let lam : Fin k → CF := fun i => cfOfBits lamB i.val
    let argA := (getStrArr j "arg").map bitsToFloat
    let argLam : Fin k → Float := fun i => argA[i.val]!
    let mi := (getStrArr j "Minv").map bitsToFloat
    let Minv : Fin k → Float × Float × Float × Float := fun i => (mi[4 * i.val]!, mi[4 * i.val + 1]!, mi[4 * i.val + 2]!, mi[4 * i.val + 3]!)
    let twoPi := bitsToFloat (getStr j "two_pi")
    let A : Mat p p CF := popFeedback X Cinv
    let Z : Mat n k CF := popCoeff X P Minv
    let nr : Fin k → Float := popNorms Z
    let idx : List (Fin k) := (List.finRange k).mergeSort (fun a b => nr a ≥ nr b)
    let perm : Fin k → Fin k := fun jj => idx.getD jj.val jj
    let F : PopFit n p k Float CF := popFit X lam argLam twoPi P Minv perm
    let sys := (List.finRange k).map fun jj => let t := popSystem (ρ := Float) P jj; [floatToBits t.1, floatToBits t.2.1, floatToBits t.2.2]
    Json.mkObj [("status", "ok"), ("A", toJson (cmatToBits A)), ("gram0", toJson (cmatToBits (lagZeroGram X))),
      ("comps", toJson (cmatToBits F.comps)), ("scores", toJson (cmatToBits F.scores)),
      ("eigenvalues", toJson (((List.finRange k).map fun jj => [floatToBits (F.eigenvalues jj).re, floatToBits (F.eigenvalues jj).im]).flatten)),
      ("norms", toJson (vecToBits F.norms)), ("damping", toJson (vecToBits F.damping)), ("periods", toJson (vecToBits F.periods)),
      ("perm", toJson ((List.finRange k).map fun jj => (perm jj).val)), ("systems", toJson sys)]
  | _ => Json.mkObj [("status", "bad-request")]

def handle (j : Json) : Json :=
  if getBool j "cplx" then handleC j else
  match getStr j "fn" with
  | "eof" =>
    -- post-processing of an oracle SVD: U (n×r), s (r), V (p×r) -> k modes
    let n := getNat j "n"; let p := getNat j "p"; let r := getNat j "r"; let k := getNat j "k"
    if h : k ≤ r then
      let U := matOfBits n r (getStrArr j "U")
      let V := matOfBits p r (getStrArr j "V")
      let sA := (getStrArr j "s").map bitsToFloat
      let s : Fin r → Float := fun i => sA[i.val]!
      let Vk := V.firstCols k h
      let useX := getStr j "rule" == "xarray"
      let sgn : Fin k → Float := fun jj =>
        let mm := colMaxMin Vk jj
        if useX then Gen.signRuleXarrayF mm.1 mm.2 else Gen.signRuleNumpyF mm.1 mm.2
      let F : EofFit n p k Float Float := eofFit h h h U s V sgn
      let total := bitsToFloat (getStr j "total")
      let m := getNat j "m"
      let Xraw := matOfBits m p (getStrArr j "X")
      -- optional Scaler in front of / behind the decomposition (per-feature fitted parameters from the real object)
      let sc := (j.getObjVal? "scaler").toOption
      let flags : ScalerFlags := match sc with
        | some o => ⟨getBool o "with_center", getBool o "with_std", getBool o "with_coslat"⟩
        | none => ⟨false, false, false⟩
      let par (o : Json) (key : String) (c : Fin p) : Float := bitsToFloat ((getStrArr o key)[c.val]!)
      let P (c : Fin p) : ScalerParams Float := match sc with
        | some o => ⟨par o "mean" c, par o "std" c, par o "coslat" c, par o "weights" c⟩
        | none => ⟨0.0, 1.0, 1.0, 1.0⟩
      let X : Mat m p Float := Mat.ofFn fun i c => scalerTransform flags (P c) (Xraw.get i c)
      let tf := eofTransform F X
      let inv0 := eofInverse F tf
      let inv : Mat m p Float := Mat.ofFn fun i c => scalerInverse flags (P c) (inv0.get i c)
      Json.mkObj [("status", "ok"), ("comps", toJson (matToBits F.comps)), ("scores", toJson (matToBits F.scores)),
        ("expvar", toJson (vecToBits F.expvar)), ("ratio", toJson (vecToBits (eofRatio F total))),
        ("sgn", toJson (vecToBits sgn)), ("transform", toJson (matToBits tf)), ("inverse", toJson (matToBits inv))]
    else Json.mkObj [("status", "ValueError")]
  | "cpcca" =>
    -- CPCCA core in the whitened space: fields X (n×p), Y (n×q); oracle SVD of the cross-covariance Q1 (p×r), s, Q2 (q×r)
    let n := getNat j "n"; let p := getNat j "p"; let q := getNat j "q"; let r := getNat j "r"; let k := getNat j "k"
    if h : k ≤ r then
      let X := matOfBits n p (getStrArr j "X"); let Y := matOfBits n q (getStrArr j "Y")
      let Q1 := matOfBits p r (getStrArr j "Q1"); let Q2 := matOfBits q r (getStrArr j "Q2")
      let sA := (getStrArr j "s").map bitsToFloat
      let s : Fin r → Float := fun i => sA[i.val]!
      let Q2k := Q2.firstCols k h
      let sgn : Fin k → Float := fun jj => let mm := colMaxMin Q2k jj; Gen.signRuleXarrayF mm.1 mm.2
      let F : CpccaFit n p q k Float Float := cpccaFit h X Y Q1 s Q2 sgn
      let m := getNat j "m"
      let Xn := matOfBits m p (getStrArr j "Xn")
      let C : Mat p q Float := crossCov (ρ := Float) X Y
      Json.mkObj [("status", "ok"), ("crosscov", toJson (matToBits C)),
        ("comps1", toJson (matToBits F.comps1)), ("comps2", toJson (matToBits F.comps2)),
        ("scores1", toJson (matToBits F.scores1)), ("scores2", toJson (matToBits F.scores2)),
        ("svals", toJson (vecToBits F.svals)), ("sqcov", toJson (vecToBits F.sqcov)),
        ("norm1", toJson (vecToBits F.norm1)), ("norm2", toJson (vecToBits F.norm2)),
        ("transform1", toJson (matToBits (cpccaTransform1 F Xn false))),
        ("transform1n", toJson (matToBits (cpccaTransform1 F Xn true))),
        ("inverse1", toJson (matToBits (cpccaInverse1 F (cpccaTransform1 F Xn false))))]
    else Json.mkObj [("status", "ValueError")]
  | "rotator" =>
    -- EOFRotator: unrotated comps0 (p×k), expvar0, scores0 (n×k), svals0; oracles R, RinvT (k×k)
    let n := getNat j "n"; let p := getNat j "p"; let k := getNat j "k"; let m := getNat j "m"
    let comps0 := matOfBits p k (getStrArr j "comps0"); let scores0 := matOfBits n k (getStrArr j "scores0")
    let evA := (getStrArr j "expvar0").map bitsToFloat; let svA := (getStrArr j "svals0").map bitsToFloat
    let expvar0 : Fin k → Float := fun i => evA[i.val]!
    let svals0 : Fin k → Float := fun i => svA[i.val]!
    let R := matOfBits k k (getStrArr j "R"); let RinvT := matOfBits k k (getStrArr j "RinvT")
    let L : Mat p k Float := rotLoadings comps0 expvar0 R
    let rc : Mat p k Float := rotComps (ρ := Float) L
    let ev : Fin k → Float := rotExpvar L
    let sgn : Fin k → Float := fun jj => let mm := colMaxMin rc jj; Gen.signRuleXarrayF mm.1 mm.2
    -- descending order of the model's own explained variances (`argsort(expvar)[::-1]`)
    let idx : List (Fin k) := (List.finRange k).mergeSort (fun a b => ev a ≥ ev b)
    let perm : Fin k → Fin k := fun jj => idx.getD jj.val jj
    let F : RotFit n p k Float Float := rotFit comps0 expvar0 scores0 svals0 R RinvT sgn perm
    let X := matOfBits m p (getStrArr j "X")
    let tf := rotTransform F comps0 svals0 RinvT perm X
    Json.mkObj [("status", "ok"), ("rot_loadings", toJson (matToBits L)), ("comps", toJson (matToBits F.comps)),
      ("scores", toJson (matToBits F.scores)), ("expvar", toJson (vecToBits F.expvar)), ("norms", toJson (vecToBits F.norms)),
      ("sgn", toJson (vecToBits F.sgn)), ("perm", toJson ((List.finRange k).map fun jj => (perm jj).val)),
      ("transform", toJson (matToBits tf)), ("inverse", toJson (matToBits (rotInverse F tf))),
      ("uses_inverse", Gen.rotatorSingleUsesInverse (getInt j "power"))]
  | "whitener" =>
    -- Whitener: centred X (n×p); oracle decomposition of its covariance V (p×p), s; alpha; patterns P (p×k); new data Xn (m×p)
    let n := getNat j "n"; let p := getNat j "p"; let k := getNat j "k"; let m := getNat j "m"
    let X := matOfBits n p (getStrArr j "X"); let V := matOfBits p p (getStrArr j "V")
    let sA := (getStrArr j "s").map bitsToFloat
    let s : Fin p → Float := fun i => sA[i.val]!
    let alpha := bitsToFloat (getStr j "alpha")
    let smax := (List.finRange p).foldl (fun a i => if s i > a then s i else a) 0.0
    let eps : Float := 2.220446049250313e-16
    let keep : Fin p → Bool := fun i => if Gen.fracPowerCutoffIsRelative then s i > eps * smax else s i > eps
    let F : WhitenFit p Float := whitenFit V s keep alpha
    let P := matOfBits p k (getStrArr j "P"); let Xn := matOfBits m p (getStrArr j "Xn")
    let Z := whitenTransform F Xn
    let C : Mat p p Float := whitenCov (ρ := Float) X
    Json.mkObj [("status", "ok"), ("cov", toJson (matToBits C)), ("T", toJson (matToBits F.T)), ("Tinv", toJson (matToBits F.Tinv)),
      ("transform", toJson (matToBits Z)), ("inverse", toJson (matToBits (whitenInverseData F Z))),
      ("tcomps", toJson (matToBits (whitenTransformComps F P))), ("icomps", toJson (matToBits (whitenInverseComps F P))),
      ("kept", toJson ((List.finRange p).filter (fun i => keep i)).length)]
  | "pca" =>
    let p := getNat j "p"; let k := getNat j "k"; let m := getNat j "m"; let r := getNat j "r"
    let V := matOfBits p k (getStrArr j "V"); let Xn := matOfBits m p (getStrArr j "Xn"); let P := matOfBits p r (getStrArr j "P")
    let Z := pcaTransform V Xn
    let Q := pcaTransformComps V P
    Json.mkObj [("status", "ok"), ("transform", toJson (matToBits Z)), ("inverse", toJson (matToBits (pcaInverseData V Z))),
      ("tcomps", toJson (matToBits Q)), ("icomps", toJson (matToBits (pcaInverseComps V Q)))]
  | "boot" =>
    -- one bootstrap member: model input D (n×p), drawn indices, oracle SVD of the centred resample, the model's scores (n×k)
    let n := getNat j "n"; let p := getNat j "p"; let r := getNat j "r"; let k := getNat j "k"
    if h : k ≤ r then
      if hn : 0 < n then
        let D := matOfBits n p (getStrArr j "D")
        let idxA := getNatArr j "idx"
        let idx : Fin n → Fin n := fun i => ⟨(idxA[i.val]!) % n, Nat.mod_lt _ hn⟩
        let U := matOfBits n r (getStrArr j "U"); let V := matOfBits p r (getStrArr j "V")
        let sA := (getStrArr j "s").map bitsToFloat
        let s : Fin r → Float := fun i => sA[i.val]!
        let Ms := matOfBits n k (getStrArr j "model_scores")
        let sd : Fin k → Float := fun jj => let mm := colMaxMin (V.firstCols k h) jj; Gen.signRuleXarrayF mm.1 mm.2
        -- alignment: sign of the (uncentred) product moment of member scores and model scores
        let M0 : BootMember n p k Float Float := bootMember h D idx U s V sd (fun _ => 1.0)
        let sa : Fin k → Float := fun jj =>
          let c := (List.finRange n).foldl (fun acc i => acc + M0.scores.get i jj * Ms.get i jj) 0.0
          if c > 0.0 then 1.0 else if c < 0.0 then -1.0 else 0.0
        let M : BootMember n p k Float Float := bootMember h D idx U s V sd sa
        let Rc : Mat n p Float := bootDecomposed (ρ := Float) D idx
        Json.mkObj [("status", "ok"), ("decomposed", toJson (matToBits Rc)), ("comps", toJson (matToBits M.comps)),
          ("scores", toJson (matToBits M.scores)), ("expvar", toJson (vecToBits M.expvar)), ("total", floatToBits M.total)]
      else Json.mkObj [("status", "ValueError")]
    else Json.mkObj [("status", "ValueError")]
  | "opa" =>
    -- OPA after its PCA step: scaled PCs S (n×q), scaled EOFs C (p×q); oracles Cinv (q×q), eigenvectors Ue (q×k), eigenvalues
    let n := getNat j "n"; let p := getNat j "p"; let q := getNat j "q"; let k := getNat j "k"; let tauMax := getNat j "tau_max"
    let S := matOfBits n q (getStrArr j "S"); let C := matOfBits p q (getStrArr j "C")
    let Cinv := matOfBits q q (getStrArr j "Cinv"); let Ue := matOfBits q k (getStrArr j "Ue")
    let lA := (getStrArr j "lam").map bitsToFloat
    let lam : Fin k → Float := fun i => lA[i.val]!
    let F : OpaFit n p q k Float Float := opaFit S C tauMax Cinv Ue lam
    let C0 : Mat q q Float := lagCov (ρ := Float) S 0
    Json.mkObj [("status", "ok"), ("C0", toJson (matToBits C0)), ("target", toJson (matToBits F.target)),
      ("filter", toJson (matToBits F.filter)), ("comps", toJson (matToBits F.comps)), ("scores", toJson (matToBits F.scores)),
      ("norms", toJson (vecToBits F.norms)), ("decorr", toJson (vecToBits F.decorr))]
  | "mcca" =>
    -- multi.CCA: views side by side. Xpc (n×P) = what enters `_fit_algorithm` (PC scores with the PCA option), Xphys (n×Q) = stored
    -- input_data, B (Q×P) the way back from PC space; oracles: eigen-pairs E (P×k), lam0 as `eigh` returned them, shift = lmin − eps
    let n := getNat j "n"; let P := getNat j "P"; let Q := getNat j "Q"; let k := getNat j "k"; let nv := getNat j "nv"; let m := getNat j "m"
    let bP := getNatArr j "blkP"; let bQ := getNatArr j "blkQ"
    let blkP : Fin P → Nat := fun a => bP[a.val]!
    let blkQ : Fin Q → Nat := fun a => bQ[a.val]!
    let Xpc := matOfBits n P (getStrArr j "Xpc"); let Xphys := matOfBits n Q (getStrArr j "Xphys"); let B := matOfBits Q P (getStrArr j "B")
    let cA := (getStrArr j "c").map bitsToFloat
    let c : Nat → Float := fun v => cA[v]!
    let lmin := bitsToFloat (getStr j "lmin"); let eps := bitsToFloat (getStr j "eps")
    let evA := (getStrArr j "expvar").map bitsToFloat
    let E := matOfBits P k (getStrArr j "E"); let l0 := (getStrArr j "lam0").map bitsToFloat
    let lam0 : Fin k → Float := fun i => l0[i.val]!
    let Xnew := matOfBits m Q (getStrArr j "Xnew")
    let C : Mat P P Float := mccaC (ρ := Float) Xpc blkP nv
    let D : Mat P P Float := if getBool j "pca" then mccaDpca (ρ := Float) blkP nv c (fun a => evA[a.val]!) lmin eps
                             else mccaD (ρ := Float) Xpc blkP nv c lmin eps
    -- `eigvals.argsort()[::-1]`: ascending stable order, reversed
    let asc : List (Fin k) := (List.finRange k).mergeSort (fun a b => lam0 a ≤ lam0 b)
    let idx := asc.reverse
    let perm : Fin k → Fin k := fun jj => idx.getD jj.val jj
    let F : MccaFit n Q k Float Float := mccaFit Xphys blkQ B E lam0 perm
    let vs := List.range nv
    Json.mkObj [("status", "ok"), ("C", toJson (matToBits C)), ("D", toJson (matToBits D)), ("lam", toJson (vecToBits F.lam)),
      ("subset", toJson [Gen.mccaSubsetLow P k, Gen.mccaSubsetHigh P]),
      ("weights", toJson (matToBits F.weights)),
      ("loadings", toJson (vs.map fun v => matToBits (F.loadings v))),
      ("variates", toJson (vs.map fun v => matToBits (F.variates v))),
      ("canload", toJson (vs.map fun v => matToBits (F.canLoad v))),
      ("expvar", toJson (vs.map fun v => vecToBits (F.expvar v))),
      ("transform", toJson (vs.map fun v => matToBits (mccaTransform F blkQ Xnew v)))]
  | "eeof" =>
    let n := getNat j "n"; let p := getNat j "p"; let tau := getNat j "tau"; let emb := getNat j "embedding"
    let X := matOfBits n p (getStrArr j "X")
    let E : Mat (Gen.eeofSamplesKept n emb tau) (emb * p) Float := embedMatrix X tau emb
    Json.mkObj [("status", "ok"), ("rows", toJson (Gen.eeofSamplesKept n emb tau)), ("cols", toJson (emb * p)), ("E", toJson (matToBits E))]
  | "scaler" =>
    let f : ScalerFlags := ⟨getBool j "with_center", getBool j "with_std", getBool j "with_coslat"⟩
    let P : ScalerParams Float := ⟨bitsToFloat (getStr j "mean"), bitsToFloat (getStr j "std"), bitsToFloat (getStr j "coslat"), bitsToFloat (getStr j "weights")⟩
    let xs := (getStrArr j "x").map bitsToFloat
    let ys := xs.map (scalerTransform f P)
    let back := ys.map (scalerInverse f P)
    Json.mkObj [("status", "ok"), ("y", toJson (ys.map floatToBits)), ("back", toJson (back.map floatToBits))]
  | "threshold" =>
    let cum := (getIntArr j "cum").toList
    let r := if getStr j "which" == "svd" then Gen.nModesRequiredSVD (getInt j "k") cum (getInt j "f")
             else Gen.nModesRequiredDecomposer (getInt j "k") cum (getInt j "f")
    Json.mkObj [("status", "ok"), ("n", toJson r.1), ("warn", r.2)]
  | "sanity" =>
    let v := pyOfJson ((j.getObjVal? "v").toOption.getD Json.null)
    let r := match getStr j "which" with
      | "n_modes" => (Gen.sanityCheckNModes v).errName
      | "input_type" => (Gen.validateInputType v).errName
      | "dim_type" => (Gen.convertToDimType v).errName
      | _ => "?"
    Json.mkObj [("status", r)]
  | "policy" =>
    let r := if getStr j "which" == "svd" then Gen.useExactSVD (getStr j "solver") (getBool j "small") (getBool j "dask") (getInt j "nPre") (getInt j "rank")
             else Gen.useExactDecomposer (getStr j "solver") (getBool j "small") (getBool j "dask") (getInt j "nPre") (getInt j "rank")
    let rk := Gen.rankCheckDecomposer (getInt j "nPre") (getInt j "rank")
    match r with
    | .ok b => Json.mkObj [("status", "ok"), ("exact", b), ("rank", rk.errName)]
    | .error e => Json.mkObj [("status", e.name), ("rank", rk.errName)]
  | "guards" =>
    Json.mkObj [("status", "ok"), ("length", (Gen.transformLengthGuard (getInt j "lenX") (getInt j "nData")).errName),
      ("alpha", (Gen.whitenerAlphaGuard (getInt j "alpha")).errName),
      ("rot_single", (Gen.rotatorModesGuardSingle (getInt j "nModes") (getInt j "nModel")).errName),
      ("rot_cross", (Gen.rotatorModesGuardCross (getInt j "nModes") (getInt j "nModel")).errName)]
  | "history" =>
    let ops := ((j.getObjValAs? (Array Json) "ops").toOption.getD #[]).toList.map opOfJson
    let r := H2.run H2.current H2.init ops
    Json.mkObj [("status", "ok"), ("answers", toJson r.2), ("facts_good", decide (H2.current = H2.good))]
  | "codec" =>
    -- oracle answers for str()/literal_eval are supplied by the harness: "pystr" for the value, "lit" for the string that is decoded
    let a := attrOfJson ((j.getObjVal? "v").toOption.getD Json.null)
    let pystr := getStr j "pystr"
    let litOk := getBool j "lit_ok"
    let litVal := attrOfJson ((j.getObjVal? "lit").toOption.getD Json.null)
    let enc := Codec2.sanitize (fun _ => pystr) a
    match Codec2.desanitize (fun _ => if litOk then .ok litVal else .error .ValueError) enc with
    | .ok v => Json.mkObj [("status", "ok"), ("enc", attrToJson enc), ("dec", attrToJson v)]
    | .error _ => Json.mkObj [("status", "error"), ("enc", attrToJson enc)]
  | "lazy" =>
    let c : Lazy2.Cfg := ⟨getBool j "compute", getBool j "check_nans", getBool j "variance", getBool j "dask"⟩
    Json.mkObj [("status", "ok"), ("forces", toJson (Lazy2.forceLog Gen.forcingSites c).length), ("guarded", Lazy2.guarded Gen.forcingSites)]
  | "formulas" =>
    let x := bitsToFloat (getStr j "x"); let y := bitsToFloat (getStr j "y")
    Json.mkObj [("status", "ok"),
      ("eofExpVar", floatToBits (Gen.eofExpVar x y)), ("rotatorNorm", floatToBits (Gen.rotatorNorm x y)),
      ("popDampingTime", floatToBits (Gen.popDampingTime x)), ("popPeriod", floatToBits (Gen.popPeriod x y)),
      ("whitenerPower", floatToBits (Gen.whitenerPower x)), ("whitenerCovDenominator", floatToBits (Gen.whitenerCovDenominator y)), ("crossCovDenominator", floatToBits (Gen.crossCovDenominator x)),
      ("thresholdFraction", floatToBits (Gen.thresholdFractionDecomposer x y (bitsToFloat (getStr j "z")))),
      ("opaWeight2", toJson (Gen.opaLagWeightTimesTwo (getNat j "tau") (getNat j "tauMax"))),
      ("opaDen", toJson (Gen.opaLagDenominator (getNat j "n") (getNat j "tau"))),
      ("eeofKept", toJson (Gen.eeofSamplesKept (getNat j "n") (getNat j "embedding") (getNat j "tau")))]
  | "sanitizer" =>
    -- `Sanitizer.transform` on a validity mask (rows = samples), fitted on `fit` (validity mask of the fit data)
    let m := getNat j "m"
    let toMask (k : String) : List (List Bool) :=
      (((j.getObjValAs? (Array (Array Bool)) k).toOption.getD #[]).toList.map (·.toList))
    let fitValid := S.validFeatures (toMask "fit") m
    match S.sanitizerTransform fitValid (toMask "new") m with
    | .ok (rs, cs) => Json.mkObj [("status", "ok"), ("rows", toJson rs), ("cols", toJson cs)]
    | .error e => Json.mkObj [("status", e)]
  | "frame" =>
    -- labelled frame: drop invalid rows/cols, read back by label
    let rows := (getStrArr j "rows").toList.map fun s => [s]
    let cols := (getStrArr j "cols").toList.map fun s => [s]
    let okS := (getBoolArr j "okS"); let okF := (getBoolArr j "okF")
    let vals := (getStrArr j "vals")
    let nc := cols.length
    let F : S.Frame String := { rows := rows, cols := cols, val := fun s f =>
      match (List.idxOf? s rows), (List.idxOf? f cols) with | some i, some jj => vals[i * nc + jj]! | _, _ => "?" }
    let G := F.sanitize (fun s => match (List.idxOf? s rows) with | some i => okS[i]! | none => false)
                        (fun f => match (List.idxOf? f cols) with | some i => okF[i]! | none => false)
    let out := rows.map fun s => cols.map fun f => S.readBack G.rows G.cols G.toMat "nan" s f
    -- the labelled data that came back, projected again by the fitted frame (labels looked up in the fitted order)
    let again := S.transformBy G.cols G.rows (S.readBack G.rows G.cols G.toMat "nan")
    Json.mkObj [("status", "ok"), ("shape", toJson [G.rows.length, G.cols.length]), ("back", toJson out),
                ("mat", toJson G.toMat), ("again", toJson again), ("training", toJson (S.transformBy G.cols G.rows G.val))]
  | _ => Json.mkObj [("status", "bad-request")]

partial def loop (hin hout : IO.FS.Stream) : IO Unit := do
  let line ← hin.getLine
  if line.isEmpty then return ()
  match Json.parse line with
  | .error e => hout.putStrLn (Json.compress (Json.mkObj [("status", "parse-error"), ("msg", e)]))
  | .ok j => hout.putStrLn (Json.compress (handle j))
  hout.flush
  loop hin hout

def main : IO Unit := do loop (← IO.getStdin) (← IO.getStdout)
