import XeofsModel.EofModel
open Lean XM EofModel

def getArr (j : Json) (k : String) : Array String := (j.getObjValAs? (Array String) k).toOption.getD #[]
def getNat (j : Json) (k : String) : Nat := (j.getObjValAs? Nat k).toOption.getD 0
def getBool (j : Json) (k : String) : Bool := (j.getObjValAs? Bool k).toOption.getD false

partial def loop (hin hout : IO.FS.Stream) : IO Unit := do
  let line ← hin.getLine
  if line.isEmpty then return ()
  match Json.parse line with
  | .error e => hout.putStrLn (Json.compress (Json.mkObj [("error", e)])); hout.flush; loop hin hout
  | .ok j =>
    let n := getNat j "n"; let p := getNat j "p"; let k := getNat j "k"
    let X0 := matOfBits n p (getArr j "bits")
    let X := if getBool j "center" then center X0 else X0
    -- ask the oracle for a thin SVD of the matrix the model will decompose
    hout.putStrLn (Json.compress (Json.mkObj [("oracle", "svd"), ("n", n), ("p", p), ("bits", toJson (matToBits X))]))
    hout.flush
    let ans ← hin.getLine
    match Json.parse ans with
    | .error e => hout.putStrLn (Json.compress (Json.mkObj [("error", e)])); hout.flush
    | .ok a =>
      let r := getNat a "r"
      if h : k ≤ r then
        let U := matOfBits n r (getArr a "U")
        let sArr := (getArr a "s").map bitsToFloat
        let s : Fin r → Float := fun i => sArr[i.val]!
        let Vt := matOfBits r p (getArr a "Vt")
        -- re-check the oracle answer against its Spec: ‖X − U diag(s) Vt‖_max
        let rec_ := (U.scaleCols s).mul Vt
        let resid := (List.finRange n).foldl (fun acc i => (List.finRange p).foldl (fun acc j => max acc ((X.get i j - rec_.get i j).abs)) acc) 0.0
        let o := eofFromSVD k h X U s Vt
        hout.putStrLn (Json.compress (Json.mkObj [
          ("comps", toJson (matToBits o.comps)), ("scores", toJson (matToBits o.scores)),
          ("svals", toJson ((List.finRange k).map (fun j => floatToBits (o.svals j))).toArray),
          ("expvar", toJson ((List.finRange k).map (fun j => floatToBits (o.expvar j))).toArray),
          ("totvar", floatToBits o.totvar), ("svd_residual", floatToBits resid)]))
        hout.flush
      else
        hout.putStrLn (Json.compress (Json.mkObj [("status", "ValueError")])); hout.flush
    loop hin hout

def main : IO Unit := do loop (← IO.getStdin) (← IO.getStdout)
