import XeofsModel.Mat
import XeofsModel.Generated.Formulas
/-! Executable model of `OPA._fit_algorithm` after the PCA step (real data only, as the source asserts): lagged covariances
`_Ctau` with the generated denominator, the trapezoidal lag sum with the generated weights, the matrix handed to the symmetric
eigen-solver, filter patterns, optimally persistent patterns, their time series and norms. ORACLES: the inverse `Cinv` of
`C0_sqrt = U sqrt(s)` (so `Cinv C0 Cinvᵀ = 1`) (from the decomposition of `C0`) and the descending eigen-pairs `(Ue, lam)` of the target matrix. -/
namespace XM
open Mat
variable {ρ α : Type} [Num ρ] [Entry ρ α] {n p q k : Nat}

/-- `_Ctau(X, tau)`: products of the series with its copy shifted by `tau`, over the `n - tau` overlapping samples, divided by
`Gen.opaLagDenominator n tau` -/
def lagCov (S : Mat n q α) (tau : Nat) : Mat q q α :=
  ofFn fun a b =>
    Entry.divReal
      (sumFin n fun t => if h : t.val + tau < n then S.get t a * S.get ⟨t.val + tau, h⟩ b else (Zero.zero : α))
      (Num.ofNat (Gen.opaLagDenominator n tau) : ρ)

/-- weight of lag `tau` in the lag sum: half of `Gen.opaLagWeightTimesTwo` -/
def lagWeight (tau tauMax : Nat) : ρ := Num.ofNat (Gen.opaLagWeightTimesTwo tau tauMax) / Num.ofNat 2

/-- `M = 0.5*C0 + C1 + … + 0.5*C_taumax` -/
def opaM (S : Mat n q α) (tauMax : Nat) : Mat q q α :=
  (List.range (tauMax + 1)).foldl
    (fun acc tau => acc.add ((lagCov (ρ := ρ) S tau).scaleCols fun _ => Entry.ofReal (lagWeight (ρ := ρ) tau tauMax)))
    (ofFn fun _ _ => (Zero.zero : α))

/-- transpose without conjugation (`M.data.T`) -/
def transposeM {a b : Nat} (A : Mat a b α) : Mat b a α := ofFn fun i j => A.get j i

/-- the matrix handed to `eigh`: `0.5 * Cinv @ (M + M.T) @ Cinv.T` (as the source contracts the dimensions: the second factor over
its FEATURE index) -/
def opaTarget (Cinv : Mat q q α) (M : Mat q q α) : Mat q q α :=
  (((Cinv.mul (M.add (transposeM M))).mul (transposeM Cinv))).scaleCols fun _ => Entry.ofReal (Num.ofNat 1 / Num.ofNat 2 : ρ)

structure OpaFit (n p q k : Nat) (ρ α : Type) where
  target : Mat q q α
  filterPC : Mat q k α        -- V in PC space
  filter : Mat p k α          -- filter patterns in feature space
  comps : Mat p k α           -- optimally persistent patterns
  scores : Mat n k α
  norms : Fin k → ρ
  decorr : Fin k → ρ

def opaFit (S : Mat n q α) (C : Mat p q α) (tauMax : Nat) (Cinv : Mat q q α) (Ue : Mat q k α) (lam : Fin k → ρ) :
    OpaFit n p q k ρ α :=
  let V := (transposeM Cinv).mul Ue   -- `C0_sqrt_inv.T @ U`: contraction over the mode index of the inverse square root
  let W := (lagCov (ρ := ρ) S 0).mul V
  let P := S.mul V
  { target := opaTarget (ρ := ρ) Cinv (opaM (ρ := ρ) S tauMax)
    filterPC := V
    filter := C.mul V
    comps := C.mul W
    scores := P
    norms := fun j => Num.sqrt (Fin.foldl n (fun acc i => acc + (Entry.normSq (P.get i j) : ρ)) (Num.ofNat 0))
    decorr := lam }
end XM
