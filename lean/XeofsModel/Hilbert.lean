import XeofsModel.Mat
/-! Executable model of `_hilbert_transform_with_padding` (HilbertEOF / Hilbert cross-set models): exponential padding around a
linear fit (`_pad_exp`), the analytic signal of the padded series (ORACLE: `scipy.signal.hilbert`, specification: its real part is
its input), removal of the padding, and the re-centring of the imaginary part per feature. The straight line is the ORACLE
`polyfit` (intercept `c0 f`, slope `c1 f` per feature). -/
namespace XM
open Mat
variable {ρ α : Type} [Num ρ] [Entry ρ α] {n p : Nat}

/-- value of the fitted line of feature `f` at abscissa `x` (may be negative: the padding extends to the left) -/
def lineAt (c0 c1 : Fin p → ρ) (f : Fin p) (x : Int) : ρ :=
  c0 f + c1 f * (if x ≥ 0 then Num.ofNat x.toNat else -(Num.ofNat (-x).toNat))

/-- `exp(-x / n / decay)` for `x = 0 … n-1` -/
def padDecay (n : Nat) (decay : ρ) (x : Nat) : ρ := Num.exp (-(Num.ofNat x) / Num.ofNat n / decay)

/-- `_pad_exp`: `3n` rows — the anomaly at the first (last) sample decaying away from the series on the left (right), the
series itself in the middle, everything on top of the extended line -/
def padExp (y : Mat n p ρ) (c0 c1 : Fin p → ρ) (decay : ρ) (hn : 0 < n) : Mat (3 * n) p ρ :=
  ofFn fun i f =>
    let x : Int := (i.val : Int) - (n : Int)            -- abscissa of row i in `x_ext = arange(-n, 2n)`
    let line := lineAt c0 c1 f x
    let first : Fin n := ⟨0, hn⟩
    let last : Fin n := ⟨n - 1, Nat.sub_lt hn Nat.one_pos⟩
    if h1 : i.val < n then
      -- pad_pre = amp_pre * exp_ext[::-1] : row i uses exp_ext[n - 1 - i]
      (y.get first f - lineAt c0 c1 f 0) * padDecay n decay (n - 1 - i.val) + line
    else if h2 : i.val < 2 * n then
      (y.get ⟨i.val - n, by omega⟩ f - line) + line        -- `y_ano + yfit_ext` (the anomaly, put back on the line)
    else
      (y.get last f - lineAt c0 c1 f ((n : Int) - 1)) * padDecay n decay (i.val - 2 * n) + line

/-- cut the analytic signal of the padded series back to the original rows and re-centre its imaginary part per feature -/
def hilbertCutRecentre (H : Mat (3 * n) p α) : Mat n p α :=
  let cut : Mat n p α := ofFn fun t f => H.get ⟨n + t.val, by omega⟩ f
  let imMean : Fin p → ρ := fun f => (Fin.foldl n (fun acc t => acc + (Entry.im (cut.get t f) : ρ)) (Num.ofNat 0)) / Num.ofNat n
  ofFn fun t f => Entry.ofParts (Entry.re (cut.get t f) : ρ) ((Entry.im (cut.get t f) : ρ) - imMean f)

/-- without padding: only the re-centring -/
def hilbertRecentre (H : Mat n p α) : Mat n p α :=
  let imMean : Fin p → ρ := fun f => (Fin.foldl n (fun acc t => acc + (Entry.im (H.get t f) : ρ)) (Num.ofNat 0)) / Num.ofNat n
  ofFn fun t f => Entry.ofParts (Entry.re (H.get t f) : ρ) ((Entry.im (H.get t f) : ρ) - imMean f)
end XM
