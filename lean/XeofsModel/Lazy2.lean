import XeofsModel.Generated.Facts
/-! C12: where does `fit` materialise a lazy (dask-backed) array?  An effect log over the forcing sites that the
translator extracts from the fit paths of the source, each with the option that guards it. Core only, executable. -/
namespace Lazy2

structure Cfg where
  compute : Bool
  checkNans : Bool
  varianceThreshold : Bool      -- n_modes given as a float (refused for dask input)
  isDask : Bool
  deriving DecidableEq, Repr

/-- does a site under guard class `g` fire for configuration `c`? (unrecognised guards are treated as unguarded) -/
def fires (c : Cfg) (g : String) : Bool :=
  if g == "compute" then c.compute
  else if g == "check_nans" then c.checkNans
  else if g == "variance_threshold" then c.varianceThreshold
  else true

/-- the computations a fit on dask-backed data triggers -/
def forceLog (sites : List (String × String)) (c : Cfg) : List String :=
  if c.isDask then (sites.filter fun s => fires c s.2).map (·.1) else []

def guarded (sites : List (String × String)) : Bool :=
  sites.all fun s => s.2 == "compute" || s.2 == "check_nans" || s.2 == "variance_threshold"

/-- `input_data` is stored with `allow_compute = False`; `compute()` loads exactly the entries that allow it -/
def computeLoads (entries : List (String × Bool)) : List String := (entries.filter (·.2)).map (·.1)
end Lazy2
