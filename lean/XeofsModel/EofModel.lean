import XeofsModel.Mat
import Lean.Data.Json
/-! scratch: executable EOF model over Float with an SVD oracle on stdin/stdout -/
open Lean XM

namespace EofModel

def bitsToFloat (s : String) : Float := Float.ofBits (s.toNat!).toUInt64
def floatToBits (x : Float) : String := toString x.toBits.toNat

def matOfBits (n m : Nat) (bits : Array String) : Mat n m Float :=
  Mat.ofFn fun i j => bitsToFloat (bits[i.val * m + j.val]!)

def matToBits {n m : Nat} (A : Mat n m Float) : Array String := Id.run do
  let mut out := #[]
  for i in List.finRange n do
    for j in List.finRange m do
      out := out.push (floatToBits (A.get i j))
  return out

/-- column mean (skipping nothing: the scratch model has no NaNs) -/
def colMean {n m : Nat} (A : Mat n m Float) (j : Fin m) : Float :=
  Mat.sumFin n (fun i => A.get i j) / n.toFloat

def center {n m : Nat} (A : Mat n m Float) : Mat n m Float :=
  Mat.ofFn fun i j => A.get i j - colMean A j

/-- `var(ddof=1).sum()` -/
def totalVariance {n m : Nat} (A : Mat n m Float) : Float :=
  Mat.sumFin m fun j =>
    let mu := colMean A j
    Mat.sumFin n (fun i => (A.get i j - mu) * (A.get i j - mu)) / (n.toFloat - 1)

/-- sign rule as in `get_deterministic_sign_multiplier`: +1 iff |max| ≥ |min| -/
def signOfCol {p k : Nat} (V : Mat p k Float) (j : Fin k) : Float :=
  let col := (List.finRange p).map fun i => V.get i j
  let mx := col.foldl max (col.headD 0.0)
  let mn := col.foldl min (col.headD 0.0)
  if mx.abs >= mn.abs then 1.0 else -1.0

structure Out (n p k : Nat) where
  comps : Mat p k Float
  scores : Mat n k Float
  svals : Fin k → Float
  expvar : Fin k → Float
  totvar : Float

/-- EOF post-processing given the oracle's thin SVD (U n×r, s, Vt r×p), truncated to k modes -/
def eofFromSVD {n p r : Nat} (k : Nat) (hk : k ≤ r) (X : Mat n p Float) (U : Mat n r Float) (s : Fin r → Float)
    (Vt : Mat r p Float) : Out n p k :=
  let emb : Fin k → Fin r := fun j => ⟨j.val, Nat.lt_of_lt_of_le j.isLt hk⟩
  let V : Mat p k Float := Mat.ofFn fun i j => Vt.get (emb j) i
  let sg : Fin k → Float := fun j => signOfCol V j
  { comps := Mat.ofFn fun i j => V.get i j * sg j
    scores := Mat.ofFn fun i j => U.get i (emb j) * sg j * s (emb j)
    svals := fun j => s (emb j)
    expvar := fun j => s (emb j) * s (emb j) / (n.toFloat - 1)
    totvar := totalVariance X }
end EofModel
