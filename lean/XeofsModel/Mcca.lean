import XeofsModel.Mat
import XeofsModel.Generated.Formulas
/-! Executable model of `xeofs.multi.CCA` (multi-set CCA after Chapman's MCCA): the views live side by side in ONE matrix
`X : Mat n P α` (all views share the samples) and `blk a` says which view column `a` belongs to.  Modelled: `np.cov`
(centred, N−1), the matrix `_C` (covariance of all views minus its diagonal blocks, over the number of views), `_D`
(regularised diagonal blocks, shifted by the smallest eigenvalue and `eps`, over the number of views; with the PCA option the
blocks are diagonal in the PCs' explained variances), the descending re-ordering of the eigen-pairs, the split into weights per
view, the way back from PC space, loadings (unit-norm weights per view), variates, canonical loadings, explained variances,
`transform`.  ORACLES: the eigen-pairs `eigh(C, D)` returned (`lam`, `E`), `min(0, smallest eigenvalue of the blocks)`. -/
namespace XM
open Mat
variable {ρ α : Type} [Num ρ] [Entry ρ α] {n m P Q k : Nat}

/-- transpose without conjugation -/
def transposeV {a b : Nat} (A : Mat a b α) : Mat b a α := ofFn fun i j => A.get j i

/-- column mean -/
def colMean (X : Mat n P α) (a : Fin P) : α := Entry.divReal (sumFin n fun t => X.get t a) (Num.ofNat n : ρ)

/-- `np.cov(X, rowvar=False)` for real data: centred products over `n − 1` -/
def npCov (X : Mat n P α) : Mat P P α :=
  ofFn fun a b =>
    Entry.divReal (sumFin n fun t => (X.get t a - colMean (ρ := ρ) X a) * (X.get t b - colMean (ρ := ρ) X b))
      (Num.ofNat (n - 1) : ρ)

/-- `_C`: `(cov(all views) − blockdiag(cov(view_i))) / n_views` -/
def mccaC (X : Mat n P α) (blk : Fin P → Nat) (nv : Nat) : Mat P P α :=
  let Call : Mat P P α := npCov (ρ := ρ) X
  ofFn fun a b =>
    Entry.divReal (Call.get a b - (if blk a = blk b then Call.get a b else (Zero.zero : α))) (Num.ofNat nv : ρ)

/-- `_D` without PCA (real data, as the source asserts): `blockdiag((1 − c_i) cov(view_i) + c_i I)` — entry by entry the generated
`Gen.mccaRidge` — minus `Gen.mccaShift lmin eps` on the diagonal (`lmin = min(0, smallest eigenvalue)` is an ORACLE), over the
number of views -/
def mccaD [Entry ρ ρ] (X : Mat n P ρ) (blk : Fin P → Nat) (nv : Nat) (c : Nat → ρ) (lmin eps : ρ) : Mat P P ρ :=
  let Call : Mat P P ρ := npCov (ρ := ρ) X
  ofFn fun a b =>
    let blockEntry : ρ :=
      if blk a = blk b then Gen.mccaRidge (c (blk a)) (Call.get a b) (if a = b then Num.ofNat 1 else Num.ofNat 0)
      else Num.ofNat 0
    (blockEntry - (if a = b then Gen.mccaShift lmin eps else Num.ofNat 0)) / Num.ofNat nv

/-- `_D` with the PCA option: the blocks are `diag(Gen.mccaRidgePca c_i expvar)` -/
def mccaDpca (blk : Fin P → Nat) (nv : Nat) (c : Nat → ρ) (expvar : Fin P → ρ) (lmin eps : ρ) : Mat P P ρ :=
  ofFn fun a b =>
    ((if a = b then Gen.mccaRidgePca (c (blk a)) (expvar a) else Num.ofNat 0)
      - (if a = b then Gen.mccaShift lmin eps else Num.ofNat 0)) / Num.ofNat nv

/-- the columns of view `v` only (the others zeroed): `eigvecs.isel(feature = slice(idx[v], idx[v+1]))` embedded in place -/
def viewPart (W : Mat P k α) (blk : Fin P → Nat) (v : Nat) : Mat P k α :=
  ofFn fun a j => if blk a = v then W.get a j else (Zero.zero : α)

/-- norm of the weights of view `v` per mode -/
def viewNorm (W : Mat P k α) (blk : Fin P → Nat) (v : Nat) : Fin k → ρ := fun j =>
  Num.sqrt (Fin.foldl P (fun acc a => acc + (if blk a = v then (Entry.normSq (W.get a j) : ρ) else Num.ofNat 0)) (Num.ofNat 0))

/-- variance along the samples with `ddof` (`DataArray.var`) -/
def colVar (Z : Mat n k α) (ddof : Nat) : Fin k → ρ := fun j =>
  let mu : α := colMean (ρ := ρ) Z j
  (Fin.foldl n (fun acc t => acc + (Entry.normSq (Z.get t j - mu) : ρ)) (Num.ofNat 0)) / Num.ofNat (n - ddof)

structure MccaFit (n Q k : Nat) (ρ α : Type) where
  lam : Fin k → ρ                       -- eigenvalues, descending
  weights : Mat Q k α                   -- physical (preprocessed) feature space, all views side by side
  /-- per view (indexed by the view number): loadings, variates, canonical loadings, explained variance -/
  loadings : Nat → Mat Q k α
  variates : Nat → Mat n k α
  canLoad : Nat → Mat Q k α
  expvar : Nat → Fin k → ρ

/-- `CCA._fit_algorithm` after the eigen-solver: `E`/`lam0` are the eigen-pairs as `eigh` returned them, `perm` the descending
order; `B` maps PC space back to feature space (identity without the PCA option); `Xphys` is the stored `input_data` (all views
side by side, `blkQ` its view map) -/
def mccaFit (Xphys : Mat n Q α) (blkQ : Fin Q → Nat) (B : Mat Q P α) (E : Mat P k α) (lam0 : Fin k → ρ)
    (perm : Fin k → Fin k) : MccaFit n Q k ρ α :=
  let Es : Mat P k α := ofFn fun a j => E.get a (perm j)
  let W : Mat Q k α := B.mul Es
  let lo : Nat → Mat Q k α := fun v => (viewPart (ρ := ρ) W blkQ v).divCols (viewNorm (ρ := ρ) W blkQ v)
  let va : Nat → Mat n k α := fun v => Xphys.mul (viewPart (ρ := ρ) W blkQ v)
  { lam := fun j => lam0 (perm j)
    weights := W
    loadings := lo
    variates := va
    canLoad := fun v => viewPart (ρ := ρ) ((transposeV Xphys).mul (va v)) blkQ v
    expvar := fun v => colVar (ρ := ρ) (Xphys.mul (lo v)) Gen.mccaExpvarDdof }

/-- `CCA._transform`: every view times its own weights -/
def mccaTransform (F : MccaFit n Q k ρ α) (blkQ : Fin Q → Nat) (Xnew : Mat m Q α) (v : Nat) : Mat m k α :=
  Xnew.mul (viewPart (ρ := ρ) F.weights blkQ v)
end XM
