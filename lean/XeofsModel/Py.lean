/-! A small universe of Python values and exceptions for the decision logic that the translator regenerates
from the xeofs sources (Tie A). Core only. Python floats that take part in *decisions* are represented in
fixed point (micro units, `1.0 = 1000000`): the decision logic only compares them with literals. -/
namespace Py

inductive PyErr
  | TypeError | ValueError | KeyError | IndexError | NotImplementedError | RuntimeError
  deriving DecidableEq, Repr, Inhabited

def PyErr.name : PyErr → String
  | .TypeError => "TypeError" | .ValueError => "ValueError" | .KeyError => "KeyError"
  | .IndexError => "IndexError" | .NotImplementedError => "NotImplementedError" | .RuntimeError => "RuntimeError"

/-- values that reach the validators: scalars, strings, sequences of values, and an opaque tag for
everything else (`xarr "DataArray"`, `xarr "Dataset"`, `other "ndarray"` …). -/
inductive PyVal
  | none
  | bool (b : Bool)
  | int (i : Int)
  | float (micro : Int)
  | str (s : String)
  | list (xs : List PyVal)
  | tuple (xs : List PyVal)
  | xarr (kind : String)
  | other (kind : String)
  deriving Repr, Inhabited

abbrev micro : Int := 1000000

/-- `isinstance(v, int)` (Python: `bool` is a subclass of `int`) -/
def PyVal.isInt : PyVal → Bool | .int _ => true | .bool _ => true | _ => false
def PyVal.isFloat : PyVal → Bool | .float _ => true | _ => false
def PyVal.isStr : PyVal → Bool | .str _ => true | _ => false
def PyVal.isList : PyVal → Bool | .list _ => true | _ => false
def PyVal.isTuple : PyVal → Bool | .tuple _ => true | _ => false
def PyVal.isXarray : PyVal → Bool | .xarr _ => true | _ => false
/-- the integer a Python `int` (or `bool`) compares as -/
def PyVal.asInt : PyVal → Int | .int i => i | .bool b => if b then 1 else 0 | _ => 0
def PyVal.items : PyVal → List PyVal | .list xs => xs | .tuple xs => xs | _ => []

abbrev Res (α : Type) := Except PyErr α

def raise {α} (e : PyErr) : Res α := .error e

def Res.isError {α} : Res α → Bool | .error _ => true | .ok _ => false
def Res.errName {α} : Res α → String | .error e => e.name | .ok _ => "ok"

end Py
