import XeofsModel.Eof
/-! Executable model of one member of `EOFBootstrapper.fit`: resample the model's preprocessed samples with the drawn indices
(ORACLE: `numpy.random.Generator.choice`), centre the resample (the member EOF is fitted with its default centring), take the
oracle SVD of the centred resample through `XM.eofFit`, project the ORIGINAL samples (centred with the RESAMPLE's mean, because
the member's own scaler does the centring), and align the sign of every mode with the model's scores. -/
namespace XM
open Mat

section
variable {α : Type} {n p : Nat}
/-- `input_data.isel(sample=idx)` -/
def resample (D : Mat n p α) (idx : Fin n → Fin n) : Mat n p α := ofFn fun i j => D.get (idx i) j

/-- `X - mean` -/
def centreWith [Sub α] (D : Mat n p α) (μ : Fin p → α) : Mat n p α := ofFn fun i j => D.get i j - μ j
end

variable {ρ α : Type} [Num ρ] [Entry ρ α] {n p k r : Nat}

/-- column means `X.mean(sample)` -/
def colMeans (R : Mat n p α) : Fin p → α := fun j => Entry.divReal (sumFin n fun i => R.get i j) (Num.ofNat n : ρ)

/-- `X.var(sample, ddof=1).sum()` of already centred data -/
def totalVarianceCentred (Rc : Mat n p α) : ρ :=
  Fin.foldl p (fun acc j => acc + (Fin.foldl n (fun a i => a + (Entry.normSq (Rc.get i j) : ρ)) (Num.ofNat 0)) /
    (Num.ofNat n - Num.ofNat Gen.totalVarianceDdof)) (Num.ofNat 0)

structure BootMember (n p k : Nat) (ρ α : Type) where
  comps : Mat p k α
  scores : Mat n k α
  expvar : Fin k → ρ
  total : ρ

/-- one bootstrap member; `sgnDec` is the decomposer's sign choice, `sgnAlign` the alignment with the model's scores -/
def bootMember (hk : k ≤ r) (D : Mat n p α) (idx : Fin n → Fin n) (U : Mat n r α) (s : Fin r → ρ) (V : Mat p r α)
    (sgnDec sgnAlign : Fin k → ρ) : BootMember n p k ρ α :=
  let R := resample D idx
  let μ : Fin p → α := colMeans (ρ := ρ) R
  let F : EofFit n p k ρ α := eofFit hk hk hk U s V sgnDec
  let C : Mat p k α := F.comps.scaleCols fun j => Entry.ofReal (sgnAlign j)
  { comps := C
    scores := ((centreWith D μ).mul F.comps).scaleCols fun j => Entry.ofReal (sgnAlign j)
    expvar := F.expvar
    total := totalVarianceCentred (centreWith R μ) }

/-- the matrix the member's decomposition is taken of -/
def bootDecomposed (D : Mat n p α) (idx : Fin n → Fin n) : Mat n p α :=
  centreWith (resample D idx) (colMeans (ρ := ρ) (resample D idx))
end XM
