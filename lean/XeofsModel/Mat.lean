/-! Mathlib-free generic dense matrices. -/
namespace XM

class Conj (α : Type) where
  conj : α → α

structure Mat (n m : Nat) (α : Type) where
  data : Vector (Vector α m) n

namespace Mat
variable {α : Type} {n m k : Nat}

@[inline] def get (A : Mat n m α) (i : Fin n) (j : Fin m) : α := (A.data[i])[j]
@[inline] def ofFn (f : Fin n → Fin m → α) : Mat n m α := ⟨Vector.ofFn fun i => Vector.ofFn fun j => f i j⟩

@[simp] theorem get_ofFn (f : Fin n → Fin m → α) (i : Fin n) (j : Fin m) : (ofFn f).get i j = f i j := by
  simp [get, ofFn]

def sumFin [Add α] [Zero α] (n : Nat) (f : Fin n → α) : α :=
  Fin.foldl n (fun acc i => acc + f i) 0

def mul [Add α] [Mul α] [Zero α] (A : Mat n k α) (B : Mat k m α) : Mat n m α :=
  ofFn fun i j => sumFin k fun l => A.get i l * B.get l j

def conjT [Conj α] (A : Mat n m α) : Mat m n α := ofFn fun j i => Conj.conj (A.get i j)

def scaleCols [Mul α] (A : Mat n m α) (s : Fin m → α) : Mat n m α := ofFn fun i j => A.get i j * s j
end Mat
end XM

instance : XM.Conj Float := ⟨id⟩
instance : Zero Float := ⟨0.0⟩

def testA : XM.Mat 2 2 Float := XM.Mat.ofFn fun i j => (i.val.toFloat + 1) * (j.val.toFloat + 2)

namespace XM
/-- generic EOF post-processing (Mathlib-free): scores = U * s, explained variance = s^2/(n-1) -/
def eofScores {α} [Mul α] {n k : Nat} (U : Mat n k α) (s : Fin k → α) : Mat n k α := U.scaleCols s
def eofTransform {α} [Add α] [Mul α] [Zero α] {n p k : Nat} (X : Mat n p α) (V : Mat p k α) : Mat n k α := X.mul V
end XM
