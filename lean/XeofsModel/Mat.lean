import XeofsModel.Num
/-! Mathlib-free generic dense matrices and the entry/real scalar classes shared by the executable model
(run on `Float` by the driver) and the proofs (instantiated at `ℝ` / `𝕜` in `XeofsProofs.Bridge`). -/
namespace XM

class Conj (α : Type) where
  conj : α → α

/-- entries `α` over reals `ρ` (Float/Float in the driver, ℝ/𝕜 in the proofs) -/
class Entry (ρ α : Type) extends Add α, Sub α, Mul α, Zero α, Conj α where
  ofReal : ρ → α
  /-- division of an entry by a real (`array / scalar`) -/
  divReal : α → ρ → α
  /-- squared modulus -/
  normSq : α → ρ
  /-- real and imaginary parts, and the entry with given parts -/
  re : α → ρ
  im : α → ρ
  ofParts : ρ → ρ → α

structure Mat (n m : Nat) (α : Type) where
  data : Vector (Vector α m) n

namespace Mat
variable {α : Type} {n m k : Nat}

@[inline] def get (A : Mat n m α) (i : Fin n) (j : Fin m) : α := (A.data[i])[j]
@[inline] def ofFn (f : Fin n → Fin m → α) : Mat n m α := ⟨Vector.ofFn fun i => Vector.ofFn fun j => f i j⟩

@[simp] theorem get_ofFn (f : Fin n → Fin m → α) (i : Fin n) (j : Fin m) : (ofFn f).get i j = f i j := by
  simp [get, ofFn]

def sumFin [Add α] [Zero α] (n : Nat) (f : Fin n → α) : α :=
  Fin.foldl n (fun acc i => acc + f i) 0

def mul [Add α] [Mul α] [Zero α] (A : Mat n k α) (B : Mat k m α) : Mat n m α :=
  ofFn fun i j => sumFin k fun l => A.get i l * B.get l j

def conjT [Conj α] (A : Mat n m α) : Mat m n α := ofFn fun j i => Conj.conj (A.get i j)

def scaleCols [Mul α] (A : Mat n m α) (s : Fin m → α) : Mat n m α := ofFn fun i j => A.get i j * s j

/-- every column divided by a real (`A / d` with `d` along the columns) -/
def divCols {ρ : Type} [Entry ρ α] (A : Mat n m α) (d : Fin m → ρ) : Mat n m α :=
  ofFn fun i j => Entry.divReal (A.get i j) (d j)

def sub [Sub α] (A B : Mat n m α) : Mat n m α := ofFn fun i j => A.get i j - B.get i j

def add [Add α] (A B : Mat n m α) : Mat n m α := ofFn fun i j => A.get i j + B.get i j

/-- the first `k` columns -/
def firstCols (A : Mat n m α) (k : Nat) (h : k ≤ m) : Mat n k α :=
  ofFn fun i j => A.get i ⟨j.val, Nat.lt_of_lt_of_le j.isLt h⟩

def toLists (A : Mat n m α) : List (List α) :=
  (List.finRange n).map fun i => (List.finRange m).map fun j => A.get i j
end Mat
end XM

instance : XM.Conj Float := ⟨id⟩
instance : Zero Float := ⟨0.0⟩
instance : XM.Entry Float Float :=
  { ofReal := id, divReal := fun x r => x / r, normSq := fun x => x * x, re := id, im := fun _ => 0.0, ofParts := fun a _ => a }

/-- complex doubles: the executable model's second entry type (numpy's complex128 arithmetic) -/
structure XM.CF where
  re : Float
  im : Float
deriving Inhabited

namespace XM.CF
instance : Add CF := ⟨fun a b => ⟨a.re + b.re, a.im + b.im⟩⟩
instance : Sub CF := ⟨fun a b => ⟨a.re - b.re, a.im - b.im⟩⟩
instance : Mul CF := ⟨fun a b => ⟨a.re * b.re - a.im * b.im, a.re * b.im + a.im * b.re⟩⟩
instance : Zero CF := ⟨⟨0.0, 0.0⟩⟩
instance : XM.Conj CF := ⟨fun a => ⟨a.re, -a.im⟩⟩
instance : XM.Entry Float CF :=
  { ofReal := fun x => ⟨x, 0.0⟩, divReal := fun a r => ⟨a.re / r, a.im / r⟩, normSq := fun a => a.re * a.re + a.im * a.im,
    re := fun a => a.re, im := fun a => a.im, ofParts := fun a b => ⟨a, b⟩ }
end XM.CF
