/-! Operation-only scalar class for the formulas the translator regenerates from the sources (Tie A): the SAME generated
definition is run on `Float` by the driver and reasoned about over `ℝ` in the proofs (instance in `XeofsProofs.Bridge`). -/
class Num (R : Type) extends Add R, Sub R, Mul R, Div R, Neg R where
  ofNat : Nat → R
  sqrt : R → R
  log : R → R
  abs : R → R
  /-- real power `x ** y` -/
  pow : R → R → R
  exp : R → R

instance : Num Float where
  ofNat := Nat.toFloat
  sqrt := Float.sqrt
  log := Float.log
  abs := Float.abs
  pow := Float.pow
  exp := Float.exp

namespace Num
/-- decimal literal `m / 10^d` -/
def dec {R} [Num R] (m d : Nat) : R := Num.ofNat m / Num.ofNat (10 ^ d)
end Num
