/-! toy of the C14 state machine: provenance of answers, core-only -/
namespace H
structure St where
  trs    : List Nat      -- fit id that created each per-item transformer, in list order
  nItems : Nat           -- n_data of the most recent fit
  result : Option Nat    -- fit id whose decomposition is stored in `data`
  unseen : Option Nat    -- transform-call id whose coordinates are cached
deriving DecidableEq, Repr

inductive Op | fit (id items : Nat) | transform (id : Nat) | query
deriving DecidableEq, Repr

def init : St := ⟨[], 0, none, none⟩

/-- provenance of an answer: fit ids of the transformers actually used (first `nItems`, as `zip` does)
    plus the fit id of the stored result -/
def prov (s : St) : List Nat := (s.trs.take s.nItems) ++ s.result.toList

def step (resets : Bool) (s : St) : Op → St × List Nat
  | .fit id n =>
      let trs := (if resets then [] else s.trs) ++ List.replicate n id
      let s' := { s with trs := trs, nItems := n, result := some id }
      (s', [])
  | .transform id => ({ s with unseen := some id }, prov s)
  | .query => (s, prov s)

def run (resets : Bool) (s : St) : List Op → St × List (List Nat)
  | [] => (s, [])
  | op :: ops =>
      let (s', o) := step resets s op
      let (s'', os) := run resets s' ops
      (s'', o :: os)

def noFit : List Op → Bool
  | [] => true
  | .fit _ _ :: _ => false
  | _ :: t => noFit t

theorem prov_after_fit (s : St) (id n : Nat) :
    prov (step true s (.fit id n)).1 = List.replicate n id ++ [id] := by
  simp [step, prov]

theorem nonfit_preserves (s : St) (op : Op) (h : ∀ id n, op ≠ .fit id n) :
    prov (step true s op).1 = prov s := by
  cases op with
  | fit id n => exact absurd rfl (h id n)
  | transform id => simp [step, prov]
  | query => simp [step, prov]

/-- every answer given after the last fit has exactly that fit's provenance, whatever came before -/
theorem run_nofit_outputs (s : St) (post : List Op) (hpost : noFit post = true) :
    ∀ o ∈ (run true s post).2, o = prov s := by
  induction post generalizing s with
  | nil => simp [run]
  | cons op ops ih =>
    cases op with
    | fit id n => simp [noFit] at hpost
    | transform id =>
      intro o ho
      simp only [run, List.mem_cons] at ho
      rcases ho with rfl | ho
      · simp [step]
      · have := ih (step true s (.transform id)).1 (by simpa [noFit] using hpost) o ho
        rw [this]; simp [step, prov]
    | query =>
      intro o ho
      simp only [run, List.mem_cons] at ho
      rcases ho with rfl | ho
      · simp [step]
      · have := ih (step true s .query).1 (by simpa [noFit] using hpost) o ho
        rw [this]; simp [step]

/-- every answer given after the last fit has exactly that fit's provenance, whatever came before -/
theorem last_fit_determines (pre post : List Op) (id n : Nat) (hpost : noFit post = true) (s0 : St) :
    ∀ o ∈ (run true (run true s0 (pre ++ [.fit id n])).1 post).2, o = List.replicate n id ++ [id] := by
  have hs : ∀ s, prov (run true s (pre ++ [.fit id n])).1 = List.replicate n id ++ [id] := by
    induction pre with
    | nil => intro s; simp [run, prov_after_fit]
    | cons op ops ih => intro s; simp only [List.cons_append, run]; exact ih _
  intro o ho
  rw [run_nofit_outputs _ post hpost o ho, hs]

/-- with the appending code (resets = false) the property is false: concrete two-fit history -/
example : (run false init [.fit 1 1, .fit 2 1, .query]).2 = [[], [], [1, 2]] := by decide
example : (run true  init [.fit 1 1, .fit 2 1, .query]).2 = [[], [], [2, 2]] := by decide
end H
