import XeofsModel.Generated.Formulas
/-! Executable model of `Scaler.transform` / `Scaler.inverse_transform_data`: an interpreter for the ordered operation
chains that the translator regenerates from the source (`Gen.scalerForward`, `Gen.scalerInverse`). Everything acts
entry-wise with the fitted per-feature parameters, so one entry with its parameters is the whole story. -/
namespace XM

structure ScalerParams (α : Type) where
  mean : α
  std : α
  coslat : α
  weights : α

structure ScalerFlags where
  with_center : Bool
  with_std : Bool
  with_coslat : Bool

def ScalerFlags.get (f : ScalerFlags) : String → Bool
  | "with_center" => f.with_center
  | "with_std" => f.with_std
  | "with_coslat" => f.with_coslat
  | "always" => true
  | _ => false

def ScalerParams.get {α} (P : ScalerParams α) (dflt : α) : String → α
  | "mean_" => P.mean
  | "std_" => P.std
  | "coslat_weights_" => P.coslat
  | "weights_" => P.weights
  | _ => dflt

def applyOp {α} [Add α] [Sub α] [Mul α] [Div α] (op : String) (x v : α) : α :=
  match op with
  | "sub" => x - v
  | "add" => x + v
  | "mul" => x * v
  | "div" => x / v
  | _ => x

def runChain {α} [Add α] [Sub α] [Mul α] [Div α] (chain : List (String × String × String)) (f : ScalerFlags)
    (P : ScalerParams α) (x : α) : α :=
  chain.foldl (fun acc (e : String × String × String) => if f.get e.2.2 then applyOp e.1 acc (P.get x e.2.1) else acc) x

/-- `Scaler.transform` on one entry -/
def scalerTransform {α} [Add α] [Sub α] [Mul α] [Div α] (f : ScalerFlags) (P : ScalerParams α) (x : α) : α :=
  runChain Gen.scalerForward f P x

/-- `Scaler.inverse_transform_data` on one entry -/
def scalerInverse {α} [Add α] [Sub α] [Mul α] [Div α] (f : ScalerFlags) (P : ScalerParams α) (y : α) : α :=
  runChain Gen.scalerInverse f P y
end XM
