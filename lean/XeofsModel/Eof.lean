import XeofsModel.Mat
import XeofsModel.Generated.Formulas
/-! Executable model of the EOF post-processing (`EOF._fit_algorithm`, `_transform_algorithm`,
`_inverse_transform_algorithm`, the `normalized` switches). The SVD itself is an ORACLE: `U`, `s`, `V` are inputs
constrained by `XeofsProofs.Spec.IsSVD` in the theorems and answered by numpy in the driver.  Scalar formulas come from
`Gen` (regenerated from the source). -/
namespace XM
open Mat
variable {ρ α : Type} [Num ρ] [Entry ρ α] {n p r k m : Nat}

structure EofFit (n p k : Nat) (ρ α : Type) where
  comps : Mat p k α
  scores : Mat n k α
  svals : Fin k → ρ
  expvar : Fin k → ρ

/-- truncate the decomposition to `k` modes, flip the signs `sgn` (decided by the sign rule), `scores = U * s`,
`explained variance = Gen.eofExpVar s n` -/
def eofFit {ru rv rs : Nat} (hu : k ≤ ru) (hv : k ≤ rv) (hs : k ≤ rs)
    (U : Mat n ru α) (s : Fin rs → ρ) (V : Mat p rv α) (sgn : Fin k → ρ) : EofFit n p k ρ α :=
  { comps := ofFn fun i j => V.get i (Fin.castLE hv j) * Entry.ofReal (sgn j)
    scores := ofFn fun i j => (U.get i (Fin.castLE hu j) * Entry.ofReal (sgn j)) * Entry.ofReal (s (Fin.castLE hs j))
    svals := fun j => s (Fin.castLE hs j)
    expvar := fun j => Gen.eofExpVar (s (Fin.castLE hs j)) (Num.ofNat n) }

/-- `xr.dot(X, components, dims=feature)` -/
def eofTransform (F : EofFit n p k ρ α) (X : Mat m p α) : Mat m k α := X.mul F.comps

/-- `xr.dot(comps.conj(), scores, dims="mode")` -/
def eofInverse (F : EofFit n p k ρ α) (S : Mat m k α) : Mat m p α := S.mul F.comps.conjT

/-- `scores(normalized=True)` divides by the norms; modelled multiplicatively: `scoresNormalized * norms = scores` -/
def scaleModes (S : Mat m k α) (c : Fin k → ρ) : Mat m k α := S.scaleCols fun j => Entry.ofReal (c j)

def eofRatio (F : EofFit n p k ρ α) (total : ρ) : Fin k → ρ := fun j => Gen.eofExpVarRatio (F.expvar j) total
end XM
