import XeofsModel.Mat
import XeofsModel.Generated.Formulas
/-! Executable model of `EOFRotator._fit_algorithm` / `_transform_algorithm` (and, through `EOF._inverse_transform_algorithm`,
its inverse). ORACLES: the rotation matrix `R` that Varimax/Promax converged to, and `RinvT` — `R` itself for `power = 1`,
`(R⁻¹)ᴴ` otherwise (`Gen.rotatorSingleUsesInverse`). The sign per mode and the descending order are decided by the caller
(generated sign rule; argsort of the model's own explained variances) and enter as `sgn` / `perm`. -/
namespace XM
open Mat
variable {ρ α : Type} [Num ρ] [Entry ρ α] {n p k m : Nat}

/-- column sums of squared moduli: `(abs(L) ** 2).sum(feature)` -/
def colSqSums (L : Mat p k α) : Fin k → ρ := fun j =>
  Fin.foldl p (fun acc i => acc + (Entry.normSq (L.get i j) : ρ)) (Num.ofNat 0)

/-- `loadings = components * sqrt(expvar)` then `rot_loadings = loadings @ R` -/
def rotLoadings (comps0 : Mat p k α) (expvar0 : Fin k → ρ) (R : Mat k k α) : Mat p k α :=
  (comps0.scaleCols fun j => Entry.ofReal (Gen.rotatorLoadingScale (expvar0 j))).mul R

/-- `expvar = (abs(rot_loadings) ** 2).sum(feature)` -/
def rotExpvar (L : Mat p k α) : Fin k → ρ := colSqSums L

/-- `rot_components = rot_loadings / sqrt(expvar)` (before sign and sorting) -/
def rotComps (L : Mat p k α) : Mat p k α := L.divCols fun j => Num.sqrt (rotExpvar (ρ := ρ) L j)

/-- pseudo-norms `(expvar * (n - 1)) ** 0.5` -/
def rotNorms (n : Nat) (L : Mat p k α) : Fin k → ρ := fun j => Gen.rotatorNorm (rotExpvar (ρ := ρ) L j) (Num.ofNat n)

/-- unsorted rotated scores: `(scores / svals) @ RinvT * norms` -/
def rotScoresUnsorted (scores0 : Mat n k α) (svals0 : Fin k → ρ) (RinvT : Mat k k α) (norms : Fin k → ρ) : Mat n k α :=
  ((scores0.divCols svals0).mul RinvT).scaleCols fun j => Entry.ofReal (norms j)

structure RotFit (n p k : Nat) (ρ α : Type) where
  comps : Mat p k α
  scores : Mat n k α
  expvar : Fin k → ρ
  norms : Fin k → ρ
  sgn : Fin k → ρ

/-- everything with a mode axis is signed, then sorted with `perm` (`_sort_by_variance`) -/
def rotFit (comps0 : Mat p k α) (expvar0 : Fin k → ρ) (scores0 : Mat n k α) (svals0 : Fin k → ρ) (R RinvT : Mat k k α)
    (sgn : Fin k → ρ) (perm : Fin k → Fin k) : RotFit n p k ρ α :=
  let L := rotLoadings comps0 expvar0 R
  let rc := rotComps (ρ := ρ) L
  let nr : Fin k → ρ := rotNorms n L
  let sc := rotScoresUnsorted scores0 svals0 RinvT nr
  { comps := ofFn fun i j => rc.get i (perm j) * Entry.ofReal (sgn (perm j))
    scores := ofFn fun i j => sc.get i (perm j) * Entry.ofReal (sgn (perm j))
    expvar := fun j => rotExpvar L (perm j)
    norms := fun j => nr (perm j)
    sgn := fun j => sgn (perm j) }

/-- `EOFRotator._transform_algorithm`: project on the UNROTATED components, normalise, rotate, reorder, scale, sign -/
def rotTransform (F : RotFit n p k ρ α) (comps0 : Mat p k α) (svals0 : Fin k → ρ) (RinvT : Mat k k α) (perm : Fin k → Fin k)
    (X : Mat m p α) : Mat m k α :=
  let a := ((X.mul comps0).divCols svals0).mul RinvT
  ofFn fun i j => (a.get i (perm j) * Entry.ofReal (F.norms j)) * Entry.ofReal (F.sgn j)

/-- reconstruction from (unnormalised) rotated scores: `xr.dot(comps.conj(), scores, dims="mode")` -/
def rotInverse (F : RotFit n p k ρ α) (S : Mat m k α) : Mat m p α := S.mul F.comps.conjT
end XM
