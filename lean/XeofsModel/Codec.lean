/-! C13 prototype: the netCDF attribute codec over a small Python value universe; Python's `str()` and
`ast.literal_eval` are ORACLES (parameters `pyStr`, `litEval`) with a round-trip specification. Core only. -/
namespace Codec

inductive PyErr | IndexError | ValueError | TypeError
deriving DecidableEq, Repr

inductive PyVal
  | str (s : String) | bool (b : Bool) | none | int (i : Int) | list (l : List PyVal) | dict (d : List (String × PyVal))
deriving Repr

def PyVal.isStr : PyVal → Bool | .str _ => true | _ => false

/-- `s[0]`, `s[-1]`: partial, as in Python -/
def pyFirst (s : String) : Except PyErr Char := match s.toList with | [] => .error .IndexError | c :: _ => .ok c
def pyLast (s : String) : Except PyErr Char := match s.toList.getLast? with | none => .error .IndexError | some c => .ok c

/-- generated from `utils/io.py::_should_desanitize` (shape of the translator output, hand-copied here) -/
def shouldDesanitize : PyVal → Except PyErr Bool
  | .str attr => do
      let f ← pyFirst attr
      let l ← pyLast attr
      return (f == '{' && l == '}') || (f == '[' && l == ']') || (["True", "False"].contains attr) || (attr == "None")
  | _ => pure false

/-- generated from `_sanitize_attrs_nc`: dict, list, bool, None are stringified -/
def sanitize (pyStr : PyVal → String) : PyVal → PyVal
  | .dict d => .str (pyStr (.dict d))
  | .list l => .str (pyStr (.list l))
  | .bool b => .str (pyStr (.bool b))
  | .none => .str (pyStr .none)
  | v => v

def desanitize (litEval : String → Except PyErr PyVal) (v : PyVal) : Except PyErr PyVal := do
  if (← shouldDesanitize v) then
    match v with
    | .str s => litEval s
    | w => pure w
  else pure v

/-- today's codec crashes on the empty string … -/
example (litEval) : desanitize litEval (.str "") = .error .IndexError := by rfl
/-- … and every string the predicate does not select survives unchanged (the `_partial` theorem) -/
theorem roundtrip_string_partial (pyStr litEval) (s : String) (h : shouldDesanitize (.str s) = .ok false) :
    desanitize litEval (sanitize pyStr (.str s)) = .ok (.str s) := by
  simp [sanitize, desanitize, h, bind, Except.bind, pure, Except.pure]

/-- integers pass through both directions -/
theorem roundtrip_int (pyStr litEval) (i : Int) : desanitize litEval (sanitize pyStr (.int i)) = .ok (.int i) := by
  simp [sanitize, desanitize, shouldDesanitize, bind, Except.bind, pure, Except.pure]

/-- sanitised kinds come back equal, GIVEN the oracle specification of `str`/`literal_eval` on that value and
the (checked) fact that Python prints it in a form the predicate recognises -/
theorem roundtrip_sanitized (pyStr : PyVal → String) (litEval : String → Except PyErr PyVal) (v : PyVal)
    (hkind : ∃ w, sanitize pyStr v = .str (pyStr v) ∧ w = v)
    (hrec : shouldDesanitize (.str (pyStr v)) = .ok true) (hspec : litEval (pyStr v) = .ok v) :
    desanitize litEval (sanitize pyStr v) = .ok v := by
  obtain ⟨_, hs, _⟩ := hkind
  simp [hs, desanitize, hrec, hspec, bind, Except.bind, pure, Except.pure]

/-- the look-alike witness: the *string* "True" is selected, so it comes back as whatever literal_eval says -/
example : shouldDesanitize (.str "True") = .ok true := by rfl
example : shouldDesanitize (.str "[m/s]") = .ok true := by rfl
example : shouldDesanitize (.str "K") = .ok false := by rfl
end Codec
