/-! C12 prototype: where does `fit` force a dask computation?  A writer-style effect log over the pipeline
stages, each forcing site under the guard the translator extracts from the source. Core only. -/
namespace Lazy

structure Cfg where
  compute : Bool
  checkNans : Bool
  varianceThreshold : Bool      -- n_modes given as a float
  isDask : Bool
deriving DecidableEq, Repr

inductive Guard | ifCompute | ifCheckNans | ifVarianceThreshold | postCompute | always
deriving DecidableEq, Repr

/-- the forcing sites of the EOF fit path, as (site, guard) pairs — in the framework this LIST IS GENERATED
from the source (`dask.compute(` in Scaler.fit under `if …["compute"]`, `compute(` in Sanitizer.transform
under `if self.check_nans`, …); here hand-copied from the current tree -/
def eofFitSites : List (String × Guard) :=
  [ ("scaler.fit: dask.compute(mean_, std_, …)", .ifCompute),
    ("sanitizer.transform: compute(masks)", .ifCheckNans),
    ("decomposer._compute_svd_result: dask.compute(U, s, VT)", .ifCompute),
    ("decomposer.fit: cum_expvar[-1].item()", .ifVarianceThreshold),
    ("model.fit: self.data.compute()", .ifCompute),
    ("rotator._sort_by_variance: idx_modes_sorted.values", .postCompute) ]

def Guard.fires (c : Cfg) : Guard → Bool
  | .ifCompute => c.compute
  | .ifCheckNans => c.checkNans
  | .ifVarianceThreshold => c.varianceThreshold
  | .postCompute => c.compute        -- `_post_compute` runs inside fit only when compute=True
  | .always => true

/-- the events a fit on dask-backed data produces -/
def forceLog (sites : List (String × Guard)) (c : Cfg) : List String :=
  if c.isDask then (sites.filter fun s => s.2.fires c).map (·.1) else []

/-- **C12 no_force_when_deferred**: with `compute=False`, `check_nans=False` and an integer `n_modes`
(a float is refused for dask input), fitting triggers no computation — for ANY site list all of whose guards
are among the conditional ones (the `decide`-checked obligation on the generated list). -/
theorem no_force_when_deferred (sites : List (String × Guard)) (h : ∀ s ∈ sites, s.2 ≠ .always) (c : Cfg)
    (hc : c.compute = false) (hn : c.checkNans = false) (hv : c.varianceThreshold = false) :
    forceLog sites c = [] := by
  unfold forceLog
  split
  · rw [List.map_eq_nil_iff, List.filter_eq_nil_iff]
    intro s hs
    have := h s hs
    cases hg : s.2 <;> simp_all [Guard.fires]
  · rfl

/-- the obligation on the current source -/
theorem eofFitSites_guarded : ∀ s ∈ eofFitSites, s.2 ≠ .always := by decide

/-- a mutation that adds an unguarded `.values` to the fit path makes that obligation false -/
example : ¬ (∀ s ∈ ("eof._fit_algorithm: X.values", Guard.always) :: eofFitSites, s.2 ≠ .always) := by decide
end Lazy
