import XeofsModel.Generated.Facts
import XeofsModel.Generated.Formulas
/-! C14 state machine of ONE model object: which earlier call determines each part of an answer ("provenance").
What `fit` overwrites and what `transform`/rotators write is taken from the facts the translator regenerates from
the source (`Gen.listFitResets`, …).  Core only; executable (driven by the correspondence harness). -/
namespace H2

structure Facts where
  listFitResets : Bool        -- GenericListTransformer.fit empties the transformer list
  pcaKeepsConfig : Bool       -- PCA.fit does not overwrite n_modes
  fitResetsSorted : Bool      -- the `sorted` flag is cleared by every fit
  addCopies : Bool            -- DataContainer.add stores a copy
  miSeparate : Bool           -- fit-time / transform-time MultiIndex coordinates are kept apart
  deriving DecidableEq, Repr

def good : Facts := ⟨true, true, true, true, true⟩

/-- the facts of the CURRENT source tree -/
def current : Facts :=
  { listFitResets := Gen.listFitResets
    pcaKeepsConfig := !(Gen.pcaFitWrites.contains "self.n_modes")
    fitResetsSorted := Gen.popFitResetsSorted
    addCopies := Gen.containerAddCopies && !Gen.serializeRenamesInPlace
    miSeparate := Gen.multiIndexDictsSeparate && Gen.multiIndexTransformAlwaysRecords && Gen.multiIndexInverseReadsChosenReference }

structure St where
  trs : List Nat          -- fit id that created each per-item transformer, in list order
  nItems : Nat            -- n_data of the most recent fit
  result : Option Nat     -- fit id whose decomposition is stored
  sortedBy : Option Nat   -- fit id for which the modes were last sorted
  pcaFrom : Option Nat    -- fit id that resolved n_modes = "all"
  fitCoords : Option Nat  -- call that wrote the fit-time sample coordinates (a fit id, or 1000 + transform id)
  unseen : Option Nat     -- transform id whose coordinates are cached
  relabelled : List Nat   -- rotator/bootstrapper ids that re-labelled arrays shared with this model
  deriving DecidableEq, Repr

inductive Op
  | fit (id items : Nat) | transform (id : Nat) | query | inverse | compute | serialize
  | rotatorFit (id : Nat) | bootstrapFit (id : Nat)
  deriving DecidableEq, Repr

def init : St := ⟨[], 0, none, none, none, none, none, []⟩

/-- everything a fitted-data answer (scores, components, metrics, inverse_transform) is computed from -/
def prov (s : St) : List Nat :=
  s.trs.take s.nItems ++ s.result.toList ++ s.sortedBy.toList ++ s.pcaFrom.toList ++ s.fitCoords.toList ++ s.relabelled

def step (f : Facts) (s : St) : Op → St × List Nat
  | .fit id n =>
      let s' := { s with
        trs := (if f.listFitResets then [] else s.trs) ++ List.replicate n id
        nItems := n
        result := some id
        sortedBy := if f.fitResetsSorted then some id else (s.sortedBy.orElse fun _ => some id)
        pcaFrom := if f.pcaKeepsConfig then some id else (s.pcaFrom.orElse fun _ => some id)
        fitCoords := some id }
      (s', [])
  | .transform id =>
      let s' := { s with unseen := some id, fitCoords := if f.miSeparate then s.fitCoords else some (1000 + id) }
      (s', prov s ++ [1000 + id])          -- the transform answer also depends on its own argument
  | .query => (s, prov s)
  | .inverse => (s, prov s)
  | .compute => (s, prov s)
  | .serialize => (s, prov s)
  | .rotatorFit id => ({ s with relabelled := if f.addCopies then s.relabelled else s.relabelled ++ [id] }, [])
  | .bootstrapFit id => ({ s with relabelled := if f.addCopies then s.relabelled else s.relabelled ++ [id] }, [])

def run (f : Facts) (s : St) : List Op → St × List (List Nat)
  | [] => (s, [])
  | op :: ops =>
      let r := step f s op
      let r' := run f r.1 ops
      (r'.1, r.2 :: r'.2)

def isFit : Op → Bool | .fit _ _ => true | _ => false
def noFit (l : List Op) : Bool := l.all (fun o => !isFit o)

/-- what a FRESH model fitted with `fit id n` answers from -/
def freshProv (id n : Nat) : List Nat := List.replicate n id ++ [id, id, id, id]
end H2
