/-! structural prototype: labelled frame <-> positional matrix, core-only -/
namespace S
abbrev Label := String
abbrev Key := List Label

structure Frame (α : Type) where
  rows : List Key
  cols : List Key
  val  : Key → Key → α

/-- positional matrix as list of rows -/
def Frame.toMat {α} (F : Frame α) : List (List α) := F.rows.map fun s => F.cols.map fun f => F.val s f

/-- label-based read-back: position of the labels in the remembered index, NaN (`dflt`) if absent -/
def readBack {α} (rows cols : List Key) (M : List (List α)) (dflt : α) (s f : Key) : α :=
  match rows.idxOf? s, cols.idxOf? f with
  | some i, some j => ((M[i]?).bind (·[j]?)).getD dflt
  | _, _ => dflt

theorem idxOf?_getElem {l : List Key} {k : Key} {i : Nat} (h : l.idxOf? k = some i) :
    ∃ hi : i < l.length, l[i] = k := by
  rw [List.idxOf?, List.findIdx?_eq_some_iff_getElem] at h
  obtain ⟨hi, hk, _⟩ := h
  exact ⟨hi, by simpa using hk⟩

theorem roundtrip {α} (F : Frame α) (d : α) (s f : Key) (hs : s ∈ F.rows) (hf : f ∈ F.cols) :
    readBack F.rows F.cols F.toMat d s f = F.val s f := by
  unfold readBack
  have hs' : ∃ i, F.rows.idxOf? s = some i := by
    cases h : F.rows.idxOf? s with
    | some i => exact ⟨i, rfl⟩
    | none => simp [List.idxOf?] at h; exact absurd rfl (h s hs)
  have hf' : ∃ j, F.cols.idxOf? f = some j := by
    cases h : F.cols.idxOf? f with
    | some j => exact ⟨j, rfl⟩
    | none => simp [List.idxOf?] at h; exact absurd rfl (h f hf)
  obtain ⟨i, hi⟩ := hs'; obtain ⟨j, hj⟩ := hf'
  obtain ⟨hil, hik⟩ := idxOf?_getElem hi
  obtain ⟨hjl, hjk⟩ := idxOf?_getElem hj
  simp [hi, hj, Frame.toMat, hil, hjl, hik, hjk]

/-- sanitize: drop invalid rows/cols; re-insertion yields `d` exactly at the dropped labels -/
def Frame.sanitize {α} (F : Frame α) (okS okF : Key → Bool) : Frame α :=
  { rows := F.rows.filter okS, cols := F.cols.filter okF, val := F.val }

theorem reinsertion_dropped {α} (F : Frame α) (okS okF : Key → Bool) (d : α) (s f : Key)
    (h : okS s = false ∨ okF f = false) :
    readBack (F.sanitize okS okF).rows (F.sanitize okS okF).cols (F.sanitize okS okF).toMat d s f = d := by
  unfold readBack
  rcases h with h | h
  · have : (F.sanitize okS okF).rows.idxOf? s = none := by
      simp [Frame.sanitize, List.idxOf?, List.findIdx?_eq_none_iff, List.mem_filter]
      intro x _ hx hxs; subst hxs; simp [h] at hx
    simp [this]
  · have : (F.sanitize okS okF).cols.idxOf? f = none := by
      simp [Frame.sanitize, List.idxOf?, List.findIdx?_eq_none_iff, List.mem_filter]
      intro x _ hx hxs; subst hxs; simp [h] at hx
    cases (F.sanitize okS okF).rows.idxOf? s <;> simp [this]
/-- `transform` of labelled data by a fitted frame: one row per given sample label, the columns in the FITTED order, every entry looked
up BY LABEL (the order in which the new data happens to carry its feature labels plays no role) -/
def transformBy {α} (fitCols rows : List Key) (val : Key → Key → α) : List (List α) :=
  rows.map fun s => fitCols.map fun f => val s f

/-- projecting the training frame itself gives the fitted matrix -/
theorem transformBy_training {α} (F : Frame α) : transformBy F.cols F.rows F.val = F.toMat := rfl

/-- re-transforming what `inverse_transform` hands back (the read-back labelled data) gives the fitted matrix again -/
theorem transformBy_readBack {α} (F : Frame α) (d : α) :
    transformBy F.cols F.rows (readBack F.rows F.cols F.toMat d) = F.toMat := by
  unfold transformBy Frame.toMat
  apply List.map_congr_left; intro s hs
  apply List.map_congr_left; intro f hf
  exact roundtrip F d s f hs hf
end S
