import XeofsModel.Mat
import XeofsModel.Generated.Formulas
/-! Executable model of `POP._np_solve_pop_system` / `_np_compute_pop_coefficients` and the ordering of the modes in
`POP._fit_algorithm` (without PCA pre-reduction). ORACLES: `Cinv = inv(X0ᴴ X0)`, the eigen-pairs `(lam, P)` of the feedback
matrix, the 2×2 pseudo-inverses `Minv j` of the coefficient systems, and `arg(lam)` (numpy's `angle`). -/
namespace XM
open Mat

section
variable {α : Type} [Add α] [Mul α] [Zero α] [Conj α] {n p : Nat}
/-- `X[1:].conj().T @ X[:-1]` : sum over the `n − 1` consecutive pairs -/
def lagOneGram (X : Mat n p α) : Mat p p α :=
  ofFn fun a b => sumFin n fun t => if h : t.val + 1 < n then Conj.conj (X.get ⟨t.val + 1, h⟩ a) * X.get t b else (Zero.zero : α)

/-- `X[:-1].conj().T @ X[:-1]` -/
def lagZeroGram (X : Mat n p α) : Mat p p α :=
  ofFn fun a b => sumFin n fun t => if t.val + 1 < n then Conj.conj (X.get t a) * X.get t b else (Zero.zero : α)

/-- the feedback matrix `A = X1ᴴ X0 (X0ᴴ X0)⁻¹` -/
def popFeedback (X : Mat n p α) (Cinv : Mat p p α) : Mat p p α := (lagOneGram X).mul Cinv

end

variable {ρ α : Type} [Num ρ] [Entry ρ α] {n p k : Nat}

/-- POP coefficients of one mode (Storch et al. 1995, eq. 19): `z = Minv @ [X pr, X pi]` -/
def popCoeff (X : Mat n p α) (P : Mat p k α) (Minv : Fin k → ρ × ρ × ρ × ρ) : Mat n k α :=
  ofFn fun t j =>
    let a : ρ := Fin.foldl p (fun acc f => acc + Entry.re (X.get t f) * Entry.re (P.get f j)) (Num.ofNat 0)
    let b : ρ := Fin.foldl p (fun acc f => acc + Entry.re (X.get t f) * Entry.im (P.get f j)) (Num.ofNat 0)
    let m := Minv j
    Entry.ofParts (m.1 * a + m.2.1 * b) (m.2.2.1 * a + m.2.2.2 * b)

/-- the 2×2 system of one mode: `[[pr·pr, pr·pi], [pr·pi, pi·pi]]` -/
def popSystem (P : Mat p k α) (j : Fin k) : ρ × ρ × ρ :=
  let rr : ρ := Fin.foldl p (fun acc f => acc + Entry.re (P.get f j) * Entry.re (P.get f j)) (Num.ofNat 0)
  let ri : ρ := Fin.foldl p (fun acc f => acc + Entry.re (P.get f j) * Entry.im (P.get f j)) (Num.ofNat 0)
  let ii : ρ := Fin.foldl p (fun acc f => acc + Entry.im (P.get f j) * Entry.im (P.get f j)) (Num.ofNat 0)
  (rr, ri, ii)

/-- standard deviation (ddof 0) of a complex series: `Z.var(sample) ** 0.5` -/
def popNorms (Z : Mat n k α) : Fin k → ρ := fun j =>
  let μ : α := Entry.divReal (sumFin n fun t => Z.get t j) (Num.ofNat n : ρ)
  Num.sqrt ((Fin.foldl n (fun acc t => acc + (Entry.normSq (Z.get t j - μ) : ρ)) (Num.ofNat 0)) / Num.ofNat n)

structure PopFit (n p k : Nat) (ρ α : Type) where
  comps : Mat p k α
  scores : Mat n k α
  eigenvalues : Fin k → α
  norms : Fin k → ρ
  damping : Fin k → ρ
  periods : Fin k → ρ

/-- everything with a mode axis, re-ordered with `perm` (descending norms) -/
def popFit (X : Mat n p α) (lam : Fin k → α) (argLam : Fin k → ρ) (twoPi : ρ) (P : Mat p k α) (Minv : Fin k → ρ × ρ × ρ × ρ)
    (perm : Fin k → Fin k) : PopFit n p k ρ α :=
  let Z := popCoeff X P Minv
  let nr : Fin k → ρ := popNorms Z
  { comps := ofFn fun f j => P.get f (perm j)
    scores := ofFn fun t j => Z.get t (perm j)
    eigenvalues := fun j => lam (perm j)
    norms := fun j => nr (perm j)
    damping := fun j => Gen.popDampingTime (Num.sqrt (Entry.normSq (lam (perm j)) : ρ))
    periods := fun j => Gen.popPeriod twoPi (argLam (perm j)) }
end XM
