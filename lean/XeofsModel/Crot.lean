import XeofsModel.Rot
/-! Executable model of `CPCCARotator._fit_algorithm` / `transform` (the rotated cross-set models MCARotator, CCARotator, …).
ORACLES: the rotation matrix `R` Varimax/Promax converged to and `RinvT` (`R` itself for `power = 1`, `(R⁻¹)ᴴ` otherwise); the
linear maps between the whitened PC space and physical space, given as matrices — `A₁`,`A₂` (`pca.inverse_transform_components ∘
whitener.inverse_transform_components`) and `B₁`,`B₂` (`whitener.transform_components ∘ pca.transform_components`), which the
`whitener` correspondence ties separately; the sign per mode (generated sign rule on the stacked rotated loadings) and the descending
order of the squared covariance enter as `sgn` / `perm`. -/
namespace XM
open Mat
variable {ρ α : Type} [Num ρ] [Entry ρ α] {n p q p' q' k m : Nat}

/-- `xr.concat([Qx, Qy], dim=feature)`: the rows of the first block, then those of the second -/
def vstack (A : Mat p k α) (B : Mat q k α) : Mat (p + q) k α :=
  ofFn fun i j => if h : i.val < p then A.get ⟨i.val, h⟩ j else B.get ⟨i.val - p, by omega⟩ j

def topRows (L : Mat (p + q) k α) : Mat p k α := ofFn fun i j => L.get ⟨i.val, by omega⟩ j
def bottomRows (L : Mat (p + q) k α) : Mat q k α := ofFn fun i j => L.get ⟨p + i.val, by omega⟩ j

/-- combined loadings in physical space, scaled by `sqrt(singular value)`, rotated -/
def crotLoadings (A1 : Mat p p' α) (A2 : Mat q q' α) (Q1 : Mat p' k α) (Q2 : Mat q' k α) (s : Fin k → ρ) (R : Mat k k α) :
    Mat (p + q) k α :=
  ((vstack (A1.mul Q1) (A2.mul Q2)).scaleCols fun j => Entry.ofReal (Num.sqrt (s j))).mul R

/-- `np.linalg.norm(axis=0)` of every column -/
def crotNorms (X : Mat p k α) : Fin k → ρ := fun j => Num.sqrt (colSqSums X j)

/-- unsorted rotated scores of one field: `(scores / sqrt(s)) @ RinvT * norm` -/
def crotScoresUnsorted (S : Mat n k α) (s : Fin k → ρ) (RinvT : Mat k k α) (norms : Fin k → ρ) : Mat n k α :=
  (((S.divCols fun j => Num.sqrt (s j)).mul RinvT)).scaleCols fun j => Entry.ofReal (norms j)

structure CRotFit (n p' q' k : Nat) (ρ α : Type) where
  comps1 : Mat p' k α
  comps2 : Mat q' k α
  scores1 : Mat n k α
  scores2 : Mat n k α
  norm1 : Fin k → ρ
  norm2 : Fin k → ρ
  sqcov : Fin k → ρ
  sgn : Fin k → ρ

/-- rotated patterns are carried back into the whitened PC space and normalised there; "explained covariance" = `norm1 * norm2`;
everything with a mode axis is signed, then sorted with `perm` (`_sort_by_variance`) -/
def crotFit (A1 : Mat p p' α) (A2 : Mat q q' α) (B1 : Mat p' p α) (B2 : Mat q' q α) (Q1 : Mat p' k α) (Q2 : Mat q' k α)
    (s : Fin k → ρ) (S1 S2 : Mat n k α) (R RinvT : Mat k k α) (sgn : Fin k → ρ) (perm : Fin k → Fin k) : CRotFit n p' q' k ρ α :=
  let RL := crotLoadings A1 A2 Q1 Q2 s R
  let X1 := B1.mul (topRows RL)
  let X2 := B2.mul (bottomRows RL)
  let n1 : Fin k → ρ := crotNorms X1
  let n2 : Fin k → ρ := crotNorms X2
  let c1 := X1.divCols n1
  let c2 := X2.divCols n2
  let t1 := crotScoresUnsorted S1 s RinvT n1
  let t2 := crotScoresUnsorted S2 s RinvT n2
  { comps1 := ofFn fun i j => c1.get i (perm j) * Entry.ofReal (sgn (perm j))
    comps2 := ofFn fun i j => c2.get i (perm j) * Entry.ofReal (sgn (perm j))
    scores1 := ofFn fun i j => t1.get i (perm j) * Entry.ofReal (sgn (perm j))
    scores2 := ofFn fun i j => t2.get i (perm j) * Entry.ofReal (sgn (perm j))
    norm1 := fun j => n1 (perm j)
    norm2 := fun j => n2 (perm j)
    sqcov := fun j => (n1 (perm j) * n2 (perm j)) * (n1 (perm j) * n2 (perm j))
    sgn := fun j => sgn (perm j) }

/-- `CPCCARotator.transform` for one field (already in whitened PC space): project on the UNROTATED vectors, divide by `sqrt(s)`,
rotate, reorder, sign, (un)normalise -/
def crotTransform (norms sgnS : Fin k → ρ) (Q : Mat p' k α) (s : Fin k → ρ) (RinvT : Mat k k α) (perm : Fin k → Fin k)
    (X : Mat m p' α) (normalized : Bool) : Mat m k α :=
  let a := ((X.mul Q).divCols fun j => Num.sqrt (s j)).mul RinvT
  ofFn fun i j =>
    let v := a.get i (perm j) * Entry.ofReal (sgnS j)
    if normalized then v else v * Entry.ofReal (norms j)
end XM
