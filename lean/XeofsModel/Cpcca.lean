import XeofsModel.Mat
import XeofsModel.Generated.Formulas
/-! Executable model of the CPCCA core in the (PCA-reduced, whitened) space: `CPCCA._fit_algorithm`,
`_transform_algorithm`, `_inverse_transform_algorithm`, `_get_scores`, `_get_components`. The SVD of the cross-covariance
is an ORACLE (`Q1`, `s`, `Q2`; specification `IsSVD` in the theorems, numpy's answer in the driver); the normaliser of the
cross-covariance is the generated `Gen.crossCovDenominator`. -/
namespace XM
open Mat
variable {ρ α : Type} [Num ρ] [Entry ρ α] {n p q r k m : Nat}

/-- `_compute_cross_covariance_numpy`: `X.conj().T @ Y / (n - 1)` -/
def crossCov (X : Mat n p α) (Y : Mat n q α) : Mat p q α :=
  ofFn fun i j => Entry.divReal ((X.conjT.mul Y).get i j) (Gen.crossCovDenominator (Num.ofNat n : ρ))

structure CpccaFit (n p q k : Nat) (ρ α : Type) where
  comps1 : Mat p k α
  comps2 : Mat q k α
  scores1 : Mat n k α
  scores2 : Mat n k α
  svals : Fin k → ρ
  sqcov : Fin k → ρ
  norm1 : Fin k → ρ
  norm2 : Fin k → ρ

/-- column norms `sqrt(sum_i |S_ij|^2)` (`np.sqrt(xr.dot(S.conj(), S, dims=sample)).real`) -/
def colNorms (S : Mat n k α) : Fin k → ρ := fun j =>
  Num.sqrt (Fin.foldl n (fun acc i => acc + (Entry.normSq (S.get i j) : ρ)) (Num.ofNat 0))

/-- truncate the decomposition of the cross-covariance to `k` modes, apply the signs, project both fields -/
def cpccaFit (hk : k ≤ r) (X : Mat n p α) (Y : Mat n q α) (Q1 : Mat p r α) (s : Fin r → ρ) (Q2 : Mat q r α)
    (sgn : Fin k → ρ) : CpccaFit n p q k ρ α :=
  let c1 : Mat p k α := ofFn fun i j => Q1.get i (Fin.castLE hk j) * Entry.ofReal (sgn j)
  let c2 : Mat q k α := ofFn fun i j => Q2.get i (Fin.castLE hk j) * Entry.ofReal (sgn j)
  let s1 := X.mul c1
  let s2 := Y.mul c2
  { comps1 := c1, comps2 := c2, scores1 := s1, scores2 := s2
    svals := fun j => s (Fin.castLE hk j)
    sqcov := fun j => s (Fin.castLE hk j) * s (Fin.castLE hk j)
    norm1 := colNorms s1, norm2 := colNorms s2 }

/-- `_transform_algorithm` for the first / second field -/
def cpccaTransform1 (F : CpccaFit n p q k ρ α) (X : Mat m p α) (normalized : Bool) : Mat m k α :=
  if normalized then (X.mul F.comps1).divCols F.norm1 else X.mul F.comps1
def cpccaTransform2 (F : CpccaFit n p q k ρ α) (Y : Mat m q α) (normalized : Bool) : Mat m k α :=
  if normalized then (Y.mul F.comps2).divCols F.norm2 else Y.mul F.comps2

/-- `_inverse_transform_algorithm`: `xr.dot(S, comps.conj(), dims="mode")` -/
def cpccaInverse1 (F : CpccaFit n p q k ρ α) (S : Mat m k α) : Mat m p α := S.mul F.comps1.conjT
def cpccaInverse2 (F : CpccaFit n p q k ρ α) (S : Mat m k α) : Mat m q α := S.mul F.comps2.conjT

/-- `_get_scores(normalized)` -/
def cpccaScores1 (F : CpccaFit n p q k ρ α) (normalized : Bool) : Mat n k α :=
  if normalized then F.scores1.divCols F.norm1 else F.scores1
end XM
