import XeofsModel.Generated.Codec
/-! C13: the netCDF attribute codec (`_sanitize_attrs_nc` / `_desanitize_attrs_nc`) over a small universe of Python
attribute values. The look-alike predicate and the set of stringified types are GENERATED from the source; Python's
`str()` and `ast.literal_eval` are ORACLES (`pyStr`, `litEval`) with a round-trip specification that the harness re-checks
on every generated value. Core only, executable. -/
namespace Codec2

inductive PyErr | IndexError | ValueError deriving DecidableEq, Repr

inductive Attr
  | str (s : String) | bool (b : Bool) | none | int (i : Int) | float (bits : Nat)
  | list (l : List Attr) | dict (d : List (String × Attr))
  deriving Repr, Inhabited

/-- Python type name as it appears in `sanitized_types` -/
def Attr.typeName : Attr → String
  | .str _ => "str" | .bool _ => "bool" | .none => "type(None)" | .int _ => "int" | .float _ => "float"
  | .list _ => "list" | .dict _ => "dict"

def isSanitized (a : Attr) : Bool := Gen.sanitizedTypes.contains a.typeName

def sanitize (pyStr : Attr → String) (a : Attr) : Attr := if isSanitized a then .str (pyStr a) else a

/-- `_should_desanitize`; the error is the IndexError of `attr[0]` on the empty string -/
def shouldDesanitize : Attr → Except PyErr Bool
  | .str s => match Gen.shouldDesanitizeStr s with | some b => .ok b | none => .error .IndexError
  | _ => .ok false

def desanitize (litEval : String → Except PyErr Attr) (a : Attr) : Except PyErr Attr :=
  match shouldDesanitize a with
  | .error e => .error e
  | .ok false => .ok a
  | .ok true =>
    match a with
    | .str s =>
      match litEval s with
      | .ok v => .ok v
      | .error e => if Gen.desanitizeKeepsNonLiterals then .ok a else .error e
    | w => .ok w
end Codec2
