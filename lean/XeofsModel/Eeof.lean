import XeofsModel.Mat
import XeofsModel.Generated.Formulas
/-! Executable model of the delay embedding of `ExtendedEOF._fit_algorithm`: `embedding` copies of the (preprocessed) series,
copy `e` shifted by `Gen.eeofShift e tau` samples, the `Gen.eeofSamplesKept n embedding tau` first rows kept, columns laid out
copy-major (`embedding` is the outer feature dimension of the array handed to the inner EOF). -/
namespace XM
open Mat
variable {α : Type} {n p : Nat}

/-- entry (t, e·p + f) of the delay-embedded matrix = X[t + e·tau, f]; out-of-range cells cannot occur for kept rows (C10 theorem) -/
def embedMatrix [Zero α] (X : Mat n p α) (tau emb : Nat) : Mat (Gen.eeofSamplesKept n emb tau) (emb * p) α :=
  ofFn fun t c =>
    let e := c.val / p
    let f := c.val % p
    if h : t.val + Gen.eeofShift e tau < n ∧ f < p then X.get ⟨t.val + Gen.eeofShift e tau, h.1⟩ ⟨f, h.2⟩ else (Zero.zero : α)
end XM
