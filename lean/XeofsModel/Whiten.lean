import XeofsModel.Mat
import XeofsModel.Generated.Formulas
/-! Executable model of `Whitener` (fit / transform / inverse_transform_data / transform_components /
inverse_transform_components) and of the `PCA` transformer's maps. ORACLE: the decomposition `C = V diag(s) Vᴴ` of the
covariance (`_SVD` inside `_fractional_matrix_power`); the retained directions `keep` are decided by the caller with the
generated cut-off rule. Exponents and the covariance normaliser are generated from the source. -/
namespace XM
open Mat
variable {ρ α : Type} [Num ρ] [Entry ρ α] {n p k m : Nat}

/-- `C = X.conj().T @ X / nc` -/
def whitenCov (X : Mat n p α) : Mat p p α :=
  ofFn fun i j => Entry.divReal ((X.conjT.mul X).get i j) (Gen.whitenerCovDenominator (Num.ofNat n : ρ))

/-- `V[:, keep] @ diag(s[keep] ** q) @ V[:, keep].conj().T` (`_fractional_matrix_power`) -/
def fracPower (V : Mat p p α) (s : Fin p → ρ) (keep : Fin p → Bool) (q : ρ) : Mat p p α :=
  (ofFn fun i j => if keep j then V.get i j * Entry.ofReal (Num.pow (s j) q) else (Zero.zero : α)).mul V.conjT

structure WhitenFit (p : Nat) (α : Type) where
  T : Mat p p α
  Tinv : Mat p p α

def whitenFit (V : Mat p p α) (s : Fin p → ρ) (keep : Fin p → Bool) (alpha : ρ) : WhitenFit p α :=
  { T := fracPower V s keep (Gen.whitenerPower alpha), Tinv := fracPower V s keep (Gen.whitenerInversePower alpha) }

end XM

namespace XM
open Mat
variable {α : Type} {n p k m : Nat}

/-- `xr.dot(X, T, dims=feature)` -/
def whitenTransform [Add α] [Mul α] [Zero α] (F : WhitenFit p α) (X : Mat m p α) : Mat m p α := X.mul F.T
/-- `xr.dot(X, Tinv, dims=mode)` -/
def whitenInverseData [Add α] [Mul α] [Zero α] (F : WhitenFit p α) (Z : Mat m p α) : Mat m p α := Z.mul F.Tinv
/-- `T.conj().T @ P` -/
def whitenTransformComps [Add α] [Mul α] [Zero α] [Conj α] (F : WhitenFit p α) (P : Mat p k α) : Mat p k α := F.T.conjT.mul P
/-- `Tinv.conj().T @ P` -/
def whitenInverseComps [Add α] [Mul α] [Zero α] [Conj α] (F : WhitenFit p α) (P : Mat p k α) : Mat p k α := F.Tinv.conjT.mul P

/-- `PCA`: data `X V`, back `Z Vᴴ`; patterns `Vᴴ P`, back `V P` -/
def pcaTransform [Add α] [Mul α] [Zero α] (V : Mat p k α) (X : Mat m p α) : Mat m k α := X.mul V
def pcaInverseData [Add α] [Mul α] [Zero α] [Conj α] (V : Mat p k α) (Z : Mat m k α) : Mat m p α := Z.mul V.conjT
def pcaTransformComps [Add α] [Mul α] [Zero α] [Conj α] {r : Nat} (V : Mat p k α) (P : Mat p r α) : Mat k r α := V.conjT.mul P
def pcaInverseComps [Add α] [Mul α] [Zero α] {r : Nat} (V : Mat p k α) (Q : Mat k r α) : Mat p r α := V.mul Q

end XM
