/-! Executable model of `Sanitizer.fit` / `Sanitizer.transform` on a validity mask (`X.notnull()`), rows = samples,
columns = features. Core only; the driver runs it next to the real `Sanitizer` (Tie B), `Props/C06` proves what it refuses. -/
namespace S

/-- `X.notnull().any(sample)` for `m` features -/
def validFeatures (mask : List (List Bool)) (m : Nat) : List Bool :=
  (List.range m).map fun j => mask.any fun row => row.getD j false

/-- `X.notnull().any(feature)` -/
def validSamples (mask : List (List Bool)) : List Bool := mask.map fun row => row.any id

/-- `X.notnull().sum(feature)` -/
def perSample (mask : List (List Bool)) : List Nat := mask.map fun row => (row.filter id).length

/-- the decision the Sanitizer takes at transform time, on the fitted feature mask, the new feature mask and the number of
valid cells per sample (the shape of the test is a source obligation of C06) -/
def sanitizerAccepts (fitValid newValid : List Bool) (perSample : List Nat) : Bool :=
  (newValid == fitValid) && perSample.all (fun c => c == 0 || c == (newValid.filter id).length)

/-- positions with a `true` flag -/
def keptIdx (flags : List Bool) : List Nat := (List.range flags.length).filter fun i => flags.getD i false

/-- `Sanitizer.transform` with `check_nans=True`: refuse, or the (sample, feature) positions that are kept -/
def sanitizerTransform (fitValid : List Bool) (mask : List (List Bool)) (m : Nat) : Except String (List Nat × List Nat) :=
  let nv := validFeatures mask m
  if sanitizerAccepts fitValid nv (perSample mask) then .ok (keptIdx (validSamples mask), keptIdx nv)
  else .error "ValueError"
end S
