import XeofsModel.Mat
import XeofsModel.Frame
import XeofsModel.History
import XeofsModel.Codec
import XeofsModel.Lazy
import XeofsModel.EofModel
import XeofsModel.Generated.Threshold
