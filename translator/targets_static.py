"""Tie A targets: static facts about state handling, argument routing, dimension literals and forcing idioms."""
from __future__ import annotations

import ast
import os

from translator.translate import target, load, find_func, header, Sym, TranslationError, SRC


def lean_str(s):
    return '"' + s.replace("\\", "\\\\").replace('"', '\\"').replace("\n", " ") + '"'


def lean_pairs(d):
    return "[" + ", ".join(f"({lean_str(k)}, {lean_str(v)})" for k, v in d) + "]"


def calls_in(fn, callee):
    return [n for n in ast.walk(fn) if isinstance(n, ast.Call) and ast.unparse(n.func) == callee]


def kwargs_of(call):
    out = []
    for k in call.keywords:
        out.append((k.arg if k.arg is not None else "**", ast.unparse(k.value)))
    return out


# ------------------------------------------------------------------------------------------------- state facts (C14)
@target("stateFacts", "Facts", ["C14", "C13", "C05", "C02"])
def _state():
    out = []
    # GenericListTransformer.fit resets the list before appending
    path = "preprocessing/list_processor.py"
    src, tree = load(path)
    fn = find_func(tree, "GenericListTransformer.fit")
    reset_idx = [i for i, s in enumerate(fn.body) if isinstance(s, ast.Assign) and ast.unparse(s.targets[0]) == "self.transformers" and ast.unparse(s.value) == "[]"]
    loop_idx = [i for i, s in enumerate(fn.body) if isinstance(s, ast.For) and "self.transformers.append" in ast.unparse(s)]
    resets = bool(reset_idx) and bool(loop_idx) and reset_idx[0] < loop_idx[0]
    out += [f"/-- {header(path, 'GenericListTransformer.fit', src, fn)}: the list of per-item transformers is emptied before the new ones are appended -/",
            f"def listFitResets : Bool := {'true' if resets else 'false'}"]
    # DataContainer.add stores a copy
    path = "data_container/data_container.py"
    src, tree = load(path)
    fn = find_func(tree, "DataContainer.add")
    first = fn.body[0] if not (isinstance(fn.body[0], ast.Expr) and isinstance(fn.body[0].value, ast.Constant)) else fn.body[1]
    copies = isinstance(first, ast.Assign) and ast.unparse(first) == "data = data.copy(deep=False)"
    out += [f"/-- {header(path, 'DataContainer.add', src, fn)}: a (shallow) copy is taken unconditionally before the entry is named -/",
            f"def containerAddCopies : Bool := {'true' if copies else 'false'}"]
    # PCA.fit does not overwrite its configuration
    path = "preprocessing/pca.py"
    src, tree = load(path)
    fn = find_func(tree, "PCA.fit")
    writes = sorted({ast.unparse(t) for n in ast.walk(fn) if isinstance(n, ast.Assign) for t in n.targets if ast.unparse(t).startswith("self.")})
    out += [f"/-- {header(path, 'PCA.fit', src, fn)}: attributes written by fit -/",
            f"def pcaFitWrites : List String := [{', '.join(lean_str(w) for w in writes)}]"]
    # Transformer._serialize_data does not rename the caller's array
    path = "preprocessing/transformer.py"
    src, tree = load(path)
    fn = find_func(tree, "Transformer._serialize_data")
    inplace = any(isinstance(n, ast.Assign) and ast.unparse(n.targets[0]) == "data.name" for n in ast.walk(fn))
    out += [f"/-- {header(path, 'Transformer._serialize_data', src, fn)}: the array handed in is never renamed in place -/",
            f"def serializeRenamesInPlace : Bool := {'true' if inplace else 'false'}"]
    # MultiIndexConverter: two separate dicts; transform always records; inverse reads the chosen reference only
    path = "preprocessing/multi_index_converter.py"
    src, tree = load(path)
    init = find_func(tree, "MultiIndexConverter.__init__")
    init_txt = [ast.unparse(s) for s in init.body]
    separate = "self.coords_from_fit = {}" in init_txt and "self.coords_from_transform = {}" in init_txt
    tf = find_func(tree, "MultiIndexConverter.transform")
    loops = [n for n in tf.body if isinstance(n, ast.For)]
    always = bool(loops) and any(isinstance(s, ast.Assign) and ast.unparse(s.targets[0]) == "self.coords_from_transform[dim]" for s in loops[0].body)
    inv = find_func(tree, "MultiIndexConverter._inverse_transform")
    m = [n for n in inv.body if isinstance(n, ast.Match)]
    refs = {}
    if m:
        for c in m[0].cases:
            if isinstance(c.pattern, ast.MatchValue):
                refs[c.pattern.value.value] = ast.unparse(c.body[0])
    ref_ok = refs == {"fit": "reference_indexes = self.coords_from_fit", "transform": "reference_indexes = self.coords_from_transform"}
    out += [f"/-- {header(path, 'MultiIndexConverter', src, tf)}: fit-time and transform-time coordinates live in separate dicts, transform always records, "
            "the inverse reads exactly the dict it is asked for -/",
            f"def multiIndexDictsSeparate : Bool := {'true' if separate else 'false'}",
            f"def multiIndexTransformAlwaysRecords : Bool := {'true' if always else 'false'}",
            f"def multiIndexInverseReadsChosenReference : Bool := {'true' if ref_ok else 'false'}"]
    # Sanitizer.transform: the fitted mask is only re-assigned to itself
    path = "preprocessing/sanitizer.py"
    src, tree = load(path)
    fn = find_func(tree, "Sanitizer.transform")
    tup = [n for n in ast.walk(fn) if isinstance(n, ast.Assign) and isinstance(n.targets[0], ast.Tuple) and ast.unparse(n.value.func) == "compute"]
    if len(tup) != 1:
        raise TranslationError("joint compute(...) assignment not found in Sanitizer.transform")
    lhs = [ast.unparse(x) for x in tup[0].targets[0].elts]
    rhs = [ast.unparse(x) for x in tup[0].value.args]
    iso = [n for n in ast.walk(fn) if isinstance(n, ast.Assign) and ast.unparse(n.targets[0]) == "isolated_nans"]
    iso_txt = ast.unparse(iso[0].value) if iso else ""
    iso_ok = iso_txt == "~X_valid_features_per_sample.isin([0, X_valid_features.sum().values])"
    cmp_ok = any(isinstance(n, ast.If) and ast.unparse(n.test) == "not X_valid_features.equals(self.is_valid_feature)" for n in ast.walk(fn))
    out += [f"/-- {header(path, 'Sanitizer.transform', src, fn)}: compute() results are assigned back to the names they were computed from; the isolated-NaN "
            f"test is `{iso_txt}`; masks are compared with the fitted one -/",
            f"def sanitizerComputeAssignsInOrder : Bool := {'true' if lhs == rhs else 'false'}",
            f"def sanitizerIsolatedTestCountsAgainstValidFeatures : Bool := {'true' if iso_ok else 'false'}",
            f"def sanitizerComparesMaskWithFit : Bool := {'true' if cmp_ok else 'false'}"]
    return "\n".join(out) + "\n"


# ------------------------------------------------------------------------------------------------- routing of arguments
@target("routingFacts", "Facts", ["C15", "C10", "C20", "C05", "C04", "C17", "C08", "C12", "C02", "C07", "C19"])
def _routing():
    out = []

    def emit(name, path, qual, callee, nth=0, doc=""):
        src, tree = load(path)
        fn = find_func(tree, qual)
        cs = calls_in(fn, callee)
        if len(cs) <= nth:
            raise TranslationError(f"call #{nth} of {callee} not found in {qual}")
        cs.sort(key=lambda n: (n.lineno, n.col_offset))
        out.append(f"/-- {header(path, qual, src, fn)}: keyword arguments of call #{nth} of `{callee}` {doc}-/")
        out.append(f"def {name} : List (String × String) := {lean_pairs(kwargs_of(cs[nth]))}")

    emit("svdWrapperToSVD", "linalg/svd.py", "SVD.fit_transform", "_SVD")
    emit("pcaToSVD", "preprocessing/pca.py", "PCA.fit", "SVD")
    emit("eeofPcaEOF", "single/eeof.py", "ExtendedEOF.__init__", "EOF")
    emit("eeofInnerEOF", "single/eeof.py", "ExtendedEOF._fit_algorithm", "EOF")
    emit("opaInnerEOF", "single/opa.py", "OPA._fit_algorithm", "EOF")
    emit("bootstrapMemberEOF", "validation/bootstrapper.py", "EOFBootstrapper.fit", "EOF")
    emit("bootstrapRng", "validation/bootstrapper.py", "EOFBootstrapper.fit", "np.random.default_rng")
    emit("crossPCA1", "cross/base_model_cross_set.py", "BaseModelCrossSet.__init__", "PCA", 0)
    emit("crossPCA2", "cross/base_model_cross_set.py", "BaseModelCrossSet.__init__", "PCA", 1)
    emit("crossPreprocessor1", "cross/base_model_cross_set.py", "BaseModelCrossSet.__init__", "Preprocessor", 0)
    emit("crossPreprocessor2", "cross/base_model_cross_set.py", "BaseModelCrossSet.__init__", "Preprocessor", 1)
    emit("popPCA", "single/pop.py", "POP.__init__", "PCA")
    # positional argument of default_rng
    src, tree = load("validation/bootstrapper.py")
    fn = find_func(tree, "EOFBootstrapper.fit")
    c = calls_in(fn, "np.random.default_rng")[0]
    out.append("/-- the seed expression handed to numpy's generator by the bootstrapper -/")
    out.append(f"def bootstrapSeedExpr : String := {lean_str(ast.unparse(c.args[0]) if c.args else '')}")
    # decomposer: random_state reaches the randomised solver unconditionally
    src, tree = load("linalg/decomposer.py")
    fn = find_func(tree, "Decomposer.fit")
    dicts = [n for n in ast.walk(fn) if isinstance(n, ast.Assign) and ast.unparse(n.targets[0]) == "solver_kwargs" and isinstance(n.value, ast.BinOp)]
    rs = []
    for d in dicts:
        if isinstance(d.value.right, ast.Dict):
            kv = {ast.unparse(k).strip("'"): ast.unparse(v) for k, v in zip(d.value.right.keys, d.value.right.values)}
            rs.append(kv.get("random_state", kv.get("seed", "<missing>")))
    cond_rs = any(isinstance(n, ast.If) and "random_state" in ast.unparse(n.test) for n in ast.walk(fn))
    out.append(f"/-- {header('linalg/decomposer.py', 'Decomposer.fit', src, fn)}: what each non-exact solver branch receives as seed; no branch makes it conditional -/")
    out.append(f"def decomposerSeedArgs : List String := [{', '.join(lean_str(x) for x in rs)}]")
    out.append(f"def decomposerSeedIsConditional : Bool := {'true' if cond_rs else 'false'}")
    # normalised transforms use the fitted norms
    src, tree = load("single/base_model_single_set.py")
    fn = find_func(tree, "BaseModelSingleSet.transform")
    ifs = [n for n in fn.body if isinstance(n, ast.If) and ast.unparse(n.test) == "normalized"]
    body = [ast.unparse(s) for s in (ifs[0].body if ifs else [])]
    out.append(f"/-- {header('single/base_model_single_set.py', 'BaseModelSingleSet.transform', src, fn)}: the `normalized` branch -/")
    out.append(f"def singleTransformNormalizedBody : List String := [{', '.join(lean_str(x) for x in body)}]")
    fn = find_func(tree, "BaseModelSingleSet.inverse_transform")
    ifs = [n for n in fn.body if isinstance(n, ast.If) and ast.unparse(n.test) == "normalized"]
    body = [ast.unparse(s) for s in (ifs[0].body if ifs else [])]
    first_if = next((i for i, s in enumerate(fn.body) if isinstance(s, ast.If)), None)
    out.append("/-- `BaseModelSingleSet.inverse_transform`: the `normalized` branch (selecting the norms by the scores' mode labels raises for unknown modes) -/")
    out.append(f"def singleInverseNormalizedBody : List String := [{', '.join(lean_str(x) for x in body)}]")
    src, tree = load("cross/cpcca.py")
    fn = find_func(tree, "CPCCA._transform_algorithm")
    asg = [(ast.unparse(n.targets[0]), ast.unparse(n.value)) for n in ast.walk(fn) if isinstance(n, ast.Assign) and ast.unparse(n.targets[0]) in ("norm1", "norm2", "comps1", "comps2")]
    out.append(f"/-- {header('cross/cpcca.py', 'CPCCA._transform_algorithm', src, fn)}: which stored entries each field is projected on / normalised with -/")
    out.append(f"def cpccaTransformSources : List (String × String) := {lean_pairs(sorted(asg))}")
    # Preprocessor / concatenator / renamer facts
    src, tree = load("preprocessing/concatenator.py")
    fn = find_func(tree, "Concatenator.transform")
    cc = calls_in(fn, "xr.concat")
    out.append(f"/-- {header('preprocessing/concatenator.py', 'Concatenator.transform', src, fn)}: keyword arguments of xr.concat (default join = align by label) -/")
    out.append(f"def concatenatorConcatKwargs : List (String × String) := {lean_pairs(kwargs_of(cc[0]) if cc else [('<missing>', '')])}")
    src, tree = load("preprocessing/dimension_renamer.py")
    fn = find_func(tree, "DimensionRenamer.fit")
    od = [ast.unparse(n.value) for n in ast.walk(fn) if isinstance(n, ast.Assign) and ast.unparse(n.targets[0]) == "ordered_dims"]
    out.append(f"/-- {header('preprocessing/dimension_renamer.py', 'DimensionRenamer.fit', src, fn)}: order in which dimensions receive their generic names -/")
    out.append(f"def renamerOrderedDims : String := {lean_str(od[0] if od else '')}")
    return "\n".join(out) + "\n"


# ------------------------------------------------------------------------------------------------- dimension literals (C07, C20)
DIM_KW = {"dim", "dims", "input_core_dims", "output_core_dims", "exclude_dims"}
DIM_METHODS = {"shift", "isel", "sel", "mean", "std", "sum", "var", "rename", "dropna", "stack", "unstack", "transpose", "cumsum", "dot", "concat", "drop_vars", "expand_dims", "assign_coords"}
SUSPECT = {"sample", "feature"}


@target("literalDimUses", "Facts", ["C07", "C20"])
def _literals():
    hits = []
    files = []
    for sub in ("single", "cross", "validation", "multi"):
        d = os.path.join(SRC, sub)
        for f in sorted(os.listdir(d)):
            if f.endswith(".py") and not f.startswith("_"):
                files.append(f"{sub}/{f}")
    for path in files:
        if path in ("single/gwpca.py", "multi/cca.py"):
            continue  # gwpca: not modelled (no property anchors there); multi.CCA offers no sample_name/feature_name option
        src, tree = load(path)
        for node in ast.walk(tree):
            if not isinstance(node, ast.Call):
                continue
            fname = node.func.attr if isinstance(node.func, ast.Attribute) else (node.func.id if isinstance(node.func, ast.Name) else "")
            lits = []
            if fname in DIM_METHODS or fname in ("apply_ufunc", "dot", "concat"):
                for a in node.args:
                    lits += _dim_literals(a)
                for k in node.keywords:
                    if k.arg in SUSPECT:  # .shift(sample=...), .isel(sample=...)
                        lits.append(k.arg)
                    if k.arg in DIM_KW or k.arg is None or fname in DIM_METHODS:
                        lits += _dim_literals(k.value)
            for k in node.keywords:
                if k.arg in ("dim", "dims") and fname not in DIM_METHODS:
                    lits += _dim_literals(k.value)
            for lit in lits:
                hits.append(f"{path}:{node.lineno}:{fname}:{lit}")
        # attribute access like `input_data.sample`
        for node in ast.walk(tree):
            if isinstance(node, ast.Attribute) and node.attr in SUSPECT and isinstance(node.ctx, ast.Load):
                base = ast.unparse(node.value)
                if not base.startswith("self") and base not in ("np", "xr"):
                    hits.append(f"{path}:{node.lineno}:attr:{node.attr}")
    hits = sorted(set(hits))
    return ("/-- uses of the literal dimension names 'sample' / 'feature' inside the model classes (xeofs/single, cross, validation): "
            "models must address dimensions through sample_name / feature_name -/\n"
            f"def literalDimUses : List String := [{', '.join(lean_str(h) for h in hits)}]\n")


def _dim_literals(e):
    out = []
    for n in ast.walk(e):
        if isinstance(n, ast.Constant) and isinstance(n.value, str) and n.value in SUSPECT:
            out.append(n.value)
        if isinstance(n, ast.Dict):
            for k in n.keys:
                if isinstance(k, ast.Constant) and k.value in SUSPECT:
                    out.append(k.value)
    return out


# ------------------------------------------------------------------------------------------------- forcing idioms (C12)
FORCE_ATTRS = {"values", "item", "compute", "load", "persist", "to_numpy", "tolist"}
FIT_PATHS = [
    ("preprocessing/scaler.py", "Scaler.fit"), ("preprocessing/scaler.py", "Scaler.transform"),
    ("preprocessing/sanitizer.py", "Sanitizer.fit"), ("preprocessing/sanitizer.py", "Sanitizer.transform"),
    ("preprocessing/stacker.py", "Stacker.fit"), ("preprocessing/stacker.py", "Stacker.transform"),
    ("preprocessing/concatenator.py", "Concatenator.fit"), ("preprocessing/concatenator.py", "Concatenator.transform"),
    ("preprocessing/pca.py", "PCA.fit"), ("preprocessing/whitener.py", "Whitener.fit"),
    ("preprocessing/whitener.py", "Whitener._compute_whitener_transform_numpy"),
    ("linalg/svd.py", "SVD.fit_transform"), ("linalg/_numpy/_svd.py", "_SVD.fit_transform"), ("linalg/_numpy/_utils.py", "_fractional_matrix_power"),
    ("linalg/decomposer.py", "Decomposer.fit"), ("linalg/decomposer.py", "Decomposer._compute_svd_result"),
    ("linalg/_numpy/_rotation.py", "_varimax"), ("linalg/_numpy/_rotation.py", "_promax"),
    ("single/eof.py", "EOF._fit_algorithm"), ("single/eeof.py", "ExtendedEOF._fit_algorithm"),
    ("single/eof_rotator.py", "EOFRotator._fit_algorithm"), ("cross/cpcca.py", "CPCCA._fit_algorithm"),
    ("cross/cpcca_rotator.py", "CPCCARotator._fit_algorithm"), ("cross/base_model_cross_set.py", "BaseModelCrossSet.fit"),
    ("single/base_model_single_set.py", "BaseModelSingleSet.fit"), ("utils/xarray_utils.py", "get_deterministic_sign_multiplier"),
    ("utils/xarray_utils.py", "argsort_dask"),
]


def guard_class(g):
    """the condition a forcing site sits under, reduced to the option that controls it"""
    parts = [p.strip() for p in g.split(" and ")]
    first = parts[0]
    if g == "always":
        return "always"
    if first in ("self.get_params()['compute']", "self._params['compute']", "self.compute_svd", "compute", "match self.compute case True", "params['compute']"):
        return "compute"
    if first == "self.check_nans":
        return "check_nans"
    if first == "self.is_based_on_variance":
        return "variance_threshold"
    return "unrecognised: " + g


@target("forcingSites", "Facts", ["C12"])
def _forcing():
    sites = []
    for path, qual in FIT_PATHS:
        src, tree = load(path)
        fn = find_func(tree, qual)
        parents = {}
        for p in ast.walk(fn):
            for c in ast.iter_child_nodes(p):
                parents[c] = p

        def guard_of(node):
            g = []
            cur = node
            while cur in parents:
                par = parents[cur]
                if isinstance(par, ast.If):
                    side = "" if cur in par.body else "not "
                    g.append(side + ast.unparse(par.test))
                if isinstance(par, ast.match_case):
                    mm = parents.get(par)
                    g.append(f"match {ast.unparse(mm.subject)} case {ast.unparse(par.pattern)}")
                cur = par
            return " and ".join(reversed(g)) if g else "always"

        call_funcs = {id(n.func) for n in ast.walk(fn) if isinstance(n, ast.Call)}
        for node in ast.walk(fn):
            kind = None
            if isinstance(node, ast.Attribute) and node.attr in FORCE_ATTRS and isinstance(node.ctx, ast.Load):
                base = ast.unparse(node.value)
                is_called = id(node) in call_funcs
                if node.attr == "values":
                    # `.values` of an array is a property; a called `.values()` is a dict method
                    if is_called or ".coords[" in base or base.endswith("_coords") or "idx_modes_sorted" in base:
                        continue
                    kind = ".values"
                elif is_called and base not in ("dask", "self"):
                    kind = "." + node.attr + "()"
            if isinstance(node, ast.Call) and ast.unparse(node.func) in ("dask.compute", "compute", "dask_compute", "bool"):
                kind = ast.unparse(node.func) + "()"
            if isinstance(node, ast.If):
                t = ast.unparse(node.test)
                if any(x in t for x in (".any()", ".all()")):
                    kind = "if-on-array"
                if "delta" in t and "rtol" in t:
                    kind = "if-on-array"
            if kind:
                g = guard_of(node) if not isinstance(node, ast.If) else (guard_of(node) + " and " if guard_of(node) != "always" else "") + ast.unparse(node.test)
                sites.append((f"{path}:{qual}:{kind}", guard_class(g)))
    sites = sorted(set(sites))
    return ("/-- every place on a fit path where a lazy array would be materialised, with the guard it sits under -/\n"
            f"def forcingSites : List (String × String) := {lean_pairs(sites)}\n")


# ------------------------------------------------------------------------------------------------- attribute codec (C13)
@target("codecFacts", "Codec", ["C13"])
def _codec():
    path = "utils/io.py"
    src, tree = load(path)
    fn = find_func(tree, "_sanitize_attrs_nc")
    sym = Sym(fn)
    st = sym.defs.get("sanitized_types")
    types = [ast.unparse(x) for x in st.elts]
    fn2 = find_func(tree, "_should_desanitize")
    if len(fn2.body) != 2 or not isinstance(fn2.body[0], ast.If):
        raise TranslationError("unexpected shape of _should_desanitize")
    outer = fn2.body[0]
    guard = ast.unparse(outer.test)
    if guard == "isinstance(attr, str) and len(attr) > 0":
        empty_guard = True
    elif guard == "isinstance(attr, str)":
        empty_guard = False
    else:
        raise TranslationError("unexpected guard " + guard)
    inner = outer.body[0]
    if not (isinstance(inner, ast.If) and isinstance(inner.test, ast.BoolOp) and isinstance(inner.test.op, ast.Or)):
        raise TranslationError("unexpected inner test")
    conds = []
    for c in inner.test.values:
        s = ast.unparse(c)
        if s == "attr[0] == '{' and attr[-1] == '}'":
            conds.append("(first == '{' && last == '}')")
        elif s == "attr[0] == '[' and attr[-1] == ']'":
            conds.append("(first == '[' && last == ']')")
        elif s == "attr in ['True', 'False']":
            conds.append('(s == "True" || s == "False")')
        elif s == "attr == 'None'":
            conds.append('(s == "None")')
        else:
            raise TranslationError("unknown look-alike test: " + s)
    body = " || ".join(conds)
    fn3 = find_func(tree, "_desanitize_attrs_nc")
    uses = [ast.unparse(n.value) for n in ast.walk(fn3) if isinstance(n, ast.Assign)]
    tolerant = all("_literal_eval_or_keep(attr)" in u for u in uses) and len(uses) == 2
    loops = [ast.unparse(n.iter) for n in ast.walk(fn3) if isinstance(n, ast.For)]
    loops_s = [ast.unparse(n.iter) for n in ast.walk(fn) if isinstance(n, ast.For)]
    keep = find_func(tree, "_literal_eval_or_keep") if tolerant else None
    caught = []
    if keep is not None:
        for n in ast.walk(keep):
            if isinstance(n, ast.ExceptHandler) and n.type is not None:
                caught += [ast.unparse(e) for e in (n.type.elts if isinstance(n.type, ast.Tuple) else [n.type])]
        # literal_eval raises ValueError (malformed node) or SyntaxError (not an expression): both mean "not a literal"
        tolerant = tolerant and {"ValueError", "SyntaxError"} <= set(caught)
    return (f"/-- {header(path, '_sanitize_attrs_nc', src, fn)}: Python types that are stringified for netCDF -/\n"
            f"def sanitizedTypes : List String := [{', '.join(lean_str(t) for t in types)}]\n"
            f"/-- {header(path, '_should_desanitize', src, fn2)}: the look-alike test on a string; `none` = IndexError on the empty string -/\n"
            "def shouldDesanitizeStr (s : String) : Option Bool :=\n"
            "  match s.toList with\n"
            f"  | [] => {'some false' if empty_guard else 'none'}\n"
            "  | first :: rest =>\n"
            "    let last := (first :: rest).getLast!\n"
            f"    some ({body})\n"
            f"/-- {header(path, '_desanitize_attrs_nc', src, fn3)}: strings that are no Python literal are kept; both codecs walk the same attribute holders -/\n"
            f"def desanitizeKeepsNonLiterals : Bool := {'true' if tolerant else 'false'}\n"
            f"def literalEvalCaught : List String := [{', '.join(lean_str(x) for x in caught)}]\n"
            f"def sanitizeLoops : List String := [{', '.join(lean_str(x) for x in loops_s)}]\n"
            f"def desanitizeLoops : List String := [{', '.join(lean_str(x) for x in loops)}]\n")


@target("serializationFacts", "Facts", ["C13"])
def _serialization():
    path = "preprocessing/preprocessor.py"
    src, tree = load(path)
    fn = find_func(tree, "Preprocessor.deserialize")
    loops = [ast.unparse(n.iter) for n in ast.walk(fn) if isinstance(n, ast.For)]
    fn2 = find_func(tree, "Preprocessor.serialize")
    keys = [ast.unparse(n.targets[0]) for n in ast.walk(fn2) if isinstance(n, ast.Assign) and "dt_transformer.transformers[" in ast.unparse(n.targets[0])]
    return (f"/-- {header(path, 'Preprocessor.deserialize', src, fn)}: iteration orders used when the list transformers are rebuilt (insertion order of the "
            "serialised members = fit order) -/\n"
            f"def preprocessorDeserializeLoops : List String := [{', '.join(lean_str(x) for x in loops)}]\n"
            f"def preprocessorSerializeKeys : List String := [{', '.join(lean_str(x) for x in keys)}]\n")


# ------------------------------------------------------------------------------------------------- data-flow facts
def _step_order(fn, var_prefix):
    """order (by source line) of the tagged steps applied to the projection variable(s) in a rotator's transform"""
    steps = []
    for n in ast.walk(fn):
        if isinstance(n, ast.Assign) and ast.unparse(n.targets[0]) == var_prefix:
            v = ast.unparse(n.value)
            if "RinvT" in v and "xr.dot" in v:
                steps.append((n.lineno, "rotate"))
            elif "modes_sign" in v:
                steps.append((n.lineno, "sign"))
            elif "pseudo_norms" in v or "self.data['norm1']" in v or "self.data['norm2']" in v:
                steps.append((n.lineno, "norms"))
        if isinstance(n, ast.If) and ast.unparse(n.test) == "self.sorted" and "idx_modes_sorted" in ast.unparse(n) and \
                any(isinstance(b, ast.Assign) and ast.unparse(b.targets[0]) == var_prefix for b in n.body):
            steps.append((n.lineno, "reorder"))
    return [s for _, s in sorted(steps)]


@target("flowFacts", "Facts", ["C01", "C03", "C04", "C05", "C09", "C10", "C11", "C16"])
def _flow():
    out = []
    # Hilbert transform: the mean of the imaginary part is removed per feature (axis 0 = samples)
    path = "utils/hilbert_transform.py"
    src, tree = load(path)
    fn = find_func(tree, "_hilbert_transform_with_padding")
    means = [ast.unparse(c) for c in ast.walk(fn) if isinstance(c, ast.Call) and ast.unparse(c.func).endswith(".imag.mean")]
    if len(means) != 1:
        raise TranslationError("re-centring of the imaginary part not found: " + str(means))
    call = [c for c in ast.walk(fn) if isinstance(c, ast.Call) and ast.unparse(c.func).endswith(".imag.mean")][0]
    args = ", ".join([ast.unparse(a) for a in call.args] + [f"{k.arg}={ast.unparse(k.value)}" for k in call.keywords])
    out += [f"/-- {header(path, '_hilbert_transform_with_padding', src, fn)}: arguments of the mean that re-centres the imaginary part (`{means[0]}`) -/",
            f"def hilbertRecentreMeanArgs : String := {lean_str(args)}"]
    # … as a top-level statement (for every padding mode) placed after the padded part has been cut away
    top = [i for i, st in enumerate(fn.body) if isinstance(st, ast.Assign) and ".imag.mean" in ast.unparse(st.value)]
    cuts = [i for i, st in enumerate(fn.body) if isinstance(st, ast.If) and "n_samples:2 * n_samples" in ast.unparse(st).replace(" : ", ":")]
    ok = len(top) == 1 and len(cuts) == 1 and cuts[0] < top[0]
    out += ["/-- the re-centring is unconditional and follows the removal of the padding -/",
            f"def hilbertRecentreAfterCutUnconditional : Bool := {'true' if ok else 'false'}"]
    # PCA.inverse_transform_data multiplies with the conjugate transpose of V
    path = "preprocessing/pca.py"
    src, tree = load(path)
    fn = find_func(tree, "PCA.inverse_transform_data")
    rets = [ast.unparse(n.value) for n in ast.walk(fn) if isinstance(n, ast.Return) and n.value is not None and "xr.dot" in ast.unparse(n.value)]
    if len(rets) != 1:
        raise TranslationError("PCA.inverse_transform_data: projection not found")
    out += [f"/-- {header(path, 'PCA.inverse_transform_data', src, fn)}: `{rets[0]}` -/",
            f"def pcaInverseDataUsesConjTranspose : Bool := {'true' if rets[0] == 'xr.dot(X, self.V.conj().T, dims=' + repr('mode') + ')' else 'false'}"]
    fn = find_func(tree, "PCA.transform")
    rets = [ast.unparse(n.value) for n in ast.walk(fn) if isinstance(n, ast.Assign) and "xr.dot" in ast.unparse(n.value)]
    out += [f"/-- `PCA.transform`: `{rets[0] if rets else '?'}` -/",
            f"def pcaTransformUsesV : Bool := {'true' if rets == ['xr.dot(X, self.V, dims=self.feature_name)'] else 'false'}"]
    # rotators: fit clears the `sorted` flag before sorting; transform applies rotate -> reorder -> (norms, sign)
    for path, qual, nm, prefix in (("single/eof_rotator.py", "EOFRotator", "eofRotator", "projections"),
                                   ("cross/cpcca_rotator.py", "CPCCARotator", "cpccaRotator", "projections1")):
        src, tree = load(path)
        fit = find_func(tree, qual + "._fit_algorithm")
        resets = [s.lineno for s in fit.body if isinstance(s, ast.Assign) and ast.unparse(s.targets[0]) == "self.sorted" and ast.unparse(s.value) == "False"]
        srt = find_func(tree, qual + "._sort_by_variance")
        guarded = any(isinstance(s, ast.If) and ast.unparse(s.test) == "not self.sorted" for s in srt.body)
        sets = any(isinstance(s, ast.Assign) and ast.unparse(s) == "self.sorted = True" for s in srt.body)
        ok = bool(resets) and guarded and sets
        out += [f"/-- {header(path, qual + '._fit_algorithm', src, fit)}: every fit clears the `sorted` flag that guards `_sort_by_variance` (`if not self.sorted: … ; self.sorted = True`) -/",
                f"def {nm}FitResetsSorted : Bool := {'true' if ok else 'false'}"]
        tf = find_func(tree, qual + ("._transform_algorithm" if qual == "EOFRotator" else ".transform"))
        steps = _step_order(tf, prefix)
        out += [f"/-- {header(path, qual + ' transform', src, tf)}: order of the steps applied to the projected scores -/",
                f"def {nm}TransformSteps : List String := [{', '.join(lean_str(x) for x in steps)}]"]
    # cross-set transform / inverse_transform: each field goes through ITS OWN preprocessor, PCA and whitener
    import re as _re
    path = "cross/base_model_cross_set.py"
    src, tree = load(path)
    for meth, nm in (("BaseModelCrossSet.transform", "crossTransform"), ("BaseModelCrossSet.inverse_transform", "crossInverse")):
        fn = find_func(tree, meth)
        used = {"X": set(), "Y": set()}
        for n in ast.walk(fn):
            if isinstance(n, ast.If):
                t = ast.unparse(n.test)
                fld = "X" if t in ("X is not None", "x_is_given") else ("Y" if t in ("Y is not None", "y_is_given") else None)
                if fld:
                    used[fld] |= set(_re.findall(r"self\.((?:preprocessor|pca|whitener)\d)", ast.unparse(n)))
        if not used["X"] or not used["Y"]:
            raise TranslationError(meth + ": per-field blocks not found")
        out += [f"/-- {header(path, meth, src, fn)}: transformer objects used in the block of each field -/",
                f"def {nm}ObjectsX : List String := [{', '.join(lean_str(x) for x in sorted(used['X']))}]",
                f"def {nm}ObjectsY : List String := [{', '.join(lean_str(x) for x in sorted(used['Y']))}]"]
    return "\n".join(out) + "\n"


# ------------------------------------------------------------------------------------------------- more data-flow facts
def _stmts(fn):
    return [ast.unparse(s) for s in fn.body if not (isinstance(s, ast.Expr) and isinstance(s.value, ast.Constant))]


def _self_writes(fn):
    """attributes of `self` assigned anywhere in the function (incl. tuple targets)"""
    out = set()
    for n in ast.walk(fn):
        tg = []
        if isinstance(n, ast.Assign):
            tg = n.targets
        elif isinstance(n, (ast.AnnAssign, ast.AugAssign)):
            tg = [n.target]
        for t in tg:
            for e in ast.walk(t):
                if isinstance(e, ast.Attribute) and isinstance(e.value, ast.Name) and e.value.id == "self":
                    out.add("self." + e.attr)
    return sorted(out)


@target("flowFacts2", "Facts", ["C01", "C04", "C05", "C07", "C08", "C10", "C12", "C14", "C15", "C17", "C20", "C03", "C06"])
def _flow2():
    out = []
    # -- Scaler: user weights are used as given
    src, tree = load("preprocessing/scaler.py")
    fn = find_func(tree, "Scaler._process_weights")
    rets = [ast.unparse(n.value) for n in ast.walk(fn) if isinstance(n, ast.Return)]
    asg = sorted((ast.unparse(n.target), ast.unparse(n.value)) for n in ast.walk(fn) if isinstance(n, ast.AnnAssign))
    ok = rets == ["wghts"] and asg == [("wghts", "feature_ones_like(X, self.feature_dims)"), ("wghts", "weights")]
    out += [f"/-- {header('preprocessing/scaler.py', 'Scaler._process_weights', src, fn)}: the user's weights are stored unchanged (ones when absent) -/",
            f"def scalerWeightsUsedAsGiven : Bool := {'true' if ok else 'false'}"]
    # -- PCA transformer: bodies of the four maps
    src, tree = load("preprocessing/pca.py")
    for meth, nm in (("PCA.transform", "pcaTransformBody"), ("PCA.inverse_transform_components", "pcaInverseCompsBody"), ("PCA.transform_components", "pcaTransformCompsBody")):
        fn = find_func(tree, meth)
        ifs = [s for s in fn.body if isinstance(s, ast.If) and ast.unparse(s.test) == "self.use_pca"]
        if len(ifs) != 1:
            raise TranslationError(meth + ": `if self.use_pca` not found")
        body = [ast.unparse(s) for s in ifs[0].body]
        out += [f"/-- {header('preprocessing/pca.py', meth, src, fn)}: statements of the `use_pca` branch -/",
                f"def {nm} : List String := [{', '.join(lean_str(x) for x in body)}]"]
    # -- Sanitizer.transform writes nothing but the (computed) validity mask
    src, tree = load("preprocessing/sanitizer.py")
    fn = find_func(tree, "Sanitizer.transform")
    out += [f"/-- {header('preprocessing/sanitizer.py', 'Sanitizer.transform', src, fn)}: attributes of the fitted object assigned during transform -/",
            f"def sanitizerTransformWrites : List String := [{', '.join(lean_str(x) for x in _self_writes(fn))}]"]
    # -- cross-set base: whitener construction, alpha handling, normalized forwarding, dropped-sample check
    path = "cross/base_model_cross_set.py"
    src, tree = load(path)
    init = find_func(tree, "BaseModelCrossSet.__init__")
    wh = [c for c in ast.walk(init) if isinstance(c, ast.Call) and ast.unparse(c.func) == "Whitener"]
    if len(wh) != 2:
        raise TranslationError("two Whitener(...) constructions expected")
    out += [f"/-- {header(path, 'BaseModelCrossSet.__init__', src, init)}: arguments of the two whiteners -/",
            f"def crossWhitener1 : List (String × String) := {lean_pairs(kwargs_of(wh[0]))}",
            f"def crossWhitener2 : List (String × String) := {lean_pairs(kwargs_of(wh[1]))}"]
    alpha_asg = [ast.unparse(n.value) for n in ast.walk(init) if isinstance(n, ast.Assign) and ast.unparse(n.targets[0]) == "alpha"]
    out += ["/-- every assignment to `alpha` before it reaches the whiteners (no clipping: a negative alpha must reach the Whitener's check) -/",
            f"def crossAlphaAssignments : List String := [{', '.join(lean_str(x) for x in alpha_asg)}]"]
    tf = find_func(tree, "BaseModelCrossSet.transform")
    calls = [c for c in ast.walk(tf) if isinstance(c, ast.Call) and ast.unparse(c.func) == "self._transform_algorithm"]
    out += [f"/-- {header(path, 'BaseModelCrossSet.transform', src, tf)}: the call of the algorithm -/",
            f"def crossTransformAlgorithmCall : String := {lean_str(ast.unparse(calls[0]) if len(calls) == 1 else '<missing>')}"]
    chk = find_func(tree, "BaseModelCrossSet._check_dropped_samples_match")
    conds = [ast.unparse(s.test) for s in chk.body if isinstance(s, ast.If)]
    out += [f"/-- {header(path, 'BaseModelCrossSet._check_dropped_samples_match', src, chk)}: condition under which fields with differently placed missing samples are refused -/",
            f"def crossDroppedSamplesCondition : List String := [{', '.join(lean_str(x) for x in conds)}]"]
    # -- EOF inverse: components are selected by the scores' mode labels (unknown labels raise)
    src, tree = load("single/eof.py")
    fn = find_func(tree, "EOF._inverse_transform_algorithm")
    comps = [ast.unparse(n.value) for n in ast.walk(fn) if isinstance(n, ast.Assign) and ast.unparse(n.targets[0]) == "comps"]
    out += [f"/-- {header('single/eof.py', 'EOF._inverse_transform_algorithm', src, fn)}: how the components are picked -/",
            f"def eofInverseCompsExpr : List String := [{', '.join(lean_str(x) for x in comps)}]"]
    # -- input data is stored with allow_compute=False everywhere
    sites = []
    for path in ("single/eof.py", "single/eeof.py", "single/eof_rotator.py", "single/pop.py", "single/opa.py", "single/sparse_pca.py", "cross/cpcca.py",
                 "cross/cpcca_rotator.py"):
        src, tree = load(path)
        for c in ast.walk(tree):
            if isinstance(c, ast.Call) and ast.unparse(c.func).endswith("data.add"):
                txt = ast.unparse(c)
                args = [ast.unparse(a) for a in c.args] + [f"{k.arg}={ast.unparse(k.value)}" for k in c.keywords]
                names = [a for a in args if "input_data" in a and (a.startswith("'") or a.startswith("name="))]
                if names:
                    sites.append((path + ":" + names[0].replace("name=", "").strip("'"), "allow_compute=False" in txt.replace(" ", "")))
    if len(sites) < 8:
        raise TranslationError("input_data registrations not found: " + str(sites))
    out += ["/-- every registration of an `input_data*` entry in a DataContainer, and whether it is excluded from compute() -/",
            "def inputDataRegistrations : List (String × Bool) := [" + ", ".join(f"({lean_str(a)}, {'true' if b else 'false'})" for a, b in sorted(sites)) + "]"]
    # -- bootstrapper: member scores are the projection of the ORIGINAL samples
    src, tree = load("validation/bootstrapper.py")
    fn = find_func(tree, "EOFBootstrapper.fit")
    sc = [ast.unparse(n.value) for n in ast.walk(fn) if isinstance(n, ast.Assign) and ast.unparse(n.targets[0]) == "scores"]
    out += [f"/-- {header('validation/bootstrapper.py', 'EOFBootstrapper.fit', src, fn)}: where a member's scores come from -/",
            f"def bootstrapMemberScoresExpr : List String := [{', '.join(lean_str(x) for x in sc)}]"]
    # -- EOFRotator: the model's own arrays are not modified in place
    src, tree = load("single/eof_rotator.py")
    fn = find_func(tree, "EOFRotator._fit_algorithm")
    aug = [ast.unparse(n) for n in ast.walk(fn) if isinstance(n, ast.AugAssign)]
    src2, tree2 = load("cross/cpcca_rotator.py")
    fn2 = find_func(tree2, "CPCCARotator._fit_algorithm")
    aug += [ast.unparse(n) for n in ast.walk(fn2) if isinstance(n, ast.AugAssign)]
    out += ["/-- in-place (augmented) assignments inside the rotators' fit (views of the model's arrays must not be written) -/",
            f"def rotatorFitInPlaceOps : List String := [{', '.join(lean_str(x) for x in aug)}]"]
    # -- Decomposer / _SVD: the function that performs the decomposition in each solver branch
    for path, qual, nm in (("linalg/decomposer.py", "Decomposer.fit", "decomposerSolverFunctions"), ("linalg/_numpy/_svd.py", "_SVD.fit_transform", "svdSolverFunctions")):
        src, tree = load(path)
        fn = find_func(tree, qual)
        funcs = []
        for c in ast.walk(fn):
            if isinstance(c, ast.Call) and ast.unparse(c.func) == "self._svd":
                args = [ast.unparse(a) for a in c.args]
                funcs.append((c.lineno, args[-2] if len(args) >= 2 else "?"))
        out += [f"/-- {header(path, qual, src, fn)}: solver functions handed to `self._svd`, in source order (exact, randomised, complex, dask) -/",
                f"def {nm} : List String := [{', '.join(lean_str(f) for _, f in sorted(funcs))}]"]
    # -- dask branch keeps the documented number of power iterations
    src, tree = load("linalg/decomposer.py")
    fn = find_func(tree, "Decomposer.fit")
    sd = [ast.unparse(c) for c in ast.walk(fn) if isinstance(c, ast.Call) and ast.unparse(c.func) == "solver_kwargs.setdefault"]
    out += ["/-- defaults the dask branch of `Decomposer.fit` puts into the solver options -/",
            f"def decomposerDaskDefaults : List String := [{', '.join(lean_str(x) for x in sd)}]"]
    # -- accessors never re-name (or otherwise write into) the arrays stored in the model's result container
    offenders = []
    for sub in ("single", "cross", "multi", "validation"):
        d = os.path.join(SRC, sub)
        for fname in sorted(os.listdir(d)):
            if not fname.endswith(".py"):
                continue
            src, tree = load(sub + "/" + fname)
            for fn in [n for n in ast.walk(tree) if isinstance(n, ast.FunctionDef)]:
                if fn.name.startswith("_") or fn.name in ("fit", "compute"):
                    continue
                # last assignment to each local name before every attribute write, in source order
                events = []
                for st in ast.walk(fn):
                    if isinstance(st, ast.Assign):
                        for t in st.targets:
                            if isinstance(t, ast.Name):
                                is_direct = isinstance(st.value, ast.Subscript) and ast.unparse(st.value.value) == "self.data"
                                events.append((st.lineno, "bind", t.id, is_direct, st))
                            elif isinstance(t, ast.Attribute) and isinstance(t.value, ast.Name):
                                events.append((st.lineno, "write", t.value.id, None, st))
                            elif isinstance(t, ast.Attribute) and isinstance(t.value, ast.Subscript) and ast.unparse(t.value.value) == "self.data":
                                offenders.append(f"{sub}/{fname}:{fn.name}:{ast.unparse(st)}")
                state = {}
                for _, kind_, nm_, is_direct, st in sorted(events, key=lambda e: e[0]):
                    if kind_ == "bind":
                        state[nm_] = is_direct
                    elif state.get(nm_):
                        offenders.append(f"{sub}/{fname}:{fn.name}:{ast.unparse(st)}")
    out += ["/-- public accessors that assign an attribute (e.g. `.name`) of an array taken directly from the result container -/",
            f"def accessorsWritingStoredArrays : List String := [{', '.join(lean_str(x) for x in offenders)}]"]
    return "\n".join(out) + "\n"


@target("flowFacts3", "Facts", ["C02", "C03", "C04", "C05", "C07", "C09", "C10", "C11", "C17"])
def _flow3():
    out = []
    # -- MultiIndexConverter: which record each way back reads
    path = "preprocessing/multi_index_converter.py"
    src, tree = load(path)
    refs = []
    for meth in ("inverse_transform_scores", "inverse_transform_scores_unseen", "inverse_transform_data", "inverse_transform_components"):
        fn = find_func(tree, "MultiIndexConverter." + meth)
        rets = [ast.unparse(n.value) for n in ast.walk(fn) if isinstance(n, ast.Return) and n.value is not None]
        refs.append((meth, rets[0] if len(rets) == 1 else "<ambiguous>"))
    out += [f"/-- {header(path, 'MultiIndexConverter', src, find_func(tree, 'MultiIndexConverter'))}: the record (fit / transform) each inverse reads -/",
            f"def multiIndexInverseReferences : List (String × String) := {lean_pairs(refs)}"]
    # -- cross-set base: order of the fit pipeline, no alignment of the two score arrays in inverse_transform, writes of transform
    path = "cross/base_model_cross_set.py"
    src, tree = load(path)
    fit = find_func(tree, "BaseModelCrossSet.fit")
    steps = []
    for n in ast.walk(fit):
        if isinstance(n, ast.Call):
            f = ast.unparse(n.func)
            for key, tag in (("self.preprocessor1.fit_transform", "preprocess"), ("self._check_dropped_samples_match", "check-samples"), ("self.pca1.fit_transform", "pca"),
                             ("self._augment_data", "augment"), ("self.whitener1.fit_transform", "whiten"), ("self._fit_algorithm", "algorithm")):
                if f == key:
                    steps.append((n.lineno, tag))
    out += [f"/-- {header(path, 'BaseModelCrossSet.fit', src, fit)}: order of the stages (the Hilbert augmentation precedes the whitening) -/",
            f"def crossFitStages : List String := [{', '.join(lean_str(t) for _, t in sorted(steps))}]"]
    inv = find_func(tree, "BaseModelCrossSet.inverse_transform")
    aligns = [ast.unparse(c)[:80] for c in ast.walk(inv) if isinstance(c, ast.Call) and ast.unparse(c.func) in ("xr.align", "xr.broadcast", "xr.merge")]
    out += ["/-- calls inside `BaseModelCrossSet.inverse_transform` that would pair the two score arrays sample by sample -/",
            f"def crossInverseAlignCalls : List String := [{', '.join(lean_str(x) for x in aligns)}]"]
    # -- objects used by transform must not be written by it (no caches surviving a refit)
    for path, qual, nm in (("cross/cpcca_rotator.py", "CPCCARotator.transform", "cpccaRotatorTransformWrites"),
                           ("single/eof_rotator.py", "EOFRotator._transform_algorithm", "eofRotatorTransformWrites"),
                           ("cross/base_model_cross_set.py", "BaseModelCrossSet.transform", "crossTransformWrites"),
                           ("single/base_model_single_set.py", "BaseModelSingleSet.transform", "singleTransformWrites")):
        src, tree = load(path)
        fn = find_func(tree, qual)
        out += [f"/-- {header(path, qual, src, fn)}: attributes of the object assigned during transform -/",
                f"def {nm} : List String := [{', '.join(lean_str(x) for x in _self_writes(fn))}]"]
    # -- PCA: "all" resolves to the full rank bound
    src, tree = load("preprocessing/pca.py")
    fn = find_func(tree, "PCA._get_n_modes")
    rets = [ast.unparse(n.value) for n in ast.walk(fn) if isinstance(n, ast.Return)]
    out += [f"/-- {header('preprocessing/pca.py', 'PCA._get_n_modes', src, fn)}: return values (`'all'` first) -/",
            f"def pcaAllModesResolution : List String := [{', '.join(lean_str(x) for x in rets)}]"]
    # -- CPCCARotator: the order of the rotated modes comes from the squared covariance
    src, tree = load("cross/cpcca_rotator.py")
    fn = find_func(tree, "CPCCARotator._fit_algorithm")
    sym = Sym(fn)
    idx = [ast.unparse(n.value) for n in ast.walk(fn) if isinstance(n, ast.Assign) and ast.unparse(n.targets[0]) == "idx_modes_sorted"]
    sq = ast.unparse(sym.defs.get("squared_covariance", ast.Name("?")))
    ec = ast.unparse(sym.defs.get("explained_covariance", ast.Name("?")))
    out += [f"/-- {header('cross/cpcca_rotator.py', 'CPCCARotator._fit_algorithm', src, fn)}: sort key of the rotated modes -/",
            f"def cpccaRotatorSortKey : List String := [{', '.join(lean_str(x) for x in idx + [sq, ec])}]"]
    # -- CPCCA inverse: components picked by the scores' mode labels
    src, tree = load("cross/cpcca.py")
    fn = find_func(tree, "CPCCA._inverse_transform_algorithm")
    comps = sorted(ast.unparse(n.value) for n in ast.walk(fn) if isinstance(n, ast.Assign) and ast.unparse(n.targets[0]) in ("comps1", "comps2"))
    out += [f"/-- {header('cross/cpcca.py', 'CPCCA._inverse_transform_algorithm', src, fn)}: how the components are picked -/",
            f"def cpccaInverseCompsExpr : List String := [{', '.join(lean_str(x) for x in comps)}]"]
    # -- Stacker: every squeezed non-feature dimension is restored for Dataset output
    src, tree = load("preprocessing/stacker.py")
    fn = find_func(tree, "Stacker._restore_squeezed_dims")
    out += [f"/-- {header('preprocessing/stacker.py', 'Stacker._restore_squeezed_dims', src, fn)}: body -/",
            f"def stackerRestoreSqueezedBody : List String := [{', '.join(lean_str(x) for x in _stmts(fn))}]"]
    return "\n".join(out) + "\n"


@target("flowFacts4", "Facts", ["C02", "C03", "C04", "C05", "C07"])
def _flow4():
    """label-based (not positional) handling of the data handed to `transform` and of the index restored on the way back"""
    out = []
    path = "preprocessing/stacker.py"
    src, tree = load(path)
    # -- Dataset branch of `_stack`: the statements of the `case xr.Dataset()` arm, in order
    fn = find_func(tree, "Stacker._stack")
    arm = []
    for n in ast.walk(fn):
        if isinstance(n, ast.match_case) and ast.unparse(n.pattern) == "xr.Dataset()":
            arm = [ast.unparse(s) for s in n.body]
    if not arm:
        raise TranslationError("Stacker._stack: no `case xr.Dataset()` arm found")
    out += [f"/-- {header(path, 'Stacker._stack', src, fn)}: statements of the Dataset arm (all variables are brought into one dimension order "
            "before `to_stacked_array`, so the feature order is a function of the fitted state only) -/",
            f"def stackerDatasetArm : List String := [{', '.join(lean_str(' '.join(x.split())) for x in arm)}]"]
    # -- transform: order of the calls on `self`
    fn = find_func(tree, "Stacker.transform")
    calls = sorted((n.lineno, ast.unparse(n.func)) for n in ast.walk(fn) if isinstance(n, ast.Call) and ast.unparse(n.func).startswith("self._"))
    out += [f"/-- {header(path, 'Stacker.transform', src, fn)}: the private steps, in order (feature labels are aligned BEFORE they are compared) -/",
            f"def stackerTransformSteps : List String := [{', '.join(lean_str(c) for _, c in calls)}]"]
    al = find_func(tree, "Stacker._align_feature_coords")
    sel = [ast.unparse(n) for n in ast.walk(al) if isinstance(n, ast.Call) and ast.unparse(n.func) == "X.sel"]
    out += [f"/-- {header(path, 'Stacker._align_feature_coords', src, al)}: the label-based selections it performs -/",
            f"def stackerAlignSelections : List String := [{', '.join(lean_str(x) for x in sel)}]"]
    # -- MultiIndexConverter._inverse_transform: the index that is written back is cut down to the entries that are left
    path = "preprocessing/multi_index_converter.py"
    src, tree = load(path)
    fn = find_func(tree, "MultiIndexConverter._inverse_transform")
    cuts = [" ".join(ast.unparse(n).split()) for n in ast.walk(fn) if isinstance(n, ast.If) and "sizes" in ast.unparse(n.test)]
    out += [f"/-- {header(path, 'MultiIndexConverter._inverse_transform', src, fn)}: size-guarded statements (entries dropped in between) -/",
            f"def multiIndexRestoreCuts : List String := [{', '.join(lean_str(x) for x in cuts)}]"]
    return "\n".join(out) + "\n"


@target("flowFacts5", "Facts", ["C10", "C04", "C05"])
def _flow5():
    """named cross-set classes forward every constructor argument; per-field accessors of the cross-set base use the field's own preprocessor;
    the Stacker remembers and re-applies the fitted order of Dataset variables"""
    out = []
    # -- every named class hands each of its constructor arguments on to the general class (only `alpha` is fixed by the class)
    dropped = []
    for path, cls in (("cross/cca.py", "CCA"), ("cross/mca.py", "MCA"), ("cross/rda.py", "RDA"), ("cross/cca.py", "ComplexCCA"), ("cross/mca.py", "ComplexMCA"),
                      ("cross/rda.py", "ComplexRDA"), ("cross/cca.py", "HilbertCCA"), ("cross/mca.py", "HilbertMCA"), ("cross/rda.py", "HilbertRDA")):
        src, tree = load(path)
        fn = find_func(tree, cls + ".__init__")
        params = [a.arg for a in fn.args.args + fn.args.kwonlyargs if a.arg != "self"]
        sup = [n for n in ast.walk(fn) if isinstance(n, ast.Call) and (ast.unparse(n.func) == "super().__init__" or ast.unparse(n.func).endswith("CPCCA.__init__"))]
        if not sup:
            raise TranslationError(f"{cls}.__init__: no call of the parent constructor")
        kws = {k.arg: ast.unparse(k.value) for k in sup[0].keywords if k.arg}
        if any(k.arg is None for k in sup[0].keywords):
            kws.update({p: p for p in params})  # **kwargs hands everything on
        for p_ in params:
            if kws.get(p_) != p_:
                dropped.append(f"{cls}.{p_}")
    out += ["/-- constructor arguments of the named cross-set classes (CCA / MCA / RDA and their Complex / Hilbert variants) that are NOT handed on unchanged "
            "to the parent constructor -/",
            f"def namedClassArgsNotForwarded : List String := [{', '.join(lean_str(x) for x in dropped)}]"]
    # -- scores() of the cross-set base: field 1 through preprocessor1, field 2 through preprocessor2
    path = "cross/base_model_cross_set.py"
    src, tree = load(path)
    fn = find_func(tree, "BaseModelCrossSet.scores")
    calls = sorted((n.lineno, " ".join(ast.unparse(n).split())) for n in ast.walk(fn)
                   if isinstance(n, ast.Call) and isinstance(n.func, ast.Attribute) and n.func.attr == "inverse_transform_scores")
    out += [f"/-- {header(path, 'BaseModelCrossSet.scores', src, fn)}: the calls that restore the sample layout, in order -/",
            f"def crossScoresRestoreCalls : List String := [{', '.join(lean_str(c) for _, c in calls)}]"]
    # -- Stacker: variable order of a Dataset
    path = "preprocessing/stacker.py"
    src, tree = load(path)
    fit = find_func(tree, "Stacker.fit")
    rec = [" ".join(ast.unparse(n).split()) for n in ast.walk(fit) if isinstance(n, ast.Assign) and ast.unparse(n.targets[0]) == "self.vars_in"]
    tf = find_func(tree, "Stacker.transform")
    sel = [" ".join(ast.unparse(n).split()) for n in ast.walk(tf) if isinstance(n, ast.Assign) and ast.unparse(n.value) == "X[list(vars_in)]"]
    out += [f"/-- {header(path, 'Stacker.fit', src, fit)} / `Stacker.transform`: the order of the Dataset variables is recorded at fit and re-applied to the data "
            "handed to transform -/",
            f"def stackerVarsRecorded : List String := [{', '.join(lean_str(x) for x in rec)}]",
            f"def stackerVarsReapplied : List String := [{', '.join(lean_str(x) for x in sel)}]"]
    return "\n".join(out) + "\n"
