"""Tie A targets: scalar formulas (normalisation constants, exponents, per-mode functions)."""
from __future__ import annotations

import ast

from translator.translate import target, load, find_func, header, Sym, TranslationError


def lean_num(e, env):
    """Python arithmetic over scalars -> Lean term over `[Num R]`; `env` maps source names/expressions to Lean variables"""
    s = ast.unparse(e)
    if s in env:
        return env[s]
    if isinstance(e, ast.Constant) and isinstance(e.value, bool):
        raise TranslationError("boolean in arithmetic")
    if isinstance(e, ast.Constant) and isinstance(e.value, int):
        return f"(Num.ofNat {e.value})" if e.value >= 0 else f"(-(Num.ofNat {-e.value}))"
    if isinstance(e, ast.Constant) and isinstance(e.value, float):
        txt = repr(e.value)
        if "e" in txt or "." not in txt:
            raise TranslationError("float literal form " + txt)
        a, b = txt.split(".")
        m = int(a + b)
        return f"(Num.dec {m} {len(b)})"
    if isinstance(e, ast.UnaryOp) and isinstance(e.op, ast.USub):
        return f"(-{lean_num(e.operand, env)})"
    if isinstance(e, ast.BinOp):
        if isinstance(e.op, ast.Pow):
            if isinstance(e.right, ast.Constant) and e.right.value == 2:
                x = lean_num(e.left, env)
                return f"({x} * {x})"
            if isinstance(e.right, ast.Constant) and e.right.value == 0.5:
                return f"(Num.sqrt {lean_num(e.left, env)})"
            raise TranslationError("unsupported power " + s)
        op = {ast.Add: "+", ast.Sub: "-", ast.Mult: "*", ast.Div: "/"}.get(type(e.op))
        if op is None:
            raise TranslationError("unsupported operator in " + s)
        return f"({lean_num(e.left, env)} {op} {lean_num(e.right, env)})"
    if isinstance(e, ast.Call):
        f = ast.unparse(e.func)
        if f in ("np.sqrt",) and len(e.args) == 1:
            return f"(Num.sqrt {lean_num(e.args[0], env)})"
        if f in ("np.log",) and len(e.args) == 1:
            return f"(Num.log {lean_num(e.args[0], env)})"
        if f in ("abs", "np.abs") and len(e.args) == 1:
            return f"(Num.abs {lean_num(e.args[0], env)})"
    raise TranslationError("untranslatable scalar expression: " + s[:100])


def assigned(fn, name):
    vals = [n.value for n in ast.walk(fn) if isinstance(n, ast.Assign) and len(n.targets) == 1 and ast.unparse(n.targets[0]) == name]
    if not vals:
        raise TranslationError(f"no assignment to {name}")
    return vals


def kw_of(call, name):
    for k in call.keywords:
        if k.arg == name:
            return k.value
    return None


# ------------------------------------------------------------------------------------------------- EOF
@target("eofFormulas", "Formulas", ["C01", "C03", "C04"])
def _eof():
    path, qual = "single/eof.py", "EOF._fit_algorithm"
    src, tree = load(path)
    fn = find_func(tree, qual)
    sym = Sym(fn)
    ev = sym.resolve(ast.Name("exp_var"), stop={"singular_values", "n_samples"})
    ns = ast.unparse(sym.defs.get("n_samples", ast.Name("?")))
    if ns != "X.coords[self.sample_name].size":
        raise TranslationError("n_samples is not the number of samples of the decomposed matrix: " + ns)
    sc = ast.unparse(sym.defs.get("scores", ast.Name("?")))
    if sc not in ("decomposer.U_ * decomposer.s_", "decomposer.s_ * decomposer.U_"):
        raise TranslationError("scores are not U_ * s_: " + sc)
    comp = ast.unparse(sym.defs.get("components", ast.Name("?")))
    sval = ast.unparse(sym.defs.get("singular_values", ast.Name("?")))
    if comp != "decomposer.V_" or sval != "decomposer.s_":
        raise TranslationError(f"components/singular values are not V_/s_: {comp}, {sval}")
    out = [f"/-- {header(path, qual, src, fn)}: explained variance of one mode from its singular value `s` and the sample count `n` -/",
           "def eofExpVar {R : Type} [Num R] (s n : R) : R :=", "  " + lean_num(ev, {"singular_values": "s", "n_samples": "n"})]
    # ratio
    fn2 = find_func(tree, "EOF.explained_variance_ratio")
    sym2 = Sym(fn2)
    r = sym2.defs.get("exp_var_ratio")
    if r is None:
        raise TranslationError("exp_var_ratio not found")
    out += [f"/-- {header(path, 'EOF.explained_variance_ratio', src, fn2)} -/",
            "def eofExpVarRatio {R : Type} [Num R] (expvar total : R) : R :=",
            "  " + lean_num(r, {"self.data['explained_variance']": "expvar", "self.data['total_variance']": "total"})]
    # total variance: ddof
    path3, qual3 = "utils/xarray_utils.py", "total_variance"
    src3, tree3 = load(path3)
    fn3 = find_func(tree3, qual3)
    ret = [s for s in fn3.body if isinstance(s, ast.Return)][0].value
    txt = ast.unparse(ret)
    if not (txt.startswith("data.var(dim, ddof=") and txt.endswith(").sum()")):
        raise TranslationError("total_variance is not data.var(dim, ddof=k).sum(): " + txt)
    ddof = kw_of(ret.func.value, "ddof")
    out += [f"/-- {header(path3, qual3, src3, fn3)}: delta degrees of freedom of the per-feature variance that is summed -/",
            f"def totalVarianceDdof : Nat := {int(ddof.value)}"]
    return "\n".join(out) + "\n"


# ------------------------------------------------------------------------------------------------- threshold block fractions
@target("thresholdFractions", "Formulas", ["C15"])
def _thr_frac():
    out = []
    for path, qual, suf in (("linalg/decomposer.py", "Decomposer.fit", "Decomposer"), ("linalg/_numpy/_svd.py", "_SVD.fit_transform", "SVD")):
        src, tree = load(path)
        fn = find_func(tree, qual)
        sym = Sym(fn)
        N = sym.defs.get("N")
        if N is None or ast.unparse(N) != "X.shape[0] - 1":
            raise TranslationError("N is not X.shape[0] - 1 in " + qual)
        ev = sym.resolve(ast.Name("explained_variance"), stop={"s", "N", "total_variance"})
        tv = ast.unparse(sym.defs.get("total_variance"))
        if "ddof=1" not in tv:
            raise TranslationError("total variance of the threshold block does not use ddof=1: " + tv)
        out += [f"/-- {header(path, qual, src, fn)}: fraction of variance of one mode; `n` = number of samples -/",
                f"def thresholdFraction{suf} {{R : Type}} [Num R] (s n total : R) : R :=",
                "  " + lean_num(ev, {"s": "s", "N": "(n - Num.ofNat 1)", "total_variance": "total"})]
    return "\n".join(out) + "\n"


# ------------------------------------------------------------------------------------------------- whitening
@target("whitenerFormulas", "Formulas", ["C16", "C09", "C03"])
def _whitener():
    path, qual = "preprocessing/whitener.py", "Whitener._compute_whitener_transform_numpy"
    src, tree = load(path)
    fn = find_func(tree, qual)
    sym = Sym(fn)
    nc = ast.unparse(sym.defs.get("nc", ast.Name("?")))
    if nc != "X.shape[0]":
        raise TranslationError("nc is not the number of samples X.shape[0]: " + nc)
    C = ast.unparse(sym.defs.get("C", ast.Name("?")))
    if C != "X.conj().T @ X / nc":
        raise TranslationError("covariance is not X^H X / nc: " + C)
    power = sym.defs.get("power")
    T = ast.unparse(sym.defs.get("T", ast.Name("?")))
    if not T.startswith("_fractional_matrix_power(C, power"):
        raise TranslationError("T is not the fractional power of C: " + T)
    out = [f"/-- {header(path, qual, src, fn)}: covariance normaliser (as a function of the sample count) and exponent of the whitening matrix -/",
           "def whitenerCovDenominator {R : Type} [Num R] (n : R) : R := n",
           "def whitenerPower {R : Type} [Num R] (alpha : R) : R :=", "  " + lean_num(power, {"self.alpha": "alpha"})]
    # inverse: the fractional power of the same C with the exponent given in the source (pseudo-inverse on the retained directions)
    Tinv = sym.defs.get("Tinv")
    if not (isinstance(Tinv, ast.Call) and ast.unparse(Tinv.func) == "_fractional_matrix_power" and len(Tinv.args) >= 2
            and ast.unparse(Tinv.args[0]) == "C"):
        raise TranslationError("Tinv is not a fractional power of C: " + ast.unparse(Tinv) if Tinv is not None else "Tinv not found")
    if [ast.unparse(k.value) for k in Tinv.keywords] != [ast.unparse(k.value) for k in sym.defs["T"].keywords]:
        raise TranslationError("T and Tinv are computed with different solver options")
    out += ["/-- exponent of `Tinv` as written in the source -/",
            "def whitenerInversePower {R : Type} [Num R] (alpha : R) : R :=",
            "  " + lean_num(Tinv.args[1], {"power": "(whitenerPower alpha)"})]
    # fractional power: cut-off and exponent
    path2, qual2 = "linalg/_numpy/_utils.py", "_fractional_matrix_power"
    src2, tree2 = load(path2)
    fn2 = find_func(tree2, qual2)
    sym2 = Sym(fn2)
    cut = sym2.defs.get("is_above_zero")
    if not (isinstance(cut, ast.Compare) and len(cut.ops) == 1 and isinstance(cut.ops[0], ast.Gt) and ast.unparse(cut.left) == "s"):
        raise TranslationError("cut-off is not `s > threshold`: " + ast.unparse(cut))
    thr = cut.comparators[0]
    thr_s = ast.unparse(thr)
    if thr_s == "np.finfo(s.dtype).eps * s.max()":
        rel = "true"
    elif thr_s == "np.finfo(s.dtype).eps":
        rel = "false"
    else:
        raise TranslationError("unexpected cut-off threshold " + thr_s)
    cs = ast.unparse(sym2.defs.get("C_scaled", ast.Name("?")))
    if cs != "V @ np.diag(s ** power) @ V.conj().T":
        raise TranslationError("fractional power is not V diag(s^p) V^H: " + cs)
    out += [f"/-- {header(path2, qual2, src2, fn2)}: singular values at or below eps (times the largest one, if relative) are dropped -/",
            f"def fracPowerCutoffIsRelative : Bool := {rel}"]
    # component maps: conj on T / Tinv
    cls = find_func(tree, "Whitener")
    facts = {}
    for m, var in (("transform_components", "T"), ("inverse_transform_components", "Tinv")):
        f = find_func(tree, "Whitener." + m)
        vs = [ast.unparse(n.value) for n in ast.walk(f) if isinstance(n, ast.Assign) and ast.unparse(n.targets[0]) == "VS"]
        if len(vs) < 1:
            raise TranslationError("VS not assigned in " + m)
        facts[m] = vs[0]
    exp = {"transform_components": "self.T.conj().T", "inverse_transform_components": "self.Tinv.conj().T"}
    for m in exp:
        ok = facts[m] == exp[m]
        out.append(f"/-- `Whitener.{m}` applies the conjugate transpose ({exp[m]}): source has `{facts[m]}` -/")
        out.append(f"def whitener{''.join(w.capitalize() for w in m.split('_'))}UsesConjTranspose : Bool := {'true' if ok else 'false'}")
    # data maps
    f = find_func(tree, "Whitener.inverse_transform_data")
    ret = [ast.unparse(n.value) for n in ast.walk(f) if isinstance(n, ast.Return)]
    ok = any(r == "xr.dot(X, self.Tinv, dims='mode')" for r in ret)
    out.append(f"/-- `Whitener.inverse_transform_data` multiplies with Tinv (no conjugate): source returns {ret} -/")
    out.append(f"def whitenerInverseDataUsesTinv : Bool := {'true' if ok else 'false'}")
    return "\n".join(out) + "\n"


# ------------------------------------------------------------------------------------------------- cross covariance
@target("crossCovFormulas", "Formulas", ["C09"])
def _crosscov():
    path = "cross/cpcca.py"
    src, tree = load(path)
    fn = find_func(tree, "CPCCA._compute_cross_covariance_numpy")
    ret = [n.value for n in ast.walk(fn) if isinstance(n, ast.Return)][0]
    if ast.unparse(ret) != "X.conj().T @ Y / (n_samples_x - 1)":
        raise TranslationError("cross-covariance is not X^H Y / (n - 1): " + ast.unparse(ret))
    fn2 = find_func(tree, "CPCCA._normalize_data")
    r2 = [n.value for n in ast.walk(fn2) if isinstance(n, ast.Return)][0]
    t2 = ast.unparse(r2)
    if not t2.startswith("X / X.std(dim"):
        raise TranslationError("_normalize_data is not X / X.std(dim, ...): " + t2)
    dd = kw_of(r2.right, "ddof")
    ddof = int(dd.value) if dd is not None else 0
    return (f"/-- {header(path, 'CPCCA._compute_cross_covariance_numpy', src, fn)} -/\n"
            "def crossCovDenominator {R : Type} [Num R] (n : R) : R := (n - Num.ofNat 1)\n"
            f"/-- {header(path, 'CPCCA._normalize_data', src, fn2)}: ddof of the standard deviation used for correlations -/\n"
            f"def correlationStdDdof : Nat := {ddof}\n")


# ------------------------------------------------------------------------------------------------- rotator
@target("rotatorFormulas", "Formulas", ["C11", "C04"])
def _rot():
    path, qual = "single/eof_rotator.py", "EOFRotator._fit_algorithm"
    src, tree = load(path)
    fn = find_func(tree, qual)
    sym = Sym(fn)
    ld = ast.unparse(sym.defs.get("loadings", ast.Name("?")))
    if ld != "components * np.sqrt(expvar)":
        raise TranslationError("loadings are not components * sqrt(expvar): " + ld)
    norms = [v for v in assigned(fn, "norms")][0]
    out = [f"/-- {header(path, qual, src, fn)}: pseudo-norm of a rotated mode from its explained variance and the sample count -/",
           "def rotatorNorm {R : Type} [Num R] (expvar n : R) : R :=", "  " + lean_num(norms, {"expvar": "expvar", "n_samples": "n"}),
           "def rotatorLoadingScale {R : Type} [Num R] (expvar : R) : R := (Num.sqrt expvar)"]
    ev2 = [ast.unparse(v) for v in assigned(fn, "expvar")]
    if "(abs(rot_loadings) ** 2).sum(self.feature_name)" not in ev2:
        raise TranslationError("rotated explained variance is not the squared column norm of the rotated loadings: " + str(ev2))
    rc = [ast.unparse(v) for v in assigned(fn, "rot_components")]
    if "rot_loadings / np.sqrt(expvar)" not in rc:
        raise TranslationError("rotated components are not rot_loadings / sqrt(expvar): " + str(rc))
    # inverse transpose guard
    for p_, q_, name in ((path, "EOFRotator._compute_rot_mat_inv_trans", "Single"), ("cross/cpcca_rotator.py", "CPCCARotator._compute_rot_mat_inv_trans", "Cross")):
        s_, t_ = load(p_)
        g = find_func(t_, q_)
        ifs = [n for n in g.body if isinstance(n, ast.If)]
        if len(ifs) != 1:
            raise TranslationError("guard of the inverse transpose not found in " + q_)
        test = ifs[0].test
        if not (isinstance(test, ast.Compare) and ast.unparse(test.left) == "self._params['power']" and len(test.ops) == 1):
            raise TranslationError("unexpected guard " + ast.unparse(test))
        rel = {ast.Gt: ">", ast.GtE: "≥", ast.Lt: "<", ast.LtE: "≤", ast.Eq: "==", ast.NotEq: "!="}[type(test.ops[0])]
        body = " ".join(ast.unparse(x) for x in ifs[0].body)
        uses_inv = "np.linalg.inv" in body
        conj = ".conj().transpose(*input_dims)" in body
        transposed_out = "output_core_dims=[input_dims[::-1]]" in body
        out += [f"/-- {header(p_, q_, s_, g)}: for which `power` the scores are rotated with the inverse conjugate transpose -/",
                f"def rotator{name}UsesInverse (power : Int) : Bool := decide (power {rel} {ast.unparse(test.comparators[0])})" if rel not in ("==", "!=") else
                f"def rotator{name}UsesInverse (power : Int) : Bool := (power {rel} {ast.unparse(test.comparators[0])})",
                f"def rotator{name}InverseIsConjTranspose : Bool := {'true' if (uses_inv and conj and transposed_out) else 'false'}"]
    return "\n".join(out) + "\n"


# ------------------------------------------------------------------------------------------------- POP
@target("popFormulas", "Formulas", ["C18"])
def _pop():
    path, qual = "single/pop.py", "POP._np_solve_pop_system"
    src, tree = load(path)
    fn = find_func(tree, qual)
    sym = Sym(fn)
    A = ast.unparse(sym.defs.get("A", ast.Name("?")))
    if A != "X[1:].conj().T @ X[:-1] @ np.linalg.inv(X[:-1].conj().T @ X[:-1])":
        raise TranslationError("feedback matrix is not X1^H X0 (X0^H X0)^-1: " + A)
    eig = ast.unparse([n.value for n in ast.walk(fn) if isinstance(n, ast.Assign) and "lbda" in ast.unparse(n.targets[0])][0])
    if eig != "np.linalg.eig(A)":
        raise TranslationError("eigen-decomposition is not np.linalg.eig(A): " + eig)
    tau = sym.defs.get("tau")
    T = sym.defs.get("T")
    out = [f"/-- {header(path, qual, src, fn)}: damping time from |lambda| and period from arg(lambda) -/",
           "def popDampingTime {R : Type} [Num R] (absLambda : R) : R :=", "  " + lean_num(tau, {"abs(lbda)": "absLambda"}),
           "def popPeriod {R : Type} [Num R] (twoPi argLambda : R) : R :=", "  " + lean_num(T, {"2 * np.pi": "twoPi", "np.angle(lbda)": "argLambda"})]
    # ordering: norms = var(Z)**0.5, descending argsort
    fn2 = find_func(tree, "POP._fit_algorithm")
    sym2 = Sym(fn2)
    vz = ast.unparse(sym2.defs.get("var_Z", ast.Name("?")))
    nz = ast.unparse(sym2.defs.get("norms", ast.Name("?")))
    idx = ast.unparse(sym2.defs.get("idx_modes_sorted", ast.Name("?")))
    ok = vz == "Z.var(sample_name)" and nz == "var_Z ** 0.5" and idx == "argsort_dask(norms, 'mode')[::-1]"
    out += [f"/-- {header(path, 'POP._fit_algorithm', src, fn2)}: modes are ordered by descending standard deviation of the coefficients "
            f"(var_Z = `{vz}`, norms = `{nz}`, order = `{idx}`) -/",
            f"def popOrderedByDescendingStd : Bool := {'true' if ok else 'false'}"]
    resets = any(isinstance(n, ast.Assign) and ast.unparse(n.targets[0]) == "self.sorted" and ast.unparse(n.value) == "False" for n in fn2.body)
    out += ["/-- `POP._fit_algorithm` clears the `sorted` flag (refit) -/", f"def popFitResetsSorted : Bool := {'true' if resets else 'false'}"]
    return "\n".join(out) + "\n"


# ------------------------------------------------------------------------------------------------- OPA
@target("opaFormulas", "Formulas", ["C19"])
def _opa():
    path = "single/opa.py"
    src, tree = load(path)
    fn = find_func(tree, "OPA._Ctau")
    ret = [n.value for n in ast.walk(fn) if isinstance(n, ast.Return)][0]
    sym = Sym(fn)
    ns = ast.unparse(sym.defs.get("n_samples", ast.Name("?")))
    xt = ast.unparse(sym.defs.get("Xtau", ast.Name("?")))
    if ns != "Xtau[sample_name].size" or xt != "X.shift({sample_name: -tau}).dropna(sample_name)":
        raise TranslationError(f"lagged sample count is not that of the shifted, NaN-dropped series: {ns}; {xt}")
    if ast.unparse(ret) != "xr.dot(X0, Xtau, dims=[sample_name]) / (n_samples - 1)":
        raise TranslationError("lag covariance is not dot(X0, Xtau)/(n_samples - 1): " + ast.unparse(ret))
    fn2 = find_func(tree, "OPA._fit_algorithm")
    sym2 = Sym(fn2)
    M0 = ast.unparse(sym2.defs.get("M", ast.Name("?")))
    if M0 != "0.5 * C0":
        raise TranslationError("lag sum does not start with 0.5 * C0: " + M0)
    loops = [n for n in fn2.body if isinstance(n, ast.For)]
    if len(loops) != 1 or ast.unparse(loops[0].iter) != "range(1, tau_max + 1)":
        raise TranslationError("lag loop is not range(1, tau_max + 1)")
    ifs = [n for n in loops[0].body if isinstance(n, ast.If)]
    if len(ifs) != 1:
        raise TranslationError("end-point weight test not found")
    t = ifs[0].test
    if not (isinstance(t, ast.Compare) and len(t.ops) == 1):
        raise TranslationError("unexpected end-point test")
    if isinstance(t.ops[0], (ast.Is, ast.IsNot)):
        raise TranslationError("end-point test compares integers by identity (`is`): " + ast.unparse(t))
    if not (isinstance(t.ops[0], ast.Eq) and {ast.unparse(t.left), ast.unparse(t.comparators[0])} == {"tau", "tau_max"}):
        raise TranslationError("end-point test is not tau == tau_max: " + ast.unparse(t))
    w = ast.unparse(ifs[0].body[0])
    if w != "Ctau = 0.5 * Ctau":
        raise TranslationError("end-point weight is not 0.5: " + w)
    acc = [ast.unparse(n) for n in loops[0].body if isinstance(n, ast.Assign) and ast.unparse(n.targets[0]) == "M"]
    if acc != ["M = M + Ctau"]:
        raise TranslationError("accumulation is not M = M + Ctau: " + str(acc))
    sm = ast.unparse(sym2.defs.get("M_summed", ast.Name("?")))
    tg = [ast.unparse(v) for v in assigned(fn2, "target")]
    if sm != "M + MT" or not tg or not tg[0].startswith("0.5 * xr.dot(C0_sqrt_inv, M_summed"):
        raise TranslationError("symmetrisation is not 0.5 (M + M^T)")
    # eigen-solver: symmetric, descending
    txt = ast.unparse(fn2)
    sym_solver = "np.linalg.eigh(A)" in txt and "np.argsort(eigvals)[::-1][:n_modes]" in txt
    return (f"/-- {header(path, 'OPA._fit_algorithm', src, fn2)}: twice the trapezoidal weight of lag `tau` in the lag sum "
            "(lag 0 enters with 0.5 C0) -/\n"
            "def opaLagWeightTimesTwo (tau tauMax : Nat) : Nat := if tau == 0 then 1 else if tau == tauMax then 1 else 2\n"
            f"/-- {header(path, 'OPA._Ctau', src, fn)}: lag covariances are normalised with (number of overlapping samples - 1) -/\n"
            "def opaLagDenominator (n tau : Nat) : Nat := (n - tau) - 1\n"
            "/-- the eigen-problem is solved with a symmetric solver returning signed eigenvalues in descending order -/\n"
            f"def opaUsesSymmetricDescendingSolver : Bool := {'true' if sym_solver else 'false'}\n")


# ------------------------------------------------------------------------------------------------- scaler
@target("scalerChain", "Formulas", ["C03", "C08"])
def _scaler():
    path = "preprocessing/scaler.py"
    src, tree = load(path)

    def chain(qual):
        fn = find_func(tree, qual)
        ops = []
        for st in fn.body:
            guard = "always"
            body = [st]
            if isinstance(st, ast.If):
                g = ast.unparse(st.test)
                if not g.startswith("params['with_"):
                    continue
                guard = g[len("params['"):-2]
                body = st.body
            for b in body:
                if isinstance(b, ast.Assign) and ast.unparse(b.targets[0]) == "X" and isinstance(b.value, ast.BinOp) and ast.unparse(b.value.left) == "X":
                    op = {ast.Sub: "sub", ast.Add: "add", ast.Mult: "mul", ast.Div: "div"}[type(b.value.op)]
                    operand = ast.unparse(b.value.right)
                    if not operand.startswith("self."):
                        raise TranslationError("operand is not a fitted parameter: " + operand)
                    ops.append((op, operand[5:], guard))
        return fn, ops

    f1, fwd = chain("Scaler.transform")
    f2, inv = chain("Scaler.inverse_transform_data")
    fit = find_func(tree, "Scaler.fit")
    sym = Sym(fit)
    std = [ast.unparse(n.value) for n in ast.walk(fit) if isinstance(n, (ast.Assign, ast.AnnAssign)) and ast.unparse(n.target if isinstance(n, ast.AnnAssign) else n.targets[0]) == "self.std_"]
    mean = [ast.unparse(n.value) for n in ast.walk(fit) if isinstance(n, (ast.Assign, ast.AnnAssign)) and ast.unparse(n.target if isinstance(n, ast.AnnAssign) else n.targets[0]) == "self.mean_"]
    if mean != ["X.mean(self.sample_dims)"]:
        raise TranslationError("mean_ is not X.mean(sample_dims): " + str(mean))
    if std != ["X.std(self.sample_dims).clip(min=np.finfo(np.float32).eps)"]:
        raise TranslationError("std_ is not X.std(sample_dims) clipped at float32 eps: " + str(std))

    def lst(ops):
        return "[" + ", ".join(f'("{o}", "{p}", "{g}")' for o, p, g in ops) + "]"

    return (f"/-- {header(path, 'Scaler.transform', src, f1)}: ordered (operation, fitted parameter, guard) -/\n"
            f"def scalerForward : List (String × String × String) := {lst(fwd)}\n"
            f"/-- {header(path, 'Scaler.inverse_transform_data', src, f2)} -/\n"
            f"def scalerInverse : List (String × String × String) := {lst(inv)}\n"
            f"/-- {header(path, 'Scaler.fit', src, fit)}: std_ = X.std(sample_dims) (ddof 0) clipped from below at float32 eps (an ABSOLUTE floor), stored clipped -/\n"
            "def scalerStdDdof : Nat := 0\n"
            "def scalerStdClipIsStored : Bool := true\n"
            "def scalerStdFloorIsAbsolute : Bool := true\n")


# ------------------------------------------------------------------------------------------------- ExtendedEOF
@target("eeofFormulas", "Formulas", ["C10", "C01"])
def _eeof():
    path, qual = "single/eeof.py", "ExtendedEOF._fit_algorithm"
    src, tree = load(path)
    fn = find_func(tree, qual)
    sym = Sym(fn)
    cut = ast.unparse(sym.defs.get("n_samples_cut", ast.Name("?")))
    kept = ast.unparse(sym.defs.get("n_samples_kept", ast.Name("?")))
    shift = ast.unparse(sym.defs.get("shift", ast.Name("?")))
    if cut != "(embedding - 1) * tau" or kept != "X.coords[self.sample_name].size - n_samples_cut" or shift != "np.arange(embedding) * tau":
        raise TranslationError(f"unexpected embedding arithmetic: cut={cut}; kept={kept}; shift={shift}")
    sl = [ast.unparse(n.value) for n in ast.walk(fn) if isinstance(n, ast.Assign) and ast.unparse(n.targets[0]) == "X_extended" and ".isel(" in ast.unparse(n.value)]
    if sl != ["X_extended.isel({self.sample_name: slice(None, n_samples_kept)})"]:
        raise TranslationError("embedded samples are not the first n_samples_kept: " + str(sl))
    return (f"/-- {header(path, qual, src, fn)}: number of samples of the delay-embedded matrix and the shift of copy `i` -/\n"
            "def eeofSamplesKept (n embedding tau : Nat) : Nat := n - (embedding - 1) * tau\n"
            "def eeofShift (i tau : Nat) : Nat := i * tau\n")


# ------------------------------------------------------------------------------------------------- latitude weights
@target("coslatFormula", "Formulas", ["C08", "C02", "C03"])
def _coslat():
    path, qual = "utils/xarray_utils.py", "_np_sqrt_cos_lat_weights"
    src, tree = load(path)
    fn = find_func(tree, qual)
    rets = [ast.unparse(n.value) for n in ast.walk(fn) if isinstance(n, ast.Return)]
    body = [s for s in fn.body if not (isinstance(s, ast.Expr) and isinstance(s.value, ast.Constant))]
    if rets != ["np.sqrt(np.cos(np.deg2rad(data)).clip(0, 1))"] or len(body) != 1:
        raise TranslationError("latitude weight is not sqrt(clip(cos(deg2rad(lat)), 0, 1)): " + str(rets))
    return (f"/-- {header(path, qual, src, fn)}: `{rets[0]}` as a function of `c = cos(lat)` -/\n"
            "def coslatWeightOfCos {R : Type} [Num R] (cosLat clipped : R) : R := Num.sqrt clipped\n"
            "/-- the clip bounds applied to cos(lat) before the square root -/\n"
            "def coslatClipBounds : Int × Int := (0, 1)\n"
            "def coslatWeightIsSqrtOfClippedCos : Bool := true\n")


# ------------------------------------------------------------------------------------------------- Pearson correlation (patterns)
@target("pearsonFormula", "Formulas", ["C09"])
def _pearson():
    path, qual = "utils/optional/statistics.py", "pearson_correlation"
    src, tree = load(path)
    fn = find_func(tree, qual)
    inner = [n for n in ast.walk(fn) if isinstance(n, ast.FunctionDef) and n.name == "_correlation_coefficients_numpy"]
    if len(inner) != 1:
        raise TranslationError("correlation kernel not found")
    body = [ast.unparse(s) for s in inner[0].body if not (isinstance(s, ast.Expr) and isinstance(s.value, ast.Constant))]
    if body != ["X = X / X.std(0)", "Y = Y / Y.std(0)", "return X.conj().T @ Y / X.shape[0]"]:
        raise TranslationError("correlation kernel is not (X/std0)^H (Y/std0) / n with ddof-0 deviations: " + str(body))
    return (f"/-- {header(path, qual, src, fn)}: both series divided by their population (ddof 0) deviation, products averaged over `n` -/\n"
            "def pearsonStdDdof : Nat := 0\n"
            "def pearsonDenominator {R : Type} [Num R] (n : R) : R := n\n")


# ------------------------------------------------------------------------------------------------- multi.CCA
@target("mccaFormulas", "Formulas", ["C10", "C04", "C05"])
def _mcca():
    path = "multi/cca.py"
    src, tree = load(path)

    def ret_of(qual):
        fn = find_func(tree, qual)
        rets = [n.value for n in ast.walk(fn) if isinstance(n, ast.Return) and n.value is not None]
        if not rets:
            raise TranslationError(f"{qual}: no return")
        return fn, rets[-1]

    out = []
    # ridge-regularised block of one view
    fnE, rE = ret_of("CCA._E")
    out += [f"/-- {header(path, 'CCA._E', src, fnE)}: one diagonal block of `_D` entry by entry (`cov` = entry of the view's covariance, "
            "`eye` = entry of the identity) -/",
            "def mccaRidge {R : Type} [Num R] (c cov eye : R) : R :=",
            "  " + lean_num(rE, {"c": "c", "np.cov(view, rowvar=False)": "cov", "np.eye(view.shape[1])": "eye"})]
    # the same with the PCA option: diag((1 - c_i) * expvar + c_i)
    fnD = find_func(tree, "CCA._D")
    diags = [n for n in ast.walk(fnD) if isinstance(n, ast.Call) and ast.unparse(n.func) == "da.diag"]
    if len(diags) != 1:
        raise TranslationError("CCA._D: expected one da.diag(...) for the PCA blocks")
    out += [f"/-- {header(path, 'CCA._D', src, fnD)}: diagonal entry of a block under the PCA option -/",
            "def mccaRidgePca {R : Type} [Num R] (c expvar : R) : R :=",
            "  " + lean_num(diags[0].args[0], {"self.c_[i]": "c", "expvar.data": "expvar"})]
    symD = Sym(fnD)
    ev = ast.unparse(symD.defs.get("expvar", ast.Name("?")))
    if ev != "pc.explained_variance().isel(mode=slice(0, n_features))":
        raise TranslationError("CCA._D: expvar of the PCA blocks is not the leading explained variances: " + ev)
    # shift by the smallest eigenvalue and eps; division by the number of views
    seq = [ast.unparse(n) for n in fnD.body if isinstance(n, (ast.Assign, ast.Return))]
    want_tail = ["D = self._block_diag_dask(blocks, dims_in=['feature1', 'feature2'])",
                 "D_smallest_eig = self._apply_smallest_eigval(D, dims=['feature1', 'feature2'])",
                 "D_smallest_eig = D_smallest_eig - self.eps",
                 "identity_matrix = xr.DataArray(np.eye(D.shape[0]), dims=D.dims, coords=D.coords)",
                 "D = D - D_smallest_eig * identity_matrix",
                 "return D / len(views)"]
    if seq[-6:] != want_tail:
        raise TranslationError("CCA._D: tail is not block-diag, minus (smallest eigenvalue - eps) * I, over len(views): " + " | ".join(seq[-6:]))
    blocks_else = "blocks = [self._apply_E(view, c) for view, c in zip(views, self.c_)]"
    if blocks_else not in ast.unparse(fnD):
        raise TranslationError("CCA._D: blocks without PCA are not _apply_E(view, c) per view")
    fnS, rS = ret_of("CCA._smallest_eigval")
    if ast.unparse(rS) != "min(0, np.linalg.eigvalsh(D).min())":
        raise TranslationError("CCA._smallest_eigval is not min(0, eigvalsh(D).min()): " + ast.unparse(rS))
    out += [f"/-- {header(path, 'CCA._D', src, fnD)}: the multiple of the identity taken off `D` (`lmin = min(0, smallest eigenvalue)`) -/",
            "def mccaShift {R : Type} [Num R] (lmin eps : R) : R := (lmin - eps)"]
    fnC, rC = ret_of("CCA._C")
    symC = Sym(fnC)
    if ast.unparse(rC) != "C / len(views)" or ast.unparse(symC.defs.get("C", ast.Name("?"))) != "self._apply_compute_covariance(views, dims_in=dims_in)":
        raise TranslationError("CCA._C is not _apply_compute_covariance(views) / len(views)")
    fnA, rA = ret_of("CCA._apply_compute_covariance")
    symA = Sym(fnA)
    if (ast.unparse(rA) != "C - self._block_diag_dask(Ci, dims_in=dims_out)"
            or ast.unparse(symA.defs.get("all_views", ast.Name("?"))) != "xr.concat(views, dim=dims_in[1])"
            or ast.unparse(symA.defs.get("C", ast.Name("?"))) != "self._apply_cov(all_views, dims_in=dims_in, dims_out=dims_out)"
            or ast.unparse(symA.defs.get("Ci", ast.Name("?"))) != "[self._apply_cov(view, dims_in=dims_in, dims_out=dims_out) for view in views]"):
        raise TranslationError("CCA._apply_compute_covariance is not cov(concat(views)) - blockdiag(cov(view))")
    fnV = find_func(tree, "CCA._apply_cov")
    covs = [ast.unparse(k.value) for n in ast.walk(fnV) if isinstance(n, ast.Call) and ast.unparse(n.func) == "xr.apply_ufunc"
            for k in n.keywords if k.arg == "kwargs"]
    uf = [ast.unparse(n.args[0]) for n in ast.walk(fnV) if isinstance(n, ast.Call) and ast.unparse(n.func) == "xr.apply_ufunc"]
    if set(uf) != {"np.cov"} or set(covs) != {"{'rowvar': False}"}:
        raise TranslationError("CCA._apply_cov does not call np.cov(rowvar=False) only: " + str(uf) + str(covs))
    out += ["/-- `_C = (cov(all views) - blockdiag(cov(view_i))) / len(views)` and `_D = (...) / len(views)`: both sides of the eigen-problem "
            "are divided by the number of views; covariances are `np.cov(rowvar=False)` (centred, N-1) -/",
            "def mccaDividesByViews : Bool := true"]
    # eigen-solver call: top n_modes, descending re-ordering
    fnG = find_func(tree, "CCA._solve_gevp")
    symG = Sym(fnG)
    sub = ast.unparse(symG.defs.get("subset_by_index", ast.Name("?")))
    if sub != "[p - self.n_modes, p - 1]" or ast.unparse(symG.defs.get("p", ast.Name("?"))) != "C.shape[0]":
        raise TranslationError("CCA._solve_gevp: subset_by_index is not [p - n_modes, p - 1]: " + sub)
    idx = ast.unparse(symG.defs.get("idx_sorted_modes", ast.Name("?")))
    if idx != "eigvals.compute().argsort()[::-1]":
        raise TranslationError("CCA._solve_gevp: order is not argsort()[::-1]: " + idx)
    out += [f"/-- {header(path, 'CCA._solve_gevp', src, fnG)}: the eigen-solver is asked for the indices `[p - n_modes, p - 1]` (the LARGEST "
            "eigenvalues), which are then put in descending order -/",
            "def mccaSubsetLow (p nModes : Nat) : Nat := p - nModes", "def mccaSubsetHigh (p : Nat) : Nat := p - 1",
            "def mccaOrderDescending : Bool := true"]
    # transform: view i with weights i
    fnT = find_func(tree, "CCA._transform")
    tv = [ast.unparse(n.value) for n in ast.walk(fnT) if isinstance(n, ast.Assign) and ast.unparse(n.targets[0]) == "transformed_view"]
    loop = [ast.unparse(n.iter) for n in ast.walk(fnT) if isinstance(n, ast.For)]
    if tv != ["xr.dot(view, self.data['weights'][i], dims='feature')"] or loop != ["enumerate(views)"]:
        raise TranslationError("CCA._transform is not view_i . weights_i over features: " + str(tv))
    fnP = find_func(tree, "CCA.transform")
    pre = [ast.unparse(n) for n in ast.walk(fnP) if isinstance(n, ast.Call) and ast.unparse(n.func).endswith(".transform") and "preprocessors" in ast.unparse(n.func)]
    if pre != ["self.preprocessors[i].transform(view)"]:
        raise TranslationError("CCA.transform does not preprocess view i with preprocessor i: " + str(pre))
    out += ["/-- `_transform`: view `i` is contracted with `weights[i]` over the features, after `preprocessors[i].transform` -/",
            "def mccaTransformUsesOwnWeights : Bool := true"]
    # loadings = weights / norm over features ; explained variance: var over samples, default ddof
    fnF = find_func(tree, "CCA._fit_algorithm")
    txt = ast.unparse(fnF)
    need = ["self.data['loadings'] = [wght / self._apply_norm(wght, [self.feature_name]) for wght in self.data['weights']]",
            "canonical_variates = self._transform(self.data['input_data'])",
            "self.data['variates'] = canonical_variates",
            "self.data['canonical_loadings'] = [xr.dot(data, vari, dims=self.sample_name, optimize=True) for data, vari in zip(self.data['input_data'], canonical_variates)]",
            "transformed_views = [xr.dot(view, loading, dims=self.feature_name) for view, loading in zip(self.data['input_data'], self.data['loadings'])]",
            "self.data['explained_variance'] = [transformed.var(self.sample_name) for transformed in transformed_views]"]
    for s in need:
        if s not in txt:
            raise TranslationError("CCA._fit_algorithm: expected statement missing: " + s[:90])
    out += [f"/-- {header(path, 'CCA._fit_algorithm', src, fnF)}: loadings are the weights over their feature norm, variates are `_transform` of the "
            "stored input data, explained variances are plain (`ddof = 0`) variances of input·loadings -/",
            "def mccaExpvarDdof : Nat := 0", "def mccaVariatesAreTransformOfInput : Bool := true"]
    return "\n".join(out) + "\n"
