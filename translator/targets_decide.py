"""Tie A targets: decision logic (validators, solver policy, sign rule, guards)."""
from __future__ import annotations

import ast

from translator.translate import target, load, find_func, header, Sym, TranslationError, REL

MICRO = 1000000
ERR = {"TypeError", "ValueError", "KeyError", "IndexError", "NotImplementedError", "RuntimeError"}


# ------------------------------------------------------------------------------------- conditions over PyVal
class Cond:
    """translate a Python condition over ONE PyVal-typed name (`var`) and integer-typed names (`ints`) to a Lean Bool"""

    def __init__(self, var=None, vkind=None, ints=(), strs=()):
        self.var, self.vkind, self.ints, self.strs = var, vkind, dict(ints), dict(strs)

    def num(self, e):
        """numeric term; returns (lean, kind) with kind in {'int','micro'}"""
        if isinstance(e, ast.Constant) and isinstance(e.value, bool):
            raise TranslationError("bool constant in numeric context")
        if isinstance(e, ast.Constant) and isinstance(e.value, int):
            return f"({e.value} : Int)", "int"
        if isinstance(e, ast.Constant) and isinstance(e.value, float):
            q = round(e.value * MICRO)
            if abs(q / MICRO - e.value) > 1e-12:
                raise TranslationError(f"float literal {e.value} not representable in micro units")
            return f"({q} : Int)", "micro"
        if isinstance(e, ast.Name) and e.id == self.var:
            if self.vkind == "int":
                return "v.asInt", "int"
            if self.vkind == "float":
                return "q", "micro"
            raise TranslationError(f"numeric use of {e.id} outside an int/float case")
        if isinstance(e, ast.Name) and e.id in self.ints:
            return self.ints[e.id], "int"
        if isinstance(e, ast.Attribute) and isinstance(e.value, ast.Name) and e.value.id == "self" and e.attr in self.ints:
            return self.ints[e.attr], "int"
        if isinstance(e, ast.Call) and isinstance(e.func, ast.Name) and e.func.id == "len" and len(e.args) == 1:
            a = e.args[0]
            if isinstance(a, ast.Name) and ("len_" + a.id) in self.ints:
                return self.ints["len_" + a.id], "int"
        if isinstance(e, ast.BinOp) and type(e.op) in (ast.Add, ast.Sub, ast.Mult):
            (l, lk), (r, rk) = self.num(e.left), self.num(e.right)
            if lk != rk or (lk == "micro" and isinstance(e.op, ast.Mult)):
                raise TranslationError("mixed int/float arithmetic in a decision")
            sym = {ast.Add: "+", ast.Sub: "-", ast.Mult: "*"}[type(e.op)]
            return f"({l} {sym} {r})", lk
        raise TranslationError("untranslatable numeric term: " + ast.unparse(e)[:80])

    def unify(self, a, b):
        (l, lk), (r, rk) = a, b
        if lk == rk:
            return l, r
        if lk == "int":
            return f"({l} * {MICRO})", r
        return l, f"({r} * {MICRO})"

    def b(self, e):
        if isinstance(e, ast.BoolOp):
            op = " && " if isinstance(e.op, ast.And) else " || "
            return "(" + op.join(self.b(x) for x in e.values) + ")"
        if isinstance(e, ast.UnaryOp) and isinstance(e.op, ast.Not):
            return f"(!{self.b(e.operand)})"
        if isinstance(e, ast.Compare):
            parts = []
            left = e.left
            for op, right in zip(e.ops, e.comparators):
                parts.append(self.cmp(left, op, right))
                left = right
            return "(" + " && ".join(parts) + ")"
        if isinstance(e, ast.Call) and isinstance(e.func, ast.Name) and e.func.id == "isinstance":
            return self.isinst(e.args[0], e.args[1])
        if isinstance(e, ast.Call) and isinstance(e.func, ast.Name) and e.func.id == "all" and isinstance(e.args[0], ast.GeneratorExp):
            g = e.args[0]
            it = g.generators[0]
            if not (isinstance(it.iter, ast.Name) and it.iter.id in (self.var,) and isinstance(it.target, ast.Name)):
                raise TranslationError("unsupported all(...) generator")
            inner = Cond(var=it.target.id, vkind=None)
            body = inner.b(g.elt).replace("v.", "x.").replace("(v)", "(x)")
            return f"(v.items.all (fun x => {body}))"
        if isinstance(e, ast.Name) and e.id in self.ints:
            return f"({self.ints[e.id]} != 0)"
        raise TranslationError("untranslatable condition: " + ast.unparse(e)[:80])

    def isinst(self, obj, cls):
        if not (isinstance(obj, ast.Name) and obj.id == self.var):
            raise TranslationError("isinstance on an unexpected object " + ast.unparse(obj))
        names = [c for c in (cls.elts if isinstance(cls, ast.Tuple) else [cls])]
        outs = []
        for c in names:
            s = ast.unparse(c)
            m = {"str": "v.isStr", "int": "v.isInt", "float": "v.isFloat", "tuple": "v.isTuple", "list": "v.isList",
                 "xr.DataArray": "v.isXarray", "xr.Dataset": "v.isXarray"}.get(s)
            if m is None:
                raise TranslationError("isinstance with unknown class " + s)
            outs.append(m)
        outs = list(dict.fromkeys(outs))
        return "(" + " || ".join(outs) + ")"

    def cmp(self, left, op, right):
        if isinstance(op, (ast.In, ast.NotIn)):
            if not (isinstance(left, ast.Name) and isinstance(right, (ast.List, ast.Tuple))):
                raise TranslationError("unsupported membership test")
            vals = [x.value for x in right.elts if isinstance(x, ast.Constant) and isinstance(x.value, str)]
            if len(vals) != len(right.elts):
                raise TranslationError("membership in a non-literal list")
            lst = "[" + ", ".join('"%s"' % v for v in vals) + "]"
            name = "s" if left.id == self.var else self.strs.get(left.id)
            if name is None:
                raise TranslationError("membership test on non-string name")
            r = f"({lst}.contains {name})"
            return r if isinstance(op, ast.In) else f"(!{r})"
        if isinstance(op, (ast.Is, ast.IsNot)):
            raise TranslationError("identity comparison (`is`) between values: " + ast.unparse(left) + " is " + ast.unparse(right))
        # string equality
        if isinstance(right, ast.Constant) and isinstance(right.value, str) and isinstance(left, ast.Name):
            name = "s" if left.id == self.var else self.strs.get(left.id)
            if name is None:
                raise TranslationError("string comparison on non-string name")
            r = f'({name} == "{right.value}")'
            return r if isinstance(op, ast.Eq) else f"(!{r})"
        l, r = self.unify(self.num(left), self.num(right))
        rel = {ast.Lt: "<", ast.LtE: "≤", ast.Gt: ">", ast.GtE: "≥", ast.Eq: "==", ast.NotEq: "!="}[type(op)]
        if rel in ("==", "!="):
            return f"({l} {rel} {r})"
        return f"(decide ({l} {rel} {r}))"


def raise_of(stmt):
    if isinstance(stmt, ast.Raise) and isinstance(stmt.exc, ast.Call) and isinstance(stmt.exc.func, ast.Name) and stmt.exc.func.id in ERR:
        return stmt.exc.func.id
    return None


def guards(body, cond: Cond, tail="pure ()"):
    """a sequence of `if c: raise E` statements (anything else must not be reachable for validators)"""
    out = tail
    for st in reversed(body):
        if isinstance(st, ast.Pass) or (isinstance(st, ast.Expr) and isinstance(st.value, ast.Constant)):
            continue
        if isinstance(st, ast.If) and len(st.body) == 1 and raise_of(st.body[0]) and not st.orelse:
            out = f"if {cond.b(st.test)} then Py.raise .{raise_of(st.body[0])} else {out}"
            continue
        if raise_of(st):
            out = f"Py.raise .{raise_of(st)}"
            continue
        raise TranslationError("unsupported statement in validator: " + ast.unparse(st)[:80])
    return out


@target("sanityCheckNModes", "Decide", ["C15", "C17"])
def _sanity():
    path, qual = "utils/sanity_checks.py", "sanity_check_n_modes"
    src, tree = load(path)
    fn = find_func(tree, qual)
    m = [s for s in fn.body if isinstance(s, ast.Match)]
    if len(m) != 1 or not (isinstance(m[0].subject, ast.Name)):
        raise TranslationError("expected one match statement on the argument")
    var = m[0].subject.id
    arms = {}
    default = None
    for c in m[0].cases:
        p = c.pattern
        if isinstance(p, ast.MatchClass) and isinstance(p.cls, ast.Name) and not p.patterns and not p.kwd_patterns:
            arms[p.cls.id] = c.body
        elif isinstance(p, ast.MatchAs) and p.pattern is None:
            default = c.body
        else:
            raise TranslationError("unsupported match pattern " + ast.unparse(p))
    if default is None:
        raise TranslationError("no default case")
    order = [c.pattern.cls.id for c in m[0].cases if isinstance(c.pattern, ast.MatchClass)]
    lines = [f"/-- {header(path, qual, src, fn)}; case order {order} (a Python bool matches `int()`) -/",
             "def sanityCheckNModes (v : Py.PyVal) : Py.Res Unit :="]
    # emulate first-match semantics in source order
    expr = guards(default, Cond(var=var))
    for cls in reversed(order):
        if cls == "int":
            test, body = "v.isInt", guards(arms[cls], Cond(var=var, vkind="int"))
        elif cls == "float":
            test, body = "v.isFloat", "(match v with | .float q => " + guards(arms[cls], Cond(var=var, vkind="float")) + " | _ => pure ())"
        elif cls == "str":
            test, body = "v.isStr", "(match v with | .str s => " + guards(arms[cls], Cond(var=var, vkind="str")) + " | _ => pure ())"
        elif cls == "bool":
            test, body = "(match v with | .bool _ => true | _ => false)", guards(arms[cls], Cond(var=var, vkind="int"))
        else:
            raise TranslationError("unsupported class pattern " + cls)
        expr = f"if {test} then {body}\n  else {expr}"
    lines.append("  " + expr)
    return "\n".join(lines) + "\n"


@target("validateInputType", "Decide", ["C17"])
def _validate_input():
    path, qual = "utils/sanity_checks.py", "validate_input_type"
    src, tree = load(path)
    fn = find_func(tree, qual)
    (arg,) = [a.arg for a in fn.args.args]
    ifs = [s for s in fn.body if isinstance(s, ast.If)]
    if len(ifs) != 1:
        raise TranslationError("expected a single if/elif/else chain")

    def chain(node):
        c = Cond(var=arg)
        test = c.b(node.test)
        body = guards(node.body, c)
        if len(node.orelse) == 1 and isinstance(node.orelse[0], ast.If):
            rest = chain(node.orelse[0])
        else:
            rest = guards(node.orelse, c)
        return f"if {test} then ({body})\n  else {rest}"

    return (f"/-- {header(path, qual, src, fn)} -/\ndef validateInputType (v : Py.PyVal) : Py.Res Unit :=\n  " + chain(ifs[0]) + "\n")


@target("convertToDimType", "Decide", ["C17"])
def _convert_dim():
    path, qual = "utils/sanity_checks.py", "convert_to_dim_type"
    src, tree = load(path)
    fn = find_func(tree, qual)
    (arg,) = [a.arg for a in fn.args.args]
    c = Cond(var=arg)
    pre = [s for s in fn.body if isinstance(s, ast.If) and raise_of(s.body[0])]
    ret = [s for s in fn.body if isinstance(s, ast.If) and not raise_of(s.body[0])]
    if len(ret) != 1:
        raise TranslationError("expected one returning if/elif/else chain")

    def rchain(node):
        def val(stmts):
            if len(stmts) == 1 and isinstance(stmts[0], ast.Return):
                r = ast.unparse(stmts[0].value)
                if r == arg:
                    return "pure v"
                if r == f"tuple({arg})":
                    return "pure (.tuple v.items)"
                if r == f"({arg},)":
                    return "pure (.tuple [v])"
            raise TranslationError("unsupported return " + ast.unparse(stmts[0])[:60])

        test = c.b(node.test)
        if len(node.orelse) == 1 and isinstance(node.orelse[0], ast.If):
            rest = rchain(node.orelse[0])
        else:
            rest = val(node.orelse)
        return f"if {test} then {val(node.body)}\n  else {rest}"

    body = rchain(ret[0])
    expr = guards(pre, c, tail="(" + body + ")")
    return f"/-- {header(path, qual, src, fn)} -/\ndef convertToDimType (v : Py.PyVal) : Py.Res Py.PyVal :=\n  {expr}\n"


# ------------------------------------------------------------------------------------- solver policy
def _policy(path, qual, suffix, extra_small_and=None):
    src, tree = load(path)
    fn = find_func(tree, qual)
    m = [s for s in ast.walk(fn) if isinstance(s, ast.Match) and ast.unparse(s.subject) == "self.solver"]
    if len(m) != 1:
        raise TranslationError("solver `match` not found")
    sym = Sym(fn)
    ints = {"n_modes_precompute": "nPre", "rank": "rank", "is_small_data": "(if small then 1 else 0)", "use_dask": "(if dask then 1 else 0)",
            "has_many_modes": None}
    arms = []
    default = None
    for c in m[0].cases:
        p = c.pattern
        if isinstance(p, ast.MatchValue) and isinstance(p.value, ast.Constant):
            key = p.value.value
            asg = [s for s in c.body if isinstance(s, ast.Assign) and ast.unparse(s.targets[0]) == "use_exact"]
            if not asg:
                raise TranslationError(f"case {key!r} does not assign use_exact")
            v = asg[-1].value
            # local helper names defined inside the case (has_many_modes)
            local = {ast.unparse(s.targets[0]): s.value for s in c.body if isinstance(s, ast.Assign)}
            arms.append((key, _bool_expr(v, local)))
        elif isinstance(p, ast.MatchAs) and p.pattern is None:
            default = raise_of(c.body[0])
    if default is None:
        raise TranslationError("unknown solver is not refused")
    expr = f"Py.raise .{default}"
    for key, be in reversed(arms):
        expr = f'if solver == "{key}" then pure {be}\n  else {expr}'
    # how the pre-computed number of modes and the rank check are derived
    return (f"/-- {header(path, qual, src, fn)}: which solver family is used (true = exact) -/\n"
            f"def useExact{suffix} (solver : String) (small dask : Bool) (nPre rank : Int) : Py.Res Bool :=\n  {expr}\n")


def _bool_expr(e, local):
    """boolean expression over small/dask flags and integer comparisons; `True if c else False` is c"""
    if isinstance(e, ast.IfExp) and isinstance(e.body, ast.Constant) and e.body.value is True and isinstance(e.orelse, ast.Constant) and e.orelse.value is False:
        return _bool_expr(e.test, local)
    if isinstance(e, ast.Constant) and isinstance(e.value, bool):
        return "true" if e.value else "false"
    if isinstance(e, ast.BoolOp):
        op = " && " if isinstance(e.op, ast.And) else " || "
        return "(" + op.join(_bool_expr(x, local) for x in e.values) + ")"
    if isinstance(e, ast.UnaryOp) and isinstance(e.op, ast.Not):
        return "(!" + _bool_expr(e.operand, local) + ")"
    if isinstance(e, ast.Name):
        if e.id == "is_small_data":
            return "small"
        if e.id == "use_dask":
            return "dask"
        if e.id in local:
            return _bool_expr(local[e.id], local)
        raise TranslationError("unknown flag " + e.id)
    if isinstance(e, ast.Compare) and len(e.ops) == 1:
        l, r = _int_term(e.left), _int_term(e.comparators[0])
        rel = {ast.Lt: "<", ast.LtE: "≤", ast.Gt: ">", ast.GtE: "≥"}[type(e.ops[0])]
        return f"(decide ({l} {rel} {r}))"
    raise TranslationError("untranslatable policy expression " + ast.unparse(e)[:80])


def _int_term(e):
    s = ast.unparse(e)
    if s in ("self.n_modes_precompute", "n_modes_precompute"):
        return "nPre"
    if s == "rank":
        return "rank"
    # int(0.8 * rank): floor of a decimal fraction of a non-negative integer
    if isinstance(e, ast.Call) and isinstance(e.func, ast.Name) and e.func.id == "int" and isinstance(e.args[0], ast.BinOp) and isinstance(e.args[0].op, ast.Mult):
        a, b = e.args[0].left, e.args[0].right
        if isinstance(b, ast.Constant):
            a, b = b, a
        if isinstance(a, ast.Constant) and isinstance(a.value, float) and ast.unparse(b) == "rank":
            num = round(a.value * 1000)
            if abs(num / 1000 - a.value) > 1e-12:
                raise TranslationError("fraction not a multiple of 1/1000")
            # validate the integer model of `int(c * rank)` against Python's float arithmetic
            for r in range(0, 20000):
                if int(a.value * r) != (num * r) // 1000:
                    raise TranslationError(f"int({a.value}*rank) differs from floor({num}*rank/1000) at rank={r}")
            return f"(({num} * rank) / 1000)"
    if isinstance(e, ast.Constant) and isinstance(e.value, int):
        return f"({e.value} : Int)"
    raise TranslationError("untranslatable integer term " + s[:60])


@target("useExactDecomposer", "Decide", ["C15", "C17"])
def _p1():
    return _policy("linalg/decomposer.py", "Decomposer.fit", "Decomposer")


@target("useExactSVD", "Decide", ["C15", "C17"])
def _p2():
    return _policy("linalg/_numpy/_svd.py", "_SVD.fit_transform", "SVD")


@target("rankCheckDecomposer", "Decide", ["C17"])
def _rank_check():
    path, qual = "linalg/decomposer.py", "Decomposer.fit"
    src, tree = load(path)
    fn = find_func(tree, qual)
    ifs = [s for s in fn.body if isinstance(s, ast.If) and "n_modes_precompute" in ast.unparse(s.test) and "rank" in ast.unparse(s.test) and raise_of(s.body[0])]
    if len(ifs) != 1:
        raise TranslationError("rank check not found")
    t = ifs[0].test
    if not (isinstance(t, ast.Compare) and len(t.ops) == 1):
        raise TranslationError("unexpected rank test")
    l, r = _int_term(t.left), _int_term(t.comparators[0])
    rel = {ast.Lt: "<", ast.LtE: "≤", ast.Gt: ">", ast.GtE: "≥"}[type(t.ops[0])]
    return (f"/-- {header(path, qual, src, fn)}: `if {ast.unparse(t)}: raise {raise_of(ifs[0].body[0])}` -/\n"
            f"def rankCheckDecomposer (nPre rank : Int) : Py.Res Unit :=\n  if decide ({l} {rel} {r}) then Py.raise .{raise_of(ifs[0].body[0])} else pure ()\n")


# ------------------------------------------------------------------------------------- sign rule
@target("signRuleNumpy", "Decide", ["C15", "C07", "C11"])
def _sign_np():
    path, qual = "linalg/_numpy/_svd.py", "get_deterministic_sign_multiplier"
    src, tree = load(path)
    fn = find_func(tree, qual)
    sym = Sym(fn)
    if "sign_multiplier" not in sym.defs:
        raise TranslationError("sign_multiplier not assigned")
    e = sym.resolve(ast.Name("sign_multiplier"), stop={"max_vals", "min_vals"})
    if not (isinstance(e, ast.Call) and ast.unparse(e.func) == "np.where" and len(e.args) == 3):
        raise TranslationError("expected np.where(cond, a, b)")
    c, a, b = e.args
    mx = ast.unparse(sym.defs.get("max_vals", ast.Name("?")))
    mn = ast.unparse(sym.defs.get("min_vals", ast.Name("?")))
    if not (mx.startswith("np.max(data") and mn.startswith("np.min(data")):
        raise TranslationError("max_vals/min_vals are not np.max/np.min of the data")
    body = f"if {_sign_cond(c)} then {_const_int(a)} else {_const_int(b)}"
    return (f"/-- {header(path, qual, src, fn)}: sign multiplier from the column maximum `mx` and minimum `mn` -/\n"
            f"def signRuleNumpy (mx mn : Int) : Int :=\n  {body}\n"
            "/-- the same rule on IEEE doubles (executed by the driver) -/\n"
            f"def signRuleNumpyF (mx mn : Float) : Float :=\n  {_to_float(body)}\n")


def _to_float(s):
    """re-print an Int-typed sign-rule body over Float (natAbs -> abs, integer literals -> float literals)"""
    import re

    s = s.replace(".natAbs", ".abs")
    s = re.sub(r"\((-?\d+) : Int\)", lambda m: f"({float(m.group(1))} : Float)", s)
    return s


def _const_int(e):
    if isinstance(e, ast.Constant) and isinstance(e.value, int):
        return f"({e.value} : Int)"
    if isinstance(e, ast.UnaryOp) and isinstance(e.op, ast.USub) and isinstance(e.operand, ast.Constant):
        return f"(-{e.operand.value} : Int)"
    raise TranslationError("expected an integer literal, got " + ast.unparse(e))


def _sign_term(e):
    s = ast.unparse(e)
    if s == "max_vals":
        return "mx"
    if s == "min_vals":
        return "mn"
    if s in ("np.abs(max_vals)", "abs(max_vals)"):
        return "mx.natAbs"
    if s in ("np.abs(min_vals)", "abs(min_vals)"):
        return "mn.natAbs"
    if isinstance(e, ast.Constant) and isinstance(e.value, int):
        return f"({e.value} : Int)"
    raise TranslationError("untranslatable term in the sign rule: " + s)


def _sign_cond(e):
    if isinstance(e, ast.BinOp) and isinstance(e.op, (ast.BitOr, ast.BitAnd)):
        op = " || " if isinstance(e.op, ast.BitOr) else " && "
        return "(" + _sign_cond(e.left) + op + _sign_cond(e.right) + ")"
    if isinstance(e, ast.BoolOp):
        op = " || " if isinstance(e.op, ast.Or) else " && "
        return "(" + op.join(_sign_cond(x) for x in e.values) + ")"
    if isinstance(e, ast.UnaryOp) and isinstance(e.op, (ast.Invert, ast.Not)):
        return "(!" + _sign_cond(e.operand) + ")"
    if isinstance(e, ast.Compare) and len(e.ops) == 1:
        l, r = _sign_term(e.left), _sign_term(e.comparators[0])
        rel = {ast.Lt: "<", ast.LtE: "≤", ast.Gt: ">", ast.GtE: "≥"}[type(e.ops[0])]
        return f"(decide ({l} {rel} {r}))"
    raise TranslationError("untranslatable sign condition " + ast.unparse(e)[:80])


@target("signRuleXarray", "Decide", ["C15", "C07", "C11"])
def _sign_xr():
    """idiom: concat([max, min]) with coords sign=[a, b]; abs().idxmax('sign') (first maximum wins a tie); optional
    `.where(data.max(dim) >= 0, c)` for real data"""
    path, qual = "utils/xarray_utils.py", "get_deterministic_sign_multiplier"
    src, tree = load(path)
    fn = find_func(tree, qual)
    txt = [ast.unparse(s) for s in fn.body]
    cat = [s for s in fn.body if isinstance(s, ast.Assign) and "xr.concat" in ast.unparse(s.value)]
    if len(cat) != 1:
        raise TranslationError("concat of max/min not found")
    call = cat[0].value
    elts = [ast.unparse(x) for x in call.args[0].elts]
    order = ["mx" if ".max(" in x else "mn" if ".min(" in x else None for x in elts]
    if None in order or len(order) != 2:
        raise TranslationError("unexpected concat operands " + str(elts))
    coords = [s for s in fn.body if isinstance(s, ast.Assign) and "assign_coords" in ast.unparse(s.value)]
    if len(coords) != 1:
        raise TranslationError("assign_coords(sign=[...]) not found")
    kw = coords[0].value.keywords[0]
    vals = [_const_int(x) for x in kw.value.elts]
    idx = [s for s in fn.body if isinstance(s, ast.Assign) and "idxmax" in ast.unparse(s.value)]
    if len(idx) != 1 or "np.abs(" not in ast.unparse(idx[0].value):
        raise TranslationError("np.abs(...).idxmax not found")
    first, second = order
    base = f"if decide ({first}.natAbs ≥ {second}.natAbs) then {vals[0]} else {vals[1]}"
    # optional refinement for real data
    ref = [s for s in ast.walk(fn) if isinstance(s, ast.Assign) and ".where(" in ast.unparse(s.value) and "sign_multiplier" in ast.unparse(s.targets[0])]
    expr = base
    if ref:
        w = ref[0].value
        cond, other = w.args
        cs = ast.unparse(cond)
        if not (cs.startswith("data.max(dim)") and isinstance(cond, ast.Compare)):
            raise TranslationError("unexpected where-condition " + cs)
        rel = {ast.Lt: "<", ast.LtE: "≤", ast.Gt: ">", ast.GtE: "≥"}[type(cond.ops[0])]
        rhs = _const_int(cond.comparators[0])
        guard = [n for n in ast.walk(fn) if isinstance(n, ast.If) and ref[0] in n.body]
        gtxt = ast.unparse(guard[0].test) if guard else ""
        if guard and gtxt != "not np.iscomplexobj(data)":
            raise TranslationError("unexpected guard on the real-data refinement: " + gtxt)
        expr = f"if decide (mx {rel} {rhs}) then ({base}) else {_const_int(other)}"
    return (f"/-- {header(path, qual, src, fn)}: sign multiplier for REAL data from the column maximum `mx` and minimum `mn` -/\n"
            f"def signRuleXarray (mx mn : Int) : Int :=\n  {expr}\n"
            "/-- the same rule on IEEE doubles (executed by the driver) -/\n"
            f"def signRuleXarrayF (mx mn : Float) : Float :=\n  {_to_float(expr)}\n"
            "/-- COMPLEX data: the refinement is skipped (source guard `not np.iscomplexobj(data)`); the rule compares the moduli of the\n"
            "(lexicographic) column maximum and minimum -/\n"
            f"def signRuleXarrayComplexF (mx mn : Float) : Float :=\n  {_to_float(base)}\n"
            f"def signRuleXarrayHasRealRefinement : Bool := {'true' if ref else 'false'}\n")


# ------------------------------------------------------------------------------------- guards on fitted models
@target("transformLengthGuard", "Decide", ["C17"])
def _len_guard():
    path, qual = "preprocessing/preprocessor.py", "Preprocessor.transform"
    src, tree = load(path)
    fn = find_func(tree, qual)
    ifs = [s for s in fn.body if isinstance(s, ast.If) and "len(X)" in ast.unparse(s.test) and "n_data" in ast.unparse(s.test) and raise_of(s.body[0])]
    if len(ifs) != 1:
        raise TranslationError("item-count check not found")
    c = Cond(ints={"len_X": "lenX", "n_data": "nData"})
    return (f"/-- {header(path, qual, src, fn)}: `if {ast.unparse(ifs[0].test)}: raise {raise_of(ifs[0].body[0])}` -/\n"
            f"def transformLengthGuard (lenX nData : Int) : Py.Res Unit :=\n  if {c.b(ifs[0].test)} then Py.raise .{raise_of(ifs[0].body[0])} else pure ()\n")


@target("whitenerAlphaGuard", "Decide", ["C17"])
def _alpha_guard():
    path, qual = "preprocessing/whitener.py", "Whitener.__init__"
    src, tree = load(path)
    fn = find_func(tree, qual)
    ifs = [s for s in fn.body if isinstance(s, ast.If) and "alpha" in ast.unparse(s.test) and raise_of(s.body[0])]
    if len(ifs) != 1:
        raise TranslationError("alpha check not found")
    t = ifs[0].test
    if not (isinstance(t, ast.Compare) and len(t.ops) == 1 and ast.unparse(t.left) == "alpha"):
        raise TranslationError("unexpected alpha test " + ast.unparse(t))
    c = Cond(var="alpha", vkind="float")
    lhs, rhs = c.unify(("q", "micro"), c.num(t.comparators[0]))
    rel = {ast.Lt: "<", ast.LtE: "≤", ast.Gt: ">", ast.GtE: "≥"}[type(t.ops[0])]
    return (f"/-- {header(path, qual, src, fn)}: `if {ast.unparse(t)}: raise {raise_of(ifs[0].body[0])}` (alpha in micro units) -/\n"
            f"def whitenerAlphaGuard (q : Int) : Py.Res Unit :=\n  if decide ({lhs} {rel} {rhs}) then Py.raise .{raise_of(ifs[0].body[0])} else pure ()\n")


REL_OPS = {ast.Lt: "<", ast.LtE: "≤", ast.Gt: ">", ast.GtE: "≥"}


@target("rotatorModesGuard", "Decide", ["C17"])
def _rot_modes_guard():
    outs = []
    for path, qual, key, suffix in (("single/eof_rotator.py", "EOFRotator._fit_algorithm", "components", "Single"),
                                    ("cross/cpcca_rotator.py", "CPCCARotator._fit_algorithm", "components1", "Cross")):
        src, tree = load(path)
        fn = find_func(tree, qual)
        first = fn.body[0]
        if not (isinstance(first, ast.Assign) and ast.unparse(first.targets[0]) == "n_modes_model"
                and ast.unparse(first.value) == f"model.data['{key}'].sizes['mode']"):
            raise TranslationError(f"{qual}: does not start by reading the model's number of modes")
        guard = fn.body[1]
        if not (isinstance(guard, ast.If) and raise_of(guard.body[0])):
            raise TranslationError(f"{qual}: the mode-count check is not the first thing done (state must not be touched before a refusal)")
        t = guard.test
        if not (isinstance(t, ast.Compare) and len(t.ops) == 1 and type(t.ops[0]) in REL_OPS):
            raise TranslationError(f"{qual}: unexpected test " + ast.unparse(t))
        names = {"self._params['n_modes']": "nModes", "n_modes_model": "nModel"}
        l, r = ast.unparse(t.left), ast.unparse(t.comparators[0])
        if l not in names or r not in names:
            raise TranslationError(f"{qual}: test does not compare the requested with the model's number of modes: " + ast.unparse(t))
        rel = REL_OPS[type(t.ops[0])]
        outs.append(f"/-- {header(path, qual, src, fn)}: `if {ast.unparse(t)}: raise {raise_of(guard.body[0])}`, before any state is written -/\n"
                    f"def rotatorModesGuard{suffix} (nModes nModel : Int) : Py.Res Unit :=\n"
                    f"  if decide ({names[l]} {rel} {names[r]}) then Py.raise .{raise_of(guard.body[0])} else pure ()\n")
    return "\n".join(outs)
