"""translator targets (registered on import)"""
from translator.translate import *  # noqa: F401,F403
from translator.translate import target, load, find_func, header, Sym, TranslationError, REL, int_expr  # noqa: F401
import ast  # noqa: F401

