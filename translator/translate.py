"""Tie A: regenerate `lean/XeofsModel/Generated/*.lean` from /repo's *current* sources (Python `ast`).

Scope: straight-line decision logic and scalar formulas whose exact form matters (comparison operators, N vs N-1,
guards, literals, routing of keyword arguments, reset of state).  Every generated definition records the source
path, line span and a digest of the function text.  A target that cannot be located or translated is reported as
broken (the obligations that depend on it then fail to build and the check runs its failing-input search).
"""
from __future__ import annotations

import ast
import hashlib
import os
import sys
import traceback

VERIF = os.path.dirname(os.path.dirname(os.path.abspath(__file__)))
GEN_DIR = os.path.join(VERIF, "lean", "XeofsModel", "Generated")
REPO = os.environ.get("XEOFS_REPO", "/repo")
SRC = os.path.join(REPO, "xeofs")


class TranslationError(Exception):
    pass


# ----------------------------------------------------------------------------------------------------- helpers
_cache = {}


def load(path):
    full = os.path.join(SRC, path)
    if full not in _cache:
        src = open(full, encoding="utf-8").read()
        _cache[full] = (src, ast.parse(src))
    return _cache[full]


def find_func(tree, qual):
    node = tree
    for p in qual.split("."):
        cands = [n for n in ast.iter_child_nodes(node) if isinstance(n, (ast.FunctionDef, ast.ClassDef)) and n.name == p]
        if not cands:
            raise TranslationError(f"cannot find `{qual}` (missing `{p}`)")
        node = cands[0]
    return node


def digest(src, fn):
    seg = ast.get_source_segment(src, fn) or ""
    return hashlib.sha256(seg.encode()).hexdigest()[:12]


def header(path, qual, src, fn):
    return f"generated from xeofs/{path} `{qual}` (lines {fn.lineno}-{fn.end_lineno}, sha {digest(src, fn)})"


class Sym:
    """straight-line symbolic evaluation of local assignments (first definition reaching the use)"""

    def __init__(self, fn):
        self.defs = {}
        for n in ast.walk(fn):
            if isinstance(n, ast.Assign) and len(n.targets) == 1 and isinstance(n.targets[0], ast.Name):
                self.defs.setdefault(n.targets[0].id, n.value)

    def resolve(self, e, stop=()):
        outer = self

        class T(ast.NodeTransformer):
            def __init__(s):
                s.depth = 0

            def visit_Name(s, node):
                if node.id in stop or node.id not in outer.defs:
                    return node
                s.depth += 1
                if s.depth > 50:
                    raise TranslationError("cyclic local definitions")
                r = s.visit(ast.parse(ast.unparse(outer.defs[node.id]), mode="eval").body)
                s.depth -= 1
                return r

        return T().visit(ast.parse(ast.unparse(e), mode="eval").body)


REL = {ast.GtE: "≥", ast.Gt: ">", ast.LtE: "≤", ast.Lt: "<", ast.Eq: "=", ast.NotEq: "≠"}


def int_expr(e, env):
    """integer-valued counting expressions over `List Int` and `Int`"""
    if isinstance(e, ast.BinOp) and type(e.op) in (ast.Add, ast.Sub, ast.Mult):
        op = {ast.Add: "+", ast.Sub: "-", ast.Mult: "*"}[type(e.op)]
        return f"({int_expr(e.left, env)} {op} {int_expr(e.right, env)})"
    if isinstance(e, ast.UnaryOp) and isinstance(e.op, ast.USub):
        return f"(-{int_expr(e.operand, env)})"
    if isinstance(e, ast.Constant) and isinstance(e.value, int) and not isinstance(e.value, bool):
        return f"({e.value} : Int)"
    if isinstance(e, ast.Attribute) and isinstance(e.value, ast.Name) and e.value.id == "self" and e.attr in env:
        return env[e.attr]
    if isinstance(e, ast.Name) and e.id in env:
        return env[e.id]
    # (A >= b).sum(...)  ->  number of entries of A satisfying the relation
    if (
        isinstance(e, ast.Call)
        and isinstance(e.func, ast.Attribute)
        and e.func.attr == "sum"
        and isinstance(e.func.value, ast.Compare)
        and len(e.func.value.ops) == 1
    ):
        c = e.func.value
        rel = REL[type(c.ops[0])]
        return f"((({int_expr(c.left, env)}).countP (fun c => decide (c {rel} {int_expr(c.comparators[0], env)})) : Nat) : Int)"
    # int(x) of an integer expression
    if isinstance(e, ast.Call) and isinstance(e.func, ast.Name) and e.func.id == "int" and len(e.args) == 1:
        return int_expr(e.args[0], env)
    raise TranslationError("untranslatable integer expression: " + ast.unparse(e)[:120])


# ----------------------------------------------------------------------------------------------------- targets
TARGETS = []  # (name, file, props, fn)
FILE_IMPORTS = {"Decide": ["XeofsModel.Py"], "Facts": [], "Codec": [], "Formulas": ["XeofsModel.Num"]}


def target(name, file, props):
    def deco(f):
        TARGETS.append((name, file, props, f))
        return f

    return deco


def _threshold_block(path, qual, suffix):
    src, tree = load(path)
    fn = find_func(tree, qual)
    sym = Sym(fn)
    env = {"n_modes_precompute": "k", "n_modes": "f", "cum_expvar": "cum"}
    if "n_modes_required" not in sym.defs:
        raise TranslationError("no assignment to n_modes_required")
    req = sym.resolve(ast.Name("n_modes_required"), stop={"cum_expvar"})
    clips = [
        n
        for n in ast.walk(fn)
        if isinstance(n, ast.If) and "n_modes_required" in ast.unparse(n.test) and "n_modes_precompute" in ast.unparse(n.test)
    ]
    if not clips:
        raise TranslationError("clip `if n_modes_required > n_modes_precompute` not found")
    clip = clips[0]
    if not (isinstance(clip.test, ast.Compare) and len(clip.test.ops) == 1 and type(clip.test.ops[0]) in REL):
        raise TranslationError("unexpected clip test " + ast.unparse(clip.test))
    lhs, rhs = ast.unparse(clip.test.left), ast.unparse(clip.test.comparators[0])
    crel = REL[type(clip.test.ops[0])]
    if "n_modes_required" in rhs:  # written the other way round
        flip = {"≥": "≤", ">": "<", "≤": "≥", "<": ">", "=": "=", "≠": "≠"}
        crel = flip[crel]
    clip_vals = [s.value for s in clip.body if isinstance(s, ast.Assign) and ast.unparse(s.targets[0]) == "n_modes_required"]
    if not clip_vals:
        raise TranslationError("clip does not assign n_modes_required")
    warns = any(isinstance(s, ast.Expr) and "warn" in ast.unparse(s) for s in clip.body)
    return f"""/-- {header(path, qual, src, fn)} -/
def nModesRequiredRaw{suffix} (k : Int) (cum : List Int) (f : Int) : Int :=
  {int_expr(req, env)}
/-- … followed by the clip `if n_modes_required {crel} n_modes_precompute` (warns = {str(warns).lower()}) -/
def nModesRequired{suffix} (k : Int) (cum : List Int) (f : Int) : Int × Bool :=
  let r := nModesRequiredRaw{suffix} k cum f
  if r {crel} k then ({int_expr(clip_vals[0], env)}, {str(warns).lower()}) else (r, false)
"""


@target("thresholdDecomposer", "Threshold", ["C15"])
def _t1():
    return _threshold_block("linalg/decomposer.py", "Decomposer.fit", "Decomposer")


@target("thresholdSVD", "Threshold", ["C15"])
def _t2():
    return _threshold_block("linalg/_numpy/_svd.py", "_SVD.fit_transform", "SVD")


# ----------------------------------------------------------------------------------------------------- driver
def generate_all(log=print, out_dir=None):
    # targets register themselves on import of the sibling modules
    from translator import targets_decide, targets_formulas, targets_static  # noqa: F401

    _cache.clear()
    out_dir = out_dir or GEN_DIR
    os.makedirs(out_dir, exist_ok=True)
    files = {}
    report = {"targets": [], "changed_files": []}
    for name, file, props, f in TARGETS:
        entry = {"name": name, "file": file, "props": props}
        try:
            text = f()
            entry["status"] = "ok"
            entry["sha"] = hashlib.sha256(text.encode()).hexdigest()[:12]
        except Exception as e:  # noqa: BLE001
            text = f"-- TRANSLATION FAILED for {name}: {type(e).__name__}: {str(e)[:200]}\n"
            entry["status"] = "broken"
            entry["error"] = f"{type(e).__name__}: {e}\n" + traceback.format_exc()[-1500:]
        files.setdefault(file, []).append(text)
        report["targets"].append(entry)
    for file, parts in files.items():
        imports = "".join(f"import {m}\n" for m in FILE_IMPORTS.get(file, []))
        body = imports + "-- AUTOGENERATED by /verif/translator from /repo; do not edit, never committed\nnamespace Gen\n\n"
        body += "\n".join(parts) + "\nend Gen\n"
        p = os.path.join(out_dir, file + ".lean")
        old = open(p, encoding="utf-8").read() if os.path.exists(p) else None
        if old != body:
            with open(p, "w", encoding="utf-8") as fh:
                fh.write(body)
            report["changed_files"].append(file)
    # drift against the committed reference copy (informational)
    ref_dir = os.path.join(VERIF, "lean", "Generated.ref")
    drift = []
    for file in files:
        rp = os.path.join(ref_dir, file + ".lean")
        gp = os.path.join(out_dir, file + ".lean")
        if os.path.exists(rp) and open(rp).read() != open(gp).read():
            drift.append(file)
    report["drift_vs_reference"] = drift
    return report


if __name__ == "__main__":
    sys.path.insert(0, VERIF)
    import json
    from translator import translate as _T

    print(json.dumps(_T.generate_all(), indent=1))
